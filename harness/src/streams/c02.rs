//! C02 — decoding arbitrary bytes never panics and reaches a fixed point. Mutated valid encodings
//! (discriminants, length prefixes, policy bits, padding bytes, truncations, extensions, huge counts) and
//! raw random strings are decoded by the real `Deserialize::decode` under `catch_unwind`; the Lean driver
//! (`Drv/C02.lean`) decodes the same bytes with the model (value, bytes consumed, error constructor).
//! Oracle on the implementation: no panic; on success `size()` = bytes consumed and
//! decode(encode(v)) = v consuming everything.
#[path = "../codec/mod.rs"]
mod codec;
use crate::ctx::{Ctx, Rng};
use codec::*;
use fuel_tx::{policies::Policies, Input, Output, Receipt, StorageSlot, Transaction, TxPointer, UpgradePurpose, UtxoId, Witness};
use fuel_types::canonical::{Serialize, VEC_DECODE_LIMIT};

/// u64 values to overwrite an aligned word with. Counts between 2^16 and the limit are left out of the
/// random pool on purpose: `Vec::<Input>::with_capacity(n)` reserves `184 * n` bytes before reading
/// anything (DESIGN §6 F10), which is an allocation, not a panic; the limit itself is probed on `Vec<u8>`.
fn word_value(r: &mut Rng) -> u64 {
    match r.below(8) {
        0 => r.below(8),
        1 => r.below(64),
        2 => *r.pick(&[255u64, 256, 1 << 16, (1 << 16) - 1]),
        3 => *r.pick(&[VEC_DECODE_LIMIT as u64 + 1, 1 << 32, (1 << 32) - 1, (1 << 32) + 1, 1 << 63, u64::MAX, u64::MAX - 1]),
        4 => r.below(1 << 12),
        5 => r.next() | (1 << 40),
        6 => 1u64 << r.below(17),
        _ => r.below(16),
    }
}

fn mutate(r: &mut Rng, valid: &[u8]) -> (Vec<u8>, &'static str) {
    let mut b = valid.to_vec();
    let words = b.len() / 8;
    let pick_word = |r: &mut Rng| -> usize { if words == 0 { 0 } else if r.chance(1, 2) { r.below(words.min(24) as u64) as usize } else { r.below(words as u64) as usize } };
    match r.below(10) {
        0 if words > 0 => { let v = match r.below(3) { 0 => r.below(10), 1 => word_value(r), _ => (r.below(7)) | (1 << (8 * (1 + r.below(7)))) }; b[..8].copy_from_slice(&v.to_be_bytes()); (b, "discriminant") }
        1 | 2 if words > 0 => { let w = pick_word(r); let v = word_value(r); b[8 * w..8 * w + 8].copy_from_slice(&v.to_be_bytes()); (b, "word") }
        3 if words > 0 => { let w = pick_word(r); let k = r.below(7) as usize; b[8 * w + k] = 1 + r.below(255) as u8; (b, "high-byte") }
        4 if !b.is_empty() => { let k = r.below(b.len() as u64) as usize; b[k] ^= 1 << r.below(8); (b, "bitflip") }
        5 => { let k = r.below(b.len() as u64 + 1) as usize; b.truncate(k); (b, "truncate") }
        6 => { let k = (r.below(words as u64 + 1) * 8) as usize; b.truncate(k); (b, "truncate-word") }
        7 => { let n = 1 + r.below(24) as usize; b.extend(r.bytes(n)); (b, "extend") }
        8 if words > 1 => { let (x, y) = (pick_word(r), pick_word(r)); for k in 0..8 { b.swap(8 * x + k, 8 * y + k); } (b, "swap-words") }
        _ => { let n = 1 + r.below(3); for _ in 0..n { if words > 0 { let w = pick_word(r); let v = word_value(r); b[8 * w..8 * w + 8].copy_from_slice(&v.to_be_bytes()); } } (b, "multi-word") }
    }
}

fn fuzz<T: Codec>(ctx: &mut Ctx, tag: &str, valid: &[u8], n: u64) {
    for _ in 0..n {
        let (m, how) = mutate(&mut ctx.rng, valid);
        ctx.distinct(&m);
        decode_arbitrary::<T>(ctx, tag, &m, how);
    }
}

pub fn run(ctx: &mut Ctx) {
    // 0. corpus: boundary byte strings for every decoder
    let corpus: Vec<Vec<u8>> = vec![vec![], vec![0], vec![0; 7], vec![0; 8], vec![0xff; 8], vec![0; 16], vec![0; 64], vec![0xff; 64], vec![0; 400],
        { let mut v = 2u64.to_be_bytes().to_vec(); v.extend(vec![0; 200]); v }, { let mut v = 1u64.to_be_bytes().to_vec(); v.extend(vec![0; 200]); v }];
    for c in &corpus {
        decode_arbitrary::<Transaction>(ctx, "tx", c, "corpus");
        decode_arbitrary::<Input>(ctx, "input", c, "corpus");
        decode_arbitrary::<Output>(ctx, "output", c, "corpus");
        decode_arbitrary::<Receipt>(ctx, "receipt", c, "corpus");
        decode_arbitrary::<Policies>(ctx, "policies", c, "corpus");
        decode_arbitrary::<Witness>(ctx, "witness", c, "corpus");
        decode_arbitrary::<UtxoId>(ctx, "utxoid", c, "corpus");
        decode_arbitrary::<TxPointer>(ctx, "txpointer", c, "corpus");
    }
    // length word exactly at / just above the limit on a `Vec<u8>` (allocates 100 MiB of zero pages at most)
    for n in [VEC_DECODE_LIMIT as u64, VEC_DECODE_LIMIT as u64 + 1, VEC_DECODE_LIMIT as u64 - 1] {
        let mut v = n.to_be_bytes().to_vec(); v.extend([1, 2, 3, 4, 5, 6, 7, 8]);
        decode_arbitrary::<Witness>(ctx, "witness", &v, "limit");
    }
    // F10: count word = limit on Vec<Input> / Vec<Output> / Vec<Witness>, in a child process (see c02alloc.rs)
    {
        let dir = std::env::temp_dir().join(format!("fv-c02alloc-{}-{}", std::process::id(), ctx.seed));
        let t0 = std::time::Instant::now();
        let st = std::env::current_exe().ok().and_then(|exe| std::process::Command::new(exe).arg("c02alloc").arg("--out").arg(&dir).status().ok());
        match st {
            Some(s) if s.success() => {
                let ops = std::fs::read_to_string(dir.join("ops.txt")).unwrap_or_default();
                let imp = std::fs::read_to_string(dir.join("impl.txt")).unwrap_or_default();
                for (o, i) in ops.lines().zip(imp.lines()) { ctx.emit(o, i); ctx.count("alloc-probe.survived"); }
                let failed = std::fs::read_to_string(dir.join("oracle.jsonl")).unwrap_or_default();
                for l in failed.lines().filter(|l| !l.trim().is_empty()) { ctx.oracle_fail("alloc-probe-oracle", l, "oracle failure inside the allocation probe (child process)"); }
                ctx.note(&format!("alloc-probe: count word = VEC_DECODE_LIMIT for inputs/outputs/witnesses decoded in a child process in {} ms (reserves up to 19 GB of address space before reading an element)", t0.elapsed().as_millis()));
            }
            other => {
                ctx.count("alloc-probe.child-died");
                ctx.note(&format!("alloc-probe: child process did not survive ({other:?}): allocation of VEC_DECODE_LIMIT elements refused by the allocator = abort, not a panic; outside the model (DESIGN F10)"));
            }
        }
        let _ = std::fs::remove_dir_all(&dir);
    }
    // every policy bit pattern of the low byte, with 6 words of values behind it
    for bits in 0u64..256 {
        let mut v = bits.to_be_bytes().to_vec();
        for k in 0..6u64 { v.extend((if bits & 1 == 1 && k == 2 { u32::MAX as u64 + (bits >> 7) } else { k + 1 }).to_be_bytes()); }
        decode_arbitrary::<Policies>(ctx, "policies", &v, "policy-bits");
    }
    // 1. mutated valid encodings
    for kind in 0..6usize {
        for _ in 0..ctx.n(60, 3000) {
            let mask = ctx.rng.below(64) as u32;
            let tx = tx_of(&mut ctx.rng, kind, mask);
            let bytes = tx.to_bytes();
            fuzz::<Transaction>(ctx, "tx", &bytes, 8);
            match &tx {
                Transaction::Script(_) => fuzz::<fuel_tx::Script>(ctx, "script", &bytes, 1),
                Transaction::Create(_) => fuzz::<fuel_tx::Create>(ctx, "create", &bytes, 1),
                Transaction::Mint(_) => fuzz::<fuel_tx::Mint>(ctx, "mint", &bytes, 1),
                Transaction::Upgrade(_) => fuzz::<fuel_tx::Upgrade>(ctx, "upgrade", &bytes, 1),
                Transaction::Upload(_) => fuzz::<fuel_tx::Upload>(ctx, "upload", &bytes, 1),
                Transaction::Blob(_) => fuzz::<fuel_tx::Blob>(ctx, "blob", &bytes, 1),
            }
        }
    }
    for kind in 0..7usize {
        for _ in 0..ctx.n(60, 3000) {
            // ill-formed shapes included: they are valid byte strings for the decoder
            let (p, d, x) = (len(&mut ctx.rng), len(&mut ctx.rng), len(&mut ctx.rng));
            let i = input_of(&mut ctx.rng, kind, p, d, x);
            let bytes = i.to_bytes();
            decode_arbitrary::<Input>(ctx, "input", &bytes, "valid");
            fuzz::<Input>(ctx, "input", &bytes, 8);
        }
    }
    for kind in 0..5usize {
        for _ in 0..ctx.n(30, 1500) { let o = output_of(&mut ctx.rng, kind); fuzz::<Output>(ctx, "output", &o.to_bytes(), 6); }
    }
    for kind in 0..13usize {
        for _ in 0..ctx.n(30, 1500) { let r = receipt_of(&mut ctx.rng, kind); fuzz::<Receipt>(ctx, "receipt", &r.to_bytes(), 6); }
    }
    for _ in 0..ctx.n(100, 5000) {
        let mask = ctx.rng.below(64) as u32;
        let p = policies(&mut ctx.rng, mask); fuzz::<Policies>(ctx, "policies", &p.to_bytes(), 4);
        let w = witness(&mut ctx.rng); fuzz::<Witness>(ctx, "witness", &w.to_bytes(), 3);
        let s = StorageSlot::new(b32(&mut ctx.rng).into(), b32(&mut ctx.rng).into()); fuzz::<StorageSlot>(ctx, "storageslot", &s.to_bytes(), 1);
        let u = utxo(&mut ctx.rng); fuzz::<UtxoId>(ctx, "utxoid", &u.to_bytes(), 1);
        let t = txptr(&mut ctx.rng); fuzz::<TxPointer>(ctx, "txpointer", &t.to_bytes(), 1);
        let k = ctx.rng.below(2) as usize;
        let up = purpose(&mut ctx.rng, k); fuzz::<UpgradePurpose>(ctx, "upgradepurpose", &up.to_bytes(), 2);
    }
    // 2. raw random byte strings (short: the interesting decisions are in the first words)
    for _ in 0..ctx.n(300, 20000) {
        let n = ctx.rng.below(96) as usize;
        let mut b = ctx.rng.bytes(n);
        if n >= 8 && ctx.rng.chance(3, 4) { let d = ctx.rng.below(14); b[..8].copy_from_slice(&d.to_be_bytes()); }
        ctx.distinct(&b);
        match ctx.rng.below(4) {
            0 => decode_arbitrary::<Transaction>(ctx, "tx", &b, "random"),
            1 => decode_arbitrary::<Input>(ctx, "input", &b, "random"),
            2 => decode_arbitrary::<Output>(ctx, "output", &b, "random"),
            _ => decode_arbitrary::<Receipt>(ctx, "receipt", &b, "random"),
        }
    }
    ctx.note("non-trivial = distinct mutated / random byte string handed to a decoder");
}
