//! C28 — outcome / receipts: runs generated programs (gas exhaustion, reverts inside nested calls, panics at
//! arbitrary instructions) and receipt-limit stress programs (LOG loops around the 65,535 boundary, in the script
//! and inside a call, ended by RET / RETD / RVRT / a fault / more LOGs) through the REAL `MemoryClient::transact`.
//! The receipt list is turned into instruction events (what each instruction pushed / tried to push); the Lean
//! `run_program` model replays them with SHA-256 and must reproduce result, receipt kinds, count, receipts root and
//! the client's commit/revert decision.
//! Oracle (independent of the model): exactly one ScriptResult and it is last; Panic receipt iff panic and directly
//! before it; result vs. last program receipt; receipts_root == an independent RFC-6962 MTH (sha2) of the encoded
//! receipts; count <= 65,535; on revert/panic variable outputs zero, change = initial (+refund), and the client's
//! contract storage (state, balances, code) is unchanged; on success it equals the VM's final state.
//! Transactions also run as SEQUENCES on one reused `MemoryClient` (a run that aborts inside a nested call by revert,
//! panic or out of gas, then top-level RET / RETD / RVRT programs; success-then-anything; random follow-ups): every
//! transaction of a sequence gets the same oracle, must produce byte-identical receipts on a fresh client started from
//! the same storage, and a top-level Return receipt must mean success.
#[path = "../gen/vmgen.rs"]
mod vmgen;
#[path = "../gen/gas_gen.rs"]
mod gas_gen;
use crate::{ctx::Ctx, util::hex};
use fuel_asm::{op, Opcode, PanicReason, RegId};
use fuel_tx::{field::{Outputs, ReceiptsRoot}, Chargeable, ContractIdExt, GasCostsValues, Output, Receipt, Script};
use fuel_types::{canonical::Serialize, AssetId, ContractId};
use fuel_vm::{
    interpreter::{InterpreterParams, MemoryInstance},
    prelude::{MemoryClient, MemoryStorage},
    storage::ContractsAssetsStorage,
};
use sha2::{Digest, Sha256};
use vmgen::*;

fn kind(r: &Receipt) -> &'static str {
    match r {
        Receipt::Call { .. } => "call", Receipt::Return { .. } => "ret", Receipt::ReturnData { .. } => "retd", Receipt::Panic { .. } => "panic",
        Receipt::Revert { .. } => "revert", Receipt::Log { .. } => "log", Receipt::LogData { .. } => "logd", Receipt::Transfer { .. } => "transfer",
        Receipt::TransferOut { .. } => "transferOut", Receipt::ScriptResult { .. } => "scriptResult", Receipt::MessageOut { .. } => "messageOut",
        Receipt::Mint { .. } => "mint", Receipt::Burn { .. } => "burn",
    }
}

/// RFC 6962 Merkle tree hash, written from the RFC (independent of fuel-merkle)
fn mth(leaves: &[Vec<u8>]) -> [u8; 32] {
    match leaves.len() {
        0 => Sha256::digest([]).into(),
        1 => { let mut h = Sha256::new(); h.update([0u8]); h.update(&leaves[0]); h.finalize().into() }
        n => {
            let mut k = 1; while k * 2 < n { k *= 2; }
            let (l, r) = (mth(&leaves[..k]), mth(&leaves[k..]));
            let mut h = Sha256::new(); h.update([1u8]); h.update(l); h.update(r); h.finalize().into()
        }
    }
}

fn rle(kinds: &[&str]) -> String {
    let mut out: Vec<String> = vec![]; let mut i = 0;
    while i < kinds.len() { let mut j = i; while j < kinds.len() && kinds[j] == kinds[i] { j += 1; } out.push(if j - i > 1 { format!("{}*{}", kinds[i], j - i) } else { kinds[i].to_string() }); i = j; }
    out.join(",")
}

fn storage_digest(st: &MemoryStorage, scn: &Scn, watch: &[AssetId]) -> String {
    let mut s = String::new();
    for (k, v) in st.all_contract_state() { s.push_str(&hex(k.as_ref())); s.push('='); s.push_str(&hex(v.as_ref())); s.push(';'); }
    for c in 0..4 { let id = contract_id(c); for a in watch { if let Ok(Some(v)) = st.contract_asset_id_balance(&id, a) { s.push_str(&format!("{c}/{}={v};", hex(&a.as_ref()[..4]))); } } }
    for c in &scn.contracts { use fuel_vm::prelude::InterpreterStorage; s.push_str(&format!("code{}={};", hex(&c.id.as_ref()[..2]), st.storage_contract_size(&c.id).ok().flatten().unwrap_or(0))); }
    s
}

type Client = MemoryClient<MemoryInstance>;

fn new_client(scn: &Scn, storage: MemoryStorage) -> Client {
    MemoryClient::new(MemoryInstance::new(), storage, InterpreterParams::new(scn.gas_price, &scn.params))
}

/// one transaction on a fresh client
fn run_case(ctx: &mut Ctx, scn: &Scn, tag: &str, with_root: bool) {
    let built = match build(scn) { Ok(b) => b, Err(e) => { ctx.count(&format!("invalid-tx.{}", e.split(|c: char| !c.is_alphanumeric()).filter(|w| !w.is_empty()).take(2).collect::<Vec<_>>().join("-"))); return; } };
    let mut client = new_client(scn, built.storage.clone());
    run_on(ctx, &mut client, scn, built, tag, with_root, true);
}

/// transactions one after the other on ONE client (the first on a fresh one); all must share the consensus parameters
fn run_sequence(ctx: &mut Ctx, scns: &[Scn], tag: &str) {
    let mut client: Option<Client> = None;
    for (i, scn) in scns.iter().enumerate() {
        let built = match build(scn) { Ok(b) => b, Err(_) => { ctx.count("invalid-tx.in-sequence"); continue; } };
        let fresh = client.is_none();
        let c = client.get_or_insert_with(|| new_client(scn, built.storage.clone()));
        run_on(ctx, c, scn, built, &format!("{tag} tx={i}/{}", scns.len()), true, fresh);
        if !fresh { ctx.count("seq.tx-on-reused-client"); }
    }
    ctx.count("seq.sequences");
}

/// `fresh`: the client has not executed a transaction yet; otherwise it is reused and the same transaction is also run on a
/// fresh client over a copy of the reused client's storage, to be compared
fn run_on(ctx: &mut Ctx, client: &mut Client, scn: &Scn, built: Built, tag: &str, with_root: bool, fresh: bool) {
    let base = *scn.params.base_asset_id();
    let mut watch: Vec<AssetId> = (0..4).map(|i| asset(i, &base)).collect();
    for c in 0..3 { for s in 0..2 { watch.push(contract_id(c).asset_id(&sub_id(s))); } }
    let start: MemoryStorage = { let st: &MemoryStorage = (*client).as_ref(); st.clone() };
    let before = storage_digest(&start, scn, &watch);
    // reference run on a bare interpreter (no client): what the VM itself left in its storage
    let mut vm = new_vm(scn, start.clone());
    let vm_after = match ctx.guard(|| vm.transact(built.ready).map(|_| ()).map_err(|e| format!("{e:?}"))) {
        Ok(Ok(())) => storage_digest(vm.as_ref(), scn, &watch),
        Ok(Err(e)) => { ctx.oracle_fail(&format!("vm-error-{}", e.split(|c: char| !c.is_alphanumeric()).next().unwrap_or("x")), tag, &e.chars().take(160).collect::<String>()); return; }
        Err(m) => { ctx.oracle_fail("panic-vm-run", tag, &m); return; }
    };
    let initial = vm.initial_balances().clone();
    let checked = built.checked_again;
    let fresh_receipts: Option<Vec<Receipt>> = if fresh { None } else {
        let mut fc = new_client(scn, start.clone());
        let ch = checked.clone();
        ctx.guard(|| fc.transact(ch).to_vec()).ok()
    };
    let receipts: Vec<Receipt> = match ctx.guard(|| client.transact(checked).to_vec()) { Ok(r) => r, Err(m) => { ctx.oracle_fail("panic-client-transact", tag, &m); return; } };
    let Some(st) = client.state_transition() else { ctx.oracle_fail("client-no-state-transition", tag, ""); return; };
    let tx: Script = st.tx().clone();
    let should_revert = st.should_revert();
    let after = storage_digest((*client).as_ref(), scn, &watch);
    let n = receipts.len();
    let kinds: Vec<&str> = receipts.iter().map(kind).collect();
    let encs: Vec<Vec<u8>> = receipts.iter().map(|r| r.to_bytes()).collect();
    // ---- events for the model ----
    if fresh { ctx.emit("client", "."); }
    ctx.emit("begin", ".");
    let sr_pos = kinds.iter().position(|k| *k == "scriptResult");
    let has_panic = n >= 2 && kinds[n - 2] == "panic";
    let body_end = n.saturating_sub(if has_panic { 2 } else { 1 });
    let enc_field = |i: usize| if with_root { hex(&encs[i]) } else { "-".to_string() };
    for i in 0..body_end {
        let e = match kinds[i] { "call" => "call", "ret" | "retd" => "ret", "revert" => "rvrt", _ => "emit" };
        ctx.emit(&format!("ev {e} {} {}", kinds[i], enc_field(i)), ".");
    }
    let mut panic_reason = None;
    if has_panic {
        if let Receipt::Panic { reason, .. } = &receipts[n - 2] {
            panic_reason = Some(*reason.reason());
            if *reason.reason() == PanicReason::TooManyReceipts {
                // the instruction whose receipt push was refused
                let opc = Opcode::try_from((*reason.instruction() >> 24) as u8).ok();
                let (e, k) = match opc { Some(Opcode::CALL) => ("call", "call"), Some(Opcode::RET) => ("ret", "ret"), Some(Opcode::RETD) => ("ret", "retd"), Some(Opcode::RVRT) => ("rvrt", "revert"),
                    Some(Opcode::LOG) => ("emit", "log"), Some(Opcode::LOGD) => ("emit", "logd"), Some(Opcode::TR) => ("emit", "transfer"), Some(Opcode::TRO) => ("emit", "transferOut"),
                    Some(Opcode::MINT) => ("emit", "mint"), Some(Opcode::BURN) => ("emit", "burn"), Some(Opcode::SMO) => ("emit", "messageOut"), _ => ("emit", "log") };
                ctx.emit(&format!("ev {e} {k} !"), ".");
                ctx.count("event.refused-push");
            } else {
                ctx.emit(&format!("ev fault panic {}", enc_field(n - 2)), ".");
            }
        }
    }
    let root = *tx.receipts_root();
    let result = script_result(&receipts).map(|r| r.0).unwrap_or(99);
    let fin = match result { 0 => "success", 1 => "revert", 2 => "panic", _ => "other" };
    ctx.emit(&format!("end {} {}", if n > 0 { enc_field(n - 1) } else { "-".into() }, if has_panic { enc_field(n - 2) } else { "-".into() }),
        &format!("fin={fin} n={n} kinds={} root={} revert={}", rle(&kinds), if with_root { hex(root.as_ref()) } else { "-".into() }, should_revert as u8));
    // ---- oracle on the implementation ----
    let inp = format!("{tag} n={n} kinds={}", rle(&kinds));
    if kinds.iter().filter(|k| **k == "scriptResult").count() != 1 || sr_pos != Some(n.wrapping_sub(1)) { ctx.oracle_fail("script-result-not-exactly-one-last", &inp, ""); }
    let n_panic = kinds.iter().filter(|k| **k == "panic").count();
    if (result == 2) != has_panic || n_panic != has_panic as usize { ctx.oracle_fail("panic-receipt-iff-panic-result", &inp, &format!("result {result} has_panic {has_panic} panic receipts {n_panic}")); }
    if n > 65535 { ctx.oracle_fail("too-many-receipts", &inp, ""); }
    // result vs what the program did: depth tracking over Call / Return receipts
    let mut depth = 0i64; let mut top_ret = false; let mut reverted = false;
    for k in &kinds[..body_end] { match *k { "call" => depth += 1, "ret" | "retd" => { if depth == 0 { top_ret = true; } else { depth -= 1; } } "revert" => reverted = true, _ => {} } }
    let exp = if has_panic { 2 } else if reverted { 1 } else if top_ret { 0 } else { 98 };
    if exp != result { ctx.oracle_fail("result-kind", &inp, &format!("expected {exp} got {result}")); }
    // success iff the top-level program returned: a Return receipt at call depth 0 ends the script with success
    if top_ret && (result != 0 || !(kinds[body_end - 1] == "ret" || kinds[body_end - 1] == "retd") || has_panic) { ctx.oracle_fail("top-level-return-not-success", &inp, &format!("a top-level Return/ReturnData receipt is followed by more execution; result {result}")); }
    if let Some(fr) = &fresh_receipts {
        let fe: Vec<Vec<u8>> = fr.iter().map(|r| r.to_bytes()).collect();
        if fe != encs { ctx.oracle_fail("reused-client-differs-from-fresh", &inp, &format!("fresh client: n={} kinds={}", fr.len(), rle(&fr.iter().map(kind).collect::<Vec<_>>()))); }
        ctx.count("oracle.reused-vs-fresh-compared");
    }
    if top_ret && body_end > 0 && !(kinds[body_end - 1] == "ret" || kinds[body_end - 1] == "retd") && !has_panic && !reverted { ctx.oracle_fail("result-kind", &inp, "top-level return is not the last program receipt"); }
    if reverted && kinds[..body_end].iter().position(|k| *k == "revert") != Some(body_end - 1) { ctx.oracle_fail("result-kind", &inp, "revert receipt is not the last program receipt"); }
    let my_root = mth(&encs);
    if my_root != *root { ctx.oracle_fail("receipts-root-differs-from-mth", &inp, &format!("tx {} mth {}", hex(root.as_ref()), hex(&my_root))); }
    if should_revert != (result != 0) { ctx.oracle_fail("should-revert-vs-result", &inp, &format!("should_revert {should_revert} result {result}")); }
    if result != 0 {
        if after != before { ctx.oracle_fail("client-storage-changed-on-revert", &inp, &format!("before {} after {}", &before.chars().take(200).collect::<String>(), &after.chars().take(200).collect::<String>())); }
        let gas_used = script_result(&receipts).map(|r| r.1).unwrap_or(0);
        let refund = tx.refund_fee(scn.params.gas_costs(), scn.params.fee_params(), gas_used, scn.gas_price).unwrap_or(0);
        for o in tx.outputs() { match o {
            Output::Variable { amount, .. } if *amount != 0 => ctx.oracle_fail("revert-variable-output-nonzero", &inp, &format!("{amount}")),
            Output::Change { asset_id, amount, .. } => {
                let init = initial.non_retryable.get(asset_id).copied().unwrap_or(0) as u128 + if *asset_id == base { refund as u128 } else { 0 };
                if init != *amount as u128 { ctx.oracle_fail("revert-change-not-initial", &inp, &format!("asset {} change {amount} initial(+refund) {init}", hex(&asset_id.as_ref()[..4]))); }
            }
            _ => {} } }
        ctx.count("oracle.revert-outputs-checked");
    } else if after != vm_after { ctx.oracle_fail("client-storage-not-committed-on-success", &inp, ""); }
    ctx.count(&format!("result.{fin}"));
    if let Some(p) = panic_reason { ctx.count(&format!("panic.{p:?}")); }
    if depth > 0 && result != 0 { ctx.count("failed-inside-call"); }
    if n >= 65000 { ctx.count(&format!("stress.n={n}")); }
    if after != before { ctx.count("storage-changed"); }
    let mut key = rle(&kinds).into_bytes(); key.extend_from_slice(fin.as_bytes()); ctx.distinct(&key);
    for kd in &scn.kinds { ctx.count(&format!("gen.{kd}")); }
}

/// LOG loop of `n` iterations (script, or contract 0 called by the script), then an ending
fn stress(rng: &mut crate::ctx::Rng, n_logs: u32, ending: u64, in_call: bool) -> Scn {
    let mut scn = gen_scenario(rng, Focus::Outcome, GasCostsValues::unit());
    let base = *scn.params.base_asset_id();
    let mut body = vec![op::movi(RP, 0), op::add(RP, RP, RegId::IS), op::movi(0x10, n_logs)];
    body.push(op::log(0x10, RegId::ZERO, RegId::ZERO, RegId::ZERO));
    body.push(op::subi(0x10, 0x10, 1));
    body.push(op::jnzb(0x10, RegId::ZERO, 1));
    let end = |v: &mut Vec<fuel_asm::Instruction>| match ending {
        0 => v.push(op::ret(RegId::ONE)),
        1 => v.push(op::rvrt(RegId::ONE)),
        2 => v.push(op::div(0x11, RegId::ONE, RegId::ZERO)),
        3 => { v.push(op::movi(0x11, 8)); v.push(op::retd(RP, 0x11)); }
        4 => { for _ in 0..4 { v.push(op::log(RegId::ONE, RegId::ZERO, RegId::ZERO, RegId::ZERO)); } v.push(op::ret(RegId::ONE)); }
        _ => { v.push(op::addi(0x12, RP, OFF_MISC)); v.push(op::movi(0x11, 8)); v.push(op::logd(RegId::ZERO, RegId::ZERO, 0x12, 0x11)); v.push(op::ret(RegId::ONE)); }
    };
    let finish = |mut code: Vec<fuel_asm::Instruction>| -> Vec<u8> {
        let len = code.len() * 4; code[0] = op::movi(RP, len as u32);
        let mut b: Vec<u8> = code.iter().flat_map(|i| i.to_bytes()).collect(); b.extend_from_slice(&pool(&base)); b
    };
    if in_call {
        let mut c = body.clone(); end(&mut c);
        let mut s = vec![op::movi(RP, 0), op::add(RP, RP, RegId::IS), op::addi(0x19, RP, OFF_CALL), op::addi(0x1a, RP, OFF_ASSET), op::not(0x1c, RegId::ZERO),
            op::call(0x19, RegId::ZERO, 0x1a, 0x1c), op::log(RegId::ONE, RegId::ONE, RegId::ZERO, RegId::ZERO), op::ret(RegId::ONE)];
        s[0] = op::movi(RP, 0);
        scn.contracts = vec![Ctr { id: contract_id(0), code: finish(c), balances: vec![], as_input: true, tail: 0 }];
        scn.script = finish(s);
    } else {
        let mut s = body.clone(); end(&mut s);
        scn.contracts.clear();
        scn.script = finish(s);
    }
    scn.gas_limit = 2_000_000; scn.coin_outs.clear();
    scn
}

fn assemble(body: Vec<fuel_asm::Instruction>, base: &AssetId) -> Vec<u8> {
    let mut code = vec![op::movi(RP, 0), op::add(RP, RP, RegId::IS)];
    code.extend(body);
    code[0] = op::movi(RP, (code.len() * 4) as u32);
    let mut b: Vec<u8> = code.iter().flat_map(|i| i.to_bytes()).collect();
    b.extend_from_slice(&pool(base));
    b
}

/// regression corpus for reused clients: a first transaction that ends INSIDE a (nested) contract call - the callee
/// reverts, panics, or runs out of gas - leaves the interpreter's call frames behind; the following transactions on the
/// same client are top-level RET / RETD / RVRT / LOG+RET programs (and the aborting one again), which must run exactly as
/// on a fresh client; also success-then-abort-then-success.
fn sequence_corpus(ctx: &mut Ctx) {
    let mut r = ctx.rng.clone();
    let mut scn0 = gen_scenario(&mut r, Focus::Outcome, GasCostsValues::unit());
    let base = *scn0.params.base_asset_id();
    scn0.gas_price = 0; scn0.coin_outs.clear(); scn0.gas_limit = 20_000;
    let call = |c: u16, gas: u32| vec![op::addi(0x19, RP, OFF_CALL + 48 * c), op::addi(0x1a, RP, OFF_ASSET), op::movi(0x1c, gas), op::call(0x19, RegId::ZERO, 0x1a, 0x1c)];
    // callee behaviours
    let callees: Vec<(&str, Vec<fuel_asm::Instruction>)> = vec![
        ("revert", vec![op::log(RegId::ONE, RegId::ZERO, RegId::ZERO, RegId::ZERO), op::rvrt(RegId::ONE)]),
        ("panic", vec![op::div(0x10, RegId::ONE, RegId::ZERO), op::ret(RegId::ONE)]),
        ("out-of-gas", vec![op::noop(), op::jmpb(RegId::ZERO, 0)]),
        ("nested-revert", { let mut v = call(1, 5000); v.push(op::ret(RegId::ONE)); v }),
        ("nested-panic-after-return", { let mut v = call(2, 5000); v.push(op::div(0x10, RegId::ONE, RegId::ZERO)); v }),
    ];
    let followers: Vec<(&str, Vec<fuel_asm::Instruction>)> = vec![
        ("ret", vec![op::ret(RegId::ONE)]),
        ("retd", vec![op::movi(0x11, 8), op::retd(RP, 0x11)]),
        ("rvrt", vec![op::rvrt(RegId::ONE)]),
        ("log-ret", vec![op::log(RegId::ONE, RegId::ONE, RegId::ZERO, RegId::ZERO), op::ret(RegId::ZERO)]),
        ("call-ok-ret", { let mut v = call(2, 5000); v.push(op::ret(RegId::ONE)); v }),
    ];
    for (cn, callee) in &callees {
        // contract 0 = the callee under test, contract 1 = reverts, contract 2 = returns
        let mk = |code: Vec<fuel_asm::Instruction>, i: usize| Ctr { id: contract_id(i), code: assemble(code, &base), balances: vec![], as_input: true, tail: 0 };
        scn0.contracts = vec![mk(callee.clone(), 0), mk(vec![op::rvrt(RegId::ONE)], 1), mk(vec![op::ret(RegId::ONE)], 2)];
        let mut abort = scn0.clone();
        abort.script = assemble({ let mut v = call(0, 10_000); v.push(op::log(RegId::ONE, RegId::ONE, RegId::ONE, RegId::ONE)); v.push(op::ret(RegId::ONE)); v }, &base);
        for (fname, f) in &followers {
            let mut next = scn0.clone();
            next.script = assemble(f.clone(), &base);
            run_sequence(ctx, &[abort.clone(), next.clone()], &format!("seq abort-in-call={cn} then {fname}"));
            // success first, then the abort, then the same follower twice
            run_sequence(ctx, &[next.clone(), abort.clone(), next.clone(), next.clone()], &format!("seq {fname} then abort-in-call={cn} then {fname} x2"));
        }
        // two aborts in a row (frames would pile up), then every follower
        let mut all = vec![abort.clone(), abort.clone()];
        for (_, f) in &followers { let mut n = scn0.clone(); n.script = assemble(f.clone(), &base); all.push(n); }
        run_sequence(ctx, &all, &format!("seq abort-in-call={cn} x2 then all"));
    }
}

pub fn run(ctx: &mut Ctx) {
    // regression corpus: the receipt-limit boundary (65,533 program receipts fit; the next one is refused)
    let rooted = if ctx.thorough() { 6 } else { 2 };
    let mut k = 0;
    for (n_logs, ending, in_call) in [(65532u32, 0u64, false), (65533, 0, false), (65533, 1, false), (65532, 1, false), (65533, 2, false), (65534, 2, false), (65531, 4, false),
        (65533, 3, false), (65532, 5, false), (65531, 0, true), (65532, 0, true), (65530, 0, true), (65532, 1, true), (65533, 2, true), (70000, 0, false), (70000, 0, true)] {
        if !ctx.thorough() && ctx.scale == 1 && k >= 10 && k % 2 == 0 { k += 1; continue; }
        let mut r = ctx.rng.clone();
        let scn = stress(&mut r, n_logs, ending, in_call);
        run_case(ctx, &scn, &format!("stress n_logs={n_logs} ending={ending} in_call={in_call}"), k < rooted);
        k += 1;
    }
    sequence_corpus(ctx);
    let n = ctx.n(400, 6000);
    for case in 0..n {
        let costs = if ctx.rng.chance(1, 3) { GasCostsValues::unit() } else { GasCostsValues::default() };
        let mut scn = gen_scenario(&mut ctx.rng, Focus::Outcome, costs.clone());
        match ctx.rng.below(4) { 0 => {} 1 => scn.gas_limit = ctx.rng.range(0, 3000), _ => scn.gas_limit = scn.gas_limit.max(ctx.rng.range(100_000, 2_000_000)) }
        if ctx.rng.chance(1, 2) { run_case(ctx, &scn, &format!("case={case}"), true); continue; }
        // a sequence on one reused client: the generated transaction, then 1-3 more generated scripts over the same
        // contracts and parameters (so whatever the earlier ones left in the interpreter - frames after an abort inside a
        // call, receipts, memory - is in place when the next one starts)
        let mut seq = vec![scn.clone()];
        for _ in 0..ctx.rng.range(1, 3) {
            let mut nx = gen_scenario(&mut ctx.rng, Focus::Outcome, costs.clone());
            nx.params = scn.params.clone(); nx.gas_price = scn.gas_price; nx.contracts = scn.contracts.clone();
            match ctx.rng.below(4) { 0 => {} 1 => nx.gas_limit = ctx.rng.range(0, 3000), _ => nx.gas_limit = nx.gas_limit.max(ctx.rng.range(100_000, 2_000_000)) }
            if ctx.rng.chance(1, 3) { let base = *nx.params.base_asset_id(); nx.script = assemble(match ctx.rng.below(3) { 0 => vec![op::ret(RegId::ONE)], 1 => vec![op::movi(0x11, 8), op::retd(RP, 0x11)], _ => vec![op::rvrt(RegId::ONE)] }, &base); }
            seq.push(nx);
        }
        run_sequence(ctx, &seq, &format!("case={case}"));
    }
}
