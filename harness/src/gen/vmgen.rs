//! Shared by the streams c26 / c27 / c28 (included with `#[path]`, so no shared file is edited):
//! grammar-based FuelVM program generator (script + up to three contracts, nested CALLs with arbitrary
//! forwarded gas and coins, TR/TRO/MINT/BURN/SMO, storage, logs, memory ops, deliberate faults),
//! scenario -> checked transaction -> REAL interpreter, and a single-stepping runner built on the VM's own
//! debugger (`set_single_stepping`) so that the real `run_program` loop is what executes.
#![allow(dead_code)]
use crate::ctx::Rng;
use fuel_asm::{op, Instruction, RegId};
use fuel_tx::{
    ConsensusParameters, ContractIdExt, FeeParameters, GasCosts, GasCostsValues, Input, Output, Receipt, Script,
    TransactionBuilder, TransactionFee, TxPointer, UtxoId, Finalizable,
};
use fuel_types::{Address, AssetId, BlobId, BlockHeight, Bytes32, ContractId, Nonce, SubAssetId};
use fuel_vm::{
    checked_transaction::{Checked, IntoChecked, Ready},
    interpreter::{InterpreterParams, MemoryInstance},
    prelude::{Interpreter, InterpreterStorage, MemoryStorage, ProgramState, SecretKey},
    storage::{BlobData, ContractsAssetsStorage},
};
use fuel_storage::StorageAsMut;

pub type Vm = Interpreter<MemoryInstance, MemoryStorage, Script>;

// ---------------------------------------------------------------------------------------------
// data pool appended to every program (script and contracts): `$RP = $is + code_len`
pub const RP: u8 = 0x3f; // pool pointer register
pub const OFF_ASSET: u16 = 0; // 4 asset ids: base, A, B, C (C never among the inputs)
pub const OFF_CONTRACT: u16 = 128; // 4 contract ids: C0, C1, C2, missing
pub const OFF_CALL: u16 = 256; // 4 call structs (48 bytes each) for the contracts above
pub const OFF_ADDR: u16 = 448; // 2 addresses
pub const OFF_SUB: u16 = 512; // 2 sub ids
pub const OFF_MISC: u16 = 576; // 64 bytes of data
pub const POOL_LEN: usize = 640;

pub fn asset(i: usize, base: &AssetId) -> AssetId {
    match i { 0 => *base, 1 => AssetId::new([0xA1; 32]), 2 => AssetId::new([0xB2; 32]), _ => AssetId::new([0xC3; 32]) }
}
pub fn contract_id(i: usize) -> ContractId {
    let mut b = [0x50u8; 32];
    b[31] = i as u8; b[0] = 0xC0 + i as u8;
    ContractId::new(b)
}
pub fn address(i: usize) -> Address { Address::new([0xAD + i as u8; 32]) }
/// blobs present in storage: their ids are the two pool addresses (`OFF_ADDR`); a sub id (`OFF_SUB`) serves as a missing blob
pub fn blob_id(i: usize) -> BlobId { BlobId::new(*address(i)) }
pub fn sub_id(i: usize) -> SubAssetId { if i == 0 { SubAssetId::new([0; 32]) } else { SubAssetId::new([7; 32]) } }

pub fn pool(base: &AssetId) -> Vec<u8> {
    let mut p = Vec::with_capacity(POOL_LEN);
    for i in 0..4 { p.extend_from_slice(asset(i, base).as_ref()); }
    for i in 0..4 { p.extend_from_slice(contract_id(i).as_ref()); }
    for i in 0..4 {
        p.extend_from_slice(contract_id(i).as_ref());
        p.extend_from_slice(&(i as u64 + 1).to_be_bytes());
        p.extend_from_slice(&(0x1000u64 + i as u64).to_be_bytes());
    }
    for i in 0..2 { p.extend_from_slice(address(i).as_ref()); }
    for i in 0..2 { p.extend_from_slice(sub_id(i).as_ref()); }
    for i in 0..64u8 { p.push(i.wrapping_mul(37).wrapping_add(11)); }
    assert_eq!(p.len(), POOL_LEN);
    p
}

// ---------------------------------------------------------------------------------------------
// program generator

#[derive(Clone, Copy, PartialEq, Eq, Debug)]
pub enum Focus { Gas, Ledger, Outcome }

pub struct ProgGen<'a> {
    pub rng: &'a mut Rng,
    pub code: Vec<Instruction>,
    pub is_contract: bool,
    pub self_idx: usize, // contract index (contracts only)
    pub n_contracts: usize,
    pub n_var_outputs: usize,
    pub focus: Focus,
    pub kinds: Vec<&'static str>,
    pub raw: Vec<usize>,
    /// avoid choices known to panic (missing contracts/assets, large amounts, reused outputs, faults)
    pub safe: bool,
    pub tro_used: usize,
    pub in_loop: bool,
    /// byte lengths at which the schedule's dependent costs step (k * units_per_gas - 1 / +0 / +1, small multiples)
    pub hints: Vec<u32>,
}

const R: [u8; 8] = [0x10, 0x11, 0x12, 0x13, 0x14, 0x15, 0x16, 0x17];

impl<'a> ProgGen<'a> {
    fn r(&mut self) -> u8 { *self.rng.pick(&R) }
    pub fn load(&mut self, r: u8, v: u64) {
        if v < (1 << 18) { self.code.push(op::movi(r, v as u32)); return; }
        if v == u64::MAX { self.code.push(op::not(r, RegId::ZERO)); return; }
        self.code.push(op::movi(r, (v >> 48) as u32));
        for k in (0..4).rev() {
            self.code.push(op::slli(r, r, 12));
            self.code.push(op::ori(r, r, ((v >> (12 * k)) & 0xFFF) as u16));
        }
    }
    fn ptr(&mut self, r: u8, off: u16) { self.code.push(op::addi(r, RP, off)); }
    /// amount biased to the interesting region around typical balances
    fn amount(&mut self) -> u64 {
        if self.safe { return self.rng.range(1, 20); }
        match self.rng.below(40) {
            0 => 0,
            1 | 2 | 3 => 1,
            4..=29 => self.rng.range(1, 20),
            30..=34 => self.rng.range(20, 400),
            35 | 36 => self.rng.range(900, 1100),
            37 => self.rng.range(400, 6000),
            38 => self.rng.word(),
            _ => *self.rng.pick(&[u64::MAX, u64::MAX - 1, 1 << 63, 1000, 999, 1001]),
        }
    }
    fn asset_idx(&mut self) -> u16 { if !self.safe && self.rng.chance(1, 30) { 3 } else { *self.rng.pick(&[0u16, 0, 0, 1, 1, 2]) } }
    fn contract_idx(&mut self, allow_missing: bool) -> u16 {
        let n = self.n_contracts as u64;
        if allow_missing && !self.safe && self.rng.chance(1, 40) { return 3; }
        if n == 0 { return 3; }
        self.rng.below(n) as u16
    }
    fn heap(&mut self, len: u32) { let r = 0x18; self.code.push(op::movi(r, len)); self.code.push(op::aloc(r)); }

    pub fn block(&mut self) {
        let k = self.rng.below(100);
        let f = self.focus;
        // weights shift with the stream's focus
        let (w_alu, w_mem, w_log, w_asset, w_call, w_store, w_info) = match f {
            Focus::Gas => (18, 22, 10, 12, 14, 12, 12),
            Focus::Ledger => (8, 6, 6, 46, 22, 4, 8),
            Focus::Outcome => (14, 10, 30, 14, 16, 8, 8),
        };
        let mut acc = 0;
        macro_rules! pick { ($w:expr) => {{ acc += $w; k < acc }}; }
        if pick!(w_alu) { self.alu() }
        else if pick!(w_mem) { self.mem() }
        else if pick!(w_log) { self.log() }
        else if pick!(w_asset) { self.asset_op() }
        else if pick!(w_call) { self.call() }
        else if pick!(w_store) { self.storage() }
        else if pick!(w_info) { self.info() }
        else { self.alu() }
    }

    fn alu(&mut self) {
        self.kinds.push("alu");
        let n = self.rng.range(1, 4);
        for _ in 0..n {
            let (a, b, c) = (self.r(), self.r(), self.r());
            let imm = self.rng.below(64) as u16;
            let i = match self.rng.below(14) {
                0 => op::add(a, RegId::ZERO, c), 1 => op::addi(a, RegId::ZERO, imm), 2 => op::xor(a, b, c), 3 => op::or(a, b, c),
                4 => op::and(a, b, c), 5 => op::move_(a, b), 6 => op::movi(a, imm as u32), 7 => op::noop(),
                8 => op::eq(a, b, c), 9 => op::lt(a, b, c), 10 => op::gt(a, b, c), 11 => op::srli(a, b, imm & 63),
                12 => op::not(a, b), _ => op::xori(a, b, imm),
            };
            self.code.push(i);
        }
    }

    /// a byte length: fixed boundary values, or one where this scenario's schedule steps
    fn len_choice(&mut self, cap: u32) -> u32 {
        let l = if !self.hints.is_empty() && self.rng.chance(1, 3) { *self.rng.pick(&self.hints) }
            else { *self.rng.pick(&[0u32, 1, 7, 8, 9, 32, 63, 64, 213, 214, 215, 428, 1000, 3333, 4000]) };
        l.min(cap)
    }

    fn mem(&mut self) {
        self.kinds.push("mem");
        let len = self.len_choice(20_000);
        match self.rng.below(9) {
            0 => { self.heap(len); }
            1 => { self.heap(len.max(8)); self.code.push(op::mcli(RegId::HP, len.min(0x3ffff))); }
            2 => { let l = len.min(POOL_LEN as u32); self.heap(l.max(8)); self.code.push(op::mcpi(RegId::HP, RP, l as u16)); }
            3 => { let r = self.r(); if len <= POOL_LEN as u32 { self.heap(len.max(8)); self.code.push(op::movi(r, len)); self.code.push(op::mcp(RegId::HP, RP, r)); }
                   else { self.heap(len); self.code.push(op::move_(0x1d, RegId::HP)); self.heap(len); self.code.push(op::movi(r, len)); self.code.push(op::mcp(RegId::HP, 0x1d, r)); } }
            4 => { let n = (len & 0xff8).min(2048); self.code.push(op::cfei(n)); self.code.push(op::cfsi(n)); }
            5 => { let r = self.r(); let d = self.r(); if len <= POOL_LEN as u32 { self.heap(len.max(8)); self.code.push(op::movi(r, len)); self.code.push(op::meq(d, RegId::HP, RP, r)); }
                   else { self.heap(len); self.code.push(op::move_(0x1d, RegId::HP)); self.heap(len); self.code.push(op::movi(r, len)); self.code.push(op::meq(d, RegId::HP, 0x1d, r)); } }
            6 => { let r = self.r(); let hash = |a: u8, b: u8, c: u8, k: bool| if k { op::s256(a, b, c) } else { op::k256(a, b, c) }; let k = self.rng.chance(1, 2);
                   if len <= POOL_LEN as u32 { self.heap(32); self.code.push(op::movi(r, len)); self.code.push(hash(RegId::HP.to_u8(), RP, r, k)); }
                   else { self.heap(len); self.code.push(op::move_(0x1d, RegId::HP)); self.heap(32); self.code.push(op::movi(r, len)); self.code.push(hash(RegId::HP.to_u8(), 0x1d, r, k)); } }
            7 => { let r = self.r(); self.code.push(op::movi(r, len)); self.code.push(op::cfe(r)); self.code.push(op::cfs(r)); }
            _ => { self.heap(len.max(8)); let r = self.r(); self.code.push(op::movi(r, len)); self.code.push(op::mcl(RegId::HP, r)); }
        }
    }

    fn log(&mut self) {
        self.kinds.push("log");
        if self.rng.chance(1, 2) {
            let (a, b) = (self.r(), self.r());
            self.code.push(op::log(a, b, RegId::ZERO, RegId::ONE));
        } else {
            let (p, l) = (0x19, 0x1a);
            self.ptr(p, OFF_MISC);
            let len = if self.focus == Focus::Gas && self.rng.chance(1, 3) { self.len_choice(3000) } else { *self.rng.pick(&[0u32, 1, 8, 33, 63, 64]) };
            if len > 64 { self.heap(len); self.code.push(op::move_(p, RegId::HP)); }
            self.code.push(op::movi(l, len));
            self.code.push(op::logd(RegId::ZERO, RegId::ONE, p, l));
        }
    }

    fn asset_op(&mut self) {
        let (pa, pb, am, x) = (0x19, 0x1a, 0x1b, 0x1c);
        let amt = self.amount();
        match self.rng.below(if self.is_contract { 10 } else { 7 }) {
            2 | 3 if (!self.safe && (self.n_var_outputs > 0 || self.rng.chance(1, 20))) || (self.safe && !self.in_loop && !self.is_contract && self.tro_used < self.n_var_outputs) => {
                self.kinds.push("tro");
                let a = self.asset_idx(); let to = self.rng.below(2) as u16;
                // variable outputs come after the change/coin/contract outputs; index chosen by the scenario
                let idx = if self.safe { self.tro_used += 1; 100 + self.tro_used as u64 - 1 } else if self.rng.chance(1, 30) { self.rng.below(12) } else { 100 + self.rng.below(self.n_var_outputs.max(1) as u64) };
                self.ptr(pa, OFF_ADDR + 32 * to); self.ptr(pb, OFF_ASSET + 32 * a); self.load(am, amt); self.load(x, idx);
                self.code.push(op::tro(pa, x, am, pb));
            }
            0 | 1 | 2 | 3 if self.n_contracts > 0 || (!self.safe && self.rng.chance(1, 10)) => {
                self.kinds.push("tr");
                let c = self.contract_idx(true); let a = self.asset_idx();
                self.ptr(pa, OFF_CONTRACT + 32 * c); self.ptr(pb, OFF_ASSET + 32 * a); self.load(am, amt);
                self.code.push(op::tr(pa, am, pb));
            }
            4 | 5 => {
                self.kinds.push("smo");
                let len = *self.rng.pick(&[0u32, 1, 8, 55, 64]);
                self.ptr(pa, OFF_ADDR); self.ptr(pb, OFF_MISC); self.code.push(op::movi(x, len)); self.load(am, amt);
                self.code.push(op::smo(pa, pb, x, am));
            }
            6 => {
                self.kinds.push("bal");
                let c = self.contract_idx(true); let a = self.asset_idx();
                self.ptr(pa, OFF_ASSET + 32 * a); self.ptr(pb, OFF_CONTRACT + 32 * c);
                let r = self.r();
                self.code.push(op::bal(r, pa, pb));
            }
            7 | 8 => {
                self.kinds.push("mint");
                let s = self.rng.below(2) as u16;
                self.ptr(pa, OFF_SUB + 32 * s); self.load(am, amt);
                self.code.push(op::mint(am, pa));
            }
            9 => {
                self.kinds.push("burn");
                let s = self.rng.below(2) as u16;
                self.ptr(pa, OFF_SUB + 32 * s); self.load(am, amt);
                self.code.push(op::burn(am, pa));
            }
            _ => self.alu(),
        }
    }

    fn call(&mut self) {
        if self.n_contracts == 0 && (self.safe || !self.rng.chance(1, 10)) { return self.alu(); }
        self.kinds.push("call");
        let (pa, pb, am, g) = (0x19, 0x1a, 0x1b, 0x1c);
        // contracts call only higher-numbered contracts (bounded nesting), rarely anything (recursion bounded by gas)
        let c = if self.is_contract && !self.rng.chance(1, 15) {
            if self.self_idx + 1 < self.n_contracts { (self.self_idx as u64 + 1 + self.rng.below((self.n_contracts - self.self_idx - 1) as u64)) as u16 } else { return self.alu(); }
        } else { self.contract_idx(true) };
        let a = self.asset_idx();
        let amt = if self.rng.chance(2, 3) { 0 } else { self.amount() };
        let gas = match self.rng.below(8) { 0 => 0, 1 => self.rng.range(1, 200), 2 => self.rng.range(100, 3000), 3 => self.rng.word(), 4 => u64::MAX, _ => self.rng.range(1000, 200_000) };
        self.ptr(pa, OFF_CALL + 48 * c); self.ptr(pb, OFF_ASSET + 32 * a); self.load(am, amt); self.load(g, gas);
        self.code.push(op::call(pa, am, pb, g));
    }

    /// slot key built on the heap: one of the clustered keys 0..=7 (ranges of neighbouring instructions overlap, so hot and
    /// cold slots mix), a pool key, or rarely a key just below 2^256 (a range running over the end must panic)
    fn slot_key(&mut self, pk: u8) {
        match self.rng.below(if self.safe { 10 } else { 12 }) {
            0 | 1 => { let k = self.rng.below(2) as u16; self.ptr(pk, OFF_SUB + 32 * k); }
            11 => {
                self.heap(32); self.code.push(op::not(0x1d, RegId::ZERO));
                for w in 0..4 { self.code.push(op::sw(RegId::HP, 0x1d, w)); }
                self.code.push(op::movi(0x1d, 0xfc + self.rng.below(4) as u32)); self.code.push(op::sb(RegId::HP, 0x1d, 31));
                self.code.push(op::move_(pk, RegId::HP));
            }
            _ => { self.heap(32); self.code.push(op::movi(0x1d, self.rng.below(8) as u32)); self.code.push(op::sb(RegId::HP, 0x1d, 31)); self.code.push(op::move_(pk, RegId::HP)); }
        }
    }

    fn storage(&mut self) {
        if !self.is_contract && (self.safe || !self.rng.chance(1, 25)) { return self.alu(); }
        self.kinds.push("storage");
        let (pk, v, fl, x) = (0x19, 0x1a, 0x1b, 0x1c);
        let legacy = self.focus != Focus::Gas;
        match self.rng.below(if legacy { 6 } else { 20 }) {
            0 | 1 => { self.slot_key(pk); let val = self.rng.word(); self.load(v, val); self.code.push(op::sww(pk, fl, v)); }
            2 => { self.slot_key(pk); let off = if self.rng.chance(1, 4) { self.rng.below(6) as u8 } else { 0 }; self.code.push(op::srw(v, fl, pk, off)); }
            3 => { let n = 1 + self.rng.below(4) as u32; self.heap(32 * n); self.code.push(op::move_(v, RegId::HP)); self.slot_key(pk); self.code.push(op::movi(x, n)); self.code.push(op::srwq(v, fl, pk, x)); }
            4 => { let n = 1 + self.rng.below(4) as u32; if n <= 2 { self.ptr(v, OFF_MISC); } else { self.heap(32 * n); self.code.push(op::move_(v, RegId::HP)); } self.slot_key(pk); self.code.push(op::movi(x, n)); self.code.push(op::swwq(pk, fl, v, x)); }
            5 => { self.slot_key(pk); self.code.push(op::movi(v, self.rng.below(5) as u32)); self.code.push(op::scwq(pk, fl, v)); }
            6 | 7 => { self.slot_key(pk); self.code.push(op::movi(v, self.rng.below(6) as u32)); self.code.push(op::sclr(pk, v)); }
            8 | 9 => {
                // SRDD / SRDI: offset + len inside, at the end of, or beyond typical slot lengths
                let len = *self.rng.pick(&[0u32, 1, 8, 31, 32, 33, 63]); let off = *self.rng.pick(&[0u32, 0, 0, 1, 8, 32, 100]);
                self.heap(len.max(8)); self.code.push(op::move_(v, RegId::HP)); self.slot_key(pk); self.code.push(op::movi(fl, off));
                if self.rng.chance(1, 2) { self.code.push(op::movi(x, len)); self.code.push(op::srdd(v, pk, fl, x)); } else { self.code.push(op::srdi(v, pk, fl, len as u8)); }
            }
            10 | 11 | 12 => {
                // SWRD / SWRI: new slot lengths of every residue, shrinking and growing values
                let len = if self.rng.chance(1, 2) { self.len_choice(2500) } else { self.rng.range(0, 70) as u32 };
                self.heap(len.max(8)); self.code.push(op::move_(v, RegId::HP)); self.slot_key(pk);
                if len < 4096 && self.rng.chance(1, 2) { self.code.push(op::swri(pk, v, len as u16)); } else { self.code.push(op::movi(x, len)); self.code.push(op::swrd(pk, v, x)); }
            }
            13 | 14 | 15 => {
                // SUPD / SUPI: overwrite inside, extend, append (offset = u64::MAX), or start beyond the end (panics)
                let len = *self.rng.pick(&[0u32, 1, 7, 8, 9, 32, 40, 63]);
                self.heap(len.max(8)); self.code.push(op::move_(v, RegId::HP)); self.slot_key(pk);
                match self.rng.below(5) { 0 => self.code.push(op::not(fl, RegId::ZERO)), 1 => self.code.push(op::movi(fl, 5000)), _ => { let o = *self.rng.pick(&[0u32, 0, 1, 8, 30, 32]); self.code.push(op::movi(fl, o)) } }
                if self.rng.chance(1, 2) { self.code.push(op::movi(x, len)); self.code.push(op::supd(pk, v, fl, x)); } else { self.code.push(op::supi(pk, v, fl, len as u8)); }
            }
            _ => { self.slot_key(pk); let r = self.r(); self.code.push(op::spld(r, pk)); }
        }
    }

    fn info(&mut self) {
        if self.safe && self.n_contracts == 0 && self.focus != Focus::Gas { return self.alu(); }
        self.kinds.push("info");
        let (pa, x, y) = (0x19, 0x1a, 0x1b);
        let c = self.contract_idx(true);
        self.ptr(pa, OFF_CONTRACT + 32 * c);
        match self.rng.below(if self.focus == Focus::Gas { 13 } else { 7 }) {
            0 => { let r = self.r(); self.code.push(op::csiz(r, pa)); }
            1 => { self.heap(32); self.code.push(op::croo(RegId::HP, pa)); }
            2 => { let l = if self.rng.chance(1, 2) { self.len_choice(6000) } else { *self.rng.pick(&[0u32, 8, 100, 700, 2000]) }; self.heap(l.max(8)); self.code.push(op::movi(x, l)); self.code.push(op::ccp(RegId::HP, pa, RegId::ZERO, x)); }
            3 => { let r = self.r(); self.code.push(op::bhei(r)); }
            4 => { let r = self.r(); if !self.safe && self.rng.chance(1, 6) { self.code.push(op::bsiz(r, pa)); } else { self.code.push(op::bhei(r)); } }
            5 => { let r = self.r(); self.code.push(op::gm_args(r, fuel_asm::GMArgs::GetChainId)); }
            6 => { let r = self.r(); self.code.push(op::gtf_args(r, RegId::ZERO, fuel_asm::GTFArgs::ScriptGasLimit)); }
            7 | 8 => {
                // BSIZ / BLDD on the blobs in storage (ids = the pool addresses), rarely a missing one
                let b = if !self.safe && self.rng.chance(1, 12) { OFF_SUB } else { OFF_ADDR + 32 * self.rng.below(2) as u16 };
                self.ptr(pa, b);
                if self.rng.chance(1, 3) { let r = self.r(); self.code.push(op::bsiz(r, pa)); }
                else { let l = self.len_choice(4000); self.heap(l.max(8)); self.code.push(op::movi(x, l)); self.code.push(op::movi(y, self.rng.below(9) as u32)); self.code.push(op::bldd(RegId::HP, pa, y, x)); }
            }
            _ => {
                // LDC: contract / blob / memory source, length of every residue mod 8 (it is padded before charging).
                // `$ssp == $sp` is required: emitted only while the generator has not moved `$sp` in this program.
                let mode = self.rng.below(if self.safe { 3 } else { 4 }) as u8;
                let l = match self.rng.below(4) { 0 => self.len_choice(3000), 1 => 0, _ => self.rng.range(1, 90) as u32 };
                match mode { 1 => { let b = if !self.safe && self.rng.chance(1, 12) { OFF_SUB } else { OFF_ADDR + 32 * self.rng.below(2) as u16 }; self.ptr(pa, b); } 2 => { self.code.push(op::move_(pa, RP)); } _ => {} }
                self.code.push(op::movi(x, l)); self.code.push(op::movi(y, if mode == 2 { 0 } else { self.rng.below(9) as u32 }));
                self.code.push(op::ldc(pa, y, x, mode));
            }
        }
    }

    fn fault(&mut self) {
        self.kinds.push("fault");
        let r = self.r();
        match self.rng.below(7) {
            0 => { self.raw.push(self.code.len()); self.code.push(op::noop()); } // replaced by the undefined word 0 in `program`
            1 => { self.code.push(op::not(r, RegId::ZERO)); self.code.push(op::lw(r, r, 0)); }
            2 => { self.code.push(op::div(r, RegId::ONE, RegId::ZERO)); }
            3 => { self.code.push(op::not(r, RegId::ZERO)); self.code.push(op::aloc(r)); }
            4 => { self.code.push(op::ji(0x00ff_ffff)); }
            5 => { self.code.push(op::sw(RegId::ZERO, r, 0)); }
            _ => { self.code.push(op::not(r, RegId::ZERO)); self.code.push(op::cfe(r)); }
        }
    }

    fn ending(&mut self) {
        let k = self.rng.below(20);
        let r = self.r();
        match k {
            0..=11 => { self.kinds.push("ret"); self.code.push(op::ret(if self.rng.chance(1, 2) { RegId::ONE.to_u8() } else { r })); }
            12..=15 => { self.kinds.push("retd"); let l = *self.rng.pick(&[0u32, 1, 32, 64, 640]); self.code.push(op::movi(r, l)); self.code.push(op::retd(RP, r)); }
            16 | 17 => { self.kinds.push("rvrt"); self.code.push(op::rvrt(r)); }
            18 if !self.safe => { self.fault(); self.code.push(op::ret(RegId::ONE)); }
            19 if !self.safe => { self.kinds.push("run-off-end"); }
            _ => { self.kinds.push("ret"); self.code.push(op::ret(RegId::ONE)); } // falls into the data pool: invalid/garbage instructions
        }
    }

    /// whole program: prelude, blocks (some inside a bounded loop), ending, data pool
    pub fn program(&mut self, blocks: u64, base: &AssetId) -> Vec<u8> {
        self.code.push(op::movi(RP, 0)); // patched below
        self.code.push(op::add(RP, RP, RegId::IS));
        let mut i = 0;
        while i < blocks {
            if self.rng.chance(1, 8) {
                // bounded loop: movi cnt, k; body; subi cnt; jnzb cnt
                let cnt = 0x1e;
                let k = self.rng.range(2, 6) as u32;
                self.code.push(op::movi(cnt, k));
                let start = self.code.len();
                let nb = self.rng.range(1, 3);
                self.in_loop = true;
                for _ in 0..nb { self.block(); i += 1; }
                self.in_loop = false;
                self.code.push(op::subi(cnt, cnt, 1));
                let dist = self.code.len() - start; // jump back `dist` instructions from the jnzb
                if dist <= 4000 { self.code.push(op::jnzb(cnt, RegId::ZERO, (dist - 1) as u16)); }
                self.kinds.push("loop");
            } else {
                self.block(); i += 1;
            }
            if !self.safe && self.rng.chance(1, 60) { self.fault(); }
        }
        self.ending();
        let code_len = self.code.len() * 4;
        self.code[0] = op::movi(RP, code_len as u32);
        let mut bytes: Vec<u8> = self.code.iter().flat_map(|i| i.to_bytes()).collect();
        for i in &self.raw { bytes[4 * i..4 * i + 4].copy_from_slice(&[0, 0, 0, 0]); }
        bytes.extend_from_slice(&pool(base));
        bytes
    }
}

// ---------------------------------------------------------------------------------------------
// scenario

#[derive(Clone)]
pub struct Ctr { pub id: ContractId, pub code: Vec<u8>, pub balances: Vec<(AssetId, u64)>, pub as_input: bool, /// filler bytes after the data pool
    pub tail: usize }

#[derive(Clone)]
pub struct Scn {
    pub params: ConsensusParameters,
    pub gas_price: u64,
    pub gas_limit: u64,
    pub tip: u64,
    pub fee_extra: u64,
    pub script: Vec<u8>,
    pub script_data: Vec<u8>,
    pub contracts: Vec<Ctr>,
    pub coins: Vec<(AssetId, u64)>,
    pub msgs: Vec<(u64, Vec<u8>)>,
    pub change: Vec<AssetId>,
    pub coin_outs: Vec<(AssetId, u64)>,
    pub n_var: usize,
    pub kinds: Vec<&'static str>,
    /// blobs in storage (BSIZ / BLDD / LDC mode 1)
    pub blobs: Vec<(BlobId, Vec<u8>)>,
}

/// `DependentCost` of a schedule entry as (is_light, per) — read through the public getters the VM itself uses
fn dep_parts(d: fuel_tx::DependentCost) -> (bool, u64) {
    match d { fuel_tx::DependentCost::LightOperation { units_per_gas, .. } => (true, units_per_gas), fuel_tx::DependentCost::HeavyOperation { gas_per_unit, .. } => (false, gas_per_unit) }
}

/// lengths around the points where a light dependent cost of this schedule steps (k * units_per_gas - 1, +0, +1)
fn schedule_hints(costs: &GasCostsValues) -> Vec<u32> {
    let mut h = vec![];
    let mut deps = vec![costs.mcl(), costs.mcp(), costs.meq(), costs.s256(), costs.k256(), costs.logd(), costs.retd(), costs.ccp(), costs.ldc(), costs.call(), costs.smo(), costs.mcli(), costs.mcpi(), costs.csiz(), costs.croo()];
    for d in [costs.bldd(), costs.bsiz(), costs.storage_write(), costs.storage_read_cold(), costs.storage_read_hot()] { if let Ok(d) = d { deps.push(d); } }
    for d in deps {
        if let (true, u) = dep_parts(d) {
            if u >= 2 && u <= 6000 { for k in [1u64, 2, 3, 7] { let m = k * u; if m <= 20_000 { h.push((m - 1) as u32); h.push(m as u32); h.push((m + 1) as u32); } } }
        }
    }
    h.sort(); h.dedup();
    h
}

/// Extra bytes appended after a contract's data pool so that the code length takes every residue modulo 8 and,
/// where the schedule's CALL / LDC / CCP cost is a light operation, so that the 1-7 padding bytes CALL adds move the
/// padded length across a multiple of `units_per_gas` (padded and unpadded lengths then resolve to different costs).
fn code_tail(rng: &mut Rng, len: usize, costs: &GasCostsValues) -> usize {
    let r = rng.below(8) as usize;
    let (light, u) = dep_parts(costs.call());
    if light && u >= 2 && u <= 5000 && rng.chance(1, 2) {
        let u = u as usize;
        for f in 0..(u + 16) {
            let l = len + f;
            if l % 8 != 0 && l / u != (l + (8 - l % 8)) / u { return f; }
        }
    }
    // make the residue of the final length `r`
    (r + 8 - len % 8) % 8
}

pub fn schedule(rng: &mut Rng, fixed_n: usize, dep_n: usize, make: &dyn Fn(&[u64], &[fuel_tx::DependentCost]) -> GasCostsValues) -> (GasCostsValues, &'static str) {
    match rng.below(10) {
        0..=3 => (GasCostsValues::default(), "default"),
        4 | 5 => (GasCostsValues::unit(), "unit"),
        _ => {
            let f: Vec<u64> = (0..fixed_n).map(|_| match rng.below(12) { 0 => 0, 1 => rng.range(100, 5000), 2 => 1 << rng.range(20, 40), _ => rng.range(1, 20) }).collect();
            let d: Vec<fuel_tx::DependentCost> = (0..dep_n).map(|_| {
                let base = match rng.below(8) { 0 => 0, 1 => rng.range(100, 3000), _ => rng.range(1, 40) };
                if rng.chance(1, 2) { fuel_tx::DependentCost::LightOperation { base, units_per_gas: match rng.below(8) { 0 => 1, 1 => u64::MAX, 2 | 3 => rng.range(2, 9), _ => rng.range(1, 4000) } } }
                else { fuel_tx::DependentCost::HeavyOperation { base, gas_per_unit: match rng.below(6) { 0 => 0, 1 => 1 << rng.range(30, 63), _ => rng.range(1, 30) } } }
            }).collect();
            (make(&f, &d), "random")
        }
    }
}

pub fn gen_scenario(rng: &mut Rng, focus: Focus, costs: GasCostsValues) -> Scn {
    let mut params = ConsensusParameters::standard();
    params.set_gas_costs(GasCosts::new(costs));
    let factor = *rng.pick(&[1u64, 1, 2, 92, 1000, 1_000_000_000]);
    params.set_fee_params(FeeParameters::DEFAULT.with_gas_price_factor(factor));
    let base = *params.base_asset_id();
    let n_contracts = if rng.chance(1, 8) { 0 } else { rng.range(1, 3) as usize };
    let n_var = rng.below(9) as usize;
    let safe = rng.chance(match focus { Focus::Gas => 1, Focus::Ledger => 3, Focus::Outcome => 2 }, 4);
    let hints = if focus == Focus::Gas { schedule_hints(params.gas_costs()) } else { vec![] };
    let mut kinds = vec![];
    if safe { kinds.push("safe-scenario"); }
    let mut contracts = vec![];
    for i in 0..n_contracts {
        let mut g = ProgGen { rng, code: vec![], is_contract: true, self_idx: i, n_contracts, n_var_outputs: n_var, focus, kinds: vec![], raw: vec![], safe, tro_used: 0, in_loop: false, hints: hints.clone() };
        let nb = g.rng.range(1, 20);
        let mut code = g.program(nb, &base);
        kinds.extend(g.kinds.iter().map(|k| *k));
        let tail = if focus == Focus::Gas { code_tail(rng, code.len(), params.gas_costs()) } else { 0 };
        code.extend(std::iter::repeat(0u8).take(tail));
        let mut balances = vec![];
        for a in 0..3 { if rng.chance(5, 6) { balances.push((asset(a, &base), match rng.below(12) { 0 => 0, 1 => u64::MAX - rng.below(3), _ => rng.range(1, 5000) })); } }
        if rng.chance(1, 3) { balances.push((contract_id(i).asset_id(&sub_id(0)), rng.range(0, 100))); }
        if safe { balances = (0..3).map(|a| (asset(a, &base), rng.range(100_000, 200_000))).collect(); balances.push((contract_id(i).asset_id(&sub_id(0)), 1_000_000)); balances.push((contract_id(i).asset_id(&sub_id(1)), 1_000_000)); }
        contracts.push(Ctr { id: contract_id(i), code, balances, as_input: safe || !rng.chance(1, 25), tail });
    }
    let mut g = ProgGen { rng, code: vec![], is_contract: false, self_idx: 0, n_contracts, n_var_outputs: n_var, focus, kinds: vec![], raw: vec![], safe, tro_used: 0, in_loop: false, hints: hints.clone() };
    let nb = g.rng.range(3, 40);
    let script = if g.rng.chance(1, 40) { vec![] } else { g.program(nb, &base) };
    kinds.extend(g.kinds.iter().map(|k| *k));
    let mut coins = vec![(base, match rng.below(8) { 0 => rng.range(0, 50), 1 => u64::MAX / 4, _ => rng.range(500, 100_000) })];
    if rng.chance(1, 6) { coins.clear(); }
    if rng.chance(1, 3) { coins.push((base, rng.range(1, 1000))); }
    for a in 1..3 { if rng.chance(5, 6) { coins.push((asset(a, &base), match rng.below(6) { 0 => rng.range(1, 30), _ => rng.range(100, 5000) })); } }
    if safe { coins = (0..3).map(|a| (asset(a, &base), rng.range(100_000, 200_000))).collect(); }
    let mut msgs = vec![];
    if rng.chance(1, 4) { msgs.push((rng.range(1, 3000), vec![])); }
    if rng.chance(1, 4) { let l = 1 + rng.below(12) as usize; let v = rng.range(1, 3000); msgs.push((v, rng.bytes(l))); }
    let mut change = vec![];
    let have: Vec<AssetId> = { let mut v: Vec<AssetId> = coins.iter().map(|c| c.0).collect(); v.sort(); v.dedup(); v };
    for a in &have { if rng.chance(3, 4) { change.push(*a); } }
    let mut coin_outs = vec![];
    for a in &have { if rng.chance(1, 5) { coin_outs.push((*a, rng.range(0, 40))); } }
    let gas_price = *rng.pick(&[0u64, 0, 1, 1, 2, 7, 1000]);
    let gas_limit = if safe { rng.range(200_000, 3_000_000) } else { match rng.below(6) { 0 => rng.range(0, 300), 1 => rng.range(300, 5000), _ => rng.range(20_000, 3_000_000) } };
    let var_base = change.len() + coin_outs.len() + contracts.iter().filter(|c| c.as_input).count();
    let mut script = script;
    patch_var_index(&mut script, var_base, 0);
    for c in contracts.iter_mut() { let t = c.tail; patch_var_index(&mut c.code, var_base, t); }
    let blobs = if focus == Focus::Gas {
        (0..2).map(|i| { let l = match rng.below(4) { 0 => rng.below(16), 1 => rng.range(16, 300), 2 => *rng.pick(&hints.iter().map(|x| *x as u64).chain([640u64]).collect::<Vec<_>>()), _ => rng.range(300, 3000) } as usize; (blob_id(i), rng.bytes(l)) }).collect()
    } else { vec![] };
    Scn { blobs, params, gas_price, gas_limit, fee_extra: if rng.chance(1, 3) { 0 } else { rng.range(0, 3000) }, tip: if rng.chance(1, 5) { rng.range(1, 20) } else { 0 }, script, script_data: vec![], contracts, coins, msgs, change, coin_outs, n_var, kinds }
}

pub struct Built { pub ready: Ready<Script>, pub checked_again: Checked<Script>, pub storage: MemoryStorage, pub max_fee: u64, pub var_base: usize }

/// storage with the scenario's contracts and balances inserted directly (arbitrary contract ids)
pub fn make_storage(s: &Scn) -> MemoryStorage {
    let mut st = MemoryStorage::default();
    for c in &s.contracts {
        st.storage_contract_insert(&c.id, c.code.as_slice()).unwrap();
        for (a, v) in &c.balances { st.contract_asset_id_balance_insert(&c.id, a, *v).unwrap(); }
    }
    for (id, data) in &s.blobs { st.storage_as_mut::<BlobData>().insert(id, data.as_slice()).unwrap(); }
    st.commit();
    st
}

/// `None`: the generated transaction is not valid (e.g. coin outputs exceed inputs) - counted, skipped
pub fn build(s: &Scn) -> Result<Built, String> {
    let base = *s.params.base_asset_id();
    let mk = |max_fee: u64| -> (Script, usize) {
        let mut b = TransactionBuilder::script(s.script.clone(), s.script_data.clone());
        b.with_params(s.params.clone());
        b.script_gas_limit(s.gas_limit).max_fee_limit(max_fee);
        if s.tip > 0 { b.tip(s.tip); }
        let sk = SecretKey::try_from(Bytes32::new([0x11; 32])).unwrap();
        // dedicated base-asset coin that pays the maximum fee (amount does not change the tx size)
        b.add_unsigned_coin_input(sk, UtxoId::new(Bytes32::new([0xFE; 32]), 0), max_fee.saturating_add(s.fee_extra), base, TxPointer::default());
        for (i, (a, v)) in s.coins.iter().enumerate() {
            b.add_unsigned_coin_input(sk, UtxoId::new(Bytes32::new([i as u8 + 1; 32]), i as u16), *v, *a, TxPointer::default());
        }
        for (i, (v, d)) in s.msgs.iter().enumerate() {
            b.add_unsigned_message_input(sk, Address::new([0x77; 32]), Nonce::new([i as u8 + 0x30; 32]), *v, d.clone());
        }
        let mut n_out = 0usize;
        for a in &s.change { b.add_output(Output::change(address(0), 0, *a)); n_out += 1; }
        for (a, v) in &s.coin_outs { b.add_output(Output::coin(address(1), *v, *a)); n_out += 1; }
        for c in s.contracts.iter().filter(|c| c.as_input) {
            let idx = b.inputs().len() as u16;
            b.add_input(Input::contract(UtxoId::new(Bytes32::new([0xEE; 32]), idx), Bytes32::zeroed(), Bytes32::zeroed(), TxPointer::default(), c.id));
            b.add_output(Output::contract(idx, Bytes32::zeroed(), Bytes32::zeroed()));
            n_out += 1;
        }
        let var_base = n_out;
        for _ in 0..s.n_var { b.add_output(Output::variable(Address::zeroed(), 0, AssetId::zeroed())); }
        (b.finalize(), var_base)
    };
    let (tx0, _) = mk(0);
    let fee = TransactionFee::checked_from_tx(s.params.gas_costs(), s.params.fee_params(), &tx0, s.gas_price).ok_or("fee overflow")?;
    let max_fee = fee.max_fee();
    let (tx, var_base) = mk(max_fee);
    let checked = tx.clone().into_checked(BlockHeight::new(0), &s.params).map_err(|e| format!("{e:?}").chars().take(90).collect::<String>())?;
    let checked_again = tx.into_checked(BlockHeight::new(0), &s.params).map_err(|_| "check2")?;
    let ready = checked.into_ready(s.gas_price, s.params.gas_costs(), s.params.fee_params(), None).map_err(|e| format!("{e:?}").chars().take(60).collect::<String>())?;
    Ok(Built { ready, checked_again, storage: make_storage(s), max_fee, var_base })
}

/// TRO output indices in generated programs are `100 + k`; rewrite them to the real variable-output
/// positions once the output list is known (keeps the generator independent of the output layout)
pub fn patch_var_index(code: &mut Vec<u8>, var_base: usize, tail: usize) {
    // `movi x(0x1c), 100+k` directly precedes `tro` in `asset_op`; find `tro` words and fix the preceding movi
    let n = code.len().saturating_sub(POOL_LEN + tail) / 4;
    for i in 1..n {
        let w = u32::from_be_bytes(code[4 * i..4 * i + 4].try_into().unwrap());
        if (w >> 24) as u8 == fuel_asm::Opcode::TRO as u8 {
            let p = u32::from_be_bytes(code[4 * i - 4..4 * i].try_into().unwrap());
            if (p >> 24) as u8 == fuel_asm::Opcode::MOVI as u8 {
                let imm = p & 0x3ffff;
                if imm >= 100 && imm < 200 {
                    let np = (p & !0x3ffff) | ((imm - 100) as u32 + var_base as u32);
                    code[4 * i - 4..4 * i].copy_from_slice(&np.to_be_bytes());
                }
            }
        }
    }
}

pub fn new_vm(s: &Scn, storage: MemoryStorage) -> Vm {
    Interpreter::with_storage(MemoryInstance::new(), storage, InterpreterParams::new(s.gas_price, &s.params))
}

// ---------------------------------------------------------------------------------------------
// stepping

pub enum Stop { Before, End }

pub struct RunEnd { pub state: Result<ProgramState, String>, pub steps: u64 }

/// Runs the transaction on the real interpreter with the VM's single-stepping debugger; `f` is called at
/// every stop (before each instruction: `Stop::Before`) and once after the run finished (`Stop::End`).
pub fn run_stepped(vm: &mut Vm, ready: Ready<Script>, max_steps: u64, mut f: impl FnMut(&Vm, Stop)) -> RunEnd {
    vm.set_single_stepping(true);
    let mut state: Result<ProgramState, String> = vm.transact(ready).map(|t| *t.state()).map_err(|e| format!("{e:?}"));
    let mut steps = 0;
    loop {
        match &state {
            Ok(st) if st.is_debug() => {
                if steps >= max_steps { return RunEnd { state: Err("step-limit".into()), steps }; }
                f(vm, Stop::Before);
                steps += 1;
                state = vm.resume().map_err(|e| format!("{e:?}"));
            }
            _ => break,
        }
    }
    f(vm, Stop::End);
    RunEnd { state, steps }
}

pub fn reg(vm: &Vm, r: RegId) -> u64 { vm.registers()[r.to_u8() as usize] }
pub fn mem32(vm: &Vm, addr: u64) -> Option<[u8; 32]> { vm.memory().read_bytes::<_, 32>(addr).ok() }
pub fn mem8(vm: &Vm, addr: u64) -> Option<u64> { vm.memory().read_bytes::<_, 8>(addr).ok().map(u64::from_be_bytes) }

/// context gas saved in every call frame, innermost first, read from the frames in VM memory
/// (`CallFrame` = to(32) asset(32) registers(64*8) …; the saved `$fp` links to the caller's frame)
pub fn saved_cgas(vm: &Vm) -> Vec<u64> {
    let mut out = vec![];
    let mut fp = reg(vm, RegId::FP);
    let mut guard = 0;
    while fp != 0 && guard < 10_000 {
        let regs = fp + 64;
        match (mem8(vm, regs + 8 * RegId::CGAS.to_u8() as u64), mem8(vm, regs + 8 * RegId::FP.to_u8() as u64)) {
            (Some(c), Some(prev)) => { out.push(c); fp = prev; }
            _ => break,
        }
        guard += 1;
    }
    out
}

pub fn current_contract(vm: &Vm) -> Option<ContractId> {
    let fp = reg(vm, RegId::FP);
    if fp == 0 { None } else { mem32(vm, fp).map(ContractId::new) }
}

pub fn current_word(vm: &Vm) -> Option<u32> {
    vm.memory().read_bytes::<_, 4>(reg(vm, RegId::PC)).ok().map(u32::from_be_bytes)
}

pub fn panic_of(receipts: &[Receipt]) -> Option<fuel_asm::PanicReason> {
    receipts.iter().find_map(|r| match r { Receipt::Panic { reason, .. } => Some(*reason.reason()), _ => None })
}

pub fn script_result(receipts: &[Receipt]) -> Option<(u64, u64)> {
    receipts.iter().find_map(|r| match r { Receipt::ScriptResult { result, gas_used } => Some((u64::from(*result), *gas_used)), _ => None })
}

// ---------------------------------------------------------------------------------------------
// reuse of one interpreter: "dirtying" transactions run before the measured one (streams c26 / c27; c28 reuses a client)

/// contracts used only by the deep-nest dirtying transaction (ids outside the pool the generated programs use)
pub fn dirt_contract_id(i: usize) -> ContractId { ContractId::new([0xD0 + i as u8; 32]) }

fn load64(code: &mut Vec<Instruction>, r: u8, v: u64) {
    code.push(op::movi(r, (v >> 48) as u32));
    for k in (0..4).rev() { code.push(op::slli(r, r, 12)); code.push(op::ori(r, r, ((v >> (12 * k)) & 0xFFF) as u16)); }
}

/// `$0x19` = pointer to a fresh call structure (on the heap) for dirt contract `i`
fn dirt_call_struct(code: &mut Vec<Instruction>, i: usize) {
    let b = 0xD0u64 + i as u64;
    code.push(op::movi(0x1d, 48)); code.push(op::aloc(0x1d));
    load64(code, 0x1d, b * 0x0101_0101_0101_0101);
    for w in 0..4 { code.push(op::sw(RegId::HP, 0x1d, w)); }
    code.push(op::move_(0x19, RegId::HP));
}

fn dirt_assemble(body: Vec<Instruction>, base: &AssetId) -> Vec<u8> {
    let mut code = vec![op::movi(RP, 0), op::add(RP, RP, RegId::IS)];
    code.extend(body);
    code[0] = op::movi(RP, (code.len() * 4) as u32);
    let mut b: Vec<u8> = code.iter().flat_map(|i| i.to_bytes()).collect();
    b.extend_from_slice(&pool(base));
    b
}

/// D0 warms two storage slots, mints, forwards coins to D1; D1 writes a slot and calls D2; D2 ends the transaction
/// `how`: 0 = RVRT, 1 = panic (division by zero), 2 = endless loop (out of gas), 3 = returns (the transaction succeeds)
pub fn dirt_contracts(base: &AssetId, how: u64) -> Vec<Ctr> {
    let (pk, v, fl, pb, g) = (0x1au8, 0x1bu8, 0x1cu8, 0x1eu8, 0x18u8);
    let mut d0: Vec<Instruction> = vec![op::addi(pk, RP, OFF_SUB), op::movi(v, 77), op::sww(pk, fl, v), op::addi(pk, RP, OFF_SUB + 32), op::sww(pk, fl, v), op::srw(v, fl, pk, 0),
        op::movi(v, 5), op::addi(pk, RP, OFF_SUB), op::mint(v, pk)];
    dirt_call_struct(&mut d0, 1);
    d0.extend([op::addi(pb, RP, OFF_ASSET), op::movi(v, 3), op::not(g, RegId::ZERO), op::call(0x19, v, pb, g), op::ret(RegId::ONE)]);
    let mut d1: Vec<Instruction> = vec![op::addi(pk, RP, OFF_SUB), op::movi(v, 9), op::sww(pk, fl, v), op::movi(v, 4000), op::aloc(v)];
    dirt_call_struct(&mut d1, 2);
    d1.extend([op::addi(pb, RP, OFF_ASSET), op::not(g, RegId::ZERO), op::call(0x19, RegId::ZERO, pb, g), op::ret(RegId::ONE)]);
    let d2: Vec<Instruction> = match how {
        0 => vec![op::log(RegId::ONE, RegId::ZERO, RegId::ZERO, RegId::ZERO), op::rvrt(RegId::ONE)],
        1 => vec![op::div(0x10, RegId::ONE, RegId::ZERO), op::ret(RegId::ONE)],
        2 => vec![op::noop(), op::jmpb(RegId::ZERO, 0)],
        _ => vec![op::ret(RegId::ONE)],
    };
    let mk = |i: usize, c: Vec<Instruction>| Ctr { id: dirt_contract_id(i), code: dirt_assemble(c, base), balances: vec![(*base, 1000)], as_input: true, tail: 0 };
    vec![mk(0, d0), mk(1, d1), mk(2, d2)]
}

/// the contracts every dirtying variant may need, inserted next to the scenario's own
pub fn install_dirt_contracts(st: &mut MemoryStorage, base: &AssetId) {
    // code of D2 is replaced per variant by `dirty_vm` (the id stays)
    for c in dirt_contracts(base, 3) {
        st.storage_contract_insert(&c.id, c.code.as_slice()).unwrap();
        for (a, v) in &c.balances { st.contract_asset_id_balance_insert(&c.id, a, *v).unwrap(); }
    }
    st.commit();
}

/// Transactions that leave state behind in the interpreter that runs them: (a) the measured program itself (warms exactly
/// the slots / balances / frames the measured run touches), (b) another generated script over the same contracts (other
/// outputs and index maps, other slots, often aborted inside a call), (c) a large heap plus a three-deep call chain through
/// the dirt contracts (a different set of contract inputs) that moves coins, mints, writes slots and is ended in the innermost
/// frame by revert / panic / out of gas / return.
pub fn dirty_scenarios(rng: &mut Rng, scn: &Scn) -> Vec<(Scn, u64)> {
    let base = *scn.params.base_asset_id();
    let mut out = vec![];
    let n = rng.range(1, 3);
    for _ in 0..n {
        match rng.below(4) {
            0 => { let mut d = scn.clone(); d.gas_limit = d.gas_limit.max(200_000); out.push((d, 9)); }
            1 => {
                let mut d = gen_scenario(rng, Focus::Ledger, (**scn.params.gas_costs()).clone());
                d.params = scn.params.clone(); d.gas_price = scn.gas_price; d.contracts = scn.contracts.clone(); d.blobs = vec![];
                d.gas_limit = d.gas_limit.max(100_000);
                if rng.chance(1, 2) { for c in d.contracts.iter_mut() { if rng.chance(1, 2) { c.as_input = !c.as_input; } } }
                out.push((d, 9));
            }
            _ => {
                let how = rng.below(4);
                let mut d = scn.clone();
                d.contracts = dirt_contracts(&base, how);
                let mut s: Vec<Instruction> = vec![op::movi(0x10, *rng.pick(&[64u32, 5000, 100_000, 262_000])), op::aloc(0x10)];
                dirt_call_struct(&mut s, 0);
                s.extend([op::addi(0x1e, RP, OFF_ASSET), op::movi(0x1b, rng.below(3) as u32), op::not(0x18, RegId::ZERO), op::call(0x19, 0x1b, 0x1e, 0x18),
                    op::log(RegId::ONE, RegId::ONE, RegId::ZERO, RegId::ZERO), op::ret(RegId::ONE)]);
                d.script = dirt_assemble(s, &base);
                d.gas_limit = if how == 2 { 30_000 } else { 2_000_000 };
                d.coin_outs.clear(); d.blobs = vec![];
                out.push((d, how));
            }
        }
    }
    out
}

/// Runs the dirtying transactions to completion on `vm`, settling its storage after each like `MemoryClient::transact`
/// (revert on Revert / Panic / error, commit otherwise). Returns how many ran and how many ended inside a call.
pub fn dirty_vm(vm: &mut Vm, dirt: &[(Scn, u64)]) -> (usize, usize) {
    let (mut ran, mut in_call) = (0, 0);
    for (d, how) in dirt {
        let Ok(b) = build(d) else { continue };
        if *how <= 3 {
            // variant-specific innermost contract
            let c = &d.contracts[2];
            let st: &mut MemoryStorage = vm.as_mut();
            let _ = st.storage_contract_insert(&c.id, c.code.as_slice());
        }
        vm.set_single_stepping(false);
        let ok = match std::panic::catch_unwind(std::panic::AssertUnwindSafe(|| vm.transact(b.ready).map(|t| t.should_revert()).unwrap_or(true))) { Ok(r) => r, Err(_) => true };
        let rs = vm.receipts();
        let mut depth = 0i64;
        for r in rs { match r { Receipt::Call { .. } => depth += 1, Receipt::Return { .. } | Receipt::ReturnData { .. } if depth > 0 => depth -= 1, _ => {} } }
        if depth > 0 { in_call += 1; }
        let st: &mut MemoryStorage = vm.as_mut();
        if ok { st.revert(); } else { st.commit(); }
        ran += 1;
    }
    (ran, in_call)
}
