//! Single-instruction execution on a real `Interpreter` with preset registers / memory
//! (shared by the instruction-semantics streams c21, c22, c25).
use fuel_vm::{
    error::InterpreterError,
    interpreter::{Interpreter, MemoryInstance},
    prelude::{MemoryStorage, Script},
    state::ExecuteState,
};

pub type Vm = Interpreter<MemoryInstance, MemoryStorage, Script>;

pub const NREG: usize = 64;
pub const OF: usize = 2;
pub const PC: usize = 3;
pub const SSP: usize = 4;
pub const SP: usize = 5;
pub const FP: usize = 6;
pub const HP: usize = 7;
pub const ERR: usize = 8;
pub const GGAS: usize = 9;
pub const CGAS: usize = 10;
pub const IS: usize = 12;
pub const FLAG: usize = 15;
pub const GAS: u64 = 1_000_000_000_000;
pub const VM_MAX_RAM: u64 = fuel_vm::consts::VM_MAX_RAM;

pub fn new_vm() -> Vm {
    Interpreter::<_, _, Script>::with_memory_storage()
}

/// zero registers with `$one = 1` and plenty of gas
pub fn base_regs() -> [u64; NREG] {
    let mut r = [0u64; NREG];
    r[1] = 1;
    r[GGAS] = GAS;
    r[CGAS] = GAS;
    r
}

/// canonical status of one executed instruction: `ok` (ExecuteState::Proceed), another ExecuteState
/// name, the PanicReason variant name, or `OTHER-ERROR`
pub fn status<E>(res: &Result<ExecuteState, InterpreterError<E>>) -> String {
    match res {
        Ok(ExecuteState::Proceed) => "ok".to_string(),
        Ok(ExecuteState::Return(_)) => "Return".to_string(),
        Ok(ExecuteState::ReturnData(_)) => "ReturnData".to_string(),
        Ok(ExecuteState::Revert(_)) => "Revert".to_string(),
        Ok(ExecuteState::DebugEvent(_)) => "DebugEvent".to_string(),
        Err(InterpreterError::PanicInstruction(pi)) => format!("{:?}", pi.reason()),
        Err(InterpreterError::Panic(r)) => format!("{:?}", r),
        Err(_) => "OTHER-ERROR".to_string(),
    }
}

/// preset all 64 registers, execute the raw instruction through `Interpreter::instruction`
pub fn step(vm: &mut Vm, regs: &[u64; NREG], raw: u32) -> (String, [u64; NREG]) {
    vm.registers_mut().copy_from_slice(regs);
    let res = vm.instruction::<u32, false>(raw);
    let st = status(&res);
    let mut after = [0u64; NREG];
    after.copy_from_slice(vm.registers());
    (st, after)
}

/// sparse register list `idx:val` of the non-zero registers
pub fn fmt_regs(regs: &[u64; NREG]) -> String {
    let mut s = String::new();
    for (i, v) in regs.iter().enumerate() {
        if *v != 0 {
            if !s.is_empty() { s.push(' '); }
            s.push_str(&format!("{i}:{v}"));
        }
    }
    if s.is_empty() { "-".to_string() } else { s }
}

/// registers changed by the instruction, gas registers excluded: `idx:val` in index order
pub fn fmt_diff(before: &[u64; NREG], after: &[u64; NREG]) -> String {
    let mut s = String::new();
    for i in 0..NREG {
        if i == GGAS || i == CGAS { continue; }
        if before[i] != after[i] {
            s.push(' ');
            s.push_str(&format!("{i}:{}", after[i]));
        }
    }
    s
}

/// instruction word from opcode byte and argument values laid out by the table's shape
pub fn encode(op: u8, shape: &[u8], args: &[u32]) -> u32 {
    let mut w: u32 = (op as u32) << 24;
    let mut used = 0u32;
    for (k, a) in shape.iter().zip(args) {
        let b = if *k == 0 { 6 } else { *k as u32 };
        used += b;
        w |= (a & ((1u32 << b) - 1)) << (24 - used);
    }
    w
}
