pub mod instr_gen;
pub mod fields_gen;
