pub mod instr_gen;
pub mod bmt_ref;
