pub mod instr_gen;
pub mod u256;
