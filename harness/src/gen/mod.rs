pub mod instr_gen;
pub mod vmstep;
