pub mod instr_gen;
pub mod vm_gen;
