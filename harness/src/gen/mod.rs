pub mod instr_gen;
