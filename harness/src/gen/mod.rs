pub mod bmt_ref;
pub mod bmt_shared;
pub mod fields_gen;
pub mod instr_gen;
pub mod smt;
pub mod u256;
pub mod vm_gen;
pub mod vmstep;
