//! Shared generator for the whole-VM streams (C29–C32, C34): a small world of deployed contracts and
//! structured, mostly valid scripts/contracts built from blocks (ALU filler, counted loops, calls with
//! coin/gas forwarding, recursion bounded by a register, logs, stack/heap writes, storage, transfers,
//! contract-code reads, occasional faults). Every choice comes from `ctx.rng`.
#![allow(dead_code)]
use crate::ctx::Rng;
use fuel_asm::{op, GTFArgs, Instruction, RegId};
use fuel_tx::{ConsensusParameters, Receipt, Script};
use fuel_types::{AssetId, ContractId, Word};
use fuel_vm::{
    checked_transaction::{Checked, Ready},
    interpreter::{InterpreterParams, MemoryInstance},
    prelude::*,
    storage::MemoryStorage,
    util::test_helpers::TestBuilder,
};
use sha2::{Digest, Sha256};

// script-data layout (byte offsets from the script-data base kept in register R_BASE)
pub const N_CALLS: usize = 8;
pub const OFF_CALLS: u16 = 0; // N_CALLS x [contract id 32 | a 8 | b 8]
pub const OFF_ASSETS: u16 = 384; // 4 x asset id
pub const OFF_KEYS: u16 = 512; // 4 x 32-byte storage key
pub const OFF_ADDR: u16 = 640; // 32-byte address
pub const OFF_BLOB: u16 = 672; // 64 random bytes
pub const DATA_LEN: usize = 736;

pub const R_BASE: u8 = 0x10;
pub const R_T1: u8 = 0x11;
pub const R_T2: u8 = 0x12;
pub const R_T3: u8 = 0x13;
pub const R_T4: u8 = 0x14;
pub const R_T5: u8 = 0x15;
pub const R_T6: u8 = 0x16;
pub const R_T7: u8 = 0x17;
pub const R_DEPTH: u8 = 0x3e;
pub const GP_LO: u8 = 0x20;
pub const GP_N: u8 = 12;
pub const CNT_LO: u8 = 0x30;

#[derive(Clone, Copy, Debug, Default)]
pub struct Knobs {
    /// probability (per mille) that a block is a fault (out-of-range load, bad jump, ...)
    pub fault_pm: u64,
    /// probability (per mille) that a contract-id operand points at an unlisted / absent contract
    pub unlisted_pm: u64,
    /// maximum blocks per program
    pub max_blocks: u64,
    /// allow coin forwarding / transfers
    pub coins: bool,
    /// bias towards calls, recursion and callee heap allocation (C34)
    pub call_heavy: bool,
    /// bias towards instructions that read / move contract code, balances and storage (C30)
    pub code_ops: bool,
    /// scripts end by probing `GTF InputContractOutputIndex` for a few input indices and logging the answers (the only
    /// observer of the interpreter's input-index -> output-index map; a non-contract index panics InputNotFound)
    pub gtf_probe: bool,
    /// contract-id operands also point at SPECIAL ids that are never among the inputs: the all-zero id (script data slot,
    /// the base-asset bytes at VM address 32, fresh zeroed heap), the all-0xff id, the transaction id (VM address 0), a
    /// listed id with its last byte flipped; and, as a positive control in contracts, the own id at `$fp`
    pub special_ids: bool,
}
impl Knobs {
    pub fn normal() -> Self { Knobs { fault_pm: 30, unlisted_pm: 0, max_blocks: 10, coins: true, call_heavy: false, code_ops: false, gtf_probe: false, special_ids: false } }
}

fn gp(rng: &mut Rng) -> u8 { GP_LO + rng.below(GP_N as u64) as u8 }
fn src(rng: &mut Rng) -> u8 {
    match rng.below(8) { 0 => 0, 1 => 1, _ => gp(rng) }
}

/// k instructions of register arithmetic
pub fn alu(rng: &mut Rng, k: u64, out: &mut Vec<Instruction>) {
    for _ in 0..k {
        let d = gp(rng);
        let a = src(rng);
        let b = src(rng);
        let imm = (rng.word() & 0xfff) as u16;
        out.push(match rng.below(18) {
            0 => op::addi(d, a, imm & 0xff),
            1 => op::subi(d, a, imm & 0x7),
            2 => op::muli(d, a, imm & 0xf),
            3 => op::xori(d, a, imm),
            4 => op::ori(d, a, imm),
            5 => op::andi(d, a, imm),
            6 => op::slli(d, a, imm & 0x7),
            7 => op::srli(d, a, imm & 0x3f),
            8 => op::add(d, a, b),
            9 => op::sub(d, a, b),
            10 => op::xor(d, a, b),
            11 => op::move_(d, a),
            12 => op::not(d, a),
            13 => op::eq(d, a, b),
            14 => op::lt(d, a, b),
            15 => op::divi(d, a, imm & 0xf),
            16 => op::movi(d, (rng.word() & 0x3ffff) as u32),
            _ => op::modi(d, a, imm & 0x1f),
        });
    }
}

pub struct GenCtx<'a> {
    pub rng: &'a mut Rng,
    pub knobs: Knobs,
    /// is the program a contract (internal context) or the script
    pub internal: bool,
    /// call-struct indices this program may call (contracts deployed before it)
    pub callable: Vec<usize>,
    /// call-struct indices that point at unlisted or absent contracts
    pub unlisted: Vec<usize>,
    /// index of the call struct that points at this very contract (recursion), if any
    pub self_idx: Option<usize>,
    pub depth: u32,
}

fn cid_idx(g: &mut GenCtx) -> usize {
    if !g.unlisted.is_empty() && g.rng.chance(g.knobs.unlisted_pm, 1000) {
        *g.rng.pick(&g.unlisted)
    } else if !g.callable.is_empty() {
        *g.rng.pick(&g.callable)
    } else {
        g.rng.below(N_CALLS as u64) as usize
    }
}

/// pointer to the contract id / call struct operand into R_T1
fn cid_ptr(g: &mut GenCtx, idx: usize, out: &mut Vec<Instruction>) {
    if g.knobs.special_ids && g.rng.chance(1, 3) {
        match g.rng.below(if g.internal { 4 } else { 3 }) {
            0 => out.push(op::move_(R_T1, RegId::ZERO)),                       // VM address 0: the transaction id
            1 => out.push(op::movi(R_T1, 32)),                                 // VM address 32: base asset id (all zero here)
            2 => { out.push(op::movi(R_T6, 48)); out.push(op::aloc(R_T6)); out.push(op::move_(R_T1, RegId::HP)); } // fresh heap
            _ => out.push(op::move_(R_T1, RegId::FP)),                          // own contract id (listed)
        }
    } else {
        out.push(op::addi(R_T1, R_BASE, OFF_CALLS + 48 * idx as u16));
    }
}

/// fill the call-struct slots that do not hold a deployed contract with the special unlisted ids
pub fn special_slots(call_ids: &mut [ContractId; N_CALLS], n_contracts: usize) {
    let mut near = *call_ids[0]; near[31] ^= 1;
    let sp = [ContractId::zeroed(), ContractId::new([0xff; 32]), ContractId::new(near)];
    for (k, id) in sp.iter().enumerate() { if n_contracts + k < N_CALLS { call_ids[n_contracts + k] = *id; } }
}

fn call_block(g: &mut GenCtx, idx: usize, out: &mut Vec<Instruction>) {
    // a LIVE stack frame around the call ($sp > $ssp): locals with distinct words are stored before the CALL and read
    // back after the return (a mismatch reverts with the differing word), or registers are pushed / popped around it
    let live = if g.knobs.call_heavy { g.rng.below(4) } else { g.rng.below(12) };
    let words = *g.rng.pick(&[1u32, 2, 3, 5, 8, 17, 64]);
    let vals: Vec<u32> = (0..words.min(4)).map(|w| 0x2_A000 + ((g.rng.next() as u32) & 0xff0) + w).collect();
    let mask = ((g.rng.next() & 0xfff) as u32 | 1) << 4;
    match live {
        0 | 1 => {
            out.push(op::move_(R_T5, RegId::SP));
            out.push(op::cfei(words * 8));
            for (w, v) in vals.iter().enumerate() { out.push(op::movi(R_T6, *v)); out.push(op::sw(R_T5, R_T6, w as u16)); }
        }
        2 => out.push(op::pshl(mask)),
        _ => {}
    }
    cid_ptr(g, idx, out);
    let asset = g.rng.below(2) as u16;
    out.push(op::addi(R_T2, R_BASE, OFF_ASSETS + 32 * asset));
    let coins = if g.knobs.coins && g.rng.chance(1, 3) { g.rng.below(5) as u32 } else { 0 };
    out.push(op::movi(R_T3, coins));
    if g.rng.chance(1, 2) {
        out.push(op::call(R_T1, R_T3, R_T2, RegId::CGAS));
    } else {
        let gas = *g.rng.pick(&[0u32, 1, 50, 500, 5_000, 50_000, 262_143]);
        out.push(op::movi(R_T4, gas));
        out.push(op::call(R_T1, R_T3, R_T2, R_T4));
    }
    match live {
        0 | 1 => {
            for (w, v) in vals.iter().enumerate() {
                out.push(op::lw(R_T7, R_T5, w as u16));
                out.push(op::movi(R_T6, *v));
                out.push(op::xor(R_T7, R_T7, R_T6));
                out.push(op::jnzf(R_T7, RegId::ZERO, 1));
                out.push(op::jmpf(RegId::ZERO, 1));
                out.push(op::rvrt(R_T7));
            }
            if live == 0 { out.push(op::cfsi(words * 8)); }
        }
        2 => out.push(op::popl(mask)),
        _ => {}
    }
}

/// one structured block
pub fn block(g: &mut GenCtx, out: &mut Vec<Instruction>) {
    if g.rng.chance(g.knobs.fault_pm, 1000) {
        match g.rng.below(6) {
            0 => { out.push(op::not(R_T1, RegId::ZERO)); out.push(op::lw(gp(g.rng), R_T1, 0)); }
            1 => out.push(op::ji(0x00ff_ffff)),
            2 => { out.push(op::movi(R_T1, 1)); out.push(op::div(gp(g.rng), R_T1, RegId::ZERO)); out.push(op::sw(RegId::ZERO, R_T1, 0)); }
            3 => out.push(op::cfsi(0x00ff_fff0)),
            4 => { out.push(op::not(R_T1, RegId::ZERO)); out.push(op::aloc(R_T1)); }
            _ => { out.push(op::movi(R_T1, 40)); out.push(op::jmp(R_T1)); }
        }
        return;
    }
    let pick = g.rng.below(if g.internal { 16 } else { 14 });
    let pick = if !g.internal && pick < 2 && !g.callable.is_empty() && g.rng.chance(1, 2) { 3 } else { pick };
    let pick = if g.knobs.code_ops && g.rng.chance(1, 2) { *g.rng.pick(&[10u64, 10, 11, 3, if g.internal { 14 } else { 10 }, if g.internal { 15 } else { 11 }]) } else { pick };
    let pick = if g.knobs.call_heavy && g.rng.chance(1, 3) { *g.rng.pick(&[3u64, 5, 9, 8]) } else { pick };
    match pick {
        0 | 1 => { let k = g.rng.range(1, 6); alu(g.rng, k, out); }
        2 => {
            // counted loop
            if g.depth >= 2 { let k = g.rng.range(1, 4); alu(g.rng, k, out); return; }
            let cnt = CNT_LO + g.depth as u8;
            let n = g.rng.range(1, 5) as u32;
            out.push(op::movi(cnt, n));
            let mut body = vec![];
            g.depth += 1;
            let nb = g.rng.range(0, 2);
            for _ in 0..nb { block(g, &mut body); }
            g.depth -= 1;
            if body.len() > 60 { body.truncate(0); }
            let blen = body.len() as u16;
            out.extend(body);
            out.push(op::subi(cnt, cnt, 1));
            out.push(op::jnzb(cnt, RegId::ZERO, blen));
        }
        3 | 4 => {
            if g.depth >= 2 && g.rng.chance(1, 2) { alu(g.rng, 2, out); return; }
            let idx = cid_idx(g);
            call_block(g, idx, out);
        }
        5 => {
            // bounded self recursion through the depth register
            if let Some(me) = g.self_idx {
                // skip the call when the depth register is zero
                let mut c = vec![op::subi(R_DEPTH, R_DEPTH, 1)];
                call_block(g, me, &mut c);
                out.push(op::jnzf(R_DEPTH, RegId::ZERO, 1));
                out.push(op::jmpf(RegId::ZERO, c.len() as u32));
                out.extend(c);
            } else {
                out.push(op::log(gp(g.rng), gp(g.rng), RegId::ZERO, RegId::ONE));
            }
        }
        6 => out.push(op::log(src(g.rng), src(g.rng), src(g.rng), src(g.rng))),
        7 => {
            let len = *g.rng.pick(&[0u32, 1, 7, 8, 9, 32, 64]);
            out.push(op::addi(R_T1, R_BASE, OFF_BLOB));
            out.push(op::movi(R_T2, len));
            out.push(op::logd(src(g.rng), RegId::ZERO, R_T1, R_T2));
        }
        8 => {
            // stack frame extension and stores into it
            let words = g.rng.range(1, 8) as u32;
            out.push(op::move_(R_T5, RegId::SP));
            out.push(op::cfei(words * 8));
            for w in 0..words.min(3) { out.push(op::sw(R_T5, src(g.rng), w as u16)); }
            if g.rng.chance(1, 2) { out.push(op::lw(gp(g.rng), R_T5, 0)); }
            if g.rng.chance(1, 2) { out.push(op::cfsi(words * 8)); }
        }
        9 => {
            // heap allocation and a store into it
            let n = *g.rng.pick(&[8u32, 16, 24, 64, 1024]);
            out.push(op::movi(R_T6, n));
            out.push(op::aloc(R_T6));
            out.push(op::sw(RegId::HP, src(g.rng), 0));
            if g.rng.chance(1, 2) { out.push(op::lw(gp(g.rng), RegId::HP, 0)); }
        }
        10 => {
            // balance / code size / code root / code copy of some contract
            let idx = cid_idx(g);
            cid_ptr(g, idx, out);
            out.push(op::addi(R_T2, R_BASE, OFF_ASSETS));
            match g.rng.below(5) {
                0 => out.push(op::bal(gp(g.rng), R_T2, R_T1)),
                1 => out.push(op::csiz(gp(g.rng), R_T1)),
                2 => {
                    out.push(op::movi(R_T6, 32));
                    out.push(op::aloc(R_T6));
                    out.push(op::croo(RegId::HP, R_T1));
                }
                3 => {
                    out.push(op::movi(R_T6, 16));
                    out.push(op::aloc(R_T6));
                    out.push(op::ccp(RegId::HP, R_T1, RegId::ZERO, R_T6));
                }
                _ => {
                    // LDC from a contract is only legal with $sp == $ssp; still interesting otherwise
                    out.push(op::movi(R_T6, 8));
                    out.push(op::ldc(R_T1, RegId::ZERO, R_T6, 0));
                }
            }
        }
        11 => {
            // transfer to a contract
            let idx = cid_idx(g);
            cid_ptr(g, idx, out);
            out.push(op::addi(R_T2, R_BASE, OFF_ASSETS + 32 * g.rng.below(2) as u16));
            out.push(op::movi(R_T3, if g.knobs.coins && !g.rng.chance(1, 12) { g.rng.range(1, 3) as u32 } else { 0 }));
            out.push(op::tr(R_T1, R_T3, R_T2));
        }
        12 => {
            // transfer to the variable output
            out.push(op::addi(R_T1, R_BASE, OFF_ADDR));
            out.push(op::addi(R_T2, R_BASE, OFF_ASSETS));
            // amount (rarely zero), output index (the variable output is output 0; rarely a wrong index)
            out.push(op::movi(R_T3, if g.rng.chance(1, 12) { 0 } else { g.rng.range(1, 3) as u32 }));
            out.push(op::movi(R_T4, if g.rng.chance(1, 10) { g.rng.below(6) as u32 } else { 0 }));
            out.push(op::tro(R_T1, R_T4, R_T3, R_T2));
        }
        13 => {
            let mask = (g.rng.next() & 0xfff) as u32;
            out.push(op::pshl(mask << 4));
            alu(g.rng, 2, out);
            out.push(op::popl(mask << 4));
        }
        14 => {
            // contract storage
            let k = g.rng.below(4) as u16;
            out.push(op::addi(R_T1, R_BASE, OFF_KEYS + 32 * k));
            if g.rng.chance(1, 2) { out.push(op::sww(R_T1, R_T7, src(g.rng))); }
            else { out.push(op::srw(gp(g.rng), R_T7, R_T1, 0)); }
        }
        _ => {
            // mint / burn
            out.push(op::addi(R_T1, R_BASE, OFF_KEYS));
            out.push(op::movi(R_T3, g.rng.below(5) as u32));
            if g.rng.chance(2, 3) { out.push(op::mint(R_T3, R_T1)); } else { out.push(op::burn(R_T3, R_T1)); }
        }
    }
}

fn epilogue(g: &mut GenCtx, out: &mut Vec<Instruction>) {
    match g.rng.below(20) {
        0 => out.push(op::rvrt(src(g.rng))),
        1..=7 => {
            let len = *g.rng.pick(&[0u32, 1, 8, 31, 32, 33, 64]);
            out.push(op::addi(R_T1, R_BASE, OFF_BLOB));
            out.push(op::movi(R_T2, len));
            out.push(op::retd(R_T1, R_T2));
        }
        _ => out.push(op::ret(src(g.rng))),
    }
}

/// a whole program: prologue (script-data base), blocks, epilogue
pub fn program(g: &mut GenCtx) -> Vec<Instruction> {
    let mut out = vec![op::gtf_args(R_BASE, RegId::ZERO, GTFArgs::ScriptData)];
    if !g.internal {
        if g.rng.chance(1, 2) { out.push(op::movi(R_T1, 3)); out.push(op::flag(R_T1)); }
        out.push(op::movi(R_DEPTH, if g.knobs.call_heavy { g.rng.range(1, 6) as u32 } else { g.rng.below(4) as u32 }));
    }
    let nb = g.rng.range(1, g.knobs.max_blocks.max(1));
    for _ in 0..nb { block(g, &mut out); }
    if g.knobs.gtf_probe && !g.internal && g.rng.chance(2, 3) {
        let n = g.rng.range(1, 3);
        for _ in 0..n {
            out.push(op::movi(R_T1, g.rng.below(6) as u32));
            out.push(op::gtf_args(R_T2, R_T1, GTFArgs::InputContractOutputIndex));
            out.push(op::log(R_T1, R_T2, RegId::ZERO, RegId::ZERO));
        }
    }
    epilogue(g, &mut out);
    out
}

pub struct World {
    pub tb: TestBuilder,
    /// what the call structs point at
    pub call_ids: [ContractId; N_CALLS],
    /// call-struct indices whose contract exists
    pub deployed: Vec<usize>,
    /// call-struct indices listed as tx inputs
    pub listed: Vec<usize>,
    pub assets: [AssetId; 4],
    pub gas_limit: Word,
}

pub struct Case {
    pub checked: Checked<Script>,
    pub storage: MemoryStorage,
    pub params: ConsensusParameters,
    pub script: Vec<Instruction>,
    pub call_ids: [ContractId; N_CALLS],
    pub listed: Vec<usize>,
    pub deployed: Vec<usize>,
    pub gas_limit: Word,
}

impl Case {
    pub fn ready(&self) -> Ready<Script> {
        self.checked.clone().into_ready(0, self.params.gas_costs(), self.params.fee_params(), None).expect("ready")
    }
    pub fn iparams(&self) -> InterpreterParams { InterpreterParams::new(0, &self.params) }
    pub fn fresh_vm(&self) -> Interpreter<MemoryInstance, MemoryStorage, Script> {
        Interpreter::with_storage(MemoryInstance::new(), self.storage.clone(), self.iparams())
    }
}

/// Deploy `n_contracts` generated contracts (each may call the ones before it and itself), then build a
/// script transaction. `n_listed` of the deployed contracts are listed as inputs; with
/// `knobs.unlisted_pm > 0` the remaining call structs point at deployed-but-unlisted or absent contracts.
pub fn gen_case(rng: &mut Rng, knobs: Knobs, gas_limit: Word, custom_script: Option<Vec<u8>>) -> Case {
    gen_case_with(rng, knobs, gas_limit, custom_script, None, None)
}

/// as `gen_case`, with a gas schedule other than the default and/or given bytes as the code of the first contract
pub fn gen_case_with(rng: &mut Rng, knobs: Knobs, gas_limit: Word, custom_script: Option<Vec<u8>>,
                     costs: Option<fuel_tx::GasCosts>, custom_contract: Option<Vec<u8>>) -> Case {
    let seed = rng.next();
    let mut tb = TestBuilder::new(seed);
    if let Some(c) = &costs { tb.with_gas_costs(c.clone()); }
    let n_contracts = rng.range(1, 4) as usize;
    let base = AssetId::zeroed(); // TestBuilder's consensus parameters use the zero base asset
    let assets = [base, AssetId::new(rng.arr32()), AssetId::new(rng.arr32()), AssetId::new(rng.arr32())];
    let mut call_ids = [ContractId::zeroed(); N_CALLS];
    // absent contracts by default
    for c in call_ids.iter_mut() { *c = ContractId::new(rng.arr32()); }
    let mut deployed = vec![];
    let keys: Vec<[u8; 32]> = (0..4).map(|i| { let mut k = [0u8; 32]; k[31] = i as u8; k[0] = rng.next() as u8 & 1; k }).collect();
    let addr = rng.arr32();
    let blob = rng.bytes(64);
    for i in 0..n_contracts {
        let callable: Vec<usize> = deployed.clone();
        let absent: Vec<usize> = if knobs.unlisted_pm > 0 { (n_contracts..N_CALLS).collect() } else { vec![] };
        let mut g = GenCtx { rng, knobs, internal: true, callable, unlisted: absent, self_idx: None, depth: 0 };
        // recursion goes through a dedicated slot whose id is patched below: contract i may call slot i itself
        g.self_idx = Some(i);
        g.knobs.max_blocks = knobs.max_blocks.min(6);
        let code = program(&mut g);
        let bal = if rng.chance(1, 2) { Some((assets[rng.below(2) as usize], rng.below(1000))) } else { None };
        let created = match (&custom_contract, i) {
            (Some(bytes), 0) => tb.setup_contract_bytes(bytes.clone(), bal, None),
            _ => tb.setup_contract(code, bal, None),
        };
        call_ids[i] = created.contract_id;
        deployed.push(i);
    }
    if knobs.special_ids { special_slots(&mut call_ids, n_contracts); }
    // which deployed contracts are listed
    let mut listed = deployed.clone();
    let mut unlisted: Vec<usize> = (n_contracts..N_CALLS).collect();
    if knobs.unlisted_pm > 0 && listed.len() > 1 && rng.chance(1, 2) {
        let drop = rng.below(listed.len() as u64) as usize;
        unlisted.push(listed.remove(drop));
    }
    let script: Vec<Instruction> = {
        let mut g = GenCtx { rng, knobs, internal: false, callable: listed.clone(), unlisted: unlisted.clone(), self_idx: None, depth: 0 };
        program(&mut g)
    };
    let mut data = Vec::with_capacity(DATA_LEN);
    for i in 0..N_CALLS {
        data.extend_from_slice(call_ids[i].as_ref());
        data.extend_from_slice(&rng.word().to_be_bytes());
        data.extend_from_slice(&rng.word().to_be_bytes());
    }
    for a in assets.iter() { data.extend_from_slice(a.as_ref()); }
    for k in keys.iter() { data.extend_from_slice(k); }
    data.extend_from_slice(&addr);
    data.extend_from_slice(&blob);
    assert_eq!(data.len(), DATA_LEN);
    let script_bytes: Vec<u8> = match custom_script { Some(b) => b, None => script.iter().copied().collect() };
    tb.start_script_bytes(script_bytes, data);
    tb.script_gas_limit(gas_limit);
    tb.gas_price(0);
    tb.variable_output(assets[0]);
    tb.fee_input();
    tb.coin_input(assets[0], 1_000 + rng.below(1000));
    tb.coin_input(assets[1], 1 + rng.below(1000));
    for &i in &listed { tb.contract_input(call_ids[i]); }
    for &i in &listed { tb.contract_output(&call_ids[i]); }
    tb.change_output(assets[0]);
    if rng.chance(2, 3) { tb.change_output(assets[1]); }
    let checked = tb.build();
    let storage = tb.get_storage().clone();
    let mut params = ConsensusParameters::standard();
    if let Some(c) = costs { params.set_gas_costs(c); }
    Case { checked, storage, params, script, call_ids, listed, deployed, gas_limit }
}

/// One world (2-4 deployed contracts, one storage) and `k` transactions over it whose contract-input SETS and ORDERS
/// differ (random subsets incl. the empty one, shuffled input order, contract outputs in a different order), each with
/// its own script that addresses listed, deployed-but-unlisted and absent contracts. For instance-reuse checks.
pub fn gen_world_cases(rng: &mut Rng, knobs: Knobs, gas_limit: Word, k: usize) -> Vec<Case> {
    let seed = rng.next();
    let mut tb = TestBuilder::new(seed);
    let n_contracts = rng.range(2, 4) as usize;
    let assets = [AssetId::zeroed(), AssetId::new(rng.arr32()), AssetId::new(rng.arr32()), AssetId::new(rng.arr32())];
    let mut call_ids = [ContractId::zeroed(); N_CALLS];
    for c in call_ids.iter_mut() { *c = ContractId::new(rng.arr32()); }
    let mut deployed = vec![];
    for i in 0..n_contracts {
        let callable: Vec<usize> = deployed.clone();
        let sp: Vec<usize> = if knobs.special_ids { (n_contracts..(n_contracts + 3).min(N_CALLS)).collect() } else { vec![] };
        let mut g = GenCtx { rng, knobs, internal: true, callable, unlisted: sp, self_idx: Some(i), depth: 0 };
        g.knobs.max_blocks = knobs.max_blocks.min(5);
        g.knobs.unlisted_pm = if knobs.special_ids { 250 } else { 0 };
        let code = program(&mut g);
        let bal = Some((assets[rng.below(2) as usize], 10 + rng.below(1000)));
        let created = tb.setup_contract(code, bal, None);
        call_ids[i] = created.contract_id;
        deployed.push(i);
    }
    if knobs.special_ids { special_slots(&mut call_ids, n_contracts); }
    let storage = tb.get_storage().clone();
    let mut out = vec![];
    for _ in 0..k {
        // subset + order
        let mut listed: Vec<usize> = deployed.iter().copied().filter(|_| rng.chance(1, 2)).collect();
        for i in (1..listed.len()).rev() { let j = rng.below(i as u64 + 1) as usize; listed.swap(i, j); }
        let mut unlisted: Vec<usize> = deployed.iter().copied().filter(|i| !listed.contains(i)).collect();
        if unlisted.is_empty() || rng.chance(1, 4) { unlisted.extend(n_contracts..N_CALLS); }
        let script: Vec<Instruction> = {
            let mut kn = knobs; kn.gtf_probe = true;
            // a third of the scripts do nothing that can panic before the probes
            if rng.chance(1, 3) { kn.max_blocks = 1; kn.unlisted_pm = 0; }
            let mut g = GenCtx { rng, knobs: kn, internal: false, callable: listed.clone(), unlisted, self_idx: None, depth: 0 };
            program(&mut g)
        };
        let mut data = Vec::with_capacity(DATA_LEN);
        for i in 0..N_CALLS {
            data.extend_from_slice(call_ids[i].as_ref());
            data.extend_from_slice(&rng.word().to_be_bytes());
            data.extend_from_slice(&rng.word().to_be_bytes());
        }
        for a in assets.iter() { data.extend_from_slice(a.as_ref()); }
        for i in 0..4u8 { let mut key = [0u8; 32]; key[31] = i; data.extend_from_slice(&key); }
        data.extend_from_slice(&rng.arr32());
        data.extend_from_slice(&rng.bytes(64));
        assert_eq!(data.len(), DATA_LEN);
        tb.start_script(script.clone(), data);
        tb.script_gas_limit(gas_limit);
        tb.gas_price(0);
        tb.variable_output(assets[0]);
        // contract inputs at varying positions among the other inputs
        let before = rng.below(3);
        if before >= 1 { tb.fee_input(); }
        if before >= 2 { tb.coin_input(assets[1], 1 + rng.below(1000)); }
        for &i in &listed { tb.contract_input(call_ids[i]); }
        if before < 1 { tb.fee_input(); }
        if before < 2 { tb.coin_input(assets[1], 1 + rng.below(1000)); }
        tb.coin_input(assets[0], 1_000 + rng.below(1000));
        let mut outs = listed.clone();
        if rng.chance(1, 2) { outs.reverse(); }
        if rng.chance(1, 2) { tb.change_output(assets[1]); }
        for &i in &outs { tb.contract_output(&call_ids[i]); }
        tb.change_output(assets[0]);
        let checked = tb.build();
        out.push(Case { checked, storage: storage.clone(), params: ConsensusParameters::standard(), script, call_ids, listed, deployed: deployed.clone(), gas_limit });
    }
    out
}

/// a case with given contract programs (slot i of the call structs = contract i, all listed), a given script and given
/// `(a, b)` call parameters per slot
pub fn fixed_case(seed: u64, contracts: &[Vec<Instruction>], script: Vec<Instruction>, slot_ab: &[(u64, u64)], gas_limit: Word) -> Case {
    let mut rng = Rng(seed);
    let mut tb = TestBuilder::new(seed);
    let assets = [AssetId::zeroed(), AssetId::new(rng.arr32()), AssetId::new(rng.arr32()), AssetId::new(rng.arr32())];
    let mut call_ids = [ContractId::zeroed(); N_CALLS];
    for c in call_ids.iter_mut() { *c = ContractId::new(rng.arr32()); }
    let mut deployed = vec![];
    for (i, code) in contracts.iter().enumerate() {
        let created = tb.setup_contract(code.clone(), Some((assets[0], 1_000)), None);
        call_ids[i] = created.contract_id;
        deployed.push(i);
    }
    special_slots(&mut call_ids, contracts.len());
    let mut data = Vec::with_capacity(DATA_LEN);
    for i in 0..N_CALLS {
        data.extend_from_slice(call_ids[i].as_ref());
        let (a, b) = slot_ab.get(i).copied().unwrap_or((0, 0));
        data.extend_from_slice(&a.to_be_bytes());
        data.extend_from_slice(&b.to_be_bytes());
    }
    for a in assets.iter() { data.extend_from_slice(a.as_ref()); }
    data.resize(DATA_LEN, 0x5a);
    tb.start_script(script.clone(), data);
    tb.script_gas_limit(gas_limit);
    tb.gas_price(0);
    tb.variable_output(assets[0]);
    tb.fee_input();
    tb.coin_input(assets[0], 1_000);
    for &i in &deployed { tb.contract_input(call_ids[i]); }
    for &i in &deployed { tb.contract_output(&call_ids[i]); }
    tb.change_output(assets[0]);
    let checked = tb.build();
    let storage = tb.get_storage().clone();
    Case { checked, storage, params: ConsensusParameters::standard(), script, call_ids, listed: deployed.clone(), deployed, gas_limit }
}

/// canonical digest of everything the whole-VM properties call "the result"
pub fn digest_result(state: &str, receipts: &[Receipt], tx: &Script, storage: &MemoryStorage) -> String {
    use fuel_types::canonical::Serialize;
    let mut h = Sha256::new();
    h.update(state.as_bytes());
    for r in receipts { h.update(r.to_bytes()); }
    h.update(tx.to_bytes());
    h.update(format!("{storage:?}").as_bytes());
    crate::util::hex(&h.finalize()[..16])
}

pub fn state_str(s: &ProgramState) -> String {
    match s {
        ProgramState::Return(w) => format!("ret:{w}"),
        ProgramState::ReturnData(d) => format!("retd:{}", crate::util::hex(d.as_ref())),
        ProgramState::Revert(w) => format!("rvrt:{w}"),
        ProgramState::RunProgram(_) => "dbg-run".into(),
        ProgramState::VerifyPredicate(_) => "dbg-pred".into(),
    }
}

/// variant name of an interpreter error, without payload
pub fn err_name<E>(e: &InterpreterError<E>) -> String {
    match e {
        InterpreterError::PanicInstruction(p) => format!("PanicInstruction:{:?}", p.reason()),
        InterpreterError::Panic(r) => format!("Panic:{r:?}"),
        InterpreterError::NoTransactionInitialized => "NoTransactionInitialized".into(),
        InterpreterError::DebugStateNotInitialized => "DebugStateNotInitialized".into(),
        InterpreterError::Bug(_) => "Bug".into(),
        InterpreterError::CheckError(_) => "CheckError".into(),
        InterpreterError::Storage(_) => "Storage".into(),
        _ => "Other".into(),
    }
}
