//! Independent RFC 6962 reference (§2.1 MTH, §2.1.1 PATH and the audit-path recomputation) written
//! directly against the `sha2` crate. It shares no code with `fuel_merkle::binary`; the C09/C10/C11
//! property oracles compare the implementation's outputs with it.
use sha2::{Digest, Sha256};

pub type B32 = [u8; 32];

pub fn sha(parts: &[&[u8]]) -> B32 {
    let mut h = Sha256::new();
    for p in parts { h.update(p); }
    h.finalize().into()
}
pub fn leaf_hash(d: &[u8]) -> B32 { sha(&[&[0x00u8], d]) }
pub fn node_hash(l: &B32, r: &B32) -> B32 { sha(&[&[0x01u8], l, r]) }

/// largest power of two strictly less than n (n >= 2)
pub fn split(n: usize) -> usize { let mut k = 1usize; while k * 2 < n { k *= 2; } k }
pub fn split64(n: u64) -> u64 { let mut k = 1u64; while k < n - k { k *= 2; } k }

/// MTH over leaf hashes (non-empty)
pub fn mth_hashes(hs: &[B32]) -> B32 {
    match hs.len() {
        0 => sha(&[]),
        1 => hs[0],
        n => { let k = split(n); node_hash(&mth_hashes(&hs[..k]), &mth_hashes(&hs[k..])) }
    }
}
pub fn mth<T: AsRef<[u8]>>(leaves: &[T]) -> B32 {
    let hs: Vec<B32> = leaves.iter().map(|d| leaf_hash(d.as_ref())).collect();
    mth_hashes(&hs)
}
/// PATH(m, D) over leaf hashes, deepest sibling first
pub fn audit_path(m: usize, hs: &[B32]) -> Vec<B32> {
    let n = hs.len();
    if n <= 1 { return vec![]; }
    let k = split(n);
    if m < k { let mut p = audit_path(m, &hs[..k]); p.push(mth_hashes(&hs[k..])); p }
    else { let mut p = audit_path(m - k, &hs[k..]); p.push(mth_hashes(&hs[..k])); p }
}
/// audit-path recomputation: root from (index m, count n, leaf hash, path deepest-first); None when
/// the path length does not fit the shape of (m, n)
pub fn root_from_path(m: u64, n: u64, leaf: B32, path: &[B32]) -> Option<B32> {
    if n <= 1 {
        return if n == 1 && m == 0 && path.is_empty() { Some(leaf) } else { None };
    }
    let (last, init) = path.split_last()?;
    let k = split64(n);
    if m < k { root_from_path(m, k, leaf, init).map(|x| node_hash(&x, last)) }
    else { root_from_path(m - k, n - k, leaf, init).map(|x| node_hash(last, &x)) }
}
