//! 256-bit big-endian helpers and curve constants for the signature streams (C16, C17).
//! Only used to *craft inputs* (boundary scalars); never to compute an expected answer.
pub type U = [u8; 32];

pub const fn h(s: &str) -> U {
    let b = s.as_bytes();
    let mut out = [0u8; 32];
    let mut i = 0;
    while i < 32 {
        out[i] = (nib(b[2 * i]) << 4) | nib(b[2 * i + 1]);
        i += 1;
    }
    out
}
const fn nib(c: u8) -> u8 { if c >= b'a' { c - b'a' + 10 } else if c >= b'A' { c - b'A' + 10 } else { c - b'0' } }

/// secp256k1 group order n, (n-1)/2, field prime p
pub const K1_N: U = h("fffffffffffffffffffffffffffffffebaaedce6af48a03bbfd25e8cd0364141");
pub const K1_HALF: U = h("7fffffffffffffffffffffffffffffff5d576e7357a4501ddfe92f46681b20a0");
pub const K1_P: U = h("fffffffffffffffffffffffffffffffffffffffffffffffffffffffefffffc2f");
/// secp256r1 group order n, (n-1)/2, field prime p
pub const R1_N: U = h("ffffffff00000000ffffffffffffffffbce6faada7179e84f3b9cac2fc632551");
pub const R1_HALF: U = h("7fffffff800000007fffffffffffffffde737d56d38bcf4279dce5617e3192a8");
pub const R1_P: U = h("ffffffff00000001000000000000000000000000ffffffffffffffffffffffff");

pub fn add(a: &U, b: &U) -> (U, bool) {
    let mut out = [0u8; 32];
    let mut c = 0u16;
    for i in (0..32).rev() {
        let t = a[i] as u16 + b[i] as u16 + c;
        out[i] = t as u8;
        c = t >> 8;
    }
    (out, c != 0)
}
pub fn sub(a: &U, b: &U) -> (U, bool) {
    let mut out = [0u8; 32];
    let mut br = 0i16;
    for i in (0..32).rev() {
        let mut t = a[i] as i16 - b[i] as i16 - br;
        if t < 0 { t += 256; br = 1 } else { br = 0 }
        out[i] = t as u8;
    }
    (out, br != 0)
}
pub fn small(x: u64) -> U { let mut o = [0u8; 32]; o[24..].copy_from_slice(&x.to_be_bytes()); o }
pub fn add_small(a: &U, x: u64) -> U { add(a, &small(x)).0 }
pub fn sub_small(a: &U, x: u64) -> U { sub(a, &small(x)).0 }
pub fn lt(a: &U, b: &U) -> bool { a < b }
pub fn is_zero(a: &U) -> bool { a.iter().all(|b| *b == 0) }
/// `n - a` (for 0 < a < n)
pub fn neg_mod(n: &U, a: &U) -> U { sub(n, a).0 }
pub const MAX: U = [0xff; 32];
pub const TWO255: U = h("8000000000000000000000000000000000000000000000000000000000000000");
