//! Shared by the sparse-Merkle streams (c12, c13, c14): an observable node storage, the independent
//! reference implementation of the compact sparse Merkle root (the property's own definition, written
//! against `sha2` only), clustered-key generators and canonical printing.
use crate::{ctx::Rng, util::hex};
use fuel_merkle::{
    sparse::{MerkleTreeKey, Primitive},
    storage::{Mappable, StorageInspect, StorageMutate},
};
use sha2::{Digest, Sha256};
use std::{borrow::Cow, collections::BTreeMap};

pub type B32 = [u8; 32];
pub const ZERO: B32 = [0u8; 32];

/// The node table (same shape as `in_memory::NodesTable`, but `Clone` so that `StorageMap<Tbl>` can be cloned
/// to simulate a restart from persisted nodes).
#[derive(Clone, Debug, Default)]
pub struct Tbl;
impl Mappable for Tbl {
    type Key = Self::OwnedKey;
    type OwnedKey = B32;
    type OwnedValue = Primitive;
    type Value = Self::OwnedValue;
}
pub type NodesTable = Tbl;

/// Node storage whose content can be listed (the crate's `StorageMap` cannot be iterated).
#[derive(Clone, Default, Debug)]
pub struct ObsStore {
    pub map: BTreeMap<B32, Primitive>,
    pub inserts: u64,
    pub removes: u64,
}
impl StorageInspect<NodesTable> for ObsStore {
    type Error = core::convert::Infallible;
    fn get(&self, key: &B32) -> Result<Option<Cow<'_, Primitive>>, Self::Error> { Ok(self.map.get(key).map(Cow::Borrowed)) }
    fn contains_key(&self, key: &B32) -> Result<bool, Self::Error> { Ok(self.map.contains_key(key)) }
}
impl StorageMutate<NodesTable> for ObsStore {
    fn replace(&mut self, key: &B32, value: &Primitive) -> Result<Option<Primitive>, Self::Error> { self.inserts += 1; Ok(self.map.insert(*key, *value)) }
    fn take(&mut self, key: &B32) -> Result<Option<Primitive>, Self::Error> { self.removes += 1; Ok(self.map.remove(key)) }
}

pub fn tkey(k: &B32) -> MerkleTreeKey { unsafe { MerkleTreeKey::convert(*k) } }

pub fn sha(parts: &[&[u8]]) -> B32 { let mut h = Sha256::new(); for p in parts { h.update(p); } h.finalize().into() }

pub fn bit(k: &B32, i: usize) -> bool { (k[i / 8] >> (7 - i % 8)) & 1 == 1 }

/// THE PROPERTY'S DEFINITION: compact sparse Merkle root of a finite map (key -> value bytes):
/// empty = 32 zero bytes, single entry = H(0x00 || key || H(value)) at whatever depth it is alone,
/// otherwise H(0x01 || left || right) split by the next key bit.
pub fn ref_root(map: &BTreeMap<B32, Vec<u8>>) -> B32 {
    let entries: Vec<(B32, B32)> = map.iter().map(|(k, v)| (*k, sha(&[v]))).collect();
    ref_sub(&entries, 0)
}
pub fn ref_leaf(k: &B32, vh: &B32) -> B32 { sha(&[&[0u8], k, vh]) }
pub fn ref_node(l: &B32, r: &B32) -> B32 { sha(&[&[1u8], l, r]) }
fn ref_sub(e: &[(B32, B32)], d: usize) -> B32 {
    match e.len() {
        0 => ZERO,
        1 => ref_leaf(&e[0].0, &e[0].1),
        _ => {
            // entries are sorted, so the ones with bit d = 0 come first
            let split = e.iter().position(|(k, _)| bit(k, d)).unwrap_or(e.len());
            ref_node(&ref_sub(&e[..split], d + 1), &ref_sub(&e[split..], d + 1))
        }
    }
}

/// Reference compact-tree walk for key `q`: (side hashes leaf-to-root, Some((key, value hash)) of the leaf
/// the path ends at / None for an empty subtree).
pub fn ref_path(map: &BTreeMap<B32, Vec<u8>>, q: &B32) -> (Vec<B32>, Option<(B32, B32)>) {
    let entries: Vec<(B32, B32)> = map.iter().map(|(k, v)| (*k, sha(&[v]))).collect();
    let mut sides = vec![];
    let mut e: &[(B32, B32)] = &entries;
    let mut d = 0;
    while e.len() > 1 {
        let split = e.iter().position(|(k, _)| bit(k, d)).unwrap_or(e.len());
        let (l, r) = e.split_at(split);
        if bit(q, d) { sides.push(ref_sub(l, d + 1)); e = r; } else { sides.push(ref_sub(r, d + 1)); e = l; }
        d += 1;
    }
    sides.reverse();
    (sides, e.first().copied())
}

/// the verifier of the property text: fold the side hashes from `start` upwards along the bits of `q`
pub fn ref_fold(q: &B32, sides: &[B32], start: B32) -> Option<B32> {
    if sides.len() > 256 { return None; }
    let mut cur = start;
    for (i, s) in sides.iter().enumerate() {
        let idx = sides.len() - 1 - i;
        cur = if bit(q, idx) { ref_node(s, &cur) } else { ref_node(&cur, s) };
    }
    Some(cur)
}

pub fn prim_bytes(k: &B32, p: &Primitive) -> Vec<u8> {
    let mut v = Vec::with_capacity(101);
    v.extend_from_slice(k); v.extend_from_slice(&p.0.to_be_bytes()); v.push(p.1); v.extend_from_slice(&p.2); v.extend_from_slice(&p.3);
    v
}
/// digest of (hash, primitive) entries in the given order
pub fn entries_digest<'a>(it: impl Iterator<Item = (&'a B32, &'a Primitive)>) -> String {
    let mut h = Sha256::new();
    for (k, p) in it { h.update(prim_bytes(k, p)); }
    let d: B32 = h.finalize().into();
    hex(&d)
}
pub fn store_summary(s: &ObsStore) -> String { format!("{} {}", s.map.len(), entries_digest(s.map.iter())) }
pub fn dump(s: &ObsStore) -> String {
    if s.map.is_empty() { return "-".into(); }
    s.map.iter().map(|(k, p)| format!("{}:{}:{}:{}:{}", hex(k), p.0, p.1, hex(&p.2), hex(&p.3))).collect::<Vec<_>>().join(",")
}

/// every stored internal node's non-zero children are stored, starting from `root` (C13 closure);
/// returns the first dangling hash
pub fn closure_gap(s: &ObsStore, root: &B32) -> Option<B32> {
    if *root == ZERO { return None; }
    let mut todo = vec![*root];
    while let Some(h) = todo.pop() {
        match s.map.get(&h) {
            None => return Some(h),
            Some(p) => if p.1 == 1 { for c in [p.2, p.3] { if c != ZERO { todo.push(c); } } },
        }
    }
    None
}
/// number of stored nodes reachable from the root
pub fn reachable(s: &ObsStore, root: &B32) -> usize {
    if *root == ZERO { return 0; }
    let mut n = 0; let mut todo = vec![*root];
    while let Some(h) = todo.pop() {
        if let Some(p) = s.map.get(&h) { n += 1; if p.1 == 1 { for c in [p.2, p.3] { if c != ZERO { todo.push(c); } } } }
    }
    n
}

/// Adversarially clustered key pools: a few anchors (random / all-zero / all-one) and keys that share
/// exactly `p` leading bits with an anchor for boundary `p`, with zero / one / random tails.
pub const PREFIXES: &[usize] = &[0, 1, 2, 7, 8, 9, 15, 16, 63, 64, 65, 127, 128, 200, 247, 248, 253, 254, 255];
pub fn key_with_prefix(rng: &mut Rng, base: &B32, p: usize, tail: u64) -> B32 {
    // shares exactly p leading bits with base: bit p flipped, the rest per `tail`
    let mut k = *base;
    for i in (p + 1)..256 {
        let b = match tail { 0 => false, 1 => true, 2 => bit(base, i), _ => rng.next() & 1 == 1 };
        if b { k[i / 8] |= 1 << (7 - i % 8); } else { k[i / 8] &= !(1 << (7 - i % 8)); }
    }
    k[p / 8] ^= 1 << (7 - p % 8);
    k
}
pub fn key_pool(rng: &mut Rng, size: usize) -> Vec<B32> {
    let mut pool: Vec<B32> = vec![];
    let anchor = match rng.below(6) { 0 => ZERO, 1 => [0xffu8; 32], 2 => { let mut a = ZERO; a[31] = 1; a } _ => rng.arr32() };
    pool.push(anchor);
    while pool.len() < size {
        let k = match rng.below(10) {
            0 => ZERO,
            1 => [0xffu8; 32],
            2 => rng.arr32(),
            _ => {
                let base = *rng.pick(&pool);
                let p = if rng.chance(1, 4) { rng.below(256) as usize } else { *rng.pick(PREFIXES) };
                let tail = rng.below(4);
                key_with_prefix(rng, &base, p, tail)
            }
        };
        if !pool.contains(&k) { pool.push(k); }
    }
    pool
}
pub fn value(rng: &mut Rng) -> Vec<u8> {
    match rng.below(8) {
        0 => vec![],
        1 => vec![0u8],
        2 => b"DATA".to_vec(),
        3 => vec![0u8; 32],
        4 => { let n = rng.below(70) as usize; rng.bytes(n) }
        _ => { let n = 1 + rng.below(8) as usize; rng.bytes(n) }
    }
}
pub fn common_prefix(a: &B32, b: &B32) -> usize { (0..256).find(|i| bit(a, *i) != bit(b, *i)).unwrap_or(256) }
pub fn pairs_arg(set: &[(B32, Vec<u8>)]) -> String {
    if set.is_empty() { return "-".into(); }
    set.iter().map(|(k, v)| format!("{}:{}", hex(k), hex(v))).collect::<Vec<_>>().join(",")
}
pub fn list_arg(xs: &[B32]) -> String { if xs.is_empty() { "-".into() } else { xs.iter().map(|x| hex(x)).collect::<Vec<_>>().join(",") } }
