//! Harness glue (not a model of anything): a `StorageMap<NodesTable>` behind `Rc<RefCell<..>>` so that
//! `binary::MerkleTree::load(storage, k)` can be called on the storage a live tree is writing to
//! (the tree's `storage` field is private). All reads/writes delegate to the real `StorageMap`.
use fuel_merkle::{binary::{in_memory::NodesTable, Primitive}, common::StorageMap};
use fuel_storage::{StorageInspect, StorageMutate};
use std::{borrow::Cow, cell::RefCell, convert::Infallible, rc::Rc};

#[derive(Clone, Debug, Default)]
pub struct Shared(pub Rc<RefCell<StorageMap<NodesTable>>>);

impl Shared {
    pub fn new() -> Self { Shared(Rc::new(RefCell::new(StorageMap::new()))) }
    pub fn len(&self) -> usize { self.0.borrow().len() }
}

impl StorageInspect<NodesTable> for Shared {
    type Error = Infallible;
    fn get(&self, key: &u64) -> Result<Option<Cow<'_, Primitive>>, Infallible> {
        let m = self.0.borrow();
        let v = StorageInspect::<NodesTable>::get(&*m, key)?.map(|c| Cow::Owned(c.into_owned()));
        Ok(v)
    }
    fn contains_key(&self, key: &u64) -> Result<bool, Infallible> {
        StorageInspect::<NodesTable>::contains_key(&*self.0.borrow(), key)
    }
}

impl StorageMutate<NodesTable> for Shared {
    fn replace(&mut self, key: &u64, value: &Primitive) -> Result<Option<Primitive>, Infallible> {
        StorageMutate::<NodesTable>::replace(&mut *self.0.borrow_mut(), key, value)
    }
    fn take(&mut self, key: &u64) -> Result<Option<Primitive>, Infallible> {
        StorageMutate::<NodesTable>::take(&mut *self.0.borrow_mut(), key)
    }
}
