//! Shared by the codec streams c01 / c02: the text form of protocol values on the line protocol
//! (must agree with lean/FuelVerif/Model/CodecText.lean), structured generators built from the repo's
//! own constructors, and the generic encode / decode request emitters with their property oracles.
//!
//! Value text (prefix tokens): `i<n>` integer, `b<hex>` bytes, `u` unit / empty list / skipped or `Empty`
//! field, `[ a b .. ]` struct fields or vector elements, `l X` / `r X` enum variant position (unary).
#![allow(dead_code)]
use crate::{ctx::{Ctx, Rng}, util::hex};
use fuel_tx::{
    field::{BlobId as _, BytecodeRoot as _, BytecodeWitnessIndex as _, ChargeableBody, MintGasPrice as _, InputContract as _, Inputs, MintAmount as _, MintAssetId as _, OutputContract as _, Outputs, ProofSet as _, ReceiptsRoot as _, Salt as _, Script as _, ScriptData as _, ScriptGasLimit as _, StorageSlots as _, SubsectionIndex as _, SubsectionsNumber as _, TxPointer as _, UpgradePurpose as _, Witnesses}, input::{self, coin::{CoinPredicate, CoinSigned}, message::*, Empty, PredicateCode},
    output, policies::{Policies, PolicyType}, BlobBody, Input, Output, PanicInstruction, PanicReason, Receipt,
    ScriptExecutionResult, StorageSlot, Transaction, TxPointer, UpgradePurpose, UploadBody, UtxoId, Witness,
};
use fuel_types::{
    bytes::Bytes, canonical::{Deserialize, Error, Serialize}, Address, AssetId, BlobId, Bytes32, ContractId, Nonce, Salt, SubAssetId,
};

// ---------------------------------------------------------------- value text
pub fn list(items: &[String]) -> String {
    if items.is_empty() { "u".to_string() } else { format!("[ {} ]", items.join(" ")) }
}
pub fn variant(k: usize, payload: String) -> String { format!("{}l {}", "r ".repeat(k), payload) }
fn b(x: &[u8]) -> String { format!("b{}", hex(x)) }
/// newtype struct around bytes (`Bytes32`, `Bytes`, ...): a one-field struct
fn nb(x: &[u8]) -> String { list(&[b(x)]) }
fn i(x: u64) -> String { format!("i{x}") }

pub trait ToVal { fn vt(&self) -> String; }
impl ToVal for u64 { fn vt(&self) -> String { i(*self) } }
impl ToVal for u16 { fn vt(&self) -> String { i(*self as u64) } }
impl ToVal for Bytes32 { fn vt(&self) -> String { nb(self.as_ref()) } }
impl ToVal for Address { fn vt(&self) -> String { nb(self.as_ref()) } }
impl ToVal for AssetId { fn vt(&self) -> String { nb(self.as_ref()) } }
impl ToVal for ContractId { fn vt(&self) -> String { nb(self.as_ref()) } }
impl ToVal for Nonce { fn vt(&self) -> String { nb(self.as_ref()) } }
impl ToVal for Salt { fn vt(&self) -> String { nb(self.as_ref()) } }
impl ToVal for BlobId { fn vt(&self) -> String { nb(self.as_ref()) } }
impl ToVal for SubAssetId { fn vt(&self) -> String { nb(self.as_ref()) } }
impl ToVal for Bytes { fn vt(&self) -> String { nb(self.as_ref()) } }
impl ToVal for PredicateCode { fn vt(&self) -> String { list(&[self.bytes.vt()]) } }
impl<T> ToVal for Empty<T> { fn vt(&self) -> String { "u".into() } }
impl<T: ToVal> ToVal for Vec<T> { fn vt(&self) -> String { list(&self.iter().map(|x| x.vt()).collect::<Vec<_>>()) } }
impl ToVal for Witness { fn vt(&self) -> String { list(&[nb(self.as_ref())]) } }
impl ToVal for UtxoId { fn vt(&self) -> String { list(&[nb(self.tx_id().as_ref()), i(self.output_index() as u64)]) } }
impl ToVal for TxPointer { fn vt(&self) -> String { list(&[list(&[i(u32::from(self.block_height()) as u64)]), i(self.tx_index() as u64)]) } }
impl ToVal for StorageSlot { fn vt(&self) -> String { list(&[self.key().vt(), self.value().vt()]) } }
impl ToVal for Policies {
    fn vt(&self) -> String {
        let mut v = vec![i(self.bits() as u64)];
        for t in [PolicyType::Tip, PolicyType::WitnessLimit, PolicyType::Maturity, PolicyType::MaxFee, PolicyType::Expiration, PolicyType::Owner] {
            v.push(i(self.get(t).unwrap_or(0)));
        }
        list(&v)
    }
}
impl ToVal for input::contract::Contract {
    fn vt(&self) -> String { list(&[self.utxo_id.vt(), self.balance_root.vt(), self.state_root.vt(), self.tx_pointer.vt(), self.contract_id.vt()]) }
}
impl ToVal for output::contract::Contract {
    fn vt(&self) -> String { list(&[i(self.input_index as u64), self.balance_root.vt(), self.state_root.vt()]) }
}
fn coin_val<W: ToVal, G: ToVal, P: ToVal, D: ToVal>(u: &UtxoId, o: &Address, a: u64, s: &AssetId, t: &TxPointer, w: &W, g: &G, p: &P, d: &D) -> String {
    list(&[u.vt(), o.vt(), i(a), s.vt(), t.vt(), w.vt(), g.vt(), p.vt(), d.vt()])
}
fn msg_val<W: ToVal, G: ToVal, X: ToVal, P: ToVal, D: ToVal>(s: &Address, r: &Address, a: u64, n: &Nonce, w: &W, g: &G, x: &X, p: &P, d: &D) -> String {
    list(&[s.vt(), r.vt(), i(a), n.vt(), w.vt(), g.vt(), x.vt(), p.vt(), d.vt()])
}
pub fn input_variant(x: &Input) -> usize {
    match x { Input::CoinSigned(_) => 0, Input::CoinPredicate(_) => 1, Input::Contract(_) => 2, Input::MessageCoinSigned(_) => 3,
        Input::MessageCoinPredicate(_) => 4, Input::MessageDataSigned(_) => 5, Input::MessageDataPredicate(_) => 6 }
}
pub const INPUT_NAMES: [&str; 7] = ["coin-signed", "coin-predicate", "contract", "message-coin-signed", "message-coin-predicate", "message-data-signed", "message-data-predicate"];
impl ToVal for Input {
    fn vt(&self) -> String {
        let p = match self {
            Input::CoinSigned(c) => coin_val(&c.utxo_id, &c.owner, c.amount, &c.asset_id, &c.tx_pointer, &c.witness_index, &c.predicate_gas_used, &c.predicate, &c.predicate_data),
            Input::CoinPredicate(c) => coin_val(&c.utxo_id, &c.owner, c.amount, &c.asset_id, &c.tx_pointer, &c.witness_index, &c.predicate_gas_used, &c.predicate, &c.predicate_data),
            Input::Contract(c) => c.vt(),
            Input::MessageCoinSigned(m) => msg_val(&m.sender, &m.recipient, m.amount, &m.nonce, &m.witness_index, &m.predicate_gas_used, &m.data, &m.predicate, &m.predicate_data),
            Input::MessageCoinPredicate(m) => msg_val(&m.sender, &m.recipient, m.amount, &m.nonce, &m.witness_index, &m.predicate_gas_used, &m.data, &m.predicate, &m.predicate_data),
            Input::MessageDataSigned(m) => msg_val(&m.sender, &m.recipient, m.amount, &m.nonce, &m.witness_index, &m.predicate_gas_used, &m.data, &m.predicate, &m.predicate_data),
            Input::MessageDataPredicate(m) => msg_val(&m.sender, &m.recipient, m.amount, &m.nonce, &m.witness_index, &m.predicate_gas_used, &m.data, &m.predicate, &m.predicate_data),
        };
        variant(input_variant(self), p)
    }
}
pub fn output_variant(x: &Output) -> usize {
    match x { Output::Coin { .. } => 0, Output::Contract(_) => 1, Output::Change { .. } => 2, Output::Variable { .. } => 3, Output::ContractCreated { .. } => 4 }
}
impl ToVal for Output {
    fn vt(&self) -> String {
        let p = match self {
            Output::Coin { to, amount, asset_id } | Output::Change { to, amount, asset_id } | Output::Variable { to, amount, asset_id } => list(&[to.vt(), i(*amount), asset_id.vt()]),
            Output::Contract(c) => list(&[c.vt()]),
            Output::ContractCreated { contract_id, state_root } => list(&[contract_id.vt(), state_root.vt()]),
        };
        variant(output_variant(self), p)
    }
}
impl ToVal for UpgradePurpose {
    fn vt(&self) -> String {
        match self {
            UpgradePurpose::ConsensusParameters { witness_index, checksum } => variant(0, list(&[i(*witness_index as u64), checksum.vt()])),
            UpgradePurpose::StateTransition { root } => variant(1, list(&[root.vt()])),
        }
    }
}
impl ToVal for ScriptExecutionResult {
    fn vt(&self) -> String {
        match self {
            ScriptExecutionResult::Success => variant(0, "u".into()),
            ScriptExecutionResult::Revert => variant(1, "u".into()),
            ScriptExecutionResult::Panic => variant(2, "u".into()),
            ScriptExecutionResult::GenericFailure(x) => variant(3, list(&[i(*x)])),
        }
    }
}
impl ToVal for PanicInstruction { fn vt(&self) -> String { list(&["u".into(), i(*self.instruction() as u64)]) } }
pub fn receipt_variant(r: &Receipt) -> usize {
    match r { Receipt::Call { .. } => 0, Receipt::Return { .. } => 1, Receipt::ReturnData { .. } => 2, Receipt::Panic { .. } => 3, Receipt::Revert { .. } => 4,
        Receipt::Log { .. } => 5, Receipt::LogData { .. } => 6, Receipt::Transfer { .. } => 7, Receipt::TransferOut { .. } => 8, Receipt::ScriptResult { .. } => 9,
        Receipt::MessageOut { .. } => 10, Receipt::Mint { .. } => 11, Receipt::Burn { .. } => 12 }
}
impl ToVal for Receipt {
    fn vt(&self) -> String {
        let u = || "u".to_string();
        let p = match self {
            Receipt::Call { id, to, amount, asset_id, gas, param1, param2, pc, is } => vec![id.vt(), to.vt(), i(*amount), asset_id.vt(), i(*gas), i(*param1), i(*param2), i(*pc), i(*is)],
            Receipt::Return { id, val, pc, is } => vec![id.vt(), i(*val), i(*pc), i(*is)],
            Receipt::ReturnData { id, ptr, len, digest, pc, is, .. } => vec![id.vt(), i(*ptr), i(*len), digest.vt(), i(*pc), i(*is), u()],
            Receipt::Panic { id, reason, pc, is, .. } => vec![id.vt(), reason.vt(), i(*pc), i(*is), u()],
            Receipt::Revert { id, ra, pc, is } => vec![id.vt(), i(*ra), i(*pc), i(*is)],
            Receipt::Log { id, ra, rb, rc, rd, pc, is } => vec![id.vt(), i(*ra), i(*rb), i(*rc), i(*rd), i(*pc), i(*is)],
            Receipt::LogData { id, ra, rb, ptr, len, digest, pc, is, .. } => vec![id.vt(), i(*ra), i(*rb), i(*ptr), i(*len), digest.vt(), i(*pc), i(*is), u()],
            Receipt::Transfer { id, to, amount, asset_id, pc, is } => vec![id.vt(), to.vt(), i(*amount), asset_id.vt(), i(*pc), i(*is)],
            Receipt::TransferOut { id, to, amount, asset_id, pc, is } => vec![id.vt(), to.vt(), i(*amount), asset_id.vt(), i(*pc), i(*is)],
            Receipt::ScriptResult { result, gas_used } => vec![result.vt(), i(*gas_used)],
            Receipt::MessageOut { sender, recipient, amount, nonce, len, digest, .. } => vec![sender.vt(), recipient.vt(), i(*amount), nonce.vt(), i(*len), digest.vt(), u()],
            Receipt::Mint { sub_id, contract_id, val, pc, is } | Receipt::Burn { sub_id, contract_id, val, pc, is } => vec![sub_id.vt(), contract_id.vt(), i(*val), i(*pc), i(*is)],
        };
        variant(receipt_variant(self), list(&p))
    }
}
fn chargeable<T: Policies_ + Inputs + Outputs + Witnesses>(body: String, tx: &T) -> String {
    list(&[body, tx.policies_().vt(), tx.inputs().vt(), tx.outputs().vt(), tx.witnesses().vt(), "u".into()])
}
/// `field::Policies` has the same name as the `Policies` struct; a shim keeps the two apart
pub trait Policies_ { fn policies_(&self) -> &Policies; }
impl<T: fuel_tx::field::Policies> Policies_ for T { fn policies_(&self) -> &Policies { fuel_tx::field::Policies::policies(self) } }

impl ToVal for fuel_tx::Script {
    fn vt(&self) -> String {
        let body = list(&[i(*self.script_gas_limit()), self.receipts_root().vt(), list(&[nb(self.script())]), nb(self.script_data())]);
        chargeable(body, self)
    }
}
impl ToVal for fuel_tx::Create {
    fn vt(&self) -> String {
        let body = list(&[i(*self.bytecode_witness_index() as u64), self.salt().vt(), self.storage_slots().vt()]);
        chargeable(body, self)
    }
}
impl ToVal for fuel_tx::Upgrade { fn vt(&self) -> String { chargeable(list(&[self.upgrade_purpose().vt()]), self) } }
impl ToVal for fuel_tx::Upload {
    fn vt(&self) -> String {
        let bd = self.body();
        let body = list(&[bd.root.vt(), i(bd.witness_index as u64), i(bd.subsection_index as u64), i(bd.subsections_number as u64), bd.proof_set.vt()]);
        chargeable(body, self)
    }
}
impl ToVal for fuel_tx::Blob {
    fn vt(&self) -> String { let bd = self.body(); chargeable(list(&[bd.id.vt(), i(bd.witness_index as u64)]), self) }
}
impl ToVal for fuel_tx::Mint {
    fn vt(&self) -> String {
        list(&[self.tx_pointer().vt(), self.input_contract().vt(), self.output_contract().vt(), i(*self.mint_amount()), self.mint_asset_id().vt(), i(*self.gas_price()), "u".into()])
    }
}
pub fn tx_variant(t: &Transaction) -> usize {
    match t { Transaction::Script(_) => 0, Transaction::Create(_) => 1, Transaction::Mint(_) => 2, Transaction::Upgrade(_) => 3, Transaction::Upload(_) => 4, Transaction::Blob(_) => 5 }
}
pub const TX_NAMES: [&str; 6] = ["script", "create", "mint", "upgrade", "upload", "blob"];
impl ToVal for Transaction {
    fn vt(&self) -> String {
        let p = match self { Transaction::Script(t) => t.vt(), Transaction::Create(t) => t.vt(), Transaction::Mint(t) => t.vt(),
            Transaction::Upgrade(t) => t.vt(), Transaction::Upload(t) => t.vt(), Transaction::Blob(t) => t.vt() };
        variant(tx_variant(self), p)
    }
}

pub fn err_name(e: &Error) -> &'static str {
    match e {
        Error::BufferIsTooShort => "BufferIsTooShort",
        Error::UnknownDiscriminant => "UnknownDiscriminant",
        Error::InvalidPrefix => "InvalidPrefix",
        Error::AllocationLimit => "AllocationLimit",
        Error::Unknown(_) => "Unknown",
        _ => "Other",
    }
}

// ---------------------------------------------------------------- generators
/// byte-vector lengths: every residue mod 8 around the word boundaries, plus a few larger ones
pub const LENS: [usize; 26] = [0, 1, 2, 3, 4, 5, 6, 7, 8, 9, 10, 11, 12, 13, 14, 15, 16, 17, 23, 24, 25, 31, 32, 33, 63, 65];
pub fn len(r: &mut Rng) -> usize {
    match r.below(10) { 0 => 0, 1..=6 => *r.pick(&LENS), 7 => r.below(40) as usize, 8 => 100 + r.below(60) as usize, _ => 250 + r.below(20) as usize }
}
pub fn nonzero_len(r: &mut Rng) -> usize { let l = len(r); if l == 0 { 1 + r.below(9) as usize } else { l } }
pub fn b32(r: &mut Rng) -> [u8; 32] {
    match r.below(6) { 0 => [0u8; 32], 1 => [0xffu8; 32], 2 => { let mut a = [0u8; 32]; a[31] = 1; a } _ => r.arr32() }
}
pub fn u16b(r: &mut Rng) -> u16 { *r.pick(&[0u16, 1, 2, 255, 256, 257, u16::MAX - 1, u16::MAX, r.0 as u16]) }
pub fn u32b(r: &mut Rng) -> u32 { match r.below(3) { 0 => *r.pick(&[0u32, 1, u32::MAX, u32::MAX - 1, 1 << 31, 65535, 65536]), _ => r.word() as u32 } }
pub fn utxo(r: &mut Rng) -> UtxoId { UtxoId::new(b32(r).into(), u16b(r)) }
pub fn txptr(r: &mut Rng) -> TxPointer { TxPointer::new(u32b(r).into(), u16b(r)) }
pub fn policies(r: &mut Rng, mask: u32) -> Policies {
    let mut p = Policies::new();
    let tys = [PolicyType::Tip, PolicyType::WitnessLimit, PolicyType::Maturity, PolicyType::MaxFee, PolicyType::Expiration, PolicyType::Owner];
    for (k, t) in tys.iter().enumerate() {
        if mask >> k & 1 == 1 {
            let v = match t { PolicyType::Maturity | PolicyType::Expiration => u32b(r) as u64, _ => r.word() };
            p.set(*t, Some(v));
        }
    }
    p
}
pub fn input_of(r: &mut Rng, kind: usize, pred_len: usize, pdata_len: usize, data_len: usize) -> Input {
    let (a, n) = (r.word(), Nonce::from(b32(r)));
    match kind {
        0 => Input::coin_signed(utxo(r), b32(r).into(), a, b32(r).into(), txptr(r), u16b(r)),
        1 => Input::coin_predicate(utxo(r), b32(r).into(), a, b32(r).into(), txptr(r), r.word(), r.bytes(pred_len), r.bytes(pdata_len)),
        2 => Input::contract(utxo(r), b32(r).into(), b32(r).into(), txptr(r), b32(r).into()),
        3 => Input::message_coin_signed(b32(r).into(), b32(r).into(), a, n, u16b(r)),
        4 => Input::message_coin_predicate(b32(r).into(), b32(r).into(), a, n, r.word(), r.bytes(pred_len), r.bytes(pdata_len)),
        5 => Input::message_data_signed(b32(r).into(), b32(r).into(), a, n, u16b(r), r.bytes(data_len)),
        _ => Input::message_data_predicate(b32(r).into(), b32(r).into(), a, n, r.word(), r.bytes(data_len), r.bytes(pred_len), r.bytes(pdata_len)),
    }
}
/// a well-formed input (non-empty predicate / data where the variant needs them)
pub fn input(r: &mut Rng) -> Input { let k = r.below(7) as usize; let (p, d, x) = (nonzero_len(r), len(r), nonzero_len(r)); input_of(r, k, p, d, x) }
pub fn output_of(r: &mut Rng, kind: usize) -> Output {
    match kind {
        0 => Output::coin(b32(r).into(), r.word(), b32(r).into()),
        1 => Output::contract(u16b(r), b32(r).into(), b32(r).into()),
        2 => Output::change(b32(r).into(), r.word(), b32(r).into()),
        3 => Output::variable(b32(r).into(), r.word(), b32(r).into()),
        _ => Output::contract_created(b32(r).into(), b32(r).into()),
    }
}
pub fn output(r: &mut Rng) -> Output { let k = r.below(5) as usize; output_of(r, k) }
pub fn witness(r: &mut Rng) -> Witness { let l = len(r); r.bytes(l).into() }
pub fn count(r: &mut Rng) -> usize { match r.below(8) { 0 | 1 => 0, 2 | 3 => 1, 4 => 2, 5 => 3, 6 => 4 + r.below(4) as usize, _ => r.below(3) as usize } }
pub fn vec_of<T>(r: &mut Rng, f: impl Fn(&mut Rng) -> T) -> Vec<T> { let n = count(r); (0..n).map(|_| f(r)).collect() }
pub fn purpose(r: &mut Rng, k: usize) -> UpgradePurpose {
    if k == 0 { UpgradePurpose::ConsensusParameters { witness_index: u16b(r), checksum: b32(r).into() } } else { UpgradePurpose::StateTransition { root: b32(r).into() } }
}
pub fn tx_of(r: &mut Rng, kind: usize, mask: u32) -> Transaction {
    let pol = policies(r, mask);
    if kind == 2 {
        return Transaction::mint(txptr(r), input::contract::Contract { utxo_id: utxo(r), balance_root: b32(r).into(), state_root: b32(r).into(), tx_pointer: txptr(r), contract_id: b32(r).into() },
            output::contract::Contract { input_index: u16b(r), balance_root: b32(r).into(), state_root: b32(r).into() }, r.word(), b32(r).into(), r.word()).into();
    }
    let (ins, outs, wits) = (vec_of(r, input), vec_of(r, output), vec_of(r, witness));
    match kind {
        0 => { let (a, c) = (len(r), len(r)); let mut t = Transaction::script(r.word(), r.bytes(a), r.bytes(c), pol, ins, outs, wits); *t.receipts_root_mut() = b32(r).into(); t.into() }
        1 => Transaction::create(u16b(r), pol, b32(r).into(), vec_of(r, |r| StorageSlot::new(b32(r).into(), b32(r).into())), ins, outs, wits).into(),
        3 => { let k = r.below(2) as usize; Transaction::upgrade(purpose(r, k), pol, ins, outs, wits).into() }
        4 => Transaction::upload(UploadBody { root: b32(r).into(), witness_index: u16b(r), subsection_index: u16b(r), subsections_number: u16b(r), proof_set: vec_of(r, |r| b32(r).into()) }, pol, ins, outs, wits).into(),
        _ => Transaction::blob(BlobBody { id: b32(r).into(), witness_index: u16b(r) }, pol, ins, outs, wits).into(),
    }
}
pub fn receipt_of(r: &mut Rng, kind: usize) -> Receipt {
    let id: ContractId = b32(r).into();
    let (w1, w2, w3, w4, pc, is) = (r.word(), r.word(), r.word(), r.word(), r.word(), r.word());
    let data = |r: &mut Rng| if r.chance(1, 3) { None } else { let l = len(r); Some(Bytes::from(r.bytes(l))) };
    match kind {
        0 => Receipt::Call { id, to: b32(r).into(), amount: w1, asset_id: b32(r).into(), gas: w2, param1: w3, param2: w4, pc, is },
        1 => Receipt::Return { id, val: w1, pc, is },
        2 => Receipt::ReturnData { id, ptr: w1, len: w2, digest: b32(r).into(), pc, is, data: data(r) },
        3 => Receipt::Panic { id, reason: PanicInstruction::error(*r.pick(&[PanicReason::OutOfGas, PanicReason::Revert, PanicReason::MemoryOverflow, PanicReason::ContractNotInInputs]), r.word() as u32), pc, is,
                contract_id: if r.chance(1, 2) { None } else { Some(b32(r).into()) } },
        4 => Receipt::Revert { id, ra: w1, pc, is },
        5 => Receipt::Log { id, ra: w1, rb: w2, rc: w3, rd: w4, pc, is },
        6 => Receipt::LogData { id, ra: w1, rb: w2, ptr: w3, len: w4, digest: b32(r).into(), pc, is, data: data(r) },
        7 => Receipt::Transfer { id, to: b32(r).into(), amount: w1, asset_id: b32(r).into(), pc, is },
        8 => Receipt::TransferOut { id, to: b32(r).into(), amount: w1, asset_id: b32(r).into(), pc, is },
        9 => Receipt::ScriptResult { result: match r.below(5) { 0 => ScriptExecutionResult::Success, 1 => ScriptExecutionResult::Revert, 2 => ScriptExecutionResult::Panic, _ => ScriptExecutionResult::GenericFailure(r.word()) }, gas_used: w1 },
        10 => Receipt::MessageOut { sender: b32(r).into(), recipient: b32(r).into(), amount: w1, nonce: b32(r).into(), len: w2, digest: b32(r).into(), data: data(r) },
        11 => Receipt::Mint { sub_id: b32(r).into(), contract_id: id, val: w1, pc, is },
        _ => Receipt::Burn { sub_id: b32(r).into(), contract_id: id, val: w1, pc, is },
    }
}

// ---------------------------------------------------------------- request emitters + oracles
/// equality up to the fields the format deliberately leaves out. For every type but `Receipt` the
/// type's own `PartialEq` already ignores them (`educe(PartialEq(ignore))` on receipt payloads and
/// `metadata`); `Receipt::Panic` compares `PanicInstruction` including its skipped `reason`.
pub trait ExemptEq: PartialEq { fn exempt_eq(&self, o: &Self) -> bool { self == o } }
impl ExemptEq for Receipt {
    fn exempt_eq(&self, o: &Self) -> bool {
        match (self, o) {
            (Receipt::Panic { id, reason, pc, is, .. }, Receipt::Panic { id: id2, reason: reason2, pc: pc2, is: is2, .. }) =>
                id == id2 && pc == pc2 && is == is2 && reason.instruction() == reason2.instruction(),
            _ => self == o,
        }
    }
}
impl ExemptEq for PanicInstruction { fn exempt_eq(&self, o: &Self) -> bool { self.instruction() == o.instruction() } }
macro_rules! plain_eq { ($($t:ty),*) => { $(impl ExemptEq for $t {})* } }
plain_eq!(Transaction, fuel_tx::Script, fuel_tx::Create, fuel_tx::Mint, fuel_tx::Upgrade, fuel_tx::Upload, fuel_tx::Blob, Input, Output, Witness,
    Policies, StorageSlot, UtxoId, TxPointer, UpgradePurpose, ScriptExecutionResult, Bytes32);

pub trait Codec: Serialize + Deserialize + ExemptEq + ToVal {}
impl<T: Serialize + Deserialize + ExemptEq + ToVal> Codec for T {}

/// decode with the real `Deserialize::decode`, returning the value and the number of bytes consumed
pub fn decode_impl<T: Deserialize>(bytes: &[u8]) -> Result<(T, usize), Error> {
    let mut s = bytes;
    let v = T::decode(&mut s)?;
    Ok((v, bytes.len() - s.len()))
}

/// C01 on one value: `enc` request (bytes + the two reported sizes), then `dec` of the encoding followed by
/// `trailing` bytes. Oracle (independent of the model): length = size, word aligned, decode consumes
/// exactly the encoding and returns an equal value. `class` is the structural class of the input, used as
/// fingerprint when the round trip fails.
pub fn roundtrip<T: Codec>(ctx: &mut Ctx, tag: &str, v: &T, class: &str, trailing: &[u8]) {
    let text = v.vt();
    let enc = ctx.guard(|| (v.to_bytes(), v.size_static(), v.size_dynamic(), v.size()));
    let (bytes, ss, sd, sz) = match enc {
        Ok(x) => x,
        Err(m) => { ctx.oracle_fail(&format!("panic-encode-{tag}"), &format!("enc {tag} {text}"), &m); return; }
    };
    ctx.emit(&format!("enc {tag} {text}"), &format!("{} {} {}", hex(&bytes), ss, sd));
    ctx.count(&format!("enc.{tag}"));
    if bytes.len() != sz || ss.checked_add(sd) != Some(sz) {
        ctx.oracle_fail(&format!("size-mismatch-{class}"), &format!("enc {tag} {text}"), &format!("len {} size {} static {} dynamic {}", bytes.len(), sz, ss, sd));
    }
    if bytes.len() % 8 != 0 || ss % 8 != 0 {
        ctx.oracle_fail(&format!("unaligned-{class}"), &format!("enc {tag} {text}"), &format!("len {} static {}", bytes.len(), ss));
    }
    let mut buf = bytes.clone();
    buf.extend_from_slice(trailing);
    let op = format!("dec {tag} {}", hex(&buf));
    match ctx.guard(|| decode_impl::<T>(&buf)) {
        Err(m) => { ctx.oracle_fail(&format!("panic-decode-{tag}"), &op, &m); }
        Ok(Err(e)) => {
            ctx.emit(&op, &format!("err {}", err_name(&e)));
            ctx.oracle_fail(&format!("roundtrip-{class}"), &format!("enc {tag} {text}"), &format!("own encoding rejected: {}", err_name(&e)));
        }
        Ok(Ok((w, used))) => {
            ctx.emit(&op, &format!("ok {} {}", used, w.vt()));
            if used != bytes.len() {
                ctx.oracle_fail(&format!("roundtrip-{class}"), &format!("enc {tag} {text}"), &format!("decode consumed {} of {} bytes", used, bytes.len()));
            } else if !w.exempt_eq(v) {
                ctx.oracle_fail(&format!("roundtrip-{class}"), &format!("enc {tag} {text}"), &format!("decoded value differs: {}", w.vt()));
            }
        }
    }
}

/// C02 on one byte string: decode under `catch_unwind`; on success the value's size must equal the bytes
/// consumed and re-encoding then decoding must give the same value back, consuming everything.
pub fn decode_arbitrary<T: Codec>(ctx: &mut Ctx, tag: &str, bytes: &[u8], how: &str) {
    let op = format!("dec {tag} {}", hex(bytes));
    // breadcrumb for failures `catch_unwind` cannot catch (allocation failure aborts the process): the runner
    // keeps the tail of stderr of a crashed harness, and `--seed` + this line number replays the input
    eprintln!("c02: request line {} ({how}, {} bytes as {tag})", ctx.lines + 1, bytes.len());
    match ctx.guard(|| decode_impl::<T>(bytes)) {
        Err(m) => { ctx.emit(&op, "panic"); ctx.oracle_fail(&format!("panic-decode-{tag}"), &op, &m); }
        Ok(Err(e)) => { ctx.count(&format!("{tag}.err.{}", err_name(&e))); ctx.count(&format!("mut.{how}.err")); ctx.emit(&op, &format!("err {}", err_name(&e))); }
        Ok(Ok((v, used))) => {
            ctx.count(&format!("{tag}.ok")); ctx.count(&format!("mut.{how}.ok"));
            ctx.emit(&op, &format!("ok {} {}", used, v.vt()));
            let re = ctx.guard(|| (v.to_bytes(), v.size()));
            match re {
                Err(m) => ctx.oracle_fail(&format!("panic-reencode-{tag}"), &op, &m),
                Ok((bytes2, sz)) => {
                    if sz != used { ctx.oracle_fail(&format!("consumed-ne-size-{tag}"), &op, &format!("consumed {used}, size() {sz}")); }
                    if bytes2.len() != sz { ctx.oracle_fail(&format!("size-mismatch-{tag}"), &op, &format!("re-encoding has {} bytes, size() {}", bytes2.len(), sz)); }
                    match ctx.guard(|| decode_impl::<T>(&bytes2)) {
                        Ok(Ok((w, used2))) if w == v && used2 == bytes2.len() => {} // decoded values carry defaults in the exempt fields: exact equality
                        Ok(Ok((w, used2))) => ctx.oracle_fail(&format!("not-fixpoint-{tag}"), &op, &format!("second decode: consumed {} of {}, value {}", used2, bytes2.len(), w.vt())),
                        Ok(Err(e)) => ctx.oracle_fail(&format!("not-fixpoint-{tag}"), &op, &format!("re-encoding rejected: {}", err_name(&e))),
                        Err(m) => ctx.oracle_fail(&format!("panic-decode-{tag}"), &op, &m),
                    }
                }
            }
        }
    }
}
