use std::{
    collections::{BTreeMap, HashSet},
    fs::File,
    io::{BufWriter, Write},
    panic::{catch_unwind, AssertUnwindSafe},
};

#[derive(Clone, Copy, PartialEq, Eq, Debug)]
pub enum Tier { Quick, Thorough }

/// SplitMix64: every random choice of a run derives from this one state.
#[derive(Clone)]
pub struct Rng(pub u64);
impl Rng {
    pub fn next(&mut self) -> u64 {
        self.0 = self.0.wrapping_add(0x9E3779B97F4A7C15);
        let mut z = self.0;
        z = (z ^ (z >> 30)).wrapping_mul(0xBF58476D1CE4E5B9);
        z = (z ^ (z >> 27)).wrapping_mul(0x94D049BB133111EB);
        z ^ (z >> 31)
    }
    pub fn below(&mut self, n: u64) -> u64 { if n == 0 { 0 } else { self.next() % n } }
    pub fn range(&mut self, lo: u64, hi: u64) -> u64 { lo + self.below(hi - lo + 1) }
    pub fn chance(&mut self, num: u64, den: u64) -> bool { self.below(den) < num }
    pub fn pick<'a, T>(&mut self, xs: &'a [T]) -> &'a T { &xs[self.below(xs.len() as u64) as usize] }
    pub fn bytes(&mut self, n: usize) -> Vec<u8> { (0..n).map(|_| self.next() as u8).collect() }
    pub fn arr32(&mut self) -> [u8; 32] { let mut a = [0u8; 32]; for b in a.iter_mut() { *b = self.next() as u8; } a }
    /// boundary-biased u64
    pub fn word(&mut self) -> u64 {
        match self.below(8) {
            0 => *self.pick(&[0u64, 1, 2, 3, 7, 8, 9, 63, 64, 65, 255, 256, 257]),
            1 => { let k = self.below(64); (1u64 << k).wrapping_sub(1) }
            2 => { let k = self.below(64); 1u64 << k }
            3 => { let k = self.below(64); (1u64 << k).wrapping_add(1) }
            4 => *self.pick(&[u32::MAX as u64 - 1, u32::MAX as u64, u32::MAX as u64 + 1, u64::MAX - 1, u64::MAX, 1u64 << 63, (1u64 << 63) - 1, (1u64 << 63) + 1]),
            5 => self.below(1 << 16),
            _ => self.next(),
        }
    }
}

pub struct Ctx {
    pub tier: Tier,
    pub seed: u64,
    pub scale: u64,
    pub rng: Rng,
    ops: BufWriter<File>,
    imp: BufWriter<File>,
    oracle: BufWriter<File>,
    out_dir: String,
    pub lines: u64,
    pub cov: BTreeMap<String, u64>,
    distinct: HashSet<u64>,
    pub samples: Vec<String>,
    pub oracle_failures: u64,
    pub panics: u64,
    pub notes: Vec<String>,
}

impl Ctx {
    pub fn new(out_dir: &str, tier: Tier, seed: u64, scale: u64) -> Self {
        std::fs::create_dir_all(out_dir).unwrap();
        let f = |n: &str| BufWriter::with_capacity(1 << 20, File::create(format!("{out_dir}/{n}")).unwrap());
        Ctx {
            tier, seed, scale, rng: Rng(seed ^ 0x5EED_F00D_0000_0000),
            ops: f("ops.txt"), imp: f("impl.txt"), oracle: f("oracle.jsonl"),
            out_dir: out_dir.to_string(), lines: 0, cov: BTreeMap::new(), distinct: HashSet::new(),
            samples: vec![], oracle_failures: 0, panics: 0, notes: vec![],
        }
    }
    pub fn thorough(&self) -> bool { self.tier == Tier::Thorough }
    /// number of cases: `q` for quick, `t` for thorough, times `--scale` (used by the failing-input search)
    pub fn n(&self, q: u64, t: u64) -> u64 { (if self.thorough() { t } else { q }) * self.scale }

    /// one request line (fed to the Lean driver) and the implementation's answer to it
    pub fn emit(&mut self, op: &str, out: &str) {
        debug_assert!(!op.contains('\n') && !out.contains('\n'));
        writeln!(self.ops, "{op}").unwrap();
        writeln!(self.imp, "{out}").unwrap();
        self.lines += 1;
        if self.samples.len() < 6 && (self.lines <= 2 || self.lines % 997 == 0) {
            self.samples.push(format!("{op} => {out}"));
        }
    }
    /// the property oracle failed on the implementation for the input described by `input`
    /// (`line` = the request line it belongs to, if any). `fingerprint` is the structural
    /// class used to match known findings.
    pub fn oracle_fail(&mut self, fingerprint: &str, input: &str, detail: &str) {
        self.oracle_failures += 1;
        let esc = |s: &str| s.replace('\\', "\\\\").replace('"', "\\\"").replace('\n', "\\n");
        writeln!(self.oracle, "{{\"line\": {}, \"fingerprint\": \"{}\", \"input\": \"{}\", \"detail\": \"{}\"}}",
            self.lines, esc(fingerprint), esc(input), esc(detail)).unwrap();
    }
    pub fn count(&mut self, key: &str) { *self.cov.entry(key.to_string()).or_insert(0) += 1; }
    pub fn count_n(&mut self, key: &str, n: u64) { *self.cov.entry(key.to_string()).or_insert(0) += n; }
    /// record a case as distinct+non-trivial (by the stream's own rule) through a 64-bit hash of its key
    pub fn distinct(&mut self, key: &[u8]) {
        let mut h: u64 = 0xcbf29ce484222325;
        for b in key { h ^= *b as u64; h = h.wrapping_mul(0x100000001b3); }
        self.distinct.insert(h);
    }
    pub fn note(&mut self, s: &str) { if self.notes.len() < 50 { self.notes.push(s.to_string()); } }

    /// run one case of the implementation; a Rust panic is caught and returned as Err(message)
    pub fn guard<T>(&mut self, f: impl FnOnce() -> T) -> Result<T, String> {
        match catch_unwind(AssertUnwindSafe(f)) {
            Ok(v) => Ok(v),
            Err(e) => {
                self.panics += 1;
                let msg = if let Some(s) = e.downcast_ref::<&str>() { s.to_string() }
                    else if let Some(s) = e.downcast_ref::<String>() { s.clone() } else { "panic".to_string() };
                Err(msg.replace('\n', " "))
            }
        }
    }

    pub fn finish(mut self) {
        self.ops.flush().unwrap();
        self.imp.flush().unwrap();
        self.oracle.flush().unwrap();
        let esc = |s: &str| s.replace('\\', "\\\\").replace('"', "\\\"").replace('\n', "\\n");
        let mut j = String::from("{\n");
        j.push_str(&format!("  \"lines\": {},\n  \"distinct_nontrivial\": {},\n  \"oracle_failures\": {},\n  \"panics\": {},\n",
            self.lines, self.distinct.len(), self.oracle_failures, self.panics));
        j.push_str("  \"distribution\": {");
        j.push_str(&self.cov.iter().map(|(k, v)| format!("\"{}\": {}", esc(k), v)).collect::<Vec<_>>().join(", "));
        j.push_str("},\n  \"samples\": [");
        j.push_str(&self.samples.iter().map(|s| format!("\"{}\"", esc(s))).collect::<Vec<_>>().join(", "));
        j.push_str("],\n  \"notes\": [");
        j.push_str(&self.notes.iter().map(|s| format!("\"{}\"", esc(s))).collect::<Vec<_>>().join(", "));
        j.push_str("]\n}\n");
        std::fs::write(format!("{}/coverage.json", self.out_dir), j).unwrap();
    }
}
