pub fn hex(bs: &[u8]) -> String {
    if bs.is_empty() { return "-".to_string(); }
    let mut s = String::with_capacity(bs.len() * 2);
    for b in bs { s.push_str(&format!("{b:02x}")); }
    s
}
pub fn unhex(s: &str) -> Vec<u8> {
    if s == "-" { return vec![]; }
    (0..s.len() / 2).map(|i| u8::from_str_radix(&s[2 * i..2 * i + 2], 16).unwrap()).collect()
}
