#!/bin/sh
# Builds the framework from files on disk only (offline): translators -> Gen, lake build of every
# theorem module and the driver, release build of the Rust harness against /repo.
set -e
cd "$(dirname "$0")"
export CARGO_NET_OFFLINE=true
for t in tools/gen/*.py; do
  case "$t" in */common.py|*/dispatch.py) continue;; esac
  (cd tools/gen && python3 "$(basename "$t")") || echo "translator $t failed (reported by the checks)"
done
(cd tools/gen && python3 dispatch.py)
(cd lean && lake build FuelVerif && for f in FuelVerif/Drv/*.lean; do m=$(basename "$f" .lean | tr A-Z a-z); lake build "drv_$m" || echo "drv_$m failed"; done) || echo "lake build had failures (reported by the checks)"
(cd harness && cargo build --release --offline) || echo "harness build failed (reported by the checks)"
