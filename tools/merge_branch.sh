#!/bin/sh
# usage: tools/merge_branch.sh <branch> "<message>"  — merges an agent branch, resolving the standard generated-file conflicts
cd /verif || exit 1
if [ -n "$(git status --porcelain)" ]; then echo "working tree not clean: commit or checkout first"; exit 1; fi
git merge --no-ff "$1" -m "$2" >/tmp/merge_out.$$ 2>&1
if ! git merge-base --is-ancestor "$1" HEAD 2>/dev/null && ! [ -f .git/MERGE_HEAD ]; then cat /tmp/merge_out.$$; echo "merge did not start"; exit 1; fi
git rm -q --cached lean/Driver/Main.lean 2>/dev/null; rm -f lean/Driver/Main.lean
for f in evidence/C*.json MANIFEST.json lean/lakefile.toml DESIGN.md; do
  if git status --short "$f" | grep -q "^[UAD][UAD]"; then git checkout --ours "$f" 2>/dev/null; git add "$f"; fi
done
if git status --short known_findings.json | grep -q "^UU"; then python3 tools/merge_kf.py "$1"; git add known_findings.json; fi
if git status --short harness/src/gen/mod.rs | grep -q "^UU"; then grep -h "^pub mod" harness/src/gen/mod.rs | sort -u > /tmp/mod.rs.$$; mv /tmp/mod.rs.$$ harness/src/gen/mod.rs; git add harness/src/gen/mod.rs; fi
git status --short | grep "^[UAD][UAD]" && { echo "UNRESOLVED CONFLICTS"; exit 1; }
python3 tools/gen/dispatch.py
python3 tools/mkmanifest.py
git add -A
git commit -qm "$2"
echo merged "$1"
