#!/usr/bin/env python3
"""resolve a known_findings.json merge conflict by union (ours first), keyed by property+fingerprint"""
import json, subprocess, sys
def side(ref):
    return json.loads(subprocess.check_output(['git', 'show', ref + ':known_findings.json']))
a, b = side('HEAD'), side(sys.argv[1])
def union(x, y):
    keys = {(e['property'], e['fingerprint']) for e in x}
    return x + [e for e in y if (e['property'], e['fingerprint']) not in keys]
out = {'_comment': a.get('_comment'), 'findings': union(a['findings'], b['findings']), 'fixed': union(a.get('fixed', []), b.get('fixed', []))}
json.dump(out, open('known_findings.json', 'w'), indent=1)
print('findings', len(out['findings']), 'fixed', len(out['fixed']))
