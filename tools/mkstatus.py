#!/usr/bin/env python3
"""Regenerates the generated part of DESIGN.md §10 (between the STATUS markers) from props/*.json,
seeded/*/meta.json and known_findings.json."""
import json, os, glob, re
V = os.path.dirname(os.path.dirname(os.path.abspath(__file__)))
ids = [json.loads(l)["id"] for l in open(os.path.join(V, "properties.jsonl"))]
L = []
L.append("### 10.1 Claimed properties (generated from props/*.json by tools/mkstatus.py)\n")
L.append("| id | property theorems audited (Props/) | translators | streams | what is partial / assumed (first items; full list in props/Cxx.json, notes/Cxx.md) |")
L.append("|----|----|----|----|----|")
un = []
for pid in ids:
    p = os.path.join(V, "props", pid + ".json")
    if not os.path.exists(p):
        un.append(pid); continue
    c = json.load(open(p))
    th = c.get("theorems", [])
    names = ", ".join("`%s`" % t.split(".")[-1] for t in th[:6]) + (" … (%d in total)" % len(th) if len(th) > 6 else "")
    ass = "; ".join(a[:140] for a in c.get("assumptions", [])[:2])
    L.append("| %s | %s | %s | %s | %s |" % (pid, names, ", ".join(c.get("translators", [])) or "—", ", ".join(c.get("streams", [])) or "—", ass.replace("|", "/")))
L.append("")
L.append("Not yet claimed (listed under `not_applicable` in MANIFEST.json with the reason): " + (", ".join(un) or "none") + ".\n")
L.append("### 10.2 Seeded changes (independently written breaking changes, `seeded/<id>/`) and what catches them\n")
L.append("| seed | property | what the change does / what it needs to manifest | result of `./check` with the change applied | caught by |")
L.append("|----|----|----|----|----|")
for d in sorted(glob.glob(os.path.join(V, "seeded", "*"))):
    m = json.load(open(os.path.join(d, "meta.json")))
    c = m.get("confirmed_by_coordinator", {})
    cb = c.get("caught_by"); cb = "; ".join(cb) if isinstance(cb, list) else (cb or "")
    L.append("| %s | %s | %s — needs: %s | %s | %s |" % (os.path.basename(d), m.get("property"), str(m.get("summary", ""))[:260].replace("|", "/").replace("\n", " "),
             str(m.get("needs_to_manifest", ""))[:200].replace("|", "/").replace("\n", " "), str(c.get("check_run", ""))[:330].replace("|", "/"), cb[:300].replace("|", "/")))
L.append("")
kf = json.load(open(os.path.join(V, "known_findings.json")))
L.append("### 10.3 Findings on the unchanged tree\n")
L.append("Repaired in /repo by `fix:` commits (the check is green on the repaired tree and reports the violation again if it returns):\n")
for f in kf.get("fixed", []):
    L.append("* **%s** `%s` — %s" % (f["property"], str(f.get("commit", "")).split()[0], f["what"][:400]))
L.append("\nRecorded, not repaired (`KNOWN-FINDING` lines; each entry suppresses only its own fingerprint):\n")
for f in kf.get("findings", []):
    L.append("* **%s** `%s` — %s" % (f["property"], f["fingerprint"], f["what"][:400]))
L.append("")
text = "\n".join(L)
p = os.path.join(V, "DESIGN.md")
s = open(p).read()
b, e = "<!-- STATUS:BEGIN -->", "<!-- STATUS:END -->"
if b in s:
    s = s[:s.index(b) + len(b)] + "\n" + text + "\n" + s[s.index(e):]
else:
    i = s.index("### 10.1 Claimed properties")
    s = s[:i] + b + "\n" + text + "\n" + e + "\n"
open(p, "w").write(s)
print("DESIGN.md status regenerated")
