#!/bin/sh
# re-runs every claimed check's quick command on the tree repo-link points to (must be /repo) and reports non-green ones
cd /verif || exit 1
[ "$(readlink repo-link)" = "/repo" ] || { echo "repo-link is not /repo"; exit 1; }
for f in props/C*.json; do
  id=$(basename $f .json)
  out=$(./check $id --tier quick 2>&1); rc=$?
  echo "$id rc=$rc $(echo "$out" | tail -1 | cut -c1-160)"
  echo "$out" | grep "^VIOLATION" | head -3
done
