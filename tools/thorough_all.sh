#!/bin/sh
# runs every claimed check's thorough command (sequentially) and prints one line per property
cd /verif || exit 1
for f in props/C*.json; do
  id=$(basename $f .json); s=$(date +%s)
  out=$(./check $id --tier thorough 2>&1); rc=$?
  echo "$id rc=$rc $(( $(date +%s) - s ))s $(echo "$out" | tail -1 | cut -c1-140)"
  echo "$out" | grep "^VIOLATION" | head -3
done
echo THOROUGHDONE
