"""Orchestration of one property check. See /verif/check for the contract."""
import fcntl, json, os, re, shutil, subprocess, sys, time

VERIF = os.path.dirname(os.path.dirname(os.path.dirname(os.path.abspath(__file__))))
LEAN = os.path.join(VERIF, "lean")
HARNESS = os.path.join(VERIF, "harness")
WORK = os.path.join(VERIF, ".work")
ALLOWED_AXIOMS = {"propext", "Classical.choice", "Quot.sound"}
FORBIDDEN = re.compile(r"\bsorry\b|\badmit\b|^\s*axiom\s|native_decide|bv_decide|implemented_by|\bunsafe\s|maxHeartbeats\s+0\b")


def log(msg):
    print("[check] " + msg, flush=True)


class Lock:
    def __init__(self, name):
        os.makedirs(WORK, exist_ok=True)
        self.path = os.path.join(WORK, name + ".lock")

    def __enter__(self):
        self.f = open(self.path, "w")
        fcntl.flock(self.f, fcntl.LOCK_EX)
        return self

    def __exit__(self, *a):
        fcntl.flock(self.f, fcntl.LOCK_UN)
        self.f.close()


def run(cmd, cwd=None, timeout=None, env=None, stdin=None, stdout=None):
    e = dict(os.environ)
    e.setdefault("CARGO_NET_OFFLINE", "true")
    if env:
        e.update(env)
    t0 = time.time()
    try:
        p = subprocess.run(cmd, cwd=cwd, env=e, stdin=stdin, stdout=stdout if stdout else subprocess.PIPE,
                           stderr=subprocess.STDOUT if not stdout else subprocess.PIPE, timeout=timeout)
        out = (p.stdout if not stdout else p.stderr) or b""
        return p.returncode, out.decode("utf-8", "replace"), time.time() - t0
    except subprocess.TimeoutExpired as ex:
        return 124, "TIMEOUT after %ss" % timeout, time.time() - t0


def load_cfg(pid):
    p = os.path.join(VERIF, "props", pid + ".json")
    with open(p) as f:
        return json.load(f)


def load_known():
    p = os.path.join(VERIF, "known_findings.json")
    if not os.path.exists(p):
        return []
    with open(p) as f:
        return json.load(f).get("findings", [])


def strip_lean_comments(src):
    out, i, depth, n = [], 0, 0, len(src)
    while i < n:
        if src.startswith("/-", i):
            depth += 1; i += 2; continue
        if depth and src.startswith("-/", i):
            depth -= 1; i += 2; continue
        if depth:
            if src[i] == "\n":
                out.append("\n")
            i += 1; continue
        if src.startswith("--", i):
            while i < n and src[i] != "\n":
                i += 1
            continue
        out.append(src[i]); i += 1
    return "".join(out)


def module_files(mod_names):
    """transitive closure of FuelVerif.* imports of the given modules -> file paths"""
    seen, todo = {}, list(mod_names)
    while todo:
        m = todo.pop()
        if m in seen or not (m.startswith("FuelVerif.") or m.startswith("Driver.")):
            continue
        p = os.path.join(LEAN, *m.split(".")) + ".lean"
        if not os.path.exists(p):
            continue
        seen[m] = p
        with open(p) as f:
            for line in f:
                r = re.match(r"\s*import\s+([\w.]+)", line)
                if r:
                    todo.append(r.group(1))
    return seen


class Check:
    def __init__(self, pid, tier, seed):
        self.pid, self.tier, self.seed = pid, tier, seed
        self.cfg = load_cfg(pid)
        self.work = os.path.join(WORK, pid)
        if os.path.exists(self.work):
            shutil.rmtree(self.work, ignore_errors=True)
        os.makedirs(self.work, exist_ok=True)
        self.t0 = time.time()
        self.obligations = []       # (name, ok, detail)
        self.broken = []            # broken ties / proof obligations: dicts
        self.oracle = []            # oracle failures from the harness: dicts
        self.disagree = []          # model vs implementation disagreements
        self.cov = {}
        self.timings = {}
        self.violations = []
        self.known_hit = []

    # ---- step 1: translators -------------------------------------------------
    def translators(self):
        gen_dir = os.path.join(VERIF, "tools", "gen")
        def one(t):
            return run([sys.executable, os.path.join(gen_dir, t + ".py")], cwd=gen_dir, timeout=120)
        def record(t, rc, out, note=""):
            ok = rc == 0
            self.obligations.append(("translator:" + t, ok, (out.strip().splitlines()[-1] if out.strip() else "") + note))
            if not ok:
                self.broken.append({"kind": "translator", "name": t, "detail": out.strip()[-2000:]})
                log("translator %s FAILED: %s" % (t, out.strip()[-300:]))
        mine = list(self.cfg.get("translators", []))
        for t in mine:
            rc, out, dt = one(t)
            record(t, rc, out)
        # Every other translator runs too, so that no generated file (Lean or harness glue) is left over from a
        # different state of the repository.  One whose Lean output is imported by this property's modules is an
        # obligation of this property as well; the failure of one that is not imported is ignored here (its output
        # stays as it was and belongs to another property's check).
        others, produces = [], {}
        for f in sorted(os.listdir(gen_dir)):
            if not f.endswith(".py") or f[:-3] in ("common", "dispatch"):
                continue
            with open(os.path.join(gen_dir, f)) as fh:
                produces[f[:-3]] = re.findall(r'write_if_changed\(\s*"(\w+)\.lean"', fh.read())
            if f[:-3] not in mine:
                others.append(f[:-3])
        from concurrent.futures import ThreadPoolExecutor
        with ThreadPoolExecutor(max_workers=8) as ex:
            results = dict(zip(others, ex.map(one, others)))
        run([sys.executable, os.path.join(gen_dir, "dispatch.py")], cwd=gen_dir)
        closure = module_files(list(self.cfg.get("lean_targets", [])) + [drv_module(st) for st in self.cfg.get("streams", [])])
        for t in others:
            if any(("FuelVerif.Gen." + g) in closure for g in produces.get(t, [])):
                rc, out, dt = results[t]
                record(t, rc, out, "  (imported by this property's modules)")

    # ---- step 2: lake build + audit -----------------------------------------
    def lake(self):
        targets = list(self.cfg.get("lean_targets", []))
        t0 = time.time()
        self.driver_ok = True
        for st in self.cfg.get("streams", []):
            rc, out, dt = run(["lake", "build", "drv_" + st], cwd=LEAN, timeout=3000)
            if rc != 0:
                self.driver_ok = False
                self.broken.append({"kind": "model-build", "name": "drv_" + st, "detail": tail_errors(out)})
                log("driver build drv_%s FAILED:\n%s" % (st, tail_errors(out)))
        self.built = {}
        for tgt in targets:
            rc, out, dt = run(["lake", "build", tgt], cwd=LEAN, timeout=3000)
            self.built[tgt] = rc == 0
            if rc != 0:
                self.broken.append({"kind": "proof", "name": tgt, "detail": tail_errors(out)})
                log("lake build %s FAILED:\n%s" % (tgt, tail_errors(out)))
        self.timings["lake_s"] = round(time.time() - t0, 1)
        # audit
        thms = self.cfg.get("theorems", [])
        ok_targets = [t for t in targets if self.built.get(t)]
        axioms = {}
        if thms and ok_targets:
            src = "".join("import %s\n" % t for t in ok_targets) + "".join("#print axioms %s\n" % t for t in thms)
            ap = os.path.join(self.work, "Audit.lean")
            with open(ap, "w") as f:
                f.write(src)
            rc, out, dt = run(["lake", "env", "lean", ap], cwd=LEAN, timeout=1200)
            cur = None
            for m in re.finditer(r"'([^']+)' depends on axioms: \[([^\]]*)\]|'([^']+)' does not depend on any axioms|error: ([^\n]*)", out):
                if m.group(1):
                    axioms[m.group(1)] = [a.strip() for a in m.group(2).replace("\n", " ").split(",") if a.strip()]
                elif m.group(3):
                    axioms[m.group(3)] = []
            self.audit_out = out
        for t in thms:
            if t in axioms:
                bad = [a for a in axioms[t] if a not in ALLOWED_AXIOMS]
                ok = not bad
                self.obligations.append(("theorem:" + t, ok, "axioms: " + (", ".join(axioms[t]) or "none")))
                if not ok:
                    self.broken.append({"kind": "axioms", "name": t, "detail": "depends on " + ", ".join(bad)})
            else:
                self.obligations.append(("theorem:" + t, False, "not checked (module failed to build or theorem missing)"))
                if all(self.built.get(x) for x in targets):
                    self.broken.append({"kind": "proof", "name": t, "detail": "theorem not found in built modules"})
        # forbidden tokens in every source file the targets depend on
        files = module_files(targets + [drv_module(st) for st in self.cfg.get("streams", [])])
        hits = []
        for m, p in files.items():
            with open(p) as f:
                body = strip_lean_comments(f.read())
            for ln, line in enumerate(body.splitlines(), 1):
                if FORBIDDEN.search(line):
                    hits.append("%s:%d: %s" % (m, ln, line.strip()[:120]))
        self.obligations.append(("no-sorry-axiom-native_decide", not hits, "; ".join(hits[:5])))
        if hits:
            self.broken.append({"kind": "forbidden-token", "name": "grep", "detail": "\n".join(hits[:20])})
        self.axioms = axioms

    def leanchecker(self):
        for tgt in self.cfg.get("lean_targets", []):
            if not self.built.get(tgt):
                continue
            rc, out, dt = run(["lake", "env", "leanchecker", tgt], cwd=LEAN, timeout=3000)
            self.obligations.append(("leanchecker:" + tgt, rc == 0, out.strip()[-200:]))
            if rc != 0:
                self.broken.append({"kind": "leanchecker", "name": tgt, "detail": out[-1500:]})

    # ---- step 3: harness + driver -------------------------------------------
    def build_harness(self):
        t0 = time.time()
        # cargo decides freshness by mtime; when repo-link is re-pointed (scratch worktree <-> /repo) the
        # sources of the new target may be OLDER than the last build, so force the fuel crates to rebuild.
        target = os.path.realpath(os.path.join(VERIF, "repo-link"))
        stamp = os.path.join(WORK, "repo_target")
        last = open(stamp).read().strip() if os.path.exists(stamp) else None
        if last is not None and last != target:
            import glob
            for d in glob.glob(os.path.join(HARNESS, "target", "release", ".fingerprint", "fuel-*")) + \
                     glob.glob(os.path.join(HARNESS, "target", "release", ".fingerprint", "fv-harness-*")):
                shutil.rmtree(d, ignore_errors=True)
            log("repo-link target changed (%s -> %s): forcing rebuild of the fuel crates" % (last, target))
        with open(stamp, "w") as f:
            f.write(target)
        rc, out, dt = run(["cargo", "build", "--release", "--offline"], cwd=HARNESS, timeout=3000)
        self.timings["cargo_s"] = round(time.time() - t0, 1)
        self.harness_ok = rc == 0
        if rc != 0:
            self.broken.append({"kind": "harness-build", "name": "fv-harness", "detail": tail_errors(out)})
            log("harness build FAILED:\n" + tail_errors(out))

    def run_stream(self, stream, scale=1, seed=None, tag=""):
        seed = self.seed if seed is None else seed
        out_dir = os.path.join(self.work, stream + tag)
        shutil.rmtree(out_dir, ignore_errors=True)
        os.makedirs(out_dir)
        exe = os.path.join(HARNESS, "target", "release", "fv-harness")
        to = 3000 if self.tier == "thorough" else 900
        rc, out, dt = run([exe, stream, "--tier", self.tier, "--seed", str(seed), "--out", out_dir, "--scale", str(scale)], cwd=self.work, timeout=to)
        res = {"stream": stream, "dir": out_dir, "rc": rc, "harness_s": round(dt, 1), "oracle": [], "disagree": [], "lines": 0}
        if rc != 0:
            res["crash"] = out[-1500:]
            return res
        with open(os.path.join(out_dir, "coverage.json")) as f:
            res["cov"] = json.load(f)
        res["lines"] = res["cov"]["lines"]
        with open(os.path.join(out_dir, "oracle.jsonl")) as f:
            for line in f:
                line = line.strip()
                if line:
                    try:
                        res["oracle"].append(json.loads(line))
                    except json.JSONDecodeError:
                        res["oracle"].append({"fingerprint": "unparsable", "input": line[:200], "detail": "", "line": 0})
        if self.driver_ok:
            drv = os.path.join(LEAN, ".lake", "build", "bin", "drv_" + stream)
            t1 = time.time()
            with open(os.path.join(out_dir, "ops.txt"), "rb") as fi, open(os.path.join(out_dir, "model.txt"), "wb") as fo:
                p = subprocess.run([drv], stdin=fi, stdout=fo, stderr=subprocess.PIPE, timeout=to)
            res["driver_s"] = round(time.time() - t1, 1)
            if p.returncode != 0:
                res["driver_crash"] = p.stderr.decode("utf-8", "replace")[-1000:]
            res["disagree"] = diff_streams(out_dir)
        return res

    def correspondence(self):
        self.stream_results = []
        for s in self.cfg.get("streams", []):
            r = self.run_stream(s)
            self.stream_results.append(r)
            if "crash" in r:
                self.broken.append({"kind": "harness-crash", "name": s, "detail": r["crash"]})
                self.obligations.append(("correspondence:" + s, False, "harness crashed"))
                log("harness stream %s crashed: %s" % (s, r["crash"][-300:]))
                continue
            ok = not r["disagree"] and "driver_crash" not in r and self.driver_ok
            self.obligations.append(("correspondence:" + s, ok, "%d lines compared" % r["lines"]))
            if "driver_crash" in r:
                self.broken.append({"kind": "driver-crash", "name": s, "detail": r["driver_crash"]})
            if r["disagree"]:
                self.disagree.append({"stream": s, "count": len(r["disagree"]), "first": r["disagree"][:5]})
                log("stream %s: %d model/implementation disagreements; first: %s" % (s, len(r["disagree"]), json.dumps(r["disagree"][0])))
            self.oracle += [dict(o, stream=s) for o in r["oracle"]]

    # ---- step 4: search + classification ------------------------------------
    def search(self):
        """failing-input search: larger budget and fresh seeds, property oracle on the implementation"""
        found = []
        if not self.harness_ok:
            return found
        scale = int(self.cfg.get("search_scale", 10))
        for s in self.cfg.get("search_streams", self.cfg.get("streams", [])):
            for k in range(2):
                r = self.run_stream(s, scale=scale, seed=self.seed * 7919 + 13 + k, tag="-search%d" % k)
                if "crash" in r:
                    continue
                found += [dict(o, stream=s, search_seed=self.seed * 7919 + 13 + k, scale=scale) for o in r["oracle"]]
                if found:
                    return found
        return found

    def write_replay(self, name, obj):
        d = os.path.join(VERIF, "replays")
        os.makedirs(d, exist_ok=True)
        p = os.path.join(d, name)
        obj = dict(obj, property=self.pid, tier=self.tier, seed=self.seed,
                   rerun="./check %s --tier %s --seed %d" % (self.pid, self.tier, self.seed))
        with open(p, "w") as f:
            json.dump(obj, f, indent=1)
        return os.path.relpath(p, VERIF)

    def classify(self):
        known = [k for k in load_known() if k.get("property") == self.pid]
        known_fp = {k["fingerprint"]: k for k in known}
        new_oracle = []
        for o in self.oracle:
            k = known_fp.get(o["fingerprint"])
            if k:
                if k["fingerprint"] not in [x["fingerprint"] for x in self.known_hit]:
                    self.known_hit.append(k)
            else:
                new_oracle.append(o)
        lines = []
        for k in self.known_hit:
            lines.append("KNOWN-FINDING: property=%s %s" % (self.pid, k["what"]))
        if new_oracle:
            by_fp = {}
            for o in new_oracle:
                by_fp.setdefault(o["fingerprint"], []).append(o)
            for fp, os_ in by_fp.items():
                path = self.write_replay("%s-%d-%s.json" % (self.pid, self.seed, re.sub(r"[^A-Za-z0-9_.-]", "_", fp)[:60]),
                                         {"kind": "property oracle failed on the implementation", "fingerprint": fp, "count": len(os_), "failing_input": os_[0], "more": os_[1:5]})
                lines.append("VIOLATION property=%s replay=%s" % (self.pid, path))
                self.violations.append(fp)
        elif self.broken or self.disagree:
            found = [o for o in self.search() if o["fingerprint"] not in known_fp]
            what = {"broken_obligations": self.broken, "disagreements": self.disagree}
            if found:
                path = self.write_replay("%s-%d-search.json" % (self.pid, self.seed), dict(what, kind="broken proof/correspondence; failing input found by search", failing_input=found[0], more=found[1:5]))
                lines.append("VIOLATION property=%s replay=%s" % (self.pid, path))
            else:
                path = self.write_replay("%s-%d-unproved.json" % (self.pid, self.seed), dict(what, kind="proof obligation or correspondence no longer checks; no failing input found by the search"))
                lines.append("VIOLATION property=%s replay=%s no-failing-input-found" % (self.pid, path))
            self.violations.append("broken")
        return lines

    # ---- evidence ------------------------------------------------------------
    def evidence(self):
        cfg = self.cfg
        total_lines = sum(r.get("lines", 0) for r in getattr(self, "stream_results", []))
        distinct = sum(r.get("cov", {}).get("distinct_nontrivial", 0) for r in getattr(self, "stream_results", []))
        samples, dist, notes = [], {}, []
        for r in getattr(self, "stream_results", []):
            c = r.get("cov", {})
            samples += c.get("samples", [])
            notes += c.get("notes", [])
            for k, v in c.get("distribution", {}).items():
                dist[r["stream"] + ":" + k] = v
        obl = [{"name": n, "ok": ok, "detail": d} for n, ok, d in self.obligations]
        thm_samples = [o["name"] + " — " + o["detail"] for o in obl if o["name"].startswith("theorem:")][:8]
        coverage = {
            "obligations": len(obl),
            "discharged": sum(1 for o in obl if o["ok"]),
            "checker_cmd": "cd /verif/lean && lake build %s drv_<stream> && lake env lean <#print axioms audit>; then fv-harness | driver | diff" % " ".join(cfg.get("lean_targets", [])),
            "trusted_base": cfg.get("trusted_base", []) + ["Lean 4.33 kernel", "axioms allowed: propext, Classical.choice, Quot.sound (audited per theorem)", "translators in tools/gen (regex extraction)", "correspondence check: fv-harness + driver + diff (differential testing)"],
            "obligation_list": obl,
            "rule": cfg.get("rule", ""),
            "samples": (samples + thm_samples)[:12] or ["(no correspondence stream for this property)"],
            "traces_validated_against_impl": total_lines,
            "input_distribution": dist,
            "model_vs_impl_disagreements": sum(d["count"] for d in self.disagree),
            "oracle_failures": len(self.oracle),
            "known_findings_reproduced": [k["fingerprint"] for k in self.known_hit],
            "timings": self.timings,
            "notes": notes[:20],
            "exhaustive": False,
        }
        if total_lines:
            coverage["evaluations"] = total_lines
            coverage["distinct_nontrivial"] = distinct
        ev = {
            "property_id": self.pid, "tier": self.tier, "seed": self.seed, "level": cfg.get("level", "proof"),
            "coverage": coverage, "assumptions": cfg.get("assumptions", []),
            "wall_s": round(time.time() - self.t0, 1), "violations": len(self.violations),
        }
        os.makedirs(os.path.join(VERIF, "evidence"), exist_ok=True)
        with open(os.path.join(VERIF, "evidence", self.pid + ".json"), "w") as f:
            json.dump(ev, f, indent=1)

    def go(self):
        with Lock("build"):
            self.translators()
            self.lake()
            if self.tier == "thorough" and self.cfg.get("leanchecker", True):
                self.leanchecker()
            self.build_harness()
        if self.harness_ok:
            self.correspondence()
        else:
            self.stream_results = []
        lines = self.classify()
        self.evidence()
        for l in lines:
            print(l, flush=True)
        nob = len(self.obligations)
        log("%s tier=%s seed=%d: %d/%d obligations discharged, %d request lines compared, %d oracle failures, %.1fs" % (
            self.pid, self.tier, self.seed, sum(1 for o in self.obligations if o[1]), nob,
            sum(r.get("lines", 0) for r in self.stream_results), len(self.oracle), time.time() - self.t0))
        return 1 if self.violations else 0


def drv_module(stream):
    d = os.path.join(LEAN, "FuelVerif", "Drv")
    for f in os.listdir(d):
        if f.endswith(".lean") and f[:-5].lower() == stream:
            return "FuelVerif.Drv." + f[:-5]
    return "FuelVerif.Drv." + stream


def tail_errors(out):
    errs = [l for l in out.splitlines() if "error" in l.lower() and not l.startswith("trace:")]
    return "\n".join(errs[:12]) if errs else out[-800:]


def diff_streams(out_dir):
    res = []
    with open(os.path.join(out_dir, "ops.txt")) as fo, open(os.path.join(out_dir, "impl.txt")) as fi, open(os.path.join(out_dir, "model.txt")) as fm:
        n = 0
        for op, a, b in zip_longest3(fo, fi, fm):
            n += 1
            if a != b:
                if len(res) < 50:
                    res.append({"line": n, "op": (op or "").strip()[:400], "impl": (a or "<missing>").strip()[:400], "model": (b or "<missing>").strip()[:400]})
                else:
                    res.append({"line": n})
    return res


def zip_longest3(a, b, c):
    import itertools
    return itertools.zip_longest(a, b, c)


def main(argv):
    pid = None
    tier = os.environ.get("VERIF_TIER", "quick")
    seed = int(os.environ.get("VERIF_SEED", "1"))
    replay = None
    i = 0
    while i < len(argv):
        a = argv[i]
        if a == "--tier":
            i += 1; tier = argv[i]
        elif a == "--seed":
            i += 1; seed = int(argv[i])
        elif a == "--replay":
            i += 1; replay = argv[i]
        else:
            pid = a
        i += 1
    if replay:
        with open(replay if os.path.isabs(replay) else os.path.join(VERIF, replay)) as f:
            r = json.load(f)
        pid, tier, seed = r["property"], r["tier"], r["seed"]
        log("replaying %s: %s" % (replay, r.get("kind")))
    if not pid:
        print(__doc__)
        return 2
    if tier not in ("quick", "thorough"):
        tier = "quick"
    return Check(pid, tier, seed).go()
