#!/usr/bin/env python3
"""T-smt: the data the sparse Merkle tree code states (fuel-merkle) -> Gen/Sparse.lean

Extracted (fail closed when the text changes shape):
  common/prefix.rs      const NODE / const LEAF prefix bytes, Prefix::try_from arms
  common.rs             Bytes32 = [u8; 32]
  sparse/hash.rs        ZERO_SUM = [0; 32]; calculate_hash input order [prefix, bytes_lo, bytes_hi];
                        calculate_leaf_hash / calculate_node_hash prefixes
  sparse/merkle_tree/node.rs   key_size_bits = size_of::<Key>() * 8, create_leaf height 0
  sparse/proof.rs       the `proof_set.len() > 256usize` guard of both verifiers
  sparse/merkle_tree.rs the ORDER OF EFFECTS inside `update_with_path_set` and `delete_with_path_set`: every
                        `self.storage.{insert,remove,get}` call, the loops around them, the early return and
                        `set_root_node`, in textual order (`updateEffects`, `deleteEffects`). Every storage call
                        in the two functions must be one of the known shapes, otherwise the translator fails.
                        The refinement proofs (Lemmas/SparseRefine{Insert,Delete}.lean) rely on this order;
                        Props/C12Store.lean states it as theorems over the generated lists.
"""
import re, sys
from common import *


def fn_body(src, name):
    """text between the braces of `fn <name>(...) ... { ... }` (brace matched)"""
    m = need(re.search(r"\bfn %s\s*\(" % re.escape(name), src), "merkle_tree.rs fn %s" % name)
    i = src.find("{", m.end())
    if i < 0:
        raise TranslateError("merkle_tree.rs fn %s: no body" % name)
    depth, j = 0, i
    while j < len(src):
        if src[j] == "{":
            depth += 1
        elif src[j] == "}":
            depth -= 1
            if depth == 0:
                return src[i + 1:j]
        j += 1
    raise TranslateError("merkle_tree.rs fn %s: unbalanced braces" % name)


# effect name -> regex over the whitespace-normalised function body
EFFECTS = [
    ("returnIfSame", r"if requested_leaf_node == actual_leaf_node \{ return Ok\(\(\)\) \}"),
    ("ifKeysDiffer", r"if requested_leaf_node\.leaf_key\(\) != actual_leaf_node\.leaf_key\(\) \{"),
    ("joinActual", r"current_node = Node::create_node_on_path\(path, &current_node, actual_leaf_node\);"),
    ("loopPlaceholders", r"for placeholder in placeholders \{"),
    ("joinPlaceholder", r"current_node = Node::create_node_on_path\(path, &current_node, &placeholder\);"),
    ("insertCurrent", r"self\.storage \.insert\(current_node\.hash\(\), &current_node\.as_ref\(\)\.into\(\)\)\?;"),
    ("removeActual", r"self\.storage\.remove\(actual_leaf_node\.hash\(\)\)\?;"),
    ("loopMerge", r"for \(side_node, old_parent\) in"),
    ("removeOldParent", r"self\.storage\.remove\(old_parent\.hash\(\)\)\?;"),
    ("loopPathNodes", r"for node in path_nodes \{"),
    ("removePathNode", r"self\.storage\.remove\(node\.hash\(\)\)\?;"),
    ("getFirstSide", r"self \.storage \.get\(first_side_node\)\?"),
    ("ifFirstSideLeaf", r"if first_side_node\.is_leaf\(\) \{"),
    ("findSide", r"side_nodes_iter \.find\(\|side_node\| \*side_node != Node::Placeholder\.hash\(\)\)"),
    ("findParent", r"path_nodes_iter\.find\(\|parent\| \{ parent\.bytes_lo\(\) == side_node \|\| parent\.bytes_hi\(\) == side_node \}\)"),
    ("setRoot", r"self\.set_root_node\(current_node\);"),
]


def effects_of(src, name):
    body = re.sub(r"\s+", " ", fn_body(src, name))
    found = []
    for eff, rx in EFFECTS:
        for m in re.finditer(rx, body):
            found.append((m.start(), eff))
    found.sort()
    seq = [e for _, e in found]
    # fail closed: every storage call / root assignment in the body must have been recognised
    n_storage = len(re.findall(r"self\s*\.storage\s*\.", body))
    n_known = sum(1 for e in seq if e in ("insertCurrent", "removeActual", "removeOldParent", "removePathNode", "getFirstSide"))
    if n_storage != n_known:
        raise TranslateError("merkle_tree.rs fn %s: %d storage calls, %d of a known shape" % (name, n_storage, n_known))
    if len(re.findall(r"set_root_node", body)) != 1 or seq[-1:] != ["setRoot"]:
        raise TranslateError("merkle_tree.rs fn %s: set_root_node is not the single last effect" % name)
    if len(re.findall(r"\bfor\b", body)) != sum(1 for e in seq if e.startswith("loop")):
        raise TranslateError("merkle_tree.rs fn %s: unknown loop" % name)
    if len(re.findall(r"\breturn\b", body)) != sum(1 for e in seq if e.startswith("return")):
        raise TranslateError("merkle_tree.rs fn %s: unknown return" % name)
    return seq


def main():
    pre = strip_comments(read("fuel-merkle/src/common/prefix.rs"))
    node = rust_int(need(re.search(r"const NODE: u8 = (0x[0-9a-fA-F]+|\d+);", pre), "prefix.rs const NODE").group(1))
    leaf = rust_int(need(re.search(r"const LEAF: u8 = (0x[0-9a-fA-F]+|\d+);", pre), "prefix.rs const LEAF").group(1))
    need(re.search(r"Node = NODE,", pre), "prefix.rs Prefix::Node = NODE")
    need(re.search(r"Leaf = LEAF,", pre), "prefix.rs Prefix::Leaf = LEAF")
    need(re.search(r"match byte \{\s*NODE => Ok\(Prefix::Node\),\s*LEAF => Ok\(Prefix::Leaf\),\s*_ => Err\(PrefixError::InvalidPrefix\(byte\)\),\s*\}", pre),
         "prefix.rs TryFrom<u8> arms")
    need(re.search(r"Prefix::Node => &\[NODE\],\s*Prefix::Leaf => &\[LEAF\],", pre), "prefix.rs AsRef<[u8]>")

    common = strip_comments(read("fuel-merkle/src/common.rs"))
    key_bytes = rust_int(need(re.search(r"pub type Bytes32 = \[u8; (\d+)\];", common), "common.rs Bytes32").group(1))

    h = strip_comments(read("fuel-merkle/src/sparse/hash.rs"))
    z = need(re.search(r"const ZERO_SUM: Bytes32 = \[(\d+); (\d+)\];", h), "hash.rs ZERO_SUM")
    zero_byte, zero_len = rust_int(z.group(1)), rust_int(z.group(2))
    if zero_len != key_bytes:
        raise TranslateError("ZERO_SUM length differs from Bytes32")
    need(re.search(r"let input = \[prefix\.as_ref\(\), bytes_lo\.as_ref\(\), bytes_hi\.as_ref\(\)\];\s*sum_iter\(input\)", h),
         "hash.rs calculate_hash input order")
    need(re.search(r"fn calculate_leaf_hash\(leaf_key: &Bytes32, leaf_value: &Bytes32\) -> Bytes32 \{\s*calculate_hash\(&Prefix::Leaf, leaf_key, leaf_value\)", h),
         "hash.rs calculate_leaf_hash")
    need(re.search(r"fn calculate_node_hash\(left_child: &Bytes32, right_child: &Bytes32\) -> Bytes32 \{\s*calculate_hash\(&Prefix::Node, left_child, right_child\)", h),
         "hash.rs calculate_node_hash")

    nd = strip_comments(read("fuel-merkle/src/sparse/merkle_tree/node.rs"))
    need(re.search(r"fn key_size_bits\(\) -> u32 \{\s*core::mem::size_of::<Self::Key>\(\) as u32 \* 8\s*\}", nd), "node.rs key_size_bits")
    need(re.search(r"pub fn max_height\(\) -> u32 \{\s*Node::key_size_bits\(\)\s*\}", nd), "node.rs max_height")
    need(re.search(r"hash: calculate_leaf_hash\(key, &bytes_hi\),\s*height: 0u32,\s*prefix: Prefix::Leaf,", nd), "node.rs create_leaf")

    pr = strip_comments(read("fuel-merkle/src/sparse/proof.rs"))
    lens = re.findall(r"if proof_set\.len\(\) > (\d+)usize \{\s*return false;\s*\}", pr)
    if len(lens) != 2 or lens[0] != lens[1]:
        raise TranslateError("proof.rs: expected the proof-set length guard in both verifiers")
    max_len = int(lens[0])

    mt = strip_comments(read("fuel-merkle/src/sparse/merkle_tree.rs"))
    upd = effects_of(mt, "update_with_path_set")
    dele = effects_of(mt, "delete_with_path_set")

    L = ["/- GENERATED by tools/gen/sparse.py from fuel-merkle/src/{common/prefix.rs,common.rs,sparse/hash.rs,",
         "   sparse/merkle_tree/node.rs,sparse/proof.rs,sparse/merkle_tree.rs} — do not edit -/",
         "namespace FuelVerif.Gen.Sparse",
         "",
         "/-- `common/prefix.rs` `const NODE` -/",
         f"def prefixNode : Nat := {node}",
         "/-- `common/prefix.rs` `const LEAF` -/",
         f"def prefixLeaf : Nat := {leaf}",
         "/-- `common.rs` `Bytes32 = [u8; N]` -/",
         f"def keyBytes : Nat := {key_bytes}",
         "/-- `sparse/hash.rs` `ZERO_SUM = [b; N]`: the byte -/",
         f"def zeroByte : Nat := {zero_byte}",
         "/-- `sparse/proof.rs`: both verifiers reject `proof_set.len() > maxProofLen` -/",
         f"def maxProofLen : Nat := {max_len}",
         "",
         "/-- the effects (storage calls, loops, early return, root assignment) that occur in",
         "`update_with_path_set` / `delete_with_path_set` of `sparse/merkle_tree.rs` -/",
         "inductive Effect where",
         ] + ["  | %s" % e for e, _ in EFFECTS] + [
         "deriving DecidableEq, Repr",
         "",
         "/-- `update_with_path_set`: its effects in textual order -/",
         "def updateEffects : List Effect := [" + ", ".join("." + e for e in upd) + "]",
         "/-- `delete_with_path_set`: its effects in textual order -/",
         "def deleteEffects : List Effect := [" + ", ".join("." + e for e in dele) + "]",
         "",
         "end FuelVerif.Gen.Sparse", ""]
    changed = write_if_changed("Sparse.lean", "\n".join(L))
    print("sparse: NODE=%d LEAF=%d key=%d bytes maxProofLen=%d update=%d delete=%d effects%s" % (node, leaf, key_bytes, max_len, len(upd), len(dele), " (changed)" if changed else ""))


if __name__ == "__main__":
    try:
        main()
    except TranslateError as e:
        print("TranslateError: %s" % e)
        sys.exit(3)
