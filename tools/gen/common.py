"""Shared helpers for the translators (Rust source text -> Lean definitions)."""
import os, re, sys

VERIF = os.path.dirname(os.path.dirname(os.path.dirname(os.path.abspath(__file__))))
REPO = os.environ.get("VERIF_REPO") or os.path.realpath(os.path.join(VERIF, "repo-link"))
VERIF = os.path.dirname(os.path.dirname(os.path.dirname(os.path.abspath(__file__))))
GEN_DIR = os.path.join(VERIF, "lean", "FuelVerif", "Gen")


class TranslateError(Exception):
    """Raised when the source text no longer has the shape the translator understands."""


def read(rel):
    p = os.path.join(REPO, rel)
    try:
        with open(p, encoding="utf-8") as f:
            return f.read()
    except OSError as e:
        raise TranslateError(f"cannot read {rel}: {e}")


def strip_comments(src):
    src = re.sub(r"/\*.*?\*/", "", src, flags=re.S)
    src = re.sub(r"//[^\n]*", "", src)
    return src


def write_if_changed(name, text):
    os.makedirs(GEN_DIR, exist_ok=True)
    p = os.path.join(GEN_DIR, name)
    old = None
    if os.path.exists(p):
        with open(p, encoding="utf-8") as f:
            old = f.read()
    if old != text:
        with open(p, "w", encoding="utf-8") as f:
            f.write(text)
        return True
    return False


def need(m, what):
    if not m:
        raise TranslateError(f"pattern not found: {what}")
    return m


def rust_int(s):
    s = s.strip().replace("_", "")
    for suf in ("u8", "u16", "u32", "u64", "usize", "u128"):
        if s.endswith(suf):
            s = s[: -len(suf)]
    if s.startswith("0x"):
        return int(s, 16)
    if s.startswith("0b"):
        return int(s[2:], 2)
    return int(s)
