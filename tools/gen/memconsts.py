#!/usr/bin/env python3
"""VM memory constants and the structural facts of memory.rs the Lean model relies on
-> Gen/MemConsts.lean.

Extracted (fail closed when the text changes shape):
  * consts.rs: FUEL_MAX_MEMORY_SIZE, VM_MAX_RAM = 1024*1024*FUEL_MAX_MEMORY_SIZE, MEM_SIZE = VM_MAX_RAM as usize
  * memory.rs grow_heap_by: the reallocation policy `new_len.next_power_of_two().clamp(<MIN>, MEM_SIZE)`
  * memory.rs reset(): exactly `self.stack.truncate(0); self.hp = MEM_SIZE;` (the heap buffer is kept dirty)
  * memory.rs collect_rollback_data: the stack comparison slices `[..sp]` of BOTH buffers (the model's
    `rollbackSlicesCurrentStackToSp` flag), and both `assert!(hp >= self.hp …)` guards exist
  * memory.rs OwnershipRegisters::new: the fallback of prev_hp (`unwrap_or(VM_MAX_RAM)`)
  * call.rs / consts: call-frame offset of the saved registers (used by the C24 stream to locate saved $hp)
"""
import re, sys
from common import *


def fn_body(src, header_re, what):
    """text of the brace-balanced body following the first match of header_re"""
    m = need(re.search(header_re, src), what)
    i = src.index("{", m.end() - 1) if src[m.end() - 1] != "{" else m.end() - 1
    depth = 0
    for j in range(i, len(src)):
        if src[j] == "{":
            depth += 1
        elif src[j] == "}":
            depth -= 1
            if depth == 0:
                return src[i + 1 : j]
    raise TranslateError(f"unbalanced braces after {what}")


def squash(s):
    return re.sub(r"\s+", "", s)


def main():
    consts = strip_comments(read("fuel-vm/src/consts.rs"))
    mib = rust_int(need(re.search(r"pub const FUEL_MAX_MEMORY_SIZE: u64 = ([0-9_x]+);", consts), "FUEL_MAX_MEMORY_SIZE").group(1))
    need(re.search(r"pub const VM_MAX_RAM: u64 = 1024 \* 1024 \* FUEL_MAX_MEMORY_SIZE;", consts), "VM_MAX_RAM = 1024*1024*FUEL_MAX_MEMORY_SIZE")
    need(re.search(r"pub const MEM_SIZE: usize = VM_MAX_RAM as usize;", consts), "MEM_SIZE = VM_MAX_RAM as usize")
    word_size_ok = re.search(r"pub const WORD_SIZE: usize = mem::size_of::<Word>\(\);", consts)
    need(word_size_ok, "WORD_SIZE = size_of::<Word>()")
    nregs = rust_int(need(re.search(r"pub const VM_REGISTER_COUNT: usize = ([0-9_x]+);", consts), "VM_REGISTER_COUNT").group(1))

    mem = strip_comments(read("fuel-vm/src/interpreter/memory.rs"))
    # drop attribute lines so that clippy allow-attributes do not matter
    mem_na = re.sub(r"#\[[^\]]*\]", "", mem)

    grow = squash(fn_body(mem_na, r"pub fn grow_heap_by\(", "grow_heap_by"))
    m = need(re.search(r"letcap=new_len\.next_power_of_two\(\)\.clamp\((\d+),MEM_SIZE\);", grow), "grow_heap_by reallocation policy")
    min_cap = int(m.group(1))
    for frag, what in [
        ("letnew_hp=self.hp.checked_sub(amount).ok_or(PanicReason::MemoryOverflow)?;", "new_hp = hp.checked_sub(amount)"),
        ("if(new_hpasWord)<*sp_reg{returnErr(PanicReason::MemoryGrowthOverlap)}", "new_hp < sp check"),
        ("letnew_len=MEM_SIZE-new_hp;", "new_len"),
        ("ifself.heap.len()>=new_len{letstart=new_hp-self.heap_offset();letend=self.hp-self.heap_offset();self.heap[start..end].fill(0);}else{", "in-place zeroing branch"),
        ("letend=self.hp.checked_sub(self.heap_offset());ifletSome(end)=end{self.heap[..end].fill(0);}", "dirty prefix clearing before reallocation"),
        ("letold_len=self.heap.len();letprefix_zeroes=cap-old_len;self.heap.resize(cap,0);self.heap.copy_within(..old_len,prefix_zeroes);self.heap[..prefix_zeroes].fill(0);}", "reallocation sequence"),
        ("self.hp=new_hp;*hp_reg=new_hpasWord;self.stack.truncate(new_hp);Ok(())", "hp update and stack truncation"),
    ]:
        if frag not in grow:
            raise TranslateError(f"memory.rs grow_heap_by: expected fragment missing: {what}")

    reset = squash(fn_body(mem_na, r"pub fn reset\(&mut self\)", "reset"))
    if reset != "self.stack.truncate(0);self.hp=MEM_SIZE;":
        raise TranslateError(f"memory.rs reset(): body changed: {reset!r}")

    hoff = squash(fn_body(mem_na, r"fn heap_offset\(&self\) -> usize", "heap_offset"))
    if hoff != "MEM_SIZE.saturating_sub(self.heap.len())":
        raise TranslateError(f"memory.rs heap_offset(): body changed: {hoff!r}")

    gs = squash(fn_body(mem_na, r"pub fn grow_stack\(", "grow_stack"))
    if gs != ("ifnew_sp>VM_MAX_RAM{returnErr(PanicReason::MemoryOverflow);}letnew_sp=new_spasusize;"
              "ifnew_sp>self.stack.len(){ifnew_sp>self.hp{returnErr(PanicReason::MemoryGrowthOverlap)}"
              "self.stack.resize(new_sp,0);}Ok(())"):
        raise TranslateError(f"memory.rs grow_stack(): body changed: {gs!r}")

    vf = squash(fn_body(mem_na, r"pub fn verify<A: ToAddr, B: ToAddr>\(", "verify"))
    if vf != ("letstart=addr.to_addr()?;letlen=count.to_addr()?;letend=start.saturating_add(len);"
              "ifend>MEM_SIZE{returnErr(PanicReason::MemoryOverflow)}"
              "ifend<=self.stack.len()||start>=self.hp{Ok(MemoryRange(start..end))}else{Err(PanicReason::UninitalizedMemoryAccess)}"):
        raise TranslateError(f"memory.rs verify(): body changed: {vf!r}")

    coll = squash(fn_body(mem_na, r"pub fn collect_rollback_data\(", "collect_rollback_data"))
    FIXED = ("letcommon=sp.min(self.stack.len());letmutstack_changes=get_changes(&self.stack[..common],"
             "&desired_memory_state.stack[..common],0,);ifcommon<sp{letzeroes=alloc::vec![0u8;sp.saturating_sub(common)];"
             "stack_changes.extend(get_changes(&zeroes,&desired_memory_state.stack[common..sp],common,));}")
    if "letstack_changes=get_changes(&self.stack[..sp],&desired_memory_state.stack[..sp],0);" in coll:
        slices_cur = True
    elif FIXED in coll:
        slices_cur = False
    else:
        raise TranslateError("memory.rs collect_rollback_data: the stack comparison is neither today's `[..sp]` slicing of both "
                             "buffers nor the repaired common-prefix form; update Model/Memory.lean `collectRollbackData` and this translator")
    if "assert!(hp>=self.hp," not in coll:
        raise TranslateError("memory.rs collect_rollback_data: heap-shrink assert missing")
    rb = squash(fn_body(mem_na, r"pub fn rollback\(&mut self, data: &MemoryRollbackData\)", "rollback"))
    if not rb.startswith("self.stack.resize(data.sp,0);assert!(data.hp>=self.hp,"):
        raise TranslateError("memory.rs rollback: prologue changed")

    own = squash(fn_body(mem_na, r"pub\(crate\) fn new<M, S, Tx, Ecal, V>\(vm: &Interpreter<M, S, Tx, Ecal, V>\) -> Self", "OwnershipRegisters::new"))
    if "letprev_hp=vm.frames.last().map(|frame|frame.registers()[RegId::HP]).unwrap_or(VM_MAX_RAM);" not in own:
        raise TranslateError("memory.rs OwnershipRegisters::new: prev_hp derivation changed")

    hs = squash(fn_body(mem_na, r"pub\(crate\) fn has_ownership_stack\(&self, range: &Range<Word>\) -> bool", "has_ownership_stack"))
    if hs != ("ifrange.is_empty()&&range.start==self.ssp{returntrue}"
              "if!(self.ssp..self.sp).contains(&range.start){returnfalse}"
              "ifrange.end>VM_MAX_RAM{returnfalse}"
              "(self.ssp..=self.sp).contains(&range.end)"):
        raise TranslateError(f"memory.rs has_ownership_stack(): body changed: {hs!r}")
    hh = squash(fn_body(mem_na, r"pub\(crate\) fn has_ownership_heap\(&self, range: &Range<Word>\) -> bool", "has_ownership_heap"))
    if hh != ("ifrange.is_empty()&&range.start==self.hp{returntrue}"
              "ifrange.start<self.hp{returnfalse}"
              "self.hp!=self.prev_hp&&range.end<=self.prev_hp"):
        raise TranslateError(f"memory.rs has_ownership_heap(): body changed: {hh!r}")

    text = f"""/- GENERATED by tools/gen/memconsts.py from fuel-vm/src/consts.rs and fuel-vm/src/interpreter/memory.rs. Do not edit. -/
namespace FuelVerif.Gen

/-- `FUEL_MAX_MEMORY_SIZE` (MiB) -/
def fuelMaxMemoryMiB : Nat := {mib}
/-- `VM_MAX_RAM = 1024 * 1024 * FUEL_MAX_MEMORY_SIZE`; `MEM_SIZE = VM_MAX_RAM as usize` -/
def memSize : Nat := 1024 * 1024 * fuelMaxMemoryMiB
/-- lower clamp of the heap reallocation policy in `grow_heap_by` (`next_power_of_two().clamp(MIN, MEM_SIZE)`) -/
def heapMinCap : Nat := {min_cap}
/-- `VM_REGISTER_COUNT` -/
def vmRegisterCount : Nat := {nregs}
/-- `collect_rollback_data` compares `self.stack[..sp]` with `desired.stack[..sp]` (slicing the CURRENT stack to the desired length) -/
def rollbackSlicesCurrentStackToSp : Bool := {"true" if slices_cur else "false"}

end FuelVerif.Gen
"""
    changed = write_if_changed("MemConsts.lean", text)
    print(f"memconsts: MEM_SIZE = {mib} MiB, heap min cap {min_cap}, shapes of grow_heap_by/reset/verify/grow_stack/ownership verified" + (" (regenerated)" if changed else ""))


if __name__ == "__main__":
    try:
        main()
    except TranslateError as e:
        print(f"TRANSLATE-ERROR memconsts: {e}")
        sys.exit(3)
