#!/usr/bin/env python3
"""T-offsets (C04): the offset tables and constants of fuel-tx -> Gen/Offsets.lean

Extracted (and re-checked on every run):
  * fuel-types/src/array_types.rs `key!(X, n)`, `UtxoId::LEN`, `TxPointer::LEN`, `StorageSlot::SLOT_SIZE`, `WORD_SIZE`
  * fuel-tx input/consts.rs, output/consts.rs: every `const NAME: usize = <sum of constants>` (evaluated)
  * input/repr.rs, output/repr.rs: every `pub const fn x_offset(&self) -> Option<usize>` as a table
    variant -> Some(CONST) / None, the discriminants of `OutputRepr`, `from_input` / `from_output`
  * script.rs / create.rs / upload.rs / blob.rs / upgrade.rs / mint.rs: every `fn x_static() -> usize`
    (and Blob's constant `body_offset_end`), evaluated through the `Self::y_static().saturating_add(..)` chain
  * the bodies of the value-dependent offset functions the hand model (Model/Offsets.lean) transcribes
    (chargeable_transaction.rs `mod field`, `CommonMetadata::compute`, script_data_offset, body_offset_end,
    storage_slots_offset_at, proof_set_offset_at, the Mint offsets, Input::predicate_offset / .._data_offset /
    .._len, `padded_len_usize`, the trait defaults `fn x_offset(&self) { Self::x_offset_static() }`):
    compared, whitespace-normalised, with tools/gen/offsets_pins.json
Fails closed (TranslateError, exit 3) when the text no longer has the expected shape.
"""
import json, os, re, sys
from common import *

TX = "fuel-tx/src/transaction/"


def balanced(src, start):
    """src[start] == '{' -> index one past the matching '}'"""
    assert src[start] == "{"
    depth = 0
    for i in range(start, len(src)):
        if src[i] == "{":
            depth += 1
        elif src[i] == "}":
            depth -= 1
            if depth == 0:
                return i + 1
    raise TranslateError("unbalanced braces")


def fn_body(src, name, what, sig=None):
    """body (without braces, whitespace-normalised) of the only `fn name(` that has a body in `src`"""
    hits = []
    for m in re.finditer(r"\bfn\s+%s\s*(<[^>]*>)?\s*\(" % re.escape(name), src):
        j = m.end()
        # skip to the end of the signature: first '{' or ';' at depth 0 of parentheses
        depth, k = 1, j
        while k < len(src) and depth:
            depth += {"(": 1, ")": -1}.get(src[k], 0)
            k += 1
        while k < len(src) and src[k] not in "{;":
            k += 1
        if k < len(src) and src[k] == "{":
            end = balanced(src, k)
            hits.append((src[m.start():k], src[k + 1:end - 1]))
    if sig is not None:
        hits = [h for h in hits if re.search(sig, re.sub(r"\s+", " ", h[0]))]
    if len(hits) != 1:
        raise TranslateError(f"{what}: expected exactly one `fn {name}` with a body, found {len(hits)}")
    return re.sub(r"\s+", " ", re.sub(r"#\[[^\]]*\]", "", hits[0][1])).strip()


def const_eval(expr, env, what):
    e = re.sub(r"\s+", "", expr).rstrip(",")
    toks = re.findall(r"[A-Za-z_][A-Za-z0-9_]*(?:::[A-Za-z_][A-Za-z0-9_]*)?|\d+|[+*()]", e)
    if "".join(toks) != e:
        raise TranslateError(f"{what}: unsupported constant expression {expr!r}")
    out = []
    for t in toks:
        if re.fullmatch(r"\d+|[+*()]", t):
            out.append(t)
        elif t in env:
            out.append(str(env[t]))
        else:
            raise TranslateError(f"{what}: unknown constant {t!r} in {expr!r}")
    return int(eval("".join(out), {"__builtins__": {}}))


def lens():
    env = {}
    src = strip_comments(read("fuel-types/src/bytes.rs"))
    need(re.search(r"pub const WORD_SIZE\s*:\s*usize\s*=\s*core::mem::size_of::<Word>\(\)\s*;", src), "bytes.rs WORD_SIZE = size_of::<Word>()")
    need(re.search(r"pub type Word\s*=\s*u64\s*;", strip_comments(read("fuel-types/src/numeric_types.rs")) + strip_comments(read("fuel-types/src/lib.rs"))), "type Word = u64")
    env["WORD_SIZE"] = 8
    src = strip_comments(read("fuel-types/src/array_types.rs"))
    need(re.search(r"pub const LEN\s*:\s*usize\s*=\s*\$s\s*;", src), "array_types.rs key_methods LEN = $s")
    for m in re.finditer(r"^key(?:_with_big_array)?!\(\s*(\w+)\s*,\s*(\d+)\s*\);", src, re.M):
        env[m.group(1) + "::LEN"] = int(m.group(2))
    for k in ("Address", "AssetId", "ContractId", "TxId", "Bytes32", "Nonce", "Salt", "BlobId"):
        if k + "::LEN" not in env:
            raise TranslateError(f"array_types.rs: key!({k}, n) not found")
    m = need(re.search(r"impl UtxoId\s*\{\s*pub const LEN\s*:\s*usize\s*=\s*([^;]+);", strip_comments(read(TX + "types/utxo_id.rs"))), "UtxoId::LEN")
    env["UtxoId::LEN"] = const_eval(m.group(1), env, "UtxoId::LEN")
    m = need(re.search(r"pub const LEN\s*:\s*usize\s*=\s*([^;]+);", strip_comments(read("fuel-tx/src/tx_pointer.rs"))), "TxPointer::LEN")
    env["TxPointer::LEN"] = const_eval(m.group(1), env, "TxPointer::LEN")
    m = need(re.search(r"pub const SLOT_SIZE\s*:\s*usize\s*=\s*([^;]+);", strip_comments(read(TX + "types/storage.rs"))), "StorageSlot::SLOT_SIZE")
    env["StorageSlot::SLOT_SIZE"] = const_eval(m.group(1), env, "StorageSlot::SLOT_SIZE")
    return env


def consts(rel, env):
    src = strip_comments(read(rel))
    out = []
    local = dict(env)
    for m in re.finditer(r"pub\(super\)\s+const\s+(\w+)\s*:\s*usize\s*=\s*([^;]+);", src):
        v = const_eval(m.group(2), local, rel + " " + m.group(1))
        local[m.group(1)] = v
        out.append((m.group(1), v))
    if not out or len(re.findall(r"\bconst\s+\w+\s*:", src)) != len(out):
        raise TranslateError(f"{rel}: a constant is not of the form `pub(super) const X: usize = ..;`")
    return out


def repr_table(rel, enum, variants):
    src = strip_comments(read(rel))
    rows = []
    for m in re.finditer(r"pub const fn (\w+)\(&self\)\s*->\s*Option<usize>\s*\{", src):
        end = balanced(src, m.end() - 1)
        body = re.sub(r"\s+", "", src[m.end():end - 1])
        mm = need(re.fullmatch(r"matchself\{(.*)\}", body), f"{rel} {m.group(1)}: `match self {{ .. }}`")
        arms = re.findall(r"([A-Za-z:|_]+)=>\{?(Some\((\w+)\)|None)\}?,?", mm.group(1))
        if "".join(f"{a[0]}=>{a[1]}" for a in arms) != re.sub(r"[{},]", "", mm.group(1)):
            raise TranslateError(f"{rel} {m.group(1)}: unsupported match arms {mm.group(1)!r}")
        table = {}
        for pats, _, c in arms:
            for p in pats.split("|"):
                if p == "_":
                    for v in variants:
                        table.setdefault(v, c or None)
                    continue
                mv = need(re.fullmatch(r"(?:Self|%s)::(\w+)" % enum, p), f"{rel} {m.group(1)}: pattern {p!r}")
                if mv.group(1) not in variants:
                    raise TranslateError(f"{rel} {m.group(1)}: unknown variant {p!r}")
                if mv.group(1) in table:
                    raise TranslateError(f"{rel} {m.group(1)}: variant {p!r} matched twice")
                table[mv.group(1)] = c or None
        if set(table) != set(variants):
            raise TranslateError(f"{rel} {m.group(1)}: match does not cover {variants}")
        rows.append((m.group(1), [(v, table[v]) for v in variants]))
    return rows


def enum_variants(rel, enum):
    src = strip_comments(read(rel))
    m = need(re.search(r"pub enum %s\s*\{(.*?)\}" % enum, src, re.S), f"{rel} enum {enum}")
    vs = re.findall(r"(\w+)\s*=\s*(0x[0-9a-fA-F]+|\d+)\s*,", m.group(1))
    if not vs or re.sub(r"\s+", "", "".join(f"{a}={b}," for a, b in vs)) != re.sub(r"\s+", "", m.group(1)):
        raise TranslateError(f"{rel}: enum {enum} body not `V = n,`*")
    return [(a, rust_int(b)) for a, b in vs]


def from_table(rel, fn, ty, reprs):
    """`from_input` / `from_output`: variant of the value enum -> repr variant"""
    src = strip_comments(read(rel))
    m = need(re.search(r"pub const fn %s\(\w+: &%s\)\s*->\s*Self\s*\{" % (fn, ty), src), f"{rel} fn {fn}")
    end = balanced(src, m.end() - 1)
    body = re.sub(r"\s+", "", src[m.end():end - 1])
    mm = need(re.fullmatch(r"match\w+\{(.*)\}", body), f"{rel} {fn}: match")
    out = []
    for pats, r in re.findall(r"([A-Za-z:|_(){}.]+?)=>(?:Self|\w+Repr)::(\w+),", mm.group(1)):
        if r not in reprs:
            raise TranslateError(f"{rel} {fn}: unknown repr {r}")
        for p in pats.split("|"):
            mv = need(re.fullmatch(r"%s::(\w+)(\(_\)|\{\.\.\})" % ty, p), f"{rel} {fn}: pattern {p!r}")
            out.append((mv.group(1), r))
    return out


def static_offsets(env):
    """(kind, fn, value) of every `fn x_static() -> usize` / constant `&self` offset of the six kinds"""
    rows = []
    files = [("Script", "script"), ("Create", "create"), ("Upload", "upload"), ("Blob", "blob"), ("Upgrade", "upgrade"), ("Mint", "mint")]
    for kind, f in files:
        src = strip_comments(read(TX + f"types/{f}.rs"))
        found = {}
        pend = {}
        for m in re.finditer(r"fn (\w+)\((&self)?\)\s*->\s*usize\s*\{", src):
            end = balanced(src, m.end() - 1)
            body = re.sub(r"\s+", "", re.sub(r"#\[[^\]]*\]", "", src[m.end():end - 1]))
            pend[m.group(1)] = body
        progress = True
        while progress:
            progress = False
            for name, body in list(pend.items()):
                if name in found:
                    continue
                if re.fullmatch(r"[A-Z_0-9a-z:+*()]+", body) and "Self::" not in body and "self" not in body:
                    try:
                        found[name] = const_eval(body, env, f"{f}.rs {name}")
                        progress = True
                    except TranslateError:
                        pass
                    continue
                mm = re.fullmatch(r"(?:Self::|self\.)(\w+)\(\)\.saturating_add\((.*)\)", body)
                if mm and mm.group(1) in found and "self" not in mm.group(2) and "Self" not in mm.group(2):
                    found[name] = found[mm.group(1)] + const_eval(mm.group(2), env, f"{f}.rs {name}")
                    progress = True
        for name in pend:
            if name.endswith("_static") and name not in found:
                raise TranslateError(f"{f}.rs: cannot evaluate `fn {name}`: {pend[name]!r}")
        if not found:
            raise TranslateError(f"{f}.rs: no static offsets found")
        rows += [(kind, n, v) for n, v in found.items()]
    return rows


PINS = [
    # (key, file, fn, signature filter)
    ("bytes.padded_len_usize", "fuel-types/src/bytes.rs", "padded_len_usize", None),
    ("bytes.padded_len", "fuel-types/src/bytes.rs", "padded_len", None),
    ("script.script_data_offset", TX + "types/script.rs", "script_data_offset", None),
    ("script.body_offset_end", TX + "types/script.rs", "body_offset_end", None),
    ("create.storage_slots_offset_at", TX + "types/create.rs", "storage_slots_offset_at", None),
    ("create.body_offset_end", TX + "types/create.rs", "body_offset_end", None),
    ("upload.proof_set_offset_at", TX + "types/upload.rs", "proof_set_offset_at", None),
    ("upload.body_offset_end", TX + "types/upload.rs", "body_offset_end", None),
    ("upgrade.body_offset_end", TX + "types/upgrade.rs", "body_offset_end", None),
    ("mint.input_contract_offset", TX + "types/mint.rs", "input_contract_offset", None),
    ("mint.output_contract_offset", TX + "types/mint.rs", "output_contract_offset", None),
    ("mint.mint_amount_offset", TX + "types/mint.rs", "mint_amount_offset", None),
    ("mint.mint_asset_id_offset", TX + "types/mint.rs", "mint_asset_id_offset", None),
    ("mint.gas_price_offset", TX + "types/mint.rs", "gas_price_offset", None),
    ("chargeable.policies_offset", TX + "types/chargeable_transaction.rs", "policies_offset", None),
    ("chargeable.inputs_offset", TX + "types/chargeable_transaction.rs", "inputs_offset", None),
    ("chargeable.inputs_offset_at", TX + "types/chargeable_transaction.rs", "inputs_offset_at", None),
    ("chargeable.inputs_predicate_offset_at", TX + "types/chargeable_transaction.rs", "inputs_predicate_offset_at", None),
    ("chargeable.outputs_offset", TX + "types/chargeable_transaction.rs", "outputs_offset", None),
    ("chargeable.outputs_offset_at", TX + "types/chargeable_transaction.rs", "outputs_offset_at", None),
    ("chargeable.witnesses_offset", TX + "types/chargeable_transaction.rs", "witnesses_offset", None),
    ("chargeable.witnesses_offset_at", TX + "types/chargeable_transaction.rs", "witnesses_offset_at", None),
    ("metadata.compute", TX + "metadata.rs", "compute", None),
    ("input.predicate_offset", TX + "types/input.rs", "predicate_offset", None),
    ("input.predicate_data_offset", TX + "types/input.rs", "predicate_data_offset", None),
    ("input.predicate_len", TX + "types/input.rs", "predicate_len", None),
    ("input.repr", TX + "types/input.rs", "repr", None),
    ("output.repr", TX + "types/output.rs", "repr", None),
]
TRAIT_DEFAULTS = ["script_gas_limit_offset", "receipts_root_offset", "script_offset", "bytecode_witness_index_offset", "salt_offset",
                  "upgrade_purpose_offset", "bytecode_root_offset", "blob_id_offset", "subsection_index_offset", "subsections_number_offset",
                  "proof_set_offset"]


def pins():
    p = os.path.join(os.path.dirname(os.path.abspath(__file__)), "offsets_pins.json")
    expected = json.load(open(p)) if os.path.exists(p) else {}
    got = {}
    cache = {}
    for key, rel, fn, sig in PINS:
        if rel not in cache:
            cache[rel] = strip_comments(read(rel))
        got[key] = fn_body(cache[rel], fn, f"{rel} {fn}", sig)
    src = strip_comments(read("fuel-tx/src/transaction.rs"))
    for d in TRAIT_DEFAULTS:
        got["field." + d] = fn_body(src, d, f"transaction.rs {d}")
        if got["field." + d] != f"Self::{d}_static()":
            raise TranslateError(f"transaction.rs: default `fn {d}` is no longer `Self::{d}_static()`")
    m = need(re.search(r"fn tx_pointer_offset\(&self\)\s*->\s*usize\s*\{\s*Self::tx_pointer_static\(\)\s*\}", src), "transaction.rs tx_pointer_offset default")
    if "--write-pins" in sys.argv:
        json.dump(got, open(p, "w"), indent=1, sort_keys=True)
        print("offsets: pins written")
        return
    for k, v in got.items():
        if k not in expected:
            raise TranslateError(f"no pinned text for {k} (run offsets.py --write-pins after re-transcribing the model)")
        if expected[k] != v:
            raise TranslateError(f"the body of {k} changed; the hand model Model/Offsets.lean transcribes the pinned text.\n  pinned: {expected[k]}\n  found:  {v}")


def lean_str(s):
    return '"' + s + '"'


def main():
    env = lens()
    ic = consts(TX + "types/input/consts.rs", env)
    oc = consts(TX + "types/output/consts.rs", env)
    irepr = enum_variants(TX + "types/input/repr.rs", "InputRepr")
    orepr = enum_variants(TX + "types/output/repr.rs", "OutputRepr")
    it = repr_table(TX + "types/input/repr.rs", "InputRepr", [v for v, _ in irepr])
    ot = repr_table(TX + "types/output/repr.rs", "OutputRepr", [v for v, _ in orepr])
    names_i, names_o = dict(ic), dict(oc)
    for _, row in it:
        for _, c in row:
            if c is not None and c not in names_i:
                raise TranslateError(f"input/repr.rs uses unknown constant {c}")
    for _, row in ot:
        for _, c in row:
            if c is not None and c not in names_o:
                raise TranslateError(f"output/repr.rs uses unknown constant {c}")
    fo = from_table(TX + "types/output/repr.rs", "from_output", "Output", [v for v, _ in orepr])
    so = static_offsets(env)
    pins()

    def table(rows, names):
        return "[\n" + ",\n".join("  (%s, [%s])" % (lean_str(n), ", ".join("(%s, %s)" % (lean_str(v), "none" if c is None else "some %d /- %s -/" % (names[c], c)) for v, c in row)) for n, row in rows) + "\n]"

    L = []
    L.append("/- GENERATED by tools/gen/offsets.py from fuel-types/src/{bytes,array_types}.rs and fuel-tx/src/transaction/types/** — do not edit -/")
    L.append("namespace FuelVerif.Gen.Offsets\n")
    L.append("/-- `WORD_SIZE`, `X::LEN`, `StorageSlot::SLOT_SIZE` -/")
    L.append("def lens : List (String × Nat) := [" + ", ".join("(%s, %d)" % (lean_str(k), v) for k, v in env.items()) + "]\n")
    L.append("/-- input/consts.rs, evaluated -/")
    L.append("def inputConsts : List (String × Nat) := [" + ", ".join("(%s, %d)" % (lean_str(k), v) for k, v in ic) + "]\n")
    L.append("/-- output/consts.rs, evaluated -/")
    L.append("def outputConsts : List (String × Nat) := [" + ", ".join("(%s, %d)" % (lean_str(k), v) for k, v in oc) + "]\n")
    L.append("/-- `enum InputRepr` / `enum OutputRepr`: variant, discriminant -/")
    L.append("def inputReprs : List (String × Nat) := [" + ", ".join("(%s, %d)" % (lean_str(k), v) for k, v in irepr) + "]")
    L.append("def outputReprs : List (String × Nat) := [" + ", ".join("(%s, %d)" % (lean_str(k), v) for k, v in orepr) + "]\n")
    L.append("/-- `OutputRepr::from_output`: `Output` variant -> repr -/")
    L.append("def outputFrom : List (String × String) := [" + ", ".join("(%s, %s)" % (lean_str(a), lean_str(b)) for a, b in fo) + "]\n")
    L.append("/-- `impl InputRepr { pub const fn x(&self) -> Option<usize> }`: method, then per repr variant the constant returned -/")
    L.append("def inputReprOffsets : List (String × List (String × Option Nat)) := " + table(it, names_i) + "\n")
    L.append("/-- the same for `OutputRepr` -/")
    L.append("def outputReprOffsets : List (String × List (String × Option Nat)) := " + table(ot, names_o) + "\n")
    L.append("/-- constant offset functions of the transaction kinds (`fn x_static() -> usize` and constant `&self` ones), evaluated -/")
    L.append("def staticOffsets : List (String × String × Nat) := [\n" + ",\n".join("  (%s, %s, %d)" % (lean_str(k), lean_str(n), v) for k, n, v in so) + "\n]\n")
    L.append("/-! the same constants by name (a missing one is a build error of the model) -/")
    for k, v in env.items():
        L.append("def %s : Nat := %d" % (k.replace("::", "_"), v))
    for k, v in ic + oc:
        L.append("def %s : Nat := %d" % (k, v))
    for k, n, v in so:
        L.append("def %s.%s : Nat := %d" % (k, n, v))
    L.append("")
    L.append("end FuelVerif.Gen.Offsets")
    changed = write_if_changed("Offsets.lean", "\n".join(L) + "\n")
    print("offsets: %d lens, %d+%d consts, %d+%d repr methods, %d static offsets%s" % (len(env), len(ic), len(oc), len(it), len(ot), len(so), " (updated)" if changed else ""))


if __name__ == "__main__":
    try:
        main()
    except TranslateError as e:
        print("TranslateError: " + str(e))
        sys.exit(3)
