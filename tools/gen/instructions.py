#!/usr/bin/env python3
"""T1: fuel-asm instruction table, bit packing constants and reserved-part rules -> Gen/Instructions.lean"""
import re, sys
from common import *

KIND = {"RegId": ".reg", "Imm06": ".imm06", "Imm12": ".imm12", "Imm18": ".imm18", "Imm24": ".imm24"}


def table():
    src = read("fuel-asm/src/lib.rs")
    m = need(re.search(r"impl_instructions!\s*\{(.*?)\n\}", src, re.S), "impl_instructions! block")
    rows = []
    for line in m.group(1).splitlines():
        line = line.strip()
        if not line or line.startswith('"') or line.startswith("//"):
            continue
        r = re.fullmatch(r"(0x[0-9A-Fa-f]+)\s+([A-Z0-9_]+)\s+([a-z0-9_]+)\s+\[(.*)\]", line)
        if not r:
            raise TranslateError(f"unrecognised instruction row: {line!r}")
        args = []
        for a in re.findall(r"([a-z_0-9]+)\s*:\s*([A-Za-z0-9]+)", r.group(4)):
            if a[1] not in KIND:
                raise TranslateError(f"unknown argument type {a[1]} in {line!r}")
            args.append((a[0], a[1]))
        rows.append((int(r.group(1), 16), r.group(2), r.group(3), args))
    if len(rows) < 50:
        raise TranslateError("instruction table suspiciously small")
    return rows


def pack_consts():
    src = strip_comments(read("fuel-asm/src/pack.rs"))
    out = {}
    for pos in ("ra", "rb", "rc", "rd"):
        m = re.search(r"fn u32_from_%s\(r: RegId\) -> u32 \{\s*\(r\.0 as u32\)\s*<<\s*(\d+)\s*\}" % pos, src)
        if m:
            out[pos] = int(m.group(1))
            continue
        m = re.search(r"fn u32_from_%s\(r: RegId\) -> u32 \{\s*r\.0 as u32\s*\}" % pos, src)
        need(m, f"pack.rs u32_from_{pos}")
        out[pos] = 0
    for imm in ("imm06", "imm12", "imm18", "imm24"):
        need(re.search(r"fn u32_from_%s\(imm: \w+\) -> u32 \{\s*imm\.0( as u32)?\s*\}" % imm, src), f"pack.rs u32_from_{imm}")
    # composite packers must be plain ORs of the single-field packers in positional order
    comp = {
        "ra_rb": ["ra", "rb"], "ra_rb_rc": ["ra_rb", "rc"], "ra_rb_rc_rd": ["ra_rb_rc", "rd"],
        "ra_rb_rc_imm06": ["ra_rb_rc", "imm06"], "ra_rb_imm12": ["ra_rb", "imm12"], "ra_imm18": ["ra", "imm18"],
    }
    for name, parts in comp.items():
        m = need(re.search(r"fn u32_from_%s\(([^)]*)\) -> u32 \{(.*?)\}" % name, src, re.S), f"pack.rs u32_from_{name}")
        params = [p.split(":")[0].strip() for p in m.group(1).split(",") if p.strip()]
        body = re.sub(r"\s+", "", m.group(2))
        want_names = name.split("_")
        if len(params) != len(want_names):
            raise TranslateError(f"pack.rs u32_from_{name}: parameter list changed")
        first = parts[0]
        nfirst = len(first.split("_"))
        exp = "u32_from_%s(%s)|u32_from_%s(%s)" % (first, ",".join(params[:nfirst]), parts[1], params[-1])
        if body != exp:
            raise TranslateError(f"pack.rs u32_from_{name}: body {body!r} is not {exp!r}")
    # bytes_from_* = u8x3_from_u8x4(u32_from_*(..).to_be_bytes()) with the same argument order
    for name in ["ra", "ra_rb", "ra_rb_rc", "ra_rb_rc_rd", "ra_rb_rc_imm06", "ra_rb_imm12", "ra_imm18", "imm24"]:
        m = need(re.search(r"fn bytes_from_%s\(([^)]*)\) -> \[u8; 3\] \{(.*?)\}" % name, src, re.S), f"pack.rs bytes_from_{name}")
        params = [p.split(":")[0].strip() for p in m.group(1).split(",") if p.strip()]
        body = re.sub(r"\s+", "", m.group(2))
        exp = "u8x3_from_u8x4(u32_from_%s(%s).to_be_bytes())" % (name, ",".join(params))
        if body != exp:
            raise TranslateError(f"pack.rs bytes_from_{name}: body {body!r} is not {exp!r}")
    need(re.search(r"fn u8x3_from_u8x4\(\[_, a, b, c\]: \[u8; 4\]\) -> \[u8; 3\] \{\s*\[a, b, c\]\s*\}", src), "pack.rs u8x3_from_u8x4")
    return out


def unpack_consts():
    src = strip_comments(read("fuel-asm/src/unpack.rs"))
    out = {}
    for pos in ("ra", "rb", "rc", "rd"):
        m = re.search(r"fn %s_from_u32\(u: u32\) -> RegId \{\s*RegId::new\(\(u >> (\d+)\) as u8\)\s*\}" % pos, src)
        if m:
            out[pos] = int(m.group(1))
            continue
        need(re.search(r"fn %s_from_u32\(u: u32\) -> RegId \{\s*RegId::new\(u as u8\)\s*\}" % pos, src), f"unpack.rs {pos}_from_u32")
        out[pos] = 0
    cast = {}
    for imm, ty in (("imm06", "u8"), ("imm12", "u16"), ("imm18", None), ("imm24", None)):
        T = "Imm" + imm[3:]
        if ty:
            need(re.search(r"fn %s_from_u32\(u: u32\) -> %s \{\s*%s::new\(u as %s\)\s*\}" % (imm, T, T, ty), src), f"unpack.rs {imm}_from_u32")
            cast[imm] = {"u8": 8, "u16": 16}[ty]
        else:
            need(re.search(r"fn %s_from_u32\(u: u32\) -> %s \{\s*%s::new\(u\)\s*\}" % (imm, T, T), src), f"unpack.rs {imm}_from_u32")
            cast[imm] = 32
    for f in ("ra", "rb", "rc", "rd", "imm06", "imm12", "imm18", "imm24"):
        need(re.search(r"fn %s_from_bytes\(bs: \[u8; 3\]\) -> \w+ \{\s*%s_from_u32\(u32::from_be_bytes\(u8x4_from_u8x3\(bs\)\)\)\s*\}" % (f, f), src), f"unpack.rs {f}_from_bytes")
    need(re.search(r"fn u8x4_from_u8x3\(\[a, b, c\]: \[u8; 3\]\) -> \[u8; 4\] \{\s*\[0, a, b, c\]\s*\}", src), "unpack.rs u8x4_from_u8x3")
    comp = {"ra_rb": ["ra", "rb"], "ra_rb_rc": ["ra", "rb", "rc"], "ra_rb_rc_rd": ["ra", "rb", "rc", "rd"],
            "ra_rb_rc_imm06": ["ra", "rb", "rc", "imm06"], "ra_rb_imm12": ["ra", "rb", "imm12"], "ra_imm18": ["ra", "imm18"]}
    for name, parts in comp.items():
        m = need(re.search(r"fn %s_from_bytes\(bs: \[u8; 3\]\) -> \([^)]*\) \{(.*?)\n\}" % name, src, re.S), f"unpack.rs {name}_from_bytes")
        body = re.sub(r"\s+", "", m.group(1)).rstrip(",")
        exp = "(" + ",".join("%s_from_bytes(bs)" % p for p in parts) + ")"
        body = body.replace(",)", ")")
        if body != exp:
            raise TranslateError(f"unpack.rs {name}_from_bytes: body {body!r} is not {exp!r}")
    return out, cast


def masks():
    src = strip_comments(read("fuel-asm/src/lib.rs"))
    out = {}
    m = need(re.search(r"impl RegId \{.*?pub const fn new\(u: u8\) -> Self \{\s*Self\(u & (0b[01_]+)\)\s*\}", src, re.S), "lib.rs RegId::new mask")
    out["reg"] = rust_int(m.group(1))
    for T in ("Imm06", "Imm12", "Imm18", "Imm24"):
        m = need(re.search(r"impl %s \{\s*pub const MAX: Self = Self\((0b[01_]+)\);.*?pub const fn new\(u: \w+\) -> Self \{\s*Self\(u & Self::MAX\.0\)\s*\}" % T, src, re.S), f"lib.rs {T}::new mask")
        out[T.lower()] = rust_int(m.group(1))
    return out


def macro_rules():
    """op_unpack!, op_reserved_part!, op_new! arms: which pack/unpack function each argument shape uses."""
    src = strip_comments(read("fuel-asm/src/macros.rs"))
    m = need(re.search(r"macro_rules! op_reserved_part \{(.*?)\n\}", src, re.S), "macros.rs op_reserved_part!")
    arms = re.findall(r"\(([A-Za-z0-9 ]*)\) => \{(.*?)\n    \};", m.group(1), re.S)
    reserved = {}
    for shape, body in arms:
        shape = tuple(shape.split())
        b = re.sub(r"\s+", "", body)
        r = re.fullmatch(r"pub\(crate\)fnreserved_part_is_zero\(self\)->bool\{(.*)\}", b)
        need(r, f"op_reserved_part arm {shape}")
        inner = r.group(1)
        if inner == "true":
            reserved[shape] = ".always"
        elif inner == "self.0==[0;3]":
            reserved[shape] = ".allZero"
        else:
            r2 = re.fullmatch(r"let\(((?:_,)+)imm\)=unpack::(\w+)_from_bytes\(self\.0\);imm\.0==0", inner)
            need(r2, f"op_reserved_part arm {shape} body {inner!r}")
            fn = r2.group(2).split("_")
            if len(fn) != r2.group(1).count("_,") + 1 or not fn[-1].startswith("imm"):
                raise TranslateError(f"op_reserved_part arm {shape}: destructuring does not match {r2.group(2)}")
            if fn[:-1] != ["ra", "rb", "rc", "rd"][: len(fn) - 1]:
                raise TranslateError(f"op_reserved_part arm {shape}: unexpected unpack fn {r2.group(2)}")
            reserved[shape] = "(.immZero %s)" % KIND["Imm" + fn[-1][3:]]
    m = need(re.search(r"macro_rules! op_unpack \{(.*?)\n\}", src, re.S), "macros.rs op_unpack!")
    unpack = {}
    for shape, body in re.findall(r"\(([A-Za-z0-9 ]*)\) => \{(.*?)\n    \};", m.group(1), re.S):
        shape = tuple(shape.split())
        if not shape:
            continue
        r = need(re.search(r"unpack::(\w+)_from_bytes\(self\.0\)", body), f"op_unpack arm {shape}")
        unpack[shape] = r.group(1).split("_")
    m = need(re.search(r"macro_rules! op_new \{(.*?)\n\}", src, re.S), "macros.rs op_new!")
    new = {}
    for params, fn, args in re.findall(r"pub fn new\(([^)]*)\) -> Self \{\s*Self\(pack::bytes_from_(\w+)\(([^)]*)\)\)\s*\}", m.group(1)):
        ps = [x.strip() for x in params.split(",") if x.strip()]
        shape = tuple(x.split(":")[1].strip() for x in ps)
        names = [x.split(":")[0].strip() for x in ps]
        if [a.strip() for a in args.split(",")] != names:
            raise TranslateError(f"op_new arm {shape}: arguments passed out of order")
        new[shape] = (fn.split("_"), names)
    return reserved, unpack, new


def harness_rs(rows):
    """per-opcode glue for the harness: unpack()/new()/from_raw_args() of every op::X"""
    conv = {"RegId": ("to_u8() as u32", "RegId::new(a[%d] as u8)"), "Imm06": ("to_u8() as u32", "Imm06::new(a[%d] as u8)"),
            "Imm12": ("to_u16() as u32", "Imm12::new(a[%d] as u16)"), "Imm18": ("to_u32()", "Imm18::new(a[%d])"),
            "Imm24": ("to_u32()", "Imm24::new(a[%d])")}
    bits = {"RegId": 0, "Imm06": 6, "Imm12": 12, "Imm18": 18, "Imm24": 24}
    R = ["// GENERATED by tools/gen/instructions.py from fuel-asm/src/lib.rs - do not edit",
         "#![allow(unused_variables, unused_parens)]",
         "use fuel_asm::{op, Imm06, Imm12, Imm18, Imm24, Instruction, RegId};", "",
         "/// (opcode byte, mnemonic, argument kinds: 0 = register, n = n-bit immediate)",
         "pub const TABLE: &[(u8, &str, &[u8])] = &["]
    for op, name, _, args in rows:
        R.append('    (0x%02x, "%s", &[%s]),' % (op, name, ", ".join(str(bits[t]) for _, t in args)))
    R.append("];")
    R.append("")
    def unpack_expr(args, var):
        n = len(args)
        if n == 0:
            return "vec![]"
        names = ["v%d" % i for i in range(n)]
        pat = names[0] if n == 1 else "(" + ", ".join(names) + ")"
        vals = ", ".join("%s.%s" % (names[i], conv[args[i][1]][0]) for i in range(n))
        return "{ let %s = %s.unpack(); vec![%s] }" % (pat, var, vals)
    R.append("pub fn unpack(i: Instruction) -> (u8, Vec<u32>) {\n    match i {")
    for op, name, _, args in rows:
        R.append("        Instruction::%s(x) => (0x%02x, %s)," % (name, op, unpack_expr(args, "x")))
    R.append("    }\n}\n")
    R.append("pub fn construct(opcode: u8, a: &[u32]) -> Option<Instruction> {\n    Some(match opcode {")
    for op, name, _, args in rows:
        ctor = ", ".join(conv[t][1] % i for i, (_, t) in enumerate(args))
        R.append("        0x%02x => { if a.len() != %d { return None; } op::%s::new(%s).into() }" % (op, len(args), name, ctor))
    R.append("        _ => return None,\n    })\n}\n")
    R.append("/// `Some(Err(()))` = InvalidOpcode from `from_raw_args`; `None` = no such opcode")
    R.append("pub fn from_raw_args(opcode: u8, raw: [u8; 3]) -> Option<Result<Vec<u32>, ()>> {\n    Some(match opcode {")
    for op, name, _, args in rows:
        R.append("        0x%02x => op::%s::from_raw_args(raw).map(|x| %s).map_err(|_| ())," % (op, name, unpack_expr(args, "x")))
    R.append("        _ => return None,\n    })\n}")
    import os
    p = os.path.join(VERIF, "harness", "src", "gen", "instr_gen.rs")
    text = "\n".join(R) + "\n"
    old = open(p).read() if os.path.exists(p) else None
    if old != text:
        open(p, "w").write(text)


def main():
    rows = table()
    pk = pack_consts()
    upk, cast = unpack_consts()
    mk = masks()
    reserved, unpack, new = macro_rules()
    shapes = sorted({tuple(t for _, t in r[3]) for r in rows})
    posname = ["ra", "rb", "rc", "rd"]
    for sh in shapes:
        if sh not in reserved:
            raise TranslateError(f"no op_reserved_part arm for shape {sh}")
        if sh:
            exp = [posname[i] if t == "RegId" else "imm" + t[3:] for i, t in enumerate(sh)]
            if unpack.get(sh) != exp:
                raise TranslateError(f"op_unpack arm for {sh} uses {unpack.get(sh)}, expected {exp}")
            if sh not in new or new[sh][0] != exp:
                raise TranslateError(f"op_new arm for {sh} uses {new.get(sh)}, expected {exp}")
    L = []
    L.append("/- GENERATED by tools/gen/instructions.py from fuel-asm/src/{lib,pack,unpack,macros}.rs — do not edit -/")
    L.append("import FuelVerif.Model.InstrBase")
    L.append("namespace FuelVerif.Gen")
    L.append("open FuelVerif.Instr")
    L.append("")
    L.append("def instrTable : List InstrRow := [")
    L.append(",\n".join('  ⟨0x%02x, "%s", [%s]⟩' % (op, name, ", ".join(KIND[t] for _, t in args)) for op, name, _, args in rows))
    L.append("]")
    L.append("")
    L.append("/-- `(r.0 as u32) << k` in pack.rs, by register position ra,rb,rc,rd -/")
    L.append("def regPackShift : List Nat := [%s]" % ", ".join(str(pk[p]) for p in posname))
    L.append("/-- `(u >> k) as u8` in unpack.rs, by register position -/")
    L.append("def regUnpackShift : List Nat := [%s]" % ", ".join(str(upk[p]) for p in posname))
    L.append("def regMask : Nat := %d" % mk["reg"])
    L.append("def immMask : ArgKind → Nat")
    L.append("  | .reg => %d" % mk["reg"])
    for k in ("imm06", "imm12", "imm18", "imm24"):
        L.append("  | .%s => %d" % (k, mk[k]))
    L.append("/-- width of the `as uN` cast applied before masking in unpack.rs -/")
    L.append("def immCastBits : ArgKind → Nat")
    L.append("  | .reg => 8")
    for k in ("imm06", "imm12", "imm18", "imm24"):
        L.append("  | .%s => %d" % (k, cast[k]))
    L.append("")
    L.append("/-- `op_reserved_part!` arms of macros.rs, by argument shape -/")
    L.append("def reservedRule : List ArgKind → Option ReservedRule")
    for sh in sorted(reserved):
        L.append("  | [%s] => some %s" % (", ".join(KIND[t] for t in sh), reserved[sh]))
    L.append("  | _ => none")
    L.append("")
    L.append("end FuelVerif.Gen")
    changed = write_if_changed("Instructions.lean", "\n".join(L) + "\n")
    harness_rs(rows)
    print("instructions: %d rows, %d shapes%s" % (len(rows), len(shapes), " (changed)" if changed else ""))


if __name__ == "__main__":
    try:
        main()
    except TranslateError as e:
        print("TRANSLATE-ERROR instructions: %s" % e)
        sys.exit(3)
