#!/usr/bin/env python3
"""T6 (compression part): for every fuel-tx type deriving `fuel_compression::Compress`: fields in declaration
order with their `compress(skip)` / `canonical(skip)` flags and declared type text; the fields every
`prepare_sign` body resets; the source of every field in the hand-written `DecompressibleBy` impls of
fuel-tx/src/tests/da_compression.rs (context lookup / Default / decompressed); `RegistryKey` constants.
 -> lean/FuelVerif/Gen/Fields.lean + harness/src/gen/fields_gen.rs"""
import os, re, sys
from common import *

FILES = [
    "fuel-tx/src/transaction.rs",
    "fuel-tx/src/tx_pointer.rs",
    "fuel-tx/src/transaction/types/chargeable_transaction.rs",
    "fuel-tx/src/transaction/types/script.rs",
    "fuel-tx/src/transaction/types/create.rs",
    "fuel-tx/src/transaction/types/upload.rs",
    "fuel-tx/src/transaction/types/blob.rs",
    "fuel-tx/src/transaction/types/upgrade.rs",
    "fuel-tx/src/transaction/types/mint.rs",
    "fuel-tx/src/transaction/types/storage.rs",
    "fuel-tx/src/transaction/types/witness.rs",
    "fuel-tx/src/transaction/types/input.rs",
    "fuel-tx/src/transaction/types/input/coin.rs",
    "fuel-tx/src/transaction/types/input/message.rs",
    "fuel-tx/src/transaction/types/input/contract.rs",
    "fuel-tx/src/transaction/types/output.rs",
    "fuel-tx/src/transaction/types/output/contract.rs",
]
# the two structs called `Contract` are told apart by file (the harness renames them the same way by field set)
RENAME = {("fuel-tx/src/transaction/types/input/contract.rs", "Contract"): "InputContract",
          ("fuel-tx/src/transaction/types/output/contract.rs", "Contract"): "OutputContract"}


def match_close(s, i, open_c, close_c):
    """index of the bracket closing the one at s[i]"""
    depth = 0
    for j in range(i, len(s)):
        if s[j] == open_c:
            depth += 1
        elif s[j] == close_c:
            depth -= 1
            if depth == 0:
                return j
    raise TranslateError("unbalanced %s" % open_c)


def split_top(body):
    """split at commas that are not inside (), [], {}, <>"""
    out, depth, cur = [], 0, ""
    i = 0
    while i < len(body):
        ch = body[i]
        if ch in "([{<":
            depth += 1
        elif ch in ")]}":
            depth -= 1
        elif ch == ">" and (i == 0 or body[i - 1] != "-") and (i == 0 or body[i - 1] != "="):
            depth -= 1
        if ch == "," and depth == 0:
            out.append(cur); cur = ""
        else:
            cur += ch
        i += 1
    if cur.strip():
        out.append(cur)
    return [x.strip() for x in out if x.strip()]


def take_attrs(item):
    """leading #[...] attributes of a field/variant -> (list of attribute texts, rest)"""
    attrs = []
    item = item.strip()
    while item.startswith("#["):
        j = match_close(item, 1, "[", "]")
        attrs.append(re.sub(r"\s+", " ", item[2:j]))
        item = item[j + 1:].strip()
    return attrs, item


def flags(attrs):
    a = " ".join(attrs)
    return ("compress(skip)" in a, "canonical(skip)" in a)


def parse_fields(body, what):
    res = []
    for item in split_top(body):
        attrs, rest = take_attrs(item)
        m = re.match(r"(?:pub(?:\([a-z]+\))?\s+)?(\w+)\s*:\s*(.+)$", rest, re.S)
        if not m:
            raise TranslateError("cannot parse field %r of %s" % (rest[:60], what))
        sk, ck = flags(attrs)
        res.append((m.group(1), sk, ck, re.sub(r"\s+", "", m.group(2))))
    return res


def parse_tuple_fields(body, what):
    res = []
    for k, item in enumerate(split_top(body)):
        attrs, rest = take_attrs(item)
        rest = re.sub(r"^pub(?:\([a-z]+\))?\s+", "", rest)
        sk, ck = flags(attrs)
        res.append((str(k), sk, ck, re.sub(r"\s+", "", rest)))
    return res


def parse_types(rel, src):
    """every struct/enum whose attributes derive fuel_compression::Compress"""
    types = []
    for m in re.finditer(r"pub (struct|enum) (\w+)", src):
        # attributes block immediately before: walk back over #[...] items and blank space
        head = src[:m.start()]
        k = len(head)
        attrs_txt = ""
        while True:
            h = head[:k].rstrip()
            if h.endswith("]"):
                # find the matching "#["
                depth, j = 0, len(h) - 1
                while j >= 0:
                    if h[j] == "]": depth += 1
                    elif h[j] == "[":
                        depth -= 1
                        if depth == 0: break
                    j -= 1
                if j >= 1 and h[j - 1] == "#":
                    attrs_txt = h[j - 1:] + attrs_txt
                    k = j - 1
                    continue
            break
        if "fuel_compression::Compress" not in attrs_txt:
            continue
        kind, name = m.group(1), m.group(2)
        name = RENAME.get((rel, name), name)
        i = m.end()
        # skip generics and where clause up to the body
        j = i
        depth = 0
        while j < len(src):
            if src[j] == "<": depth += 1
            elif src[j] == ">" and src[j - 1] not in "-=": depth -= 1
            elif depth == 0 and src[j] in "{(;": break
            j += 1
        if src[j] == ";":
            types.append((name, kind, [(None, [])])); continue
        if kind == "struct":
            if src[j] == "{":
                e = match_close(src, j, "{", "}")
                types.append((name, kind, [(None, parse_fields(src[j + 1:e], name))]))
            else:
                e = match_close(src, j, "(", ")")
                types.append((name, kind, [(None, parse_tuple_fields(src[j + 1:e], name))]))
        else:
            e = match_close(src, j, "{", "}")
            variants = []
            for item in split_top(src[j + 1:e]):
                attrs, rest = take_attrs(item)
                vm = re.match(r"(\w+)\s*(.*)$", rest, re.S)
                vname, tail = vm.group(1), vm.group(2).strip()
                if tail.startswith("{"):
                    variants.append((vname, parse_fields(tail[1:match_close(tail, 0, "{", "}")], name + "::" + vname)))
                elif tail.startswith("("):
                    variants.append((vname, parse_tuple_fields(tail[1:match_close(tail, 0, "(", ")")], name + "::" + vname)))
                else:
                    variants.append((vname, []))
            types.append((name, kind, variants))
    return types


def fn_body(src, header_re, what):
    m = need(re.search(header_re, src, re.S), what)
    j = src.index("{", m.end() - 1)
    return src[j + 1:match_close(src, j, "{", "}")]


def zeroed_sets(srcs):
    z = []
    def self_assign(body):
        return re.findall(r"self\.(\w+)\s*=\s*Default::default\(\)", body) + re.findall(r"self\s*\.\s*(\w+)\s*\.as_mut_field\(\)", body)
    coin = fn_body(srcs["fuel-tx/src/transaction/types/input/coin.rs"], r"impl<Specification> Coin<Specification>.*?pub fn prepare_sign\(&mut self\) \{", "Coin::prepare_sign")
    z += [("Coin", f) for f in self_assign(coin)]
    msg = fn_body(srcs["fuel-tx/src/transaction/types/input/message.rs"], r"impl<Specification> Message<Specification>.*?pub fn prepare_sign\(&mut self\) \{", "Message::prepare_sign")
    z += [("Message", f) for f in self_assign(msg)]
    ic = fn_body(srcs["fuel-tx/src/transaction/types/input/contract.rs"], r"impl Contract \{.*?pub fn prepare_sign\(&mut self\) \{", "input Contract::prepare_sign")
    z += [("InputContract", f) for f in self_assign(ic)]
    oc = fn_body(srcs["fuel-tx/src/transaction/types/output/contract.rs"], r"impl Contract \{.*?pub fn prepare_sign\(&mut self\) \{", "output Contract::prepare_sign")
    z += [("OutputContract", f) for f in self_assign(oc)]
    sb = fn_body(srcs["fuel-tx/src/transaction/types/script.rs"], r"impl PrepareSign for ScriptBody \{\s*fn prepare_sign\(&mut self\) \{", "ScriptBody::prepare_sign")
    z += [("ScriptBody", f) for f in self_assign(sb)]
    for rel, ty in [("create.rs", "CreateBody"), ("upload.rs", "UploadBody"), ("blob.rs", "BlobBody"), ("upgrade.rs", "UpgradeBody")]:
        b = fn_body(srcs["fuel-tx/src/transaction/types/" + rel], r"impl PrepareSign for %s \{\s*fn prepare_sign\(&mut self\) \{" % ty, ty + "::prepare_sign")
        if b.strip():
            raise TranslateError("%s::prepare_sign is no longer empty" % ty)
    # Output::prepare_sign: match arms
    ob = fn_body(srcs["fuel-tx/src/transaction/types/output.rs"], r"pub fn prepare_sign\(&mut self\) \{", "Output::prepare_sign")
    need(re.search(r"Output::Contract\(contract\)\s*=>\s*contract\.prepare_sign\(\)", ob), "Output::prepare_sign Contract arm")
    arms = re.findall(r"Output::(\w+)\s*\{([^}]*)\}\s*=>\s*\{([^}]*)\}", ob)
    if not arms:
        raise TranslateError("Output::prepare_sign: no struct-variant arms found")
    for v, _binds, body in arms:
        for f in re.findall(r"\*(\w+)\s*=", body):
            z.append(("Output::" + v, f))
    if not re.search(r"_\s*=>\s*\(\)", ob):
        raise TranslateError("Output::prepare_sign: catch-all arm missing")
    # the dispatchers must still cover body, every input and every output
    ct = fn_body(srcs["fuel-tx/src/transaction/types/chargeable_transaction.rs"], r"impl<Body, MetadataBody> PrepareSign for ChargeableTransaction<Body, MetadataBody>.*?fn prepare_sign\(&mut self\) \{", "ChargeableTransaction::prepare_sign")
    for pat in [r"self\.body\.prepare_sign\(\)", r"inputs_mut\(\)\.iter_mut\(\)\.for_each\(Input::prepare_sign\)", r"outputs_mut\(\)\.iter_mut\(\)\.for_each\(Output::prepare_sign\)"]:
        need(re.search(pat, ct), "ChargeableTransaction::prepare_sign: " + pat)
    ip = fn_body(srcs["fuel-tx/src/transaction/types/input.rs"], r"pub fn prepare_sign\(&mut self\) \{", "Input::prepare_sign")
    arms = re.findall(r"Input::(\w+)\(\w+\)\s*=>\s*\w+\.prepare_sign\(\)", ip)
    if len(arms) != 7:
        raise TranslateError("Input::prepare_sign: expected 7 delegating arms, found %d" % len(arms))
    # Mint::id zeroes through the two contracts only
    mid = fn_body(srcs["fuel-tx/src/transaction/types/mint.rs"], r"impl crate::UniqueIdentifier for Mint \{\s*fn id\(&self, chain_id: &ChainId\) -> Bytes32 \{", "Mint::id")
    mint_calls = re.findall(r"clone\.(\w+)\.prepare_sign\(\)", mid)
    return z, mint_calls


def hand_decompress(src):
    """fuel-tx/src/tests/da_compression.rs: field sources in the hand-written DecompressibleBy impls"""
    out = []
    for ty, hdr, ctor in [("Coin", r"DecompressibleBy<TestCompressionCtx> for Coin<Specification>", r"Ok\(Self \{"),
                          ("Message", r"DecompressibleBy<TestCompressionCtx> for Message<Specification>", r"Message \{")]:
        m = need(re.search(hdr, src), "hand-written Decompress for " + ty)
        body = src[m.end():]
        body = body[:body.index("\nimpl")] if "\nimpl" in body else body
        c = need(re.search(ctor, body), ty + " constructor")
        j = body.index("{", c.end() - 1)
        fields = split_top(body[j + 1:match_close(body, j, "{", "}")])
        ctxvar = need(re.search(r"let (\w+) = ctx\s*\.\s*latest_tx_\w+\s*\.get\(", body), ty + ": context lookup").group(1)
        for f in fields:
            fm = re.match(r"(\w+)(?:\s*:\s*(.+))?$", f, re.S)
            name, val = fm.group(1), (fm.group(2) or fm.group(1)).strip()
            if val.startswith(ctxvar + "."):
                srcd = "ctx"
            elif val.startswith("Default::default()"):
                srcd = "default"
            else:
                # must come from a `.decompress(ctx)` / `decompress_with` binding or the compressed value itself
                if not (re.search(r"let %s = [^;]*decompress" % re.escape(val), body) or val.startswith("c.")):
                    raise TranslateError("%s.%s: unknown source %r" % (ty, name, val))
                srcd = "decompress"
            out.append((ty, name, srcd))
        if ty == "Message":
            # `data` is filled after construction from the context
            if re.search(r"message\.data\.as_mut_field\(\)\s*\{\s*\*data = Bytes::new\(%s\.data" % ctxvar, body):
                out = [(t, n, "ctx" if (t, n) == ("Message", "data") else s) for t, n, s in out]
    m = need(re.search(r"DecompressibleBy<TestCompressionCtx> for Mint", src), "hand-written Decompress for Mint")
    body = src[m.end():]
    body = body[:body.index("\n}\n") + 3]
    c = need(re.search(r"Transaction::mint\(", body), "Transaction::mint call")
    args = split_top(body[c.end():match_close(body, c.end() - 1, "(", ")")])
    names = ["tx_pointer", "input_contract", "output_contract", "mint_amount", "mint_asset_id", "gas_price"]
    if len(args) != len(names):
        raise TranslateError("Transaction::mint: expected %d args" % len(names))
    for n, a in zip(names, args):
        if a.startswith("ctx."):
            out.append(("Mint", n, "ctx"))
        elif re.match(r"c\.%s\.decompress\(ctx\)" % n, a):
            out.append(("Mint", n, "decompress"))
        else:
            raise TranslateError("Mint.%s: unknown source %r" % (n, a))
    return out


HAND_IMPL_DIRS = ["fuel-tx/src", "fuel-types/src", "fuel-asm/src", "fuel-crypto/src", "fuel-compression/src"]


def classify_body(body, what):
    """the (whitespace-free) body of a hand-written compress_with / decompress_with -> kind; fail closed"""
    b = re.sub(r"\s+", "", body)
    if b in ("Ok(*self)", "Ok(self.clone())", "Ok(c)"):
        return "identity"
    if b == "Ok(self.bits())":
        return "bits"
    if b == "Ok(Self::from_bits_truncate(c))":
        return "from_bits_truncate"
    if b == "letmutresult=Vec::with_capacity(self.len());foriteminself{result.push(item.compress_with(ctx).await?);}Ok(result)":
        return "elementwise"
    if b == "letmutresult=Vec::with_capacity(c.len());foriteminc{result.push(T::decompress_with(item,ctx).await?);}Ok(result)":
        return "elementwise"
    # fixed-size arrays: the MaybeUninit loops, element i -> element i
    if re.fullmatch(r"letmuttmp:\[MaybeUninit<T::Compressed>;S\]=unsafe\{MaybeUninit::uninit\(\)\.assume_init\(\)\};letmuti=0;whilei<self\.len\(\)\{matchself\[i\]\.compress_with\(ctx\)\.await\{Ok\(value\)=>\{tmp\[i\]\.write\(value\);\}Err\(e\)=>\{.*?returnErr\(e\);\}\}i\+=1;\}letresult=tmp\.map\(\|v\|unsafe\{v\.assume_init\(\)\}\);Ok\(result\)", b):
        return "elementwise"
    if re.fullmatch(r"letmuttmp:\[MaybeUninit<T>;S\]=unsafe\{MaybeUninit::uninit\(\)\.assume_init\(\)\};for\(i,c\)inc\.into_iter\(\)\.enumerate\(\)\{matchT::decompress_with\(c,ctx\)\.await\{Ok\(value\)=>\{tmp\[i\]\.write\(value\);\}Err\(e\)=>\{.*?returnErr\(e\);\}\}\}letresult=tmp\.map\(\|v\|unsafe\{v\.assume_init\(\)\}\);Ok\(result\)", b):
        return "elementwise"
    raise TranslateError("hand-written %s has a body the translator does not know: %s" % (what, body.strip()[:200]))


def hand_impls():
    """every `impl … CompressibleBy<Ctx>/DecompressibleBy<Ctx> for T` outside the derive macro and outside test code:
    (type, compress kind, decompress kind)"""
    found = {}   # type -> {"compress": kind, "decompress": kind}
    hdr = re.compile(r"impl\s*(?:<[^{}]*?>)?\s*(?:::)?(?:fuel_compression::)?(Compressible|Decompressible)By<Ctx>\s*for\s+(\[T;\s*S\]|[^\s{]+)")
    for d in HAND_IMPL_DIRS:
        root = os.path.join(REPO, d)
        for dp, dns, fns in os.walk(root):
            dns[:] = [x for x in dns if x != "tests"]
            for fn in fns:
                if not fn.endswith(".rs") or fn in ("tests.rs", "traits.rs"):
                    continue
                rel = os.path.relpath(os.path.join(dp, fn), REPO)
                src = strip_comments(read(rel))
                # the identity_compression! macro: pin its two bodies, then expand its uses
                mm = re.search(r"macro_rules! identity_compression \{", src)
                macro_span = (0, 0)
                if mm:
                    j = src.index("{", mm.end() - 1)
                    e = match_close(src, j, "{", "}")
                    macro_span = (mm.start(), e)
                    mb = src[j:e]
                    kinds = []
                    for fnname in ("compress_with", "decompress_with"):
                        fm = need(re.search(r"async fn %s\([^)]*\)\s*->\s*Result<Self, Ctx::Error>\s*\{" % fnname, mb), "identity_compression! " + fnname)
                        bj = mb.index("{", fm.end() - 1)
                        kinds.append(classify_body(mb[bj + 1:match_close(mb, bj, "{", "}")], "identity_compression!::" + fnname))
                    for t in re.findall(r"identity_compression!\((\w+)\);", src):
                        found.setdefault(t, {}).update(compress=kinds[0], decompress=kinds[1])
                for m in hdr.finditer(src):
                    if macro_span[0] <= m.start() < macro_span[1]:
                        continue
                    direction = "compress" if m.group(1) == "Compressible" else "decompress"
                    ty = re.sub(r"\s+", "", m.group(2)).split("::")[-1]
                    if "[T;S]" in re.sub(r"\s+", "", m.group(2)):
                        ty = "[T;S]"
                    j = src.index("{", m.end())
                    e = match_close(src, j, "{", "}")
                    ib = src[j:e]
                    fm = need(re.search(r"async fn %s_with\s*\(.*?\)\s*->\s*Result<[^{]*?>\s*\{" % direction, ib, re.S), "%s %s_with in %s" % (ty, direction, rel))
                    bj = ib.index("{", fm.end() - 1)
                    kind = classify_body(ib[bj + 1:match_close(ib, bj, "{", "}")], "%s::%s_with (%s)" % (ty, direction, rel))
                    if direction in found.get(ty, {}):
                        raise TranslateError("two hand-written %s impls for %s" % (direction, ty))
                    found.setdefault(ty, {})[direction] = kind
    out = []
    for ty in sorted(found):
        d = found[ty]
        if "compress" not in d or "decompress" not in d:
            raise TranslateError("hand-written impl for %s has only one direction: %s" % (ty, d))
        out.append((ty, d["compress"], d["decompress"]))
    for must in ["Policies", "PoliciesBits", "Bytes", "Vec<T>", "[T;S]", "u64", "u16", "Bytes32", "BlockHeight", "Nonce", "Salt", "BlobId"]:
        if must not in found:
            raise TranslateError("expected a hand-written compression impl for %s" % must)
    return out


def lean_str(s):
    return '"' + s.replace("\\", "\\\\").replace('"', '\\"') + '"'


def main():
    srcs = {rel: strip_comments(read(rel)) for rel in FILES}
    rows = []   # (owner, field, skip, canonical skip, type text)
    seen = set()
    for rel in FILES:
        for name, kind, variants in parse_types(rel, srcs[rel]):
            for vname, fields in variants:
                owner = name if vname is None else name + "::" + vname
                if vname is None and not fields:
                    continue    # unit marker structs (coin/message `Signed`, `Predicate`)
                if owner in seen:
                    raise TranslateError("two compressible types named %s" % owner)
                seen.add(owner)
                for f, sk, ck, ty in fields:
                    dup = [r for r in rows if r[0] == owner and r[1] == f]
                    if dup:
                        # cfg-alternative declarations of one field (TxPointer.tx_index): flags must agree
                        if (dup[0][2], dup[0][3]) != (sk, ck):
                            raise TranslateError("%s.%s declared twice with different flags" % (owner, f))
                        continue
                    rows.append((owner, f, sk, ck, ty))
    owners = set(r[0] for r in rows)
    for must in ["ChargeableTransaction", "ScriptBody", "Mint", "Coin", "Message", "InputContract", "OutputContract",
                 "Output::Change", "Output::Variable", "Output::Coin", "Input::CoinSigned", "Transaction::Script", "TxPointer", "Witness"]:
        if must not in owners:
            raise TranslateError("compressible type %s not found" % must)
    zeroed, mint_calls = zeroed_sets(srcs)
    for o, f in zeroed:
        if (o, f) not in set((r[0], r[1]) for r in rows):
            raise TranslateError("prepare_sign resets %s.%s which is not a parsed field" % (o, f))
    hand = hand_decompress(strip_comments(read("fuel-tx/src/tests/da_compression.rs")))
    for t, f, s in hand:
        if (t, f) not in set((r[0], r[1]) for r in rows):
            raise TranslateError("hand-written Decompress for %s mentions unknown field %s" % (t, f))
    # RegistryKey constants
    key = strip_comments(read("fuel-compression/src/key.rs"))
    size = int(need(re.search(r"pub const SIZE: usize = (\d+);", key), "RegistryKey::SIZE").group(1))
    need(re.search(r"pub const DEFAULT_VALUE: Self = Self\(\[u8::MAX; Self::SIZE\]\);", key), "RegistryKey::DEFAULT_VALUE")
    need(re.search(r"pub const ZERO: Self = Self\(\[0; Self::SIZE\]\);", key), "RegistryKey::ZERO")
    nb = fn_body(key, r"pub fn next\(self\) -> Self \{", "RegistryKey::next")
    for pat in [r"if self == Self::DEFAULT_VALUE \{\s*panic!", r"let next_raw = self\.as_u32\(\) \+ 1u32;",
                r"if next_raw == Self::DEFAULT_VALUE\.as_u32\(\) \{\s*Self::ZERO\s*\} else \{\s*Self::try_from\(next_raw\)"]:
        need(re.search(pat, nb), "RegistryKey::next shape: " + pat)
    tf = fn_body(key, r"impl TryFrom<u32> for RegistryKey \{.*?fn try_from\(value: u32\) -> Result<Self, Self::Error> \{", "TryFrom<u32>")
    need(re.search(r"if v\[0\] != 0 \{\s*return Err", tf), "TryFrom<u32> range check")
    # registry-compressed leaf types: `type Compressed = RegistryKey`
    reg = []
    for rel in ["fuel-compression/src/impls.rs", "fuel-tx/src/transaction/types/input/predicate.rs", "fuel-tx/src/transaction/types/script.rs"]:
        s = strip_comments(read(rel))
        reg += re.findall(r"impl (?:fuel_compression::)?Compressible for (\w+) \{\s*type Compressed = (?:fuel_compression::)?RegistryKey;", s)
    if sorted(reg) != sorted(set(reg)) or len(reg) < 5:
        raise TranslateError("registry-compressed types: %s" % reg)

    hi = hand_impls()
    L = ["/- GENERATED by tools/gen/fields.py from fuel-tx/src/transaction/types/**, fuel-tx/src/tests/da_compression.rs,",
         "   fuel-compression/src/key.rs — do not edit -/", "namespace FuelVerif.Gen.Fields", "",
         "/-- (owner = struct or Enum::Variant, field, compress(skip), canonical(skip), declared type) in declaration order -/",
         "def compressFields : List (String × String × Bool × Bool × String) := ["]
    L.append(",\n".join("  (%s, %s, %s, %s, %s)" % (lean_str(o), lean_str(f), str(sk).lower(), str(ck).lower(), lean_str(ty)) for o, f, sk, ck, ty in rows))
    L += ["]", "", "/-- fields reset by the `prepare_sign` bodies (malleable fields, zeroed before the id is hashed) -/",
          "def zeroed : List (String × String) := [" + ", ".join("(%s, %s)" % (lean_str(o), lean_str(f)) for o, f in zeroed) + "]", "",
          "/-- `Mint::id` zeroes through these fields' own `prepare_sign` -/",
          "def mintIdPrepares : List String := [" + ", ".join(lean_str(x) for x in mint_calls) + "]", "",
          "/-- hand-written `DecompressibleBy` impls of tests/da_compression.rs: source of each field (ctx | default | decompress) -/",
          "def handDecompress : List (String × String × String) := [" + ", ".join("(%s, %s, %s)" % (lean_str(t), lean_str(f), lean_str(s)) for t, f, s in hand) + "]", "",
          "/-- types whose `Compressed` is a `RegistryKey` -/",
          "def registryTypes : List String := [" + ", ".join(lean_str(x) for x in reg) + "]", "",
          "/-- fields whose declared type is registry-compressed: (owner, field, keyspace); `Specification::Predicate` is",
          "    `PredicateCode` (or `Empty`, which has no content) -/",
          "def registryFields : List (String × String × String) := [" + ", ".join("(%s, %s, %s)" % (lean_str(o), lean_str(f), lean_str("PredicateCode" if ty == "Specification::Predicate" else ty)) for o, f, sk, ck, ty in rows if ty in reg or ty == "Specification::Predicate") + "]", "",
          "/-- fields of type `UtxoId` (compressed through the context to a `CompressedUtxoId`) -/",
          "def utxoFields : List (String × String) := [" + ", ".join("(%s, %s)" % (lean_str(o), lean_str(f)) for o, f, sk, ck, ty in rows if ty == "UtxoId") + "]", "",
          "/-- every hand-written (not derived, not test) `CompressibleBy`/`DecompressibleBy` impl pair in fuel-tx, fuel-types,",
          "    fuel-compression: (type, kind of compress_with, kind of decompress_with); bodies are pinned by the translator -/",
          "def handImpls : List (String × String × String) := [" + ", ".join("(%s, %s, %s)" % (lean_str(t), lean_str(a), lean_str(b)) for t, a, b in hi) + "]", "",
          "/-- `RegistryKey::SIZE` in bytes; DEFAULT_VALUE = all bits set, ZERO = 0, `next` wraps to ZERO just below DEFAULT_VALUE -/",
          "def registryKeySize : Nat := %d" % size, "", "end FuelVerif.Gen.Fields", ""]
    ch = write_if_changed("Fields.lean", "\n".join(L))
    # harness glue: the skip table for the oracle (paths are Owner.field)
    R = ["// GENERATED by tools/gen/fields.py — do not edit", "",
         "/// (owner, field, compress(skip), restored from the context by a hand-written Decompress impl)",
         "pub const FIELDS: &[(&str, &str, bool, bool)] = &["]
    ctxset = set((t, f) for t, f, s in hand if s == "ctx")
    for o, f, sk, ck, ty in rows:
        R.append("    (%s, %s, %s, %s)," % (lean_str(o), lean_str(f), str(sk).lower(), str((o, f) in ctxset).lower()))
    R += ["];", "pub const REGISTRY_TYPES: &[&str] = &[" + ", ".join(lean_str(x) for x in reg) + "];", ""]
    hp = os.path.join(VERIF, "harness", "src", "gen", "fields_gen.rs")
    old = open(hp).read() if os.path.exists(hp) else None
    if old != "\n".join(R):
        open(hp, "w").write("\n".join(R))
    print("fields: %d fields of %d owners, %d zeroed, %d hand-written sources, %d hand-written impl pairs, registry types %s%s" % (len(rows), len(owners), len(zeroed), len(hand), len(hi), reg, " (changed)" if ch else ""))


if __name__ == "__main__":
    try:
        main()
    except TranslateError as e:
        print("TRANSLATE-ERROR fields: %s" % e)
        sys.exit(3)
