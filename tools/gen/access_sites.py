#!/usr/bin/env python3
"""C30: for every function that calls `Verifier::check_contract_in_inputs`, the contract-state accesses that textually
precede and follow the check; the `is_predicate_allowed` opcode list; the tables `PredicateStorage` refuses
-> Gen/AccessSites.lean. Fails closed on unknown shapes."""
import os, re, sys
from common import *

ACCESS = ["contract_size", "balance_decrease", "balance_increase", "balance", "storage_contract", "copy_from_storage_zero_fill",
          "read_exact", "contract_exists", "external_asset_id_balance_sub"]
TOKEN = re.compile(r"\b(" + "|".join(ACCESS) + r")\s*(?:::<[^>]*>)?\s*\(")


def brace_body(src, start):
    j = src.index("{", start)
    depth, k = 0, j
    while True:
        if src[k] == "{":
            depth += 1
        elif src[k] == "}":
            depth -= 1
            if depth == 0:
                return src[j + 1:k]
        k += 1


def check_sites():
    out = []
    root = os.path.join(REPO, "fuel-vm", "src", "interpreter")
    for d, _, fs in sorted(os.walk(root)):
        for f in sorted(fs):
            if not f.endswith(".rs") or f == "tests.rs" or "/tests" in d:
                continue
            rel = os.path.relpath(os.path.join(d, f), REPO)
            src = strip_comments(open(os.path.join(d, f), encoding="utf-8").read())
            m = re.search(r"#\[cfg\(test\)\]\s*mod\s+\w+\s*\{", src)
            if m:
                src = src[:m.start()]
            for fm in re.finditer(r"\bfn (\w+)\s*(?:<[^>]*>)?\s*\(", src):
                try:
                    body = brace_body(src, src.index(")", fm.end()))
                except ValueError:
                    continue
                n = len(re.findall(r"\.check_contract_in_inputs\(", body))
                if n == 0:
                    continue
                if n != 1:
                    raise TranslateError(f"{rel}:{fm.group(1)} calls check_contract_in_inputs {n} times")
                i = body.index(".check_contract_in_inputs(")
                before = [t.group(1) for t in TOKEN.finditer(body[:i])]
                after = [t.group(1) for t in TOKEN.finditer(body[i:])]
                out.append((fm.group(1), rel, before, after))
    names = [o[0] for o in out]
    if len(set(names)) != len(names):
        raise TranslateError(f"duplicate site function names {names}")
    if len(out) < 6:
        raise TranslateError(f"only {len(out)} check sites found")
    return sorted(out)


def predicate_allowed():
    src = strip_comments(read("fuel-asm/src/lib.rs"))
    m = need(re.search(r"pub fn is_predicate_allowed\(&self\) -> bool \{\s*use Opcode::\*;\s*match self \{(.*?)=> true,\s*_ => false,", src, re.S), "is_predicate_allowed")
    ops = [x.strip() for x in m.group(1).replace("\n", " ").split("|") if x.strip()]
    for o in ops:
        if not re.fullmatch(r"[A-Z0-9]+", o):
            raise TranslateError(f"unexpected token in is_predicate_allowed: {o!r}")
    return ops


def refused_tables():
    src = strip_comments(read("fuel-vm/src/storage/predicate.rs"))
    tabs = re.findall(r"impl NoStorage for (\w+) \{\}", src)
    # every method of the blanket impls over `NoStorage` tables must refuse
    n_impls = 0
    for m in re.finditer(r"impl<Type, D> (Storage\w+)<Type> for PredicateStorage<D>\s*where\s*Type: Mappable \+ NoStorage,?\s*", src):
        body = brace_body(src, m.end() - 1)
        n_impls += 1
        fns = list(re.finditer(r"\bfn (\w+)\s*\(", body))
        if not fns:
            raise TranslateError(f"{m.group(1)}: no methods")
        for fm in fns:
            fb = re.sub(r"\s+", "", brace_body(body, body.index(")", fm.end())))
            if fb != "Err(Self::Error::UnsupportedStorageOperation)":
                raise TranslateError(f"PredicateStorage {m.group(1)}::{fm.group(1)} for NoStorage tables does not refuse: {fb[:80]}")
    if n_impls < 1:
        raise TranslateError("no blanket impl over NoStorage tables found")
    # the remaining contract-table impls (Size/Read/Write for ContractsRawCode, ContractsState) must refuse as well
    for tr, tab in re.findall(r"impl<D> (Storage(?:Size|Read|Write))<(ContractsRawCode|ContractsState)> for PredicateStorage<D>", src):
        m = re.search(r"impl<D> %s<%s> for PredicateStorage<D>[^{]*" % (tr, tab), src)
        body = brace_body(src, m.end() - 1)
        for fm in re.finditer(r"\bfn (\w+)\s*\(", body):
            fb = re.sub(r"\s+", "", brace_body(body, body.index(")", fm.end())))
            if fb != "Err(Self::Error::UnsupportedStorageOperation)":
                raise TranslateError(f"PredicateStorage {tr}<{tab}>::{fm.group(1)} does not refuse")
        n_impls += 1
    return tabs, n_impls


def input_contracts_init():
    """`init_inner` must ASSIGN `self.input_contracts` from exactly the contract inputs of the new transaction"""
    src = strip_comments(read("fuel-vm/src/interpreter/initialization.rs"))
    flat = re.sub(r"\s+", "", src)
    want = ("self.input_contracts=self.tx.inputs().iter().filter_map(|i|matchi{Input::Contract(contract)=>Some(contract.contract_id),_=>None,}).collect();")
    if flat.count(want) != 1:
        raise TranslateError("init_inner no longer assigns `self.input_contracts` from the transaction's contract inputs "
                             "(`self.input_contracts = self.tx.inputs().iter().filter_map(..Input::Contract..).collect()`)")
    others = [m for m in re.finditer(r"self\.input_contracts\b(?!_)", src)]
    if len(others) != 1:
        raise TranslateError(f"initialization.rs mentions self.input_contracts {len(others)} times (expected the single assignment)")
    # nobody else writes the field
    root = os.path.join(REPO, "fuel-vm", "src", "interpreter")
    for d, _, fs in sorted(os.walk(root)):
        for f in sorted(fs):
            if not f.endswith(".rs") or f == "tests.rs" or "/tests" in d or f == "initialization.rs":
                continue
            t = strip_comments(open(os.path.join(d, f), encoding="utf-8").read())
            m = re.search(r"#\[cfg\(test\)\]\s*mod\s+\w+\s*\{", t)
            if m:
                t = t[:m.start()]
            if re.search(r"\.input_contracts\s*(=[^=]|\.\s*(insert|extend|clear|remove|retain|append)\s*\()", t):
                raise TranslateError(f"{f} writes the interpreter's input_contracts outside init_inner")
    return "assigned-from-contract-inputs"


def main():
    sites = check_sites()
    init_kind = input_contracts_init()
    allowed = predicate_allowed()
    tabs, n = refused_tables()
    q = lambda xs: "[" + ", ".join('"%s"' % x for x in xs) + "]"
    L = ["/- GENERATED by tools/gen/access_sites.py from fuel-vm/src/interpreter/*.rs, fuel-asm/src/lib.rs, fuel-vm/src/storage/predicate.rs — do not edit -/",
         "namespace FuelVerif.Gen", "",
         "/-- (function, file, contract-state accesses textually before `check_contract_in_inputs`, accesses after it) -/",
         "def checkSites : List (String × String × List String × List String) := ["]
    L.append(",\n".join('  ("%s", "%s", %s, %s)' % (a, b, q(c), q(d)) for a, b, c, d in sites))
    L += ["]", "", "/-- `Opcode::is_predicate_allowed` -/", "def predicateAllowed : List String := " + q(allowed), "",
          "/-- tables for which `PredicateStorage` implements `NoStorage` (every access returns UnsupportedStorageOperation) -/",
          "def predicateRefusedTables : List String := " + q(tabs), "",
          "/-- number of refusing trait impls whose every method was checked to be `Err(UnsupportedStorageOperation)` -/",
          "def predicateRefusingImpls : Nat := %d" % n, "",
          "/-- how `init_inner` sets `input_contracts` (the set `check_contract_in_inputs` consults): a fresh assignment from the new",
          "transaction's contract inputs, and no other code writes the field -/",
          "def inputContractsInit : String := \"%s\"" % init_kind, "", "end FuelVerif.Gen"]
    changed = write_if_changed("AccessSites.lean", "\n".join(L) + "\n")
    print("access_sites: %d check sites, %d predicate opcodes, refused tables %s%s" % (len(sites), len(allowed), tabs, " (changed)" if changed else ""))


if __name__ == "__main__":
    try:
        main()
    except TranslateError as e:
        print("TRANSLATE-ERROR access_sites: %s" % e)
        sys.exit(3)
