#!/usr/bin/env python3
"""C30: for every function that calls `Verifier::check_contract_in_inputs`, the contract-state accesses that textually
precede and follow the check; the `is_predicate_allowed` opcode list; the tables `PredicateStorage` refuses
-> Gen/AccessSites.lean. Fails closed on unknown shapes."""
import os, re, sys
from common import *

ACCESS = ["contract_size", "balance_decrease", "balance_increase", "balance", "storage_contract", "copy_from_storage_zero_fill",
          "read_exact", "contract_exists", "external_asset_id_balance_sub"]
TOKEN = re.compile(r"\b(" + "|".join(ACCESS) + r")\s*(?:::<[^>]*>)?\s*\(")


def brace_body(src, start):
    j = src.index("{", start)
    depth, k = 0, j
    while True:
        if src[k] == "{":
            depth += 1
        elif src[k] == "}":
            depth -= 1
            if depth == 0:
                return src[j + 1:k]
        k += 1


def check_sites():
    out = []
    root = os.path.join(REPO, "fuel-vm", "src", "interpreter")
    for d, _, fs in sorted(os.walk(root)):
        for f in sorted(fs):
            if not f.endswith(".rs") or f == "tests.rs" or "/tests" in d:
                continue
            rel = os.path.relpath(os.path.join(d, f), REPO)
            src = strip_comments(open(os.path.join(d, f), encoding="utf-8").read())
            m = re.search(r"#\[cfg\(test\)\]\s*mod\s+\w+\s*\{", src)
            if m:
                src = src[:m.start()]
            for fm in re.finditer(r"\bfn (\w+)\s*(?:<[^>]*>)?\s*\(", src):
                try:
                    body = brace_body(src, src.index(")", fm.end()))
                except ValueError:
                    continue
                n = len(re.findall(r"\.check_contract_in_inputs\(", body))
                if n == 0:
                    continue
                if n != 1:
                    raise TranslateError(f"{rel}:{fm.group(1)} calls check_contract_in_inputs {n} times")
                i = body.index(".check_contract_in_inputs(")
                before = [t.group(1) for t in TOKEN.finditer(body[:i])]
                after = [t.group(1) for t in TOKEN.finditer(body[i:])]
                # (a) the check is UNCONDITIONAL: not inside any block / closure / match arm of the function body
                pre = body[:i]
                if pre.count("{") != pre.count("}") or pre.count("(") != pre.count(")"):
                    raise TranslateError(f"{rel}:{fm.group(1)}: check_contract_in_inputs is nested inside a conditional block "
                                         "(`if`/`match`/closure) — it must run on every path that reaches the accesses")
                stmt_start = max(pre.rfind(";"), pre.rfind("}"), 0)
                if not re.fullmatch(r"\s*self\s*\.\s*verifier\s*", pre[stmt_start + 1:] if stmt_start else pre):
                    raise TranslateError(f"{rel}:{fm.group(1)}: the check is not a statement of the form `self.verifier.check_contract_in_inputs(..)?;`")
                args_end = i + len(".check_contract_in_inputs(")
                depth, k = 1, args_end
                while depth:
                    depth += {"(": 1, ")": -1}.get(body[k], 0)
                    k += 1
                if not re.match(r"\s*\?\s*;", body[k:]):
                    raise TranslateError(f"{rel}:{fm.group(1)}: the result of check_contract_in_inputs is not propagated with `?;`")
                args = [a.strip() for a in body[args_end:k - 1].split(",") if a.strip()]
                if len(args) != 3 or not re.fullmatch(r"self\s*\.\s*panic_context", args[0]) or not re.fullmatch(r"self\s*\.\s*input_contracts", args[1]):
                    raise TranslateError(f"{rel}:{fm.group(1)}: unexpected arguments of check_contract_in_inputs: {args}")
                ident = re.sub(r"^&\s*", "", args[2])
                # (b) every access to the TARGET contract names the very id expression that was checked
                target_tokens = ("contract_size", "balance", "balance_increase", "storage_contract", "copy_from_storage_zero_fill", "read_exact")
                for t in TOKEN.finditer(body):
                    if t.group(1) not in target_tokens:
                        continue
                    dep, end_ = 1, t.end()
                    while dep:
                        dep += {"(": 1, ")": -1}.get(body[end_], 0)
                        end_ += 1
                    call_args = [re.sub(r"^&\s*", "", a.strip()) for a in body[t.end():end_ - 1].split(",")]
                    if ident not in call_args:
                        raise TranslateError(f"{rel}:{fm.group(1)}: `{t.group(1)}(…)` does not take the checked id `{ident}` (arguments {call_args})")
                # (c) the checked id is read from memory / the call struct exactly once, and is not reassigned
                root_name = re.match(r"\w+", ident).group(0)
                if len(re.findall(r"\blet\s+(?:mut\s+)?%s\b" % re.escape(root_name), body)) != 1:
                    raise TranslateError(f"{rel}:{fm.group(1)}: `{root_name}` is bound more than once")
                out.append((fm.group(1), rel, before, after, ident))
    names = [o[0] for o in out]
    if len(set(names)) != len(names):
        raise TranslateError(f"duplicate site function names {names}")
    if len(out) < 6:
        raise TranslateError(f"only {len(out)} check sites found")
    return sorted(out)


def predicate_allowed():
    src = strip_comments(read("fuel-asm/src/lib.rs"))
    m = need(re.search(r"pub fn is_predicate_allowed\(&self\) -> bool \{\s*use Opcode::\*;\s*match self \{(.*?)=> true,\s*_ => false,", src, re.S), "is_predicate_allowed")
    ops = [x.strip() for x in m.group(1).replace("\n", " ").split("|") if x.strip()]
    for o in ops:
        if not re.fullmatch(r"[A-Z0-9]+", o):
            raise TranslateError(f"unexpected token in is_predicate_allowed: {o!r}")
    return ops


def refused_tables():
    src = strip_comments(read("fuel-vm/src/storage/predicate.rs"))
    tabs = re.findall(r"impl NoStorage for (\w+) \{\}", src)
    # every method of the blanket impls over `NoStorage` tables must refuse
    n_impls = 0
    for m in re.finditer(r"impl<Type, D> (Storage\w+)<Type> for PredicateStorage<D>\s*where\s*Type: Mappable \+ NoStorage,?\s*", src):
        body = brace_body(src, m.end() - 1)
        n_impls += 1
        fns = list(re.finditer(r"\bfn (\w+)\s*\(", body))
        if not fns:
            raise TranslateError(f"{m.group(1)}: no methods")
        for fm in fns:
            fb = re.sub(r"\s+", "", brace_body(body, body.index(")", fm.end())))
            if fb != "Err(Self::Error::UnsupportedStorageOperation)":
                raise TranslateError(f"PredicateStorage {m.group(1)}::{fm.group(1)} for NoStorage tables does not refuse: {fb[:80]}")
    if n_impls < 1:
        raise TranslateError("no blanket impl over NoStorage tables found")
    # the remaining contract-table impls (Size/Read/Write for ContractsRawCode, ContractsState) must refuse as well
    for tr, tab in re.findall(r"impl<D> (Storage(?:Size|Read|Write))<(ContractsRawCode|ContractsState)> for PredicateStorage<D>", src):
        m = re.search(r"impl<D> %s<%s> for PredicateStorage<D>[^{]*" % (tr, tab), src)
        body = brace_body(src, m.end() - 1)
        for fm in re.finditer(r"\bfn (\w+)\s*\(", body):
            fb = re.sub(r"\s+", "", brace_body(body, body.index(")", fm.end())))
            if fb != "Err(Self::Error::UnsupportedStorageOperation)":
                raise TranslateError(f"PredicateStorage {tr}<{tab}>::{fm.group(1)} does not refuse")
        n_impls += 1
    return tabs, n_impls


def input_contracts_init():
    """`init_inner` must ASSIGN `self.input_contracts` from exactly the contract inputs of the new transaction"""
    src = strip_comments(read("fuel-vm/src/interpreter/initialization.rs"))
    flat = re.sub(r"\s+", "", src)
    want = ("self.input_contracts=self.tx.inputs().iter().filter_map(|i|matchi{Input::Contract(contract)=>Some(contract.contract_id),_=>None,}).collect();")
    if flat.count(want) != 1:
        raise TranslateError("init_inner no longer assigns `self.input_contracts` from the transaction's contract inputs "
                             "(`self.input_contracts = self.tx.inputs().iter().filter_map(..Input::Contract..).collect()`)")
    others = [m for m in re.finditer(r"self\.input_contracts\b(?!_)", src)]
    if len(others) != 1:
        raise TranslateError(f"initialization.rs mentions self.input_contracts {len(others)} times (expected the single assignment)")
    # nobody else writes the field
    root = os.path.join(REPO, "fuel-vm", "src", "interpreter")
    for d, _, fs in sorted(os.walk(root)):
        for f in sorted(fs):
            if not f.endswith(".rs") or f == "tests.rs" or "/tests" in d or f == "initialization.rs":
                continue
            t = strip_comments(open(os.path.join(d, f), encoding="utf-8").read())
            m = re.search(r"#\[cfg\(test\)\]\s*mod\s+\w+\s*\{", t)
            if m:
                t = t[:m.start()]
            if re.search(r"\.input_contracts\s*(=[^=]|\.\s*(insert|extend|clear|remove|retain|append)\s*\()", t):
                raise TranslateError(f"{f} writes the interpreter's input_contracts outside init_inner")
    return "assigned-from-contract-inputs"


def main():
    sites = check_sites()
    init_kind = input_contracts_init()
    allowed = predicate_allowed()
    tabs, n = refused_tables()
    q = lambda xs: "[" + ", ".join('"%s"' % x for x in xs) + "]"
    L = ["/- GENERATED by tools/gen/access_sites.py from fuel-vm/src/interpreter/*.rs, fuel-asm/src/lib.rs, fuel-vm/src/storage/predicate.rs — do not edit -/",
         "namespace FuelVerif.Gen", "",
         "/-- (function, file, contract-state accesses textually before `check_contract_in_inputs`, accesses after it) -/",
         "def checkSites : List (String × String × List String × List String) := ["]
    L.append(",\n".join('  ("%s", "%s", %s, %s)' % (a, b, q(c), q(d)) for a, b, c, d, _ in sites))
    L += ["]", "", "/-- `Opcode::is_predicate_allowed` -/", "def predicateAllowed : List String := " + q(allowed), "",
          "/-- tables for which `PredicateStorage` implements `NoStorage` (every access returns UnsupportedStorageOperation) -/",
          "def predicateRefusedTables : List String := " + q(tabs), "",
          "/-- number of refusing trait impls whose every method was checked to be `Err(UnsupportedStorageOperation)` -/",
          "def predicateRefusingImpls : Nat := %d" % n, "",
          "/-- (function, the id expression passed to `check_contract_in_inputs`): the translator verified that the check is an",
          "unconditional statement `self.verifier.check_contract_in_inputs(self.panic_context, self.input_contracts, <id>)?;` at the top",
          "level of the function body, and that every access to the target contract takes that same `<id>` -/",
          "def checkedIds : List (String × String) := [" + ", ".join('("%s", "%s")' % (a, i) for a, _, _, _, i in sites) + "]", "",
          "/-- how `init_inner` sets `input_contracts` (the set `check_contract_in_inputs` consults): a fresh assignment from the new",
          "transaction's contract inputs, and no other code writes the field -/",
          "def inputContractsInit : String := \"%s\"" % init_kind, "", "end FuelVerif.Gen"]
    changed = write_if_changed("AccessSites.lean", "\n".join(L) + "\n")
    print("access_sites: %d check sites, %d predicate opcodes, refused tables %s%s" % (len(sites), len(allowed), tabs, " (changed)" if changed else ""))


if __name__ == "__main__":
    try:
        main()
    except TranslateError as e:
        print("TRANSLATE-ERROR access_sites: %s" % e)
        sys.exit(3)
