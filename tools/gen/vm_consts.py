#!/usr/bin/env python3
"""C34 (and the other whole-VM checks): register ids (fuel-asm RegId), VM constants (fuel-vm consts.rs), the CallFrame /
Call layout (fuel-vm call.rs offset chain and field order), and the register-restore list of
`return_from_context` (flow.rs) -> Gen/VmConsts.lean. Fails closed when a function body changes shape."""
import re, sys
from common import *


def regs():
    src = strip_comments(read("fuel-asm/src/lib.rs"))
    out = {}
    for name, val in re.findall(r"pub const ([A-Z]+): Self = Self\((0x[0-9A-Fa-f]+)\);", src):
        out[name] = int(val, 16)
    want = ["ZERO", "ONE", "OF", "PC", "SSP", "SP", "FP", "HP", "ERR", "GGAS", "CGAS", "BAL", "IS", "RET", "RETL", "FLAG", "WRITABLE"]
    for w in want:
        if w not in out:
            raise TranslateError(f"RegId::{w} not found")
    return {w: out[w] for w in want}


def consts():
    src = strip_comments(read("fuel-vm/src/consts.rs"))
    c = {}
    c["VM_REGISTER_COUNT"] = rust_int(need(re.search(r"pub const VM_REGISTER_COUNT: usize = (\d+);", src), "VM_REGISTER_COUNT").group(1))
    need(re.search(r"pub const WORD_SIZE: usize = mem::size_of::<Word>\(\);", src), "WORD_SIZE = size_of::<Word>()")
    need(re.search(r"pub type Word = u64;", strip_comments(read("fuel-types/src/lib.rs"))), "fuel-types: type Word = u64")
    need(re.search(r"pub type Word = u64;", strip_comments(read("fuel-asm/src/lib.rs"))), "fuel-asm: type Word = u64")
    c["WORD_SIZE"] = 8
    fm = rust_int(need(re.search(r"pub const FUEL_MAX_MEMORY_SIZE: u64 = (\d+);", src), "FUEL_MAX_MEMORY_SIZE").group(1))
    need(re.search(r"pub const VM_MAX_RAM: u64 = 1024 \* 1024 \* FUEL_MAX_MEMORY_SIZE;", src), "VM_MAX_RAM formula")
    need(re.search(r"pub const MEM_SIZE: usize = VM_MAX_RAM as usize;", src), "MEM_SIZE formula")
    c["VM_MAX_RAM"] = 1024 * 1024 * fm
    return c


def frame_layout(c):
    src = strip_comments(read("fuel-vm/src/call.rs"))
    m = need(re.search(r"pub struct CallFrame \{(.*?)\}", src, re.S), "struct CallFrame")
    fields = re.findall(r"(\w+)\s*:\s*([^,\n]+),", m.group(1))
    want = [("to", "ContractId"), ("asset_id", "AssetId"), ("registers", "[Word; VM_REGISTER_COUNT]"),
            ("code_size_padded", "usize"), ("a", "Word"), ("b", "Word")]
    if [(a, b.strip()) for a, b in fields] != want:
        raise TranslateError(f"CallFrame fields changed: {fields}")
    need(re.search(r"#\[derive\([^)]*Deserialize, Serialize\)\]\s*pub struct CallFrame", src), "CallFrame derives canonical Serialize")
    m = need(re.search(r"pub struct Call \{(.*?)\}", src, re.S), "struct Call")
    cf = [(a, b.strip()) for a, b in re.findall(r"(\w+)\s*:\s*([^,\n]+),", m.group(1))]
    if cf != [("to", "ContractId"), ("a", "Word"), ("b", "Word")]:
        raise TranslateError(f"Call fields changed: {cf}")
    need(re.search(r"pub const LEN: usize = ContractId::LEN \+ 8 \+ 8;", src), "Call::LEN")
    sizes = {"ContractId::LEN": 32, "AssetId::LEN": 32, "WORD_SIZE * VM_REGISTER_COUNT": c["WORD_SIZE"] * c["VM_REGISTER_COUNT"], "WORD_SIZE": c["WORD_SIZE"]}
    chain = [("contract_id_offset", None, None), ("asset_id_offset", "contract_id_offset", "ContractId::LEN"),
             ("registers_offset", "asset_id_offset", "AssetId::LEN"), ("code_size_offset", "registers_offset", "WORD_SIZE * VM_REGISTER_COUNT"),
             ("a_offset", "code_size_offset", "WORD_SIZE"), ("b_offset", "a_offset", "WORD_SIZE"), ("serialized_size", "b_offset", "WORD_SIZE")]
    off = {}
    for name, prev, add in chain:
        m = need(re.search(r"pub const fn %s\(\) -> usize \{(.*?)\}" % name, src, re.S), f"CallFrame::{name}")
        body = re.sub(r"\s+", "", m.group(1))
        if prev is None:
            if body != "0":
                raise TranslateError(f"CallFrame::{name} body is {body!r}")
            off[name] = 0
        else:
            exp = "Self::%s().saturating_add(%s)" % (prev, add.replace(" ", ""))
            if body != exp:
                raise TranslateError(f"CallFrame::{name} body is {body!r}, expected {exp!r}")
            off[name] = off[prev] + sizes[add]
    # ContractId / AssetId are 32-byte keys
    t = strip_comments(read("fuel-types/src/array_types.rs"))
    for ty in ("ContractId", "AssetId"):
        need(re.search(r"key!\(%s, 32\)|key_with_big_array!\(%s, 32\)|key_no_default!\(%s, 32\)" % (ty, ty, ty), t), f"{ty} is a 32-byte key")
    return off


def restore_list():
    src = strip_comments(read("fuel-vm/src/interpreter/flow.rs"))
    m = need(re.search(r"fn return_from_context\(mut self, receipt: Receipt\) -> SimpleResult<\(\)> \{(.*?)\n    \}", src, re.S), "return_from_context")
    body = m.group(1)
    need(re.search(r"registers\.copy_from_slice\(frame\.registers\(\)\);", body), "copy_from_slice(frame.registers())")
    i_copy = body.index("registers.copy_from_slice")
    saved = re.findall(r"let (\w+) = registers\[RegId::([A-Z]+)\];", body[:i_copy])
    restored = re.findall(r"registers\[RegId::([A-Z]+)\] = (\w+);", body[i_copy:])
    after = re.sub(r"\s+", " ", body[i_copy:])
    if "let fp = registers[RegId::FP]; set_frame_pointer(context, registers.fp_mut(), fp);" not in after:
        raise TranslateError("set_frame_pointer(fp from the restored registers) not found after the copy")
    if [(b, a) for a, b in saved] != restored:
        raise TranslateError(f"saved {saved} and restored {restored} register lists differ")
    i_copy = body.index("registers.copy_from_slice")
    for a, b in saved:
        if body.index(f"let {a} = registers[RegId::{b}];") > i_copy:
            raise TranslateError("a register is saved after the copy")
    for b, a in restored:
        if body.index(f"registers[RegId::{b}] = {a};") < i_copy:
            raise TranslateError("a register is restored before the copy")
    need(re.search(r"registers\[RegId::CGAS\] = registers\[RegId::CGAS\]\s*\.checked_add\(frame\.context_gas\(\)\)\s*\.ok_or_else\(\|\| Bug::new\(BugVariant::ContextGasOverflow\)\)\?;", body), "cgas += frame.context_gas()")
    need(re.search(r"inc_pc\(self\.registers\.pc_mut\(\)\);", body), "inc_pc")
    return [b for _, b in saved]


def frame_base():
    """which register `prepare_call` takes the frame base from, and how $sp/$ssp/$fp are derived from it"""
    src = strip_comments(read("fuel-vm/src/interpreter/flow.rs"))
    i = src.find("fn prepare_call(mut self)")
    if i < 0:
        raise TranslateError("PrepareCallCtx::prepare_call not found")
    j = src.index("{", i)
    depth, k = 0, j
    while True:
        if src[k] == "{":
            depth += 1
        elif src[k] == "}":
            depth -= 1
            if depth == 0:
                break
        k += 1
    body = re.sub(r"\s+", " ", src[j:k])
    m = need(re.search(r"let old_sp = \*self\.registers\.system_registers\.(\w+);", body), "prepare_call: `let old_sp = *…system_registers.<reg>`")
    base = m.group(1)
    for pat, what in (
        (r"let new_sp = old_sp\.saturating_add\(total_size_in_stack as Word\);", "new_sp = old_sp.saturating_add(total)"),
        (r"self\.memory\.grow_stack\(new_sp\)\?;", "grow_stack(new_sp)"),
        (r"\*self\.registers\.system_registers\.sp = new_sp; \*self\.registers\.system_registers\.ssp = new_sp;", "$sp = $ssp = new_sp"),
        (r"set_frame_pointer\( self\.context, self\.registers\.system_registers\.fp\.as_mut\(\), old_sp, \);", "set_frame_pointer(.., old_sp)"),
        (r"self\.memory\.write_noownerchecks\( \*self\.registers\.system_registers\.fp, total_size_in_stack, \)\?;", "frame written at $fp"),
        (r"let code_start = \(\*self\.registers\.system_registers\.fp\) \+ CallFrame::serialized_size\(\) as Word;", "code_start = $fp + frame size"),
    ):
        need(re.search(pat, body), "prepare_call: " + what)
    if len(re.findall(r"\bold_sp\b", body)) != 3:
        raise TranslateError("prepare_call: `old_sp` is used in an unexpected number of places")
    return base.upper()


def main():
    r = regs()
    c = consts()
    off = frame_layout(c)
    keep = restore_list()
    base = frame_base()
    if base not in r:
        raise TranslateError(f"prepare_call takes the frame base from an unknown register {base}")
    L = ["/- GENERATED by tools/gen/vm_consts.py from fuel-asm/src/lib.rs, fuel-vm/src/{consts,call}.rs, fuel-vm/src/interpreter/flow.rs — do not edit -/",
         "namespace FuelVerif.Gen", ""]
    for k, v in r.items():
        L.append("def reg%s : Nat := %d" % (k.capitalize(), v))
    L.append("")
    L.append("def vmRegisterCount : Nat := %d" % c["VM_REGISTER_COUNT"])
    L.append("def wordSize : Nat := %d" % c["WORD_SIZE"])
    L.append("def vmMaxRam : Nat := %d" % c["VM_MAX_RAM"])
    L.append("def memSize : Nat := %d" % c["VM_MAX_RAM"])
    L.append("def callLen : Nat := 48")
    L.append("")
    L.append("/-- `CallFrame::*_offset()` / `serialized_size()` evaluated -/")
    names = {"contract_id_offset": "frameToOffset", "asset_id_offset": "frameAssetOffset", "registers_offset": "frameRegsOffset",
             "code_size_offset": "frameCodeSizeOffset", "a_offset": "frameAOffset", "b_offset": "frameBOffset", "serialized_size": "frameSize"}
    for k, v in off.items():
        L.append("def %s : Nat := %d" % (names[k], v))
    L.append("")
    L.append("/-- registers `return_from_context` keeps from the callee (saved before, written back after `copy_from_slice`) -/")
    L.append("def retKeptRegs : List Nat := [%s]" % ", ".join(str(r[k]) for k in keep))
    L.append("")
    L.append("/-- the register `prepare_call` reads the base of the new call frame from (`let old_sp = *…system_registers.<reg>`);")
    L.append("the frame and the code go to `[base, base + frame + code)`, `$fp := base`, `$ssp = $sp := base + frame + code` -/")
    L.append("def callFrameBaseReg : Nat := %d" % r[base])
    L += ["", "end FuelVerif.Gen"]
    changed = write_if_changed("VmConsts.lean", "\n".join(L) + "\n")
    print("vm_consts: frame size %d, kept registers %s%s" % (off["serialized_size"], keep, " (changed)" if changed else ""))


if __name__ == "__main__":
    try:
        main()
    except TranslateError as e:
        print("TRANSLATE-ERROR vm_consts: %s" % e)
        sys.exit(3)
