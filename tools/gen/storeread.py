#!/usr/bin/env python3
"""Storage read contract (C36): the three `impl StorageRead<_> for MemoryStorage` bodies, the guards of
`copy_from_storage_zero_fill`, `padded_len_word`, and the memory / call-frame constants
-> Gen/StoreRead.lean

The three byte tables (contract code, contract state, blobs) implement `read_exact` / `read_zerofill` with
textually identical bodies; the translator checks that (after renaming the table field) and extracts the
operators the theorems depend on (the bound comparison, the saturating add, the fill byte, the `<` guard
and the u32 conversion of the copy helper). Any other shape fails closed.
"""
import re, sys
from common import *

TABLES = [("ContractsRawCode", "contracts"), ("ContractsState", "contract_state"), ("BlobData", "blobs")]
CMP = {">": ">", ">=": "≥"}
LT = {"<": "<", "<=": "≤"}


def squash(s):
    return re.sub(r"\s+", "", s)


def block_after(src, start):
    """text of the brace block starting at the first '{' at/after `start` (balanced)"""
    i = src.index("{", start)
    depth, j = 0, i
    while True:
        c = src[j]
        if c == "{":
            depth += 1
        elif c == "}":
            depth -= 1
            if depth == 0:
                return src[i + 1:j], j + 1
        j += 1
        if j >= len(src):
            raise TranslateError("unbalanced braces")


def fn_body(block, name):
    m = need(re.search(r"fn\s+%s\s*(<[^>]*>)?\s*\(" % name, block), f"fn {name}")
    # skip the signature up to the body: the body is the first '{' after the return type
    sig_end = block.index("{", need(re.search(r"->", block[m.end():]), f"fn {name} return type").end() + m.end())
    body, _ = block_after(block, sig_end)
    return squash(body)


def storage_reads():
    src = strip_comments(read("fuel-vm/src/storage/memory.rs"))
    exact, zf, alloc, size = [], [], [], []
    for ty, field in TABLES:
        m = need(re.search(r"impl\s+StorageRead<%s>\s+for\s+MemoryStorage" % ty, src), f"impl StorageRead<{ty}> for MemoryStorage")
        blk, _ = block_after(src, m.end())
        ren = lambda s: s.replace("self.memory.%s." % field, "self.memory.T.")
        exact.append(ren(fn_body(blk, "read_exact")))
        zf.append(ren(fn_body(blk, "read_zerofill")))
        alloc.append(ren(fn_body(blk, "read_alloc")))
        m = need(re.search(r"impl\s+StorageSize<%s>\s+for\s+MemoryStorage" % ty, src), f"impl StorageSize<{ty}> for MemoryStorage")
        blk, _ = block_after(src, m.end())
        size.append(ren(fn_body(blk, "size_of_value")))
    for name, bodies in (("read_exact", exact), ("read_zerofill", zf), ("read_alloc", alloc), ("size_of_value", size)):
        if len(set(bodies)) != 1:
            raise TranslateError(f"MemoryStorage {name}: the three table impls are no longer the same code")
    head = r"letSome\(data\)=self\.memory\.T\.get\(key\)else\{returnOk\(Err\(StorageReadError::KeyNotFound\)\);\};lettotal_len=data\.as_ref\(\)\.len\(\);"
    m = re.fullmatch(head + r"letend=offset\.saturating_add\(buf\.len\(\)\);ifend(>=|>)total_len\{returnOk\(Err\(StorageReadError::OutOfBounds\)\);\}"
                     r"buf\.copy_from_slice\(&data\.as_ref\(\)\[offset\.\.end\]\);Ok\(Ok\(total_len\)\)", exact[0])
    need(m, "read_exact body shape (saturating_add, bound check, copy_from_slice, total_len)")
    exact_cmp = m.group(1)
    m = re.fullmatch(head + r"letSome\(\(_,after\)\)=data\.as_ref\(\)\.split_at_checked\(offset\)else\{returnOk\(Err\(StorageReadError::OutOfBounds\)\);\};"
                     r"let\(dst,rest\)=buf\.split_at_mut\(after\.len\(\)\.min\(buf\.len\(\)\)\);dst\.copy_from_slice\(&after\[\.\.dst\.len\(\)\]\);rest\.fill\((\d+)\);Ok\(Ok\(total_len\)\)", zf[0])
    need(m, "read_zerofill body shape (split_at_checked, min, copy, fill, total_len)")
    zf_fill = int(m.group(1))
    need(re.fullmatch(r"Ok\(self\.memory\.T\.get\(key\)\.map\(\|c\|c\.as_ref\(\)\.to_vec\(\)\)\)", alloc[0]), "read_alloc body shape")
    need(re.fullmatch(r"Ok\(self\.memory\.T\.get\(key\)\.map\(\|c\|c\.as_ref\(\)\.len\(\)\)\)", size[0]), "size_of_value body shape")
    return exact_cmp, zf_fill


def copy_helper():
    src = strip_comments(read("fuel-vm/src/interpreter/memory.rs"))
    m = need(re.search(r"fn\s+copy_from_storage_zero_fill", src), "copy_from_storage_zero_fill")
    body = fn_body(src[m.start():], "copy_from_storage_zero_fill")
    pat = (r"letwrite_buffer=memory\.write\(owner,dst_addr,dst_len\)\?;letmutempty_offset=0;"
           r"ifsrc_offset(<=|<)src_lenasWord\{letsrc_offset=u32::try_from\(src_offset\)\.map_err\(\|_\|PanicReason::MemoryOverflow\)\?;"
           r"letsrc_read_length=src_len\.saturating_sub\(src_offsetasusize\);letsrc_read_length=src_read_length\.min\(write_buffer\.len\(\)\);"
           r"let\(src_read_buffer,_\)=write_buffer\.split_at_mut\(src_read_length\);"
           r"letread_result=storage\.read_zerofill\(src_id,src_offsetasusize,src_read_buffer\)\.map_err\(RuntimeError::Storage\)\?;"
           r"matchread_result\{Ok\(_\)=>\{empty_offset=src_read_length;\}Err\(StorageReadError::KeyNotFound\)=>\{returnErr\(not_found_error\.into\(\)\);\}"
           r"Err\(StorageReadError::OutOfBounds\)=>\{empty_offset=(\d+);\}\}\}write_buffer\[empty_offset\.\.\]\.fill\((\d+)\);Ok\(\(\)\)")
    m = need(re.fullmatch(pat, body), "copy_from_storage_zero_fill body shape")
    return m.group(1), int(m.group(2)), int(m.group(3))


def padded_len():
    src = strip_comments(read("fuel-types/src/bytes.rs"))
    m = need(re.search(r"pub const fn padded_len_word\(len: Word\) -> Option<Word>", src), "padded_len_word")
    body, _ = block_after(src, m.end())
    need(re.fullmatch(r"letmodulo=len%WORD_SIZEasWord;ifmodulo==0\{Some\(len\)\}else\{letpadding=WORD_SIZEasWord-modulo;len\.checked_add\(padding\)\}", squash(body)),
         "padded_len_word body shape")
    need(re.search(r"pub const WORD_SIZE: usize = core::mem::size_of::<Word>\(\);", src), "bytes.rs WORD_SIZE")
    need(re.search(r"pub type Word = u64;", read("fuel-types/src/lib.rs")), "fuel-types Word = u64")


def consts():
    src = strip_comments(read("fuel-vm/src/consts.rs"))
    regs = rust_int(need(re.search(r"pub const VM_REGISTER_COUNT: usize = (\d+);", src), "VM_REGISTER_COUNT").group(1))
    need(re.search(r"pub const WORD_SIZE: usize = mem::size_of::<Word>\(\);", src), "consts.rs WORD_SIZE")
    mib = rust_int(need(re.search(r"pub const FUEL_MAX_MEMORY_SIZE: u64 = (\d+);", src), "FUEL_MAX_MEMORY_SIZE").group(1))
    need(re.search(r"pub const VM_MAX_RAM: u64 = 1024 \* 1024 \* FUEL_MAX_MEMORY_SIZE;", src), "VM_MAX_RAM")
    need(re.search(r"pub const MEM_SIZE: usize = VM_MAX_RAM as usize;", src), "MEM_SIZE")
    arr = strip_comments(read("fuel-types/src/array_types.rs"))
    lens = {}
    for ty in ("AssetId", "BlobId", "ContractId"):
        lens[ty] = rust_int(need(re.search(r"key!\(%s, (\d+)\);" % ty, arr), f"key!({ty}, N)").group(1))
    call = strip_comments(read("fuel-vm/src/call.rs"))
    for fn, exp in (("contract_id_offset", "0"), ("asset_id_offset", "Self::contract_id_offset().saturating_add(ContractId::LEN)"),
                    ("registers_offset", "Self::asset_id_offset().saturating_add(AssetId::LEN)"),
                    ("code_size_offset", "Self::registers_offset().saturating_add(WORD_SIZE*VM_REGISTER_COUNT)")):
        m = need(re.search(r"pub const fn %s\(\) -> usize" % fn, call), f"CallFrame::{fn}")
        body, _ = block_after(call, m.end())
        if squash(body) != squash(exp):
            raise TranslateError(f"CallFrame::{fn}: body {squash(body)!r} is not {squash(exp)!r}")
    return regs, mib, lens


def main():
    exact_cmp, zf_fill = storage_reads()
    guard, oob_off, fill = copy_helper()
    padded_len()
    regs, mib, lens = consts()
    L = ["/- GENERATED by tools/gen/storeread.py from fuel-vm/src/storage/memory.rs, fuel-vm/src/interpreter/memory.rs,",
         "   fuel-types/src/bytes.rs, fuel-vm/src/consts.rs, fuel-vm/src/call.rs, fuel-types/src/array_types.rs — do not edit -/",
         "namespace FuelVerif.Gen.StoreRead", "",
         "/-- tables whose `StorageRead`/`StorageSize` impls were checked to be the same code -/",
         "def tables : List String := [%s]" % ", ".join('"%s"' % f for _, f in TABLES), "",
         "/-- `read_exact`: `if end %s total_len { return OutOfBounds }` -/" % exact_cmp,
         "def readExactRejects (end_ totalLen : Nat) : Bool := decide (end_ %s totalLen)" % CMP[exact_cmp], "",
         "/-- `read_zerofill`: `rest.fill(%d)` -/" % zf_fill,
         "def zerofillByte : UInt8 := %d" % zf_fill, "",
         "/-- `copy_from_storage_zero_fill`: `if src_offset %s src_len as Word` -/" % guard,
         "def copyReads (srcOffset srcLen : Nat) : Bool := decide (srcOffset %s srcLen)" % LT[guard], "",
         "/-- `copy_from_storage_zero_fill`: `empty_offset` chosen in the `OutOfBounds` arm, and the final `fill` byte -/",
         "def copyOobEmptyOffset : Nat := %d" % oob_off,
         "def copyFillByte : UInt8 := %d" % fill, "",
         "def wordSize : Nat := 8",
         "def vmRegisterCount : Nat := %d" % regs,
         "def vmMaxRam : Nat := 1024 * 1024 * %d" % mib,
         "def memSize : Nat := vmMaxRam",
         "def contractIdLen : Nat := %d" % lens["ContractId"],
         "def assetIdLen : Nat := %d" % lens["AssetId"],
         "def blobIdLen : Nat := %d" % lens["BlobId"],
         "/-- `CallFrame::code_size_offset()` -/",
         "def codeSizeOffset : Nat := contractIdLen + assetIdLen + wordSize * vmRegisterCount", "",
         "end FuelVerif.Gen.StoreRead", ""]
    changed = write_if_changed("StoreRead.lean", "\n".join(L))
    print("storeread: read_exact rejects when end %s total_len; copy reads when off %s len; %s" % (exact_cmp, guard, "updated" if changed else "unchanged"))


if __name__ == "__main__":
    try:
        main()
    except TranslateError as e:
        print("TRANSLATE-ERROR storeread: %s" % e)
        sys.exit(3)
