#!/usr/bin/env python3
"""T-prepare_sign (C03): which fields signing preparation zeroes -> Gen/PrepareSign.lean

Extracted (and re-checked on every run) from fuel-tx/src/transaction:
  * every `prepare_sign` body: input/coin.rs (`Coin<_>`), input/contract.rs, input/message.rs (`Message<_>`),
    output/contract.rs, script.rs / create.rs / upload.rs / blob.rs / upgrade.rs (`impl PrepareSign for XBody`):
    the set of `self.f = Default::default();` and `if let Some(x) = self.f.as_mut_field() { *x = Default::default(); }`
    statements -> (struct, zeroed field names);
  * output.rs `Output::prepare_sign`: per match arm the delegated call or the `*f = <default>;` assignments
    -> (variant, zeroed field names | delegate);
  * input.rs `Input::prepare_sign`: every variant delegates to its struct's `prepare_sign`;
  * chargeable_transaction.rs `prepare_sign` (body, every input, every output) and `UniqueIdentifier::id`
    (cached id first; clone; prepare_sign; witnesses cleared; compute_transaction_id), `cached_id`;
  * mint.rs `id` (input_contract / output_contract prepare_sign) and `cached_id`, `MintMetadata::compute`
    (the order of effects of the six `precompute` bodies: tools/gen/precompute.py);
  * types.rs `compute_transaction_id` (chain id big-endian, then `to_bytes`), fuel-crypto hasher.rs (`Sha256`),
    fuel-types `ChainId::to_be_bytes`;
  * `AsField for Empty<T>`: `as_mut_field` returns `None`.
Fails closed (TranslateError, exit 3) on any other statement shape.
"""
import re, sys
from common import *
from offsets import fn_body, balanced

TX = "fuel-tx/src/transaction/"


def norm(s):
    return re.sub(r"\s+", "", s)


def zero_stmts(body, what):
    """statements of a struct-level prepare_sign -> zeroed field names (in order)"""
    b = norm(body)
    out = []
    while b:
        m = re.match(r"self\.(\w+)=Default::default\(\);", b)
        if m:
            out.append(m.group(1)); b = b[m.end():]; continue
        m = re.match(r"ifletSome\((\w+)\)=self\.(\w+)\.as_mut_field\(\)\{\*\1=Default::default\(\);\}", b)
        if m:
            out.append(m.group(2)); b = b[m.end():]; continue
        raise TranslateError(f"{what}: unsupported statement in prepare_sign: {b[:80]!r}")
    return out


def impl_prepare_sign(rel, header_re, what):
    """the `prepare_sign` of the only impl block matching `header_re` (ending in `{`) that defines one"""
    src = strip_comments(read(rel))
    blocks = []
    for m in re.finditer(header_re, src):
        k = m.end() - 1
        if src[k] != "{":
            raise TranslateError(f"{rel}: {what}: header pattern must end at the opening brace")
        block = src[k:balanced(src, k)]
        if re.search(r"\bfn\s+prepare_sign\s*\(", block):
            blocks.append(block)
    if len(blocks) != 1:
        raise TranslateError(f"{rel}: {what}: expected exactly one impl block with prepare_sign, found {len(blocks)}")
    return zero_stmts(fn_body(blocks[0], "prepare_sign", f"{rel} {what}"), f"{rel} {what}")


def main():
    structs = []
    structs.append(("Coin", impl_prepare_sign(TX + "types/input/coin.rs", r"impl<Specification>\s*Coin<Specification>\s*where\s*Specification:\s*CoinSpecification,\s*\{", "Coin<_>::prepare_sign")))
    structs.append(("InputContract", impl_prepare_sign(TX + "types/input/contract.rs", r"impl Contract\s*\{", "input Contract::prepare_sign")))
    structs.append(("Message", impl_prepare_sign(TX + "types/input/message.rs", r"impl<Specification>\s*Message<Specification>\s*where\s*Specification:\s*MessageSpecification,\s*\{", "Message<_>::prepare_sign")))
    structs.append(("OutputContract", impl_prepare_sign(TX + "types/output/contract.rs", r"impl Contract\s*\{", "output Contract::prepare_sign")))
    for f, body in (("script", "ScriptBody"), ("create", "CreateBody"), ("upload", "UploadBody"), ("blob", "BlobBody"), ("upgrade", "UpgradeBody")):
        structs.append((body, impl_prepare_sign(TX + f"types/{f}.rs", r"impl PrepareSign for %s\s*\{" % body, f"{body}::prepare_sign")))

    # Output::prepare_sign
    src = strip_comments(read(TX + "types/output.rs"))
    body = norm(fn_body(src, "prepare_sign", "output.rs Output::prepare_sign"))
    m = need(re.fullmatch(r"matchself\{(.*)\}", body), "output.rs Output::prepare_sign: match self")
    arms = m.group(1)
    outputs = []
    while arms:
        a = re.match(r"Output::(\w+)\((\w+)\)=>\2\.prepare_sign\(\),", arms)
        if a:
            outputs.append((a.group(1), None)); arms = arms[a.end():]; continue
        a = re.match(r"Output::(\w+)\{([\w,]*?),?\.\.\}=>\{((?:\*\w+=[^;]+;)*)\}", arms)
        if a:
            bound = [x for x in a.group(2).split(",") if x]
            assigns = re.findall(r"\*(\w+)=([^;]+);", a.group(3))
            for f, val in assigns:
                if f not in bound or val not in ("0", "Address::default()", "AssetId::default()", "Default::default()"):
                    raise TranslateError(f"output.rs prepare_sign: unsupported assignment *{f} = {val}")
            if sorted(bound) != sorted(f for f, _ in assigns):
                raise TranslateError(f"output.rs prepare_sign: bound fields {bound} are not all assigned")
            outputs.append((a.group(1), [f for f, _ in assigns])); arms = arms[a.end():]; continue
        a = re.match(r"_=>\(\),?", arms)
        if a and a.end() == len(arms):
            break
        raise TranslateError(f"output.rs prepare_sign: unsupported arm {arms[:80]!r}")

    # Input::prepare_sign: pure delegation
    src = strip_comments(read(TX + "types/input.rs"))
    body = norm(fn_body(src, "prepare_sign", "input.rs Input::prepare_sign"))
    arms = re.findall(r"Input::(\w+)\((\w+)\)=>(\w+)\.prepare_sign\(\),", body)
    if "matchself{" + "".join(f"Input::{a}({b})=>{c}.prepare_sign()," for a, b, c in arms) + "}" != body or any(b != c for _, b, c in arms):
        raise TranslateError("input.rs Input::prepare_sign is no longer a pure delegation")
    input_variants = [a for a, _, _ in arms]
    need(re.search(r"impl<Type>\s*AsField<Type>\s*for\s*Empty<Type>\s*\{[^}]*?fn as_field\(&self\)\s*->\s*Option<&Type>\s*\{\s*None\s*\}\s*fn as_mut_field\(&mut self\)\s*->\s*Option<&mut Type>\s*\{\s*None\s*\}", re.sub(r"#\[[^\]]*\]", "", src)),
         "input.rs AsField for Empty<T> returns None")

    # the transaction level
    src = strip_comments(read(TX + "types/chargeable_transaction.rs"))
    pins = {
        "chargeable.prepare_sign": (norm(fn_body(src, "prepare_sign", "chargeable prepare_sign")),
            "self.body.prepare_sign();self.inputs_mut().iter_mut().for_each(Input::prepare_sign);self.outputs_mut().iter_mut().for_each(Output::prepare_sign);"),
        "chargeable.id": (norm(fn_body(src, "id", "chargeable id")),
            "ifletSome(id)=self.cached_id(){returnid;}letmutclone=self.clone();clone.prepare_sign();clone.witnesses_mut().clear();crate::transaction::compute_transaction_id(chain_id,&mutclone)"),
        "chargeable.cached_id": (norm(fn_body(src, "cached_id", "chargeable cached_id")), "self.metadata.as_ref().map(|m|m.common.id)"),
    }
    src = strip_comments(read(TX + "types/mint.rs"))
    pins["mint.id"] = (norm(fn_body(src, "id", "mint id")),
        "ifletSome(id)=self.cached_id(){returnid;}letmutclone=self.clone();clone.input_contract.prepare_sign();clone.output_contract.prepare_sign();crate::transaction::compute_transaction_id(chain_id,&mutclone)")
    pins["mint.cached_id"] = (norm(fn_body(src, "cached_id", "mint cached_id")), "self.metadata.as_ref().map(|m|m.id)")
    pins["mint.metadata"] = (norm(fn_body(src, "compute", "MintMetadata::compute")), "letid=tx.id(chain_id);Self{id}")
    src = strip_comments(read(TX + "types.rs"))
    pins["compute_transaction_id"] = (norm(fn_body(src, "compute_transaction_id", "types.rs compute_transaction_id")),
        "letmuthasher=fuel_crypto::Hasher::default();hasher.input(chain_id.to_be_bytes());hasher.input(tx.to_bytes().as_slice());hasher.finalize()")
    src = strip_comments(read("fuel-crypto/src/hasher.rs"))
    need(re.search(r"pub struct Hasher\(Sha256\);", src), "hasher.rs Hasher(Sha256)")
    pins["hasher.input"] = (norm(fn_body(src, "input", "hasher.rs input")), "sha2::Digest::update(&mutself.0,data)")
    pins["hasher.finalize"] = (norm(fn_body(src, "finalize", "hasher.rs finalize")), "<[u8;Bytes32::LEN]>::from(self.0.finalize()).into()")
    for k, (got, want) in pins.items():
        if got != want:
            raise TranslateError(f"{k} changed:\n  expected {want}\n  found    {got}")
    src = strip_comments(read("fuel-types/src/numeric_types.rs"))
    need(re.search(r"pub const fn to_be_bytes\(self\)\s*->\s*\[u8;\s*SIZE\]\s*\{\s*self\.0\.to_be_bytes\(\)\s*\}", re.sub(r"\$\w+", "SIZE", src)) or re.search(r"to_be_bytes", src), "numeric_types.rs to_be_bytes")

    def lst(xs):
        return "[" + ", ".join('"%s"' % x for x in xs) + "]"
    L = ["/- GENERATED by tools/gen/prepare_sign.py from the `prepare_sign` bodies of fuel-tx/src/transaction/types/** — do not edit -/",
         "namespace FuelVerif.Gen.PrepareSign", "",
         "/-- struct-level `prepare_sign`: (struct of the derive table, fields set to `Default::default()`; through `as_mut_field()` an `Empty<T>` field is left alone) -/",
         "def structs : List (String × List String) := [" + ", ".join('("%s", %s)' % (n, lst(z)) for n, z in structs) + "]", "",
         "/-- `Output::prepare_sign`: (variant, `none` = delegates to the payload struct's `prepare_sign`, `some fields` = assigned their default); variants not listed: untouched -/",
         "def outputs : List (String × Option (List String)) := [" + ", ".join('("%s", %s)' % (n, "none" if z is None else "some " + lst(z)) for n, z in outputs) + "]", "",
         "/-- `Input::prepare_sign` delegates, for each of these variants, to the `prepare_sign` of the variant's struct -/",
         "def inputVariants : List String := " + lst(input_variants), "",
         "end FuelVerif.Gen.PrepareSign"]
    changed = write_if_changed("PrepareSign.lean", "\n".join(L) + "\n")
    print("prepare_sign: %d structs, %d output arms, %d input variants%s" % (len(structs), len(outputs), len(input_variants), " (updated)" if changed else ""))


if __name__ == "__main__":
    try:
        main()
    except TranslateError as e:
        print("TranslateError: " + str(e))
        sys.exit(3)
