#!/usr/bin/env python3
"""C25: how every `impl Execute for fuel_asm::op::X` of opcodes_impl.rs finally updates `$pc` on its success paths
-> Gen/PcSites.lean.

For each of the Execute impls the translator walks the statements of `fn execute` in order and FOLLOWS every call that can
reach a write of `$pc` into the helper it delegates to (Interpreter method -> free function / `…Ctx` method, through the
`store_load!` / `wideint_ops!` macro expansions), recording for EVERY success exit (tail value or non-`Err` `return`) the
ordered list of `$pc` updates on that path:

  incPc            `inc_pc(…)`  (internal.rs; body pinned to `*pc = pc.saturating_add(Instruction::SIZE as Word)`)
  assign rhs       `*…pc = rhs`   (JumpArgs::jump: target_addr; PrepareCallCtx::prepare_call: code_start)
  restoreFrame     `registers.copy_from_slice(frame.registers())`  (RetCtx::return_from_context, inside `if let Some(frame) = …pop()`)
  handler f        a call that hands the whole interpreter to code outside the crate (`Ecal::ecal(self, …)`)

plus the chain of functions leading to the function that owns the last update, the runtime conditions of the path
(documentation) and compile-time constant guards (`if Ecal::INC_PC`). It also lists EVERY textual `$pc` write in
fuel-vm/src (non-test) so that the Lean side can prove the list closed, the `execute_instruction` dispatch
(`Opcode::X => execute_op!(X)`), and the default of `EcalHandler::INC_PC`.

Fails closed (TranslateError, exit 3) on any shape it does not understand: a `$pc`-relevant call inside a loop or a
closure, two relevant effects in one expression, an unresolvable callee that might reach a `$pc` write, a success
`return` in an unexpected position, a changed `inc_pc` body, a dispatch arm that does not map X to X, …
"""
import os, re, sys
from common import *

SRC_ROOT = "fuel-vm/src"
OPC = "fuel-vm/src/interpreter/executors/opcodes_impl.rs"

# ---------------------------------------------------------------------------------------------------------------
# lexical helpers


def clean(src):
    """one pass over Rust text: comments are blanked, the contents of string / raw string / char literals are
    replaced by spaces (offsets and line breaks are kept), so that bracket matching and regexes are safe"""
    out = list(src)
    i, n = 0, len(src)

    def blank(a, b):
        for k in range(a, min(b, n)):
            if out[k] != "\n":
                out[k] = " "
    while i < n:
        c = src[i]
        if c == "/" and src.startswith("//", i):
            j = src.find("\n", i)
            j = n if j < 0 else j
            blank(i, j)
            i = j
        elif c == "/" and src.startswith("/*", i):
            j = src.find("*/", i + 2)
            j = n if j < 0 else j + 2
            blank(i, j)
            i = j
        elif c == "r" and re.match(r'r#*"', src[i:i + 8]) and not (i > 0 and (src[i - 1].isalnum() or src[i - 1] == "_")):
            m = re.match(r'r(#*)"', src[i:i + 8])
            close = '"' + m.group(1)
            j = src.find(close, i + m.end())
            j = n if j < 0 else j
            blank(i + m.end(), j)
            i = j + len(close)
        elif c == '"':
            j = i + 1
            while j < n and src[j] != '"':
                j += 2 if src[j] == "\\" else 1
            blank(i + 1, j)
            i = j + 1
        elif c == "'":
            m = re.match(r"'(\\.[^']*|[^\\'])'", src[i:i + 12])
            if m:
                blank(i + 1, i + m.end() - 1)
                i += m.end()
            else:
                i += 1  # lifetime
        else:
            i += 1
    return "".join(out)


OPEN, CLOSE = "([{", ")]}"


def match_close(s, i):
    """index of the bracket closing the one at s[i]"""
    depth = 0
    for k in range(i, len(s)):
        c = s[k]
        if c in OPEN:
            depth += 1
        elif c in CLOSE:
            depth -= 1
            if depth == 0:
                return k
    raise TranslateError("unbalanced brackets")


def skip_angles(s, i):
    """s[i] == '<' : index after the matching '>' (`->` is not a closer)"""
    depth = 0
    k = i
    while k < len(s):
        c = s[k]
        if c == "<":
            depth += 1
        elif c == ">" and s[k - 1] != "-" and s[k - 1] != "=":
            depth -= 1
            if depth == 0:
                return k + 1
        elif c in "{;":
            raise TranslateError("unbalanced generics")
        k += 1
    raise TranslateError("unbalanced generics")


def split_top(s, sep=","):
    parts, depth, cur, k = [], 0, [], 0
    while k < len(s):
        c = s[k]
        if c in OPEN:
            depth += 1
        elif c in CLOSE:
            depth -= 1
        elif c == "<" and depth >= 0 and re.match(r"[\w>]", s[k - 1:k] or " ") :
            # generic argument list inside a type: skip to the matching '>'
            try:
                e = skip_angles(s, k)
                cur.append(s[k:e])
                k = e
                continue
            except TranslateError:
                pass
        if c == sep and depth == 0:
            parts.append("".join(cur))
            cur = []
        else:
            cur.append(c)
        k += 1
    if "".join(cur).strip():
        parts.append("".join(cur))
    return parts


def direct_tokens_quick(text):
    return bool(re.search(r"\binc_pc\s*\(|\bpc\s*=(?!=)|RegId::PC\s*\]\s*[-+*|&^]?=(?!=)|pc_mut\(\)\s*=(?!=)|copy_from_slice\s*\(\s*frame", text))


# ---------------------------------------------------------------------------------------------------------------
# macro expansion (`store_load!`, `wideint_ops!`: single-arm macro_rules with `$x:ident` parameters and paste names)


def expand_macros(src, rel):
    out = src
    for m in re.finditer(r"\bmacro_rules!\s*(\w+)\s*\{", src):
        name = m.group(1)
        # only file-level macros that define functions are expanded
        line_start = src.rfind("\n", 0, m.start()) + 1
        if src[line_start:m.start()].strip() != "":
            continue
        end = match_close(src, m.end() - 1)
        body = src[m.end():end]
        if "fn " not in body:
            continue
        arm = re.match(r"\s*\(([^)]*)\)\s*=>\s*\{", body)
        simple = arm and all(re.fullmatch(r"\$(\w+):ident", p.strip()) for p in arm.group(1).split(",") if p.strip())
        if not simple or not re.search(r"(?m)^%s!\(" % re.escape(name), src):
            # a macro of another shape is only skipped when it cannot write `$pc`
            if direct_tokens_quick(body):
                raise TranslateError(f"{rel}: macro {name} writes $pc but has a shape the translator cannot expand")
            continue
        params = [p.strip() for p in arm.group(1).split(",") if p.strip()]
        names = []
        for p in params:
            pm = re.fullmatch(r"\$(\w+):ident", p)
            if not pm:
                raise TranslateError(f"{rel}: macro {name}: parameter {p!r} is not `$x:ident`")
            names.append(pm.group(1))
        aend = match_close(body, arm.end() - 1)
        if body[aend + 1:].strip().strip(";").strip() != "":
            raise TranslateError(f"{rel}: macro {name}: more than one arm")
        tmpl = body[arm.end():aend]
        pp = re.match(r"\s*paste::paste!\s*\{", tmpl)
        if pp:
            pend = match_close(tmpl, pp.end() - 1)
            if tmpl[pend + 1:].strip() != "":
                raise TranslateError(f"{rel}: macro {name}: text after paste block")
            tmpl = tmpl[pp.end():pend]
        invs = list(re.finditer(r"(?m)^%s!\(([^)]*)\);" % re.escape(name), src))
        if not invs:
            raise TranslateError(f"{rel}: macro {name} defines functions but is never invoked at file level")
        for inv in invs:
            args = [a.strip() for a in inv.group(1).split(",")]
            if len(args) != len(names):
                raise TranslateError(f"{rel}: macro {name}: arity mismatch in invocation")
            env = dict(zip(names, args))

            def paste(pm):
                acc = ""
                for tok in pm.group(1).split():
                    t = re.fullmatch(r"\$(\w+)(?::(lower|upper))?", tok)
                    if t:
                        if t.group(1) not in env:
                            raise TranslateError(f"{rel}: macro {name}: unknown ${t.group(1)}")
                        v = env[t.group(1)]
                        v = v.lower() if t.group(2) == "lower" else v.upper() if t.group(2) == "upper" else v
                        acc += v
                    elif re.fullmatch(r"\w+", tok):
                        acc += tok
                    else:
                        raise TranslateError(f"{rel}: macro {name}: paste token {tok!r}")
                return acc
            text = re.sub(r"\[<([^\]]*?)>\]", paste, tmpl)
            text = re.sub(r"\$(\w+)", lambda q: env.get(q.group(1)) or (_ for _ in ()).throw(
                TranslateError(f"{rel}: macro {name}: unknown ${q.group(1)}")), text)
            out += "\n" + text + "\n"
    return out


# ---------------------------------------------------------------------------------------------------------------
# function index


class Fn:
    __slots__ = ("owner", "name", "has_self", "params", "body", "rel", "trait_decl", "key")

    def __init__(self, owner, name, has_self, params, body, rel):
        self.owner, self.name, self.has_self, self.params, self.body, self.rel = owner, name, has_self, params, body, rel
        self.key = (owner or "") + "::" + name if owner else name

    def qual(self):
        return self.key


def is_test_file(rel):
    parts = rel.split("/")
    b = parts[-1]
    return ("tests" in parts or b == "tests.rs" or b.endswith("_tests.rs") or b.startswith("test_")
            or b == "test_helpers.rs" or "test_helpers" in parts)


def impl_owner(header):
    h = header.strip()
    assert h.startswith("impl")
    h = h[4:].lstrip()
    if h.startswith("<"):
        h = h[skip_angles(h, 0):]
    h = re.split(r"\bwhere\b", h)[0]
    if re.search(r"\bfor\b", h):
        h = re.split(r"\bfor\b", h, 1)[1]
    h = h.strip()
    m = re.match(r"[&\s]*(?:'\w+\s+)?(?:mut\s+)?((?:\w+::)*\w+)", h)
    if not m:
        return None
    return m.group(1).split("::")[-1]


def scan_items(src, rel, owner, base_depth_text, fns):
    """find `fn` items and `impl` blocks directly inside `base_depth_text` (a scope body)"""
    s = base_depth_text
    k, n = 0, len(s)
    while k < n:
        c = s[k]
        if c in OPEN:
            # a nested bracket group that is not an item we understand: skip it (bodies of structs, enums, macros …)
            k = match_close(s, k) + 1
            continue
        m = re.compile(r"\b(impl|fn|mod|trait)\b").match(s, k)
        if not m or (k > 0 and (s[k - 1].isalnum() or s[k - 1] == "_")):
            k += 1
            continue
        kw = m.group(1)
        if kw in ("impl", "mod", "trait"):
            b = s.find("{", m.end())
            semi = s.find(";", m.end())
            if b < 0 or (0 <= semi < b):
                k = (semi if semi >= 0 else m.end()) + 1
                continue
            e = match_close(s, b)
            header = s[k:b]
            if kw == "impl":
                scan_items(src, rel, impl_owner(header), s[b + 1:e], fns)
            elif kw == "trait":
                tn = re.match(r"trait\s+(\w+)", header)
                scan_items(src, rel, tn.group(1) if tn else None, s[b + 1:e], fns)
            else:
                if not re.search(r"#\[cfg\(test\)\]\s*(pub\s+)?$", s[max(0, k - 40):k]):
                    scan_items(src, rel, owner, s[b + 1:e], fns)
            k = e + 1
            continue
        # fn
        nm = re.compile(r"fn\s+(\w+)\s*").match(s, k)
        if not nm:
            k += 2
            continue
        p = nm.end()
        if p < n and s[p] == "<":
            p = skip_angles(s, p)
            while p < n and s[p].isspace():
                p += 1
        if p >= n or s[p] != "(":
            k = nm.end()
            continue
        pe = match_close(s, p)
        b = s.find("{", pe)
        semi = s.find(";", pe)
        if b < 0 or (0 <= semi < b):
            k = (semi if semi >= 0 else pe) + 1  # declaration without body
            continue
        e = match_close(s, b)
        plist = [x.strip() for x in split_top(s[p + 1:pe]) if x.strip()]
        has_self = bool(plist) and re.fullmatch(r"(&\s*)?('\w+\s+)?(mut\s+)?self(\s*:.*)?", plist[0], re.S) is not None
        params = []
        for x in plist[1 if has_self else 0:]:
            x = re.sub(r"^#\[[^\]]*\]\s*", "", x)
            pm = re.match(r"(?:mut\s+)?(\w+)\s*:\s*(.*)$", x, re.S)
            params.append((pm.group(1), pm.group(2).strip()) if pm else ("_", x))
        fns.append(Fn(owner, nm.group(1), has_self, params, s[b + 1:e], rel))
        k = e + 1


def build_index():
    root = os.path.join(REPO, SRC_ROOT)
    if not os.path.isdir(root):
        raise TranslateError("fuel-vm/src not found")
    fns, texts = [], {}
    for dp, dn, fs in sorted(os.walk(root)):
        for f in sorted(fs):
            if not f.endswith(".rs"):
                continue
            rel = os.path.relpath(os.path.join(dp, f), root)
            if is_test_file(rel):
                continue
            raw = clean(read(os.path.join(SRC_ROOT, rel)))
            # `#[cfg(test)] mod x { … }` inline blocks are skipped by scan_items
            src = expand_macros(raw, rel)
            texts[rel] = raw
            scan_items(src, rel, None, src, fns)
    if len(fns) < 500:
        raise TranslateError("suspiciously few functions indexed under fuel-vm/src")
    return fns, texts


# ---------------------------------------------------------------------------------------------------------------
# `$pc` write tokens

INC = re.compile(r"\binc_pc\s*\(")
ASSIGN = re.compile(r"\*\s*((?:\w+\s*\.\s*)*pc)\s*=(?!=)\s*([^;]*)(?:;|$)")
INDEXED = re.compile(r"\[\s*RegId::PC\s*\]\s*[-+*|&^]?=(?!=)")
RESTORE = re.compile(r"\bregisters\s*\.\s*copy_from_slice\s*\(\s*frame\s*\.\s*registers\s*\(\s*\)\s*\)")
PCMUT_DEREF = re.compile(r"\*\s*\w[\w\.]*\.pc_mut\(\)\s*=(?!=)")


def direct_tokens(text):
    """[(pos, end, step)] of the textual `$pc` writes in `text`"""
    toks = []
    for m in INC.finditer(text):
        e = match_close(text, m.end() - 1)
        if not re.search(r"\bpc\b|pc_mut\(\)", text[m.end():e]):
            raise TranslateError("inc_pc called with an argument that does not mention pc")
        toks.append((m.start(), e + 1, ("incPc",)))
    for m in ASSIGN.finditer(text):
        toks.append((m.start(), m.end(), ("assign", " ".join(m.group(2).split()))))
    for m in INDEXED.finditer(text):
        toks.append((m.start(), m.end(), ("assign", "registers[RegId::PC]")))
    for m in PCMUT_DEREF.finditer(text):
        toks.append((m.start(), m.end(), ("assign", "*pc_mut()")))
    for m in RESTORE.finditer(text):
        toks.append((m.start(), m.end(), ("restoreFrame",)))
    return sorted(toks)


# ---------------------------------------------------------------------------------------------------------------
# calls

CALL = re.compile(r"(?<![\w!])([A-Za-z_]\w*)\s*(?:::\s*<[^;{}()]*?>\s*)?\(")
KEYWORDS = {"if", "match", "while", "for", "loop", "return", "Ok", "Err", "Some", "None", "fn", "let", "as", "in", "move",
            "unsafe", "else", "mut", "ref", "where", "impl", "dyn", "Box", "Self", "self", "super", "crate"}


class Analyzer:
    def __init__(self, fns):
        self.fns = fns
        self.by_name = {}
        for f in fns:
            self.by_name.setdefault(f.name, []).append(f)
        self.touch = None
        self.memo = {}
        self.stack = []

    # ---- call-site extraction -----------------------------------------------------------------------------
    def calls_in(self, text):
        """[(pos, end_of_call, name, kind, qualifier_or_receiver_text, nargs, args_text)]"""
        res = []
        for m in CALL.finditer(text):
            name = m.group(1)
            if name in KEYWORDS or name not in self.by_name:
                continue
            op = m.end() - 1
            try:
                cl = match_close(text, op)
            except TranslateError:
                continue
            args = text[op + 1:cl]
            nargs = len([a for a in split_top(args) if a.strip()])
            before = text[:m.start()].rstrip()
            if before.endswith("fn"):
                continue
            if before.endswith("."):
                res.append((m.start(), cl + 1, name, "method", self.receiver_text(before[:-1]), nargs, args))
            elif before.endswith("::"):
                q = re.search(r"((?:\w+\s*::\s*)*\w+)\s*(?:<[^<>]*>)?\s*::$", before)
                res.append((m.start(), cl + 1, name, "path", q.group(1).replace(" ", "") if q else "?", nargs, args))
            else:
                res.append((m.start(), cl + 1, name, "free", "", nargs, args))
        return res

    @staticmethod
    def receiver_text(before):
        """the receiver expression that ends at the end of `before` (best effort, right to left)"""
        b = before.rstrip()
        k = len(b)
        while k > 0:
            c = b[k - 1]
            if c in CLOSE:
                depth = 0
                j = k - 1
                while j >= 0:
                    if b[j] in CLOSE:
                        depth += 1
                    elif b[j] in OPEN:
                        depth -= 1
                        if depth == 0:
                            break
                    j -= 1
                if j < 0:
                    break
                k = j
                continue
            if c.isalnum() or c in "_.?:" or c.isspace() and re.search(r"[\.\?]\s*$", b[:k].rstrip() + ".") and False:
                k -= 1
                continue
            if c.isspace():
                # allow line breaks inside method chains: `foo\n    .bar`
                r = b[:k].rstrip()
                if b[k:].lstrip().startswith(".") or b[k:].lstrip().startswith("{"):
                    k = len(r)
                    continue
                break
            break
        return b[k:].strip()

    # ---- resolution -----------------------------------------------------------------------------------------
    def var_type(self, fn, var):
        for pn, pt in fn.params:
            if pn == var:
                m = re.match(r"(?:&\s*)?(?:'\w+\s+)?(?:mut\s+)?((?:\w+::)*\w+)", pt)
                return m.group(1).split("::")[-1] if m else None
        m = re.search(r"\blet\s+(?:mut\s+)?%s\s*(?::\s*[^=]+)?=\s*((?:\w+::)*[A-Z]\w*)\s*\{" % re.escape(var), fn.body)
        if m:
            return m.group(1).split("::")[-1]
        return None

    def candidates(self, fn, call):
        """(list of candidate Fn, precise?) for a call site inside `fn`"""
        pos, end, name, kind, q, nargs, args = call
        allc = self.by_name.get(name, [])
        if kind == "free":
            c = [f for f in allc if not f.has_self and f.owner is None and len(f.params) == nargs]
            if not c:
                # a local closure / tuple struct / enum constructor of the same name, or different arity
                c = [f for f in allc if not f.has_self and f.owner is None]
                return c, False
            return c, True
        if kind == "path":
            ty = q.split("::")[-1]
            if ty == "Self":
                ty = fn.owner
            c = [f for f in allc if f.owner == ty]
            if c:
                c2 = [f for f in c if len(f.params) + (1 if f.has_self else 0) == nargs]
                return (c2 or c), True
            owners = {f.owner for f in self.fns}
            if ty in owners or (ty and ty[0].islower()):
                # module path (`internal::inc_pc`) or known type without that method
                c = [f for f in allc if f.owner is None and not f.has_self and len(f.params) == nargs] if ty[0].islower() else []
                return c, True
            return [], True  # a type outside the crate, or a generic parameter (see handler detection)
        # method call
        ty = None
        r = q
        if r.endswith("}"):
            j = len(r) - 1
            depth = 0
            while j >= 0:
                if r[j] == "}":
                    depth += 1
                elif r[j] == "{":
                    depth -= 1
                    if depth == 0:
                        break
                j -= 1
            m = re.search(r"((?:\w+::)*[A-Z]\w*)\s*$", r[:j])
            ty = m.group(1).split("::")[-1] if m else None
        elif re.fullmatch(r"\w+", r):
            if r == "self":
                ty = fn.owner
            else:
                ty = self.var_type(fn, r)
        if ty:
            c = [f for f in allc if f.owner == ty and f.has_self]
            c2 = [f for f in c if len(f.params) == nargs]
            return (c2 or c), True
        c = [f for f in allc if f.has_self and len(f.params) == nargs]
        return c, False

    # ---- phase A: may a function reach a `$pc` write? ---------------------------------------------------------
    def compute_touch(self):
        direct = {}
        edges = {}
        for f in self.fns:
            direct[id(f)] = bool(direct_tokens(f.body)) or self.handler_calls(f, f.body) != []
            es = set()
            for call in self.calls_in(f.body):
                cs, _ = self.candidates(f, call)
                for c in cs:
                    es.add(id(c))
            edges[id(f)] = es
        touch = {k for k, v in direct.items() if v}
        changed = True
        while changed:
            changed = False
            for f in self.fns:
                if id(f) not in touch and edges[id(f)] & touch:
                    touch.add(id(f))
                    changed = True
        self.touch = touch

    def handler_calls(self, fn, text):
        """calls that pass the whole interpreter (`self` / `interpreter` / `vm`) to a function that is not in the index"""
        res = []
        for m in re.finditer(r"\b([A-Z]\w*)\s*::\s*(\w+)\s*\(", text):
            ty, name = m.group(1), m.group(2)
            if any(f.owner == ty for f in self.by_name.get(name, [])):
                continue
            cl = match_close(text, m.end() - 1)
            args = [a.strip() for a in split_top(text[m.end():cl])]
            if any(re.fullmatch(r"(&mut\s+)?(\*?self|interpreter|vm)", a) for a in args):
                # only generic parameters of the interpreter are interesting (`Ecal::ecal(self, …)`)
                if fn.owner == "Interpreter" or "interpreter" in [p for p, _ in fn.params]:
                    res.append((m.start(), cl + 1, ("handler", f"{ty}::{name}")))
        return res

    # ---- phase B: structured path analysis --------------------------------------------------------------------
    def relevant_events(self, fn, text):
        """ordered `$pc` events of a piece of straight-line text: direct tokens, handler calls and calls of functions
        that may reach a `$pc` write. Returns [(pos, end, ('step', step) | ('call', Fn))]."""
        ev = [(a, b, ("step", s)) for a, b, s in direct_tokens(text)]
        ev += [(a, b, ("step", s)) for a, b, s in self.handler_calls(fn, text)]
        for call in self.calls_in(text):
            pos, end, name = call[0], call[1], call[2]
            if name == "inc_pc":
                continue
            cs, precise = self.candidates(fn, call)
            hot = [c for c in cs if id(c) in self.touch]
            if not hot:
                continue
            if len(hot) > 1 or not precise or len(cs) > 1:
                raise TranslateError(f"{fn.qual()}: call `{name}` cannot be resolved uniquely but may reach a $pc write "
                                     f"(candidates: {sorted(c.qual() for c in cs)})")
            ev.append((pos, end, ("call", hot[0])))
        ev.sort(key=lambda x: x[0])
        # nested events (a call inside the arguments of another relevant call) are not understood
        for i in range(len(ev) - 1):
            if ev[i + 1][0] < ev[i][1] and ev[i][2][0] == "call":
                raise TranslateError(f"{fn.qual()}: nested $pc-relevant expressions")
        return ev

    def has_relevant(self, fn, text):
        return bool(self.relevant_events(fn, text)) or self.success_returns(text) != []

    @staticmethod
    def success_returns(text):
        res = []
        for m in re.finditer(r"\breturn\b", text):
            rest = text[m.end():].lstrip()
            if rest.startswith("Err(") or rest.startswith("Err ("):
                continue
            res.append(m.start())
        return res

    def closures_clean(self, fn, text):
        """no `$pc`-relevant event inside a closure body"""
        for m in re.finditer(r"\|[^|;{}()]*\|\s*(?:->\s*[^{]+)?\{", text):
            b = m.end() - 1
            e = match_close(text, b)
            if self.relevant_events(fn, text[b + 1:e]):
                raise TranslateError(f"{fn.qual()}: $pc-relevant code inside a closure")
        for m in re.finditer(r"\|[^|;{}()]*\|\s*(?!\{)([^,;)]*)", text):
            if self.relevant_events(fn, m.group(1)):
                raise TranslateError(f"{fn.qual()}: $pc-relevant code inside a closure")

    def blank_closures(self, text):
        """blank closure bodies (their `return`s leave the closure, not the function)"""
        out = text
        for m in re.finditer(r"\|[^|;{}()]*\|\s*(?:->\s*[^{]+)?\{", text):
            b = m.end() - 1
            e = match_close(text, b)
            out = out[:b + 1] + re.sub(r"[^\n]", " ", out[b + 1:e]) + out[e:]
        return out

    def split_statements(self, block):
        """top-level statements of a block body: [(text, terminated_by_semicolon)]"""
        s = block
        items, k, start, n = [], 0, 0, len(s)
        BLOCK_KW = re.compile(r"(?:#\[[^\]]*\]\s*)*(?:'\w+\s*:\s*)?(if|match|for|while|loop|unsafe|\{)")
        while k < n:
            c = s[k]
            if c in OPEN:
                e = match_close(s, k)
                if c == "{":
                    head = s[start:k + 1].lstrip()
                    after = s[e + 1:].lstrip()
                    if BLOCK_KW.match(head) and not re.match(r"else\b|\.|\?|=>", after) \
                            and not head.startswith("let") and not after.startswith(";"):
                        # a block-like expression statement ends at its closing brace … unless it is the tail
                        if after == "":
                            items.append((s[start:e + 1], False))
                        else:
                            items.append((s[start:e + 1], True))
                        start = e + 1
                k = e + 1
                continue
            if c == ";":
                items.append((s[start:k], True))
                start = k + 1
            k += 1
        if s[start:].strip():
            items.append((s[start:], False))
        return [(t.strip(), semi) for t, semi in items if t.strip()]

    def analyze(self, fn):
        """list of success exits of `fn`: each {'steps': [...], 'via': [...], 'conds': [...], 'guards': [...]}"""
        if id(fn) in self.memo:
            return self.memo[id(fn)]
        if id(fn) in [id(x) for x in self.stack]:
            raise TranslateError(f"recursion through {fn.qual()}")
        self.stack.append(fn)
        body = fn.body
        self.closures_clean(fn, body)
        body = self.blank_closures(body)
        start = [dict(steps=[], via=[], conds=[], guards=[])]
        fall, exits = self.run_block(fn, body, start)
        exits = exits + fall
        if not exits:
            raise TranslateError(f"{fn.qual()}: no success exit found")
        self.stack.pop()
        self.memo[id(fn)] = exits
        return exits

    @staticmethod
    def extend(paths, steps=(), via=None, conds=(), guards=()):
        out = []
        for p in paths:
            q = dict(steps=p["steps"] + list(steps), via=list(p["via"]), conds=p["conds"] + list(conds), guards=p["guards"] + list(guards))
            if via is not None and steps:
                q["via"] = via
            out.append(q)
        return out

    def apply_events(self, fn, text, paths):
        """straight-line text: append its events to every path"""
        for pos, end, ev in self.relevant_events(fn, text):
            if ev[0] == "step":
                paths = self.extend(paths, [ev[1]], via=None)
                for p in paths:
                    p["last_owner"] = fn.qual()
            else:
                callee = ev[1]
                sub = self.analyze(callee)
                new = []
                for p in paths:
                    for x in sub:
                        q = dict(steps=p["steps"] + x["steps"], via=list(p["via"]), conds=p["conds"] + x["conds"],
                                 guards=p["guards"] + x["guards"])
                        if x["steps"]:
                            q["via"] = [callee.qual()] + x["via"]
                        new.append(q)
                paths = new
        return paths

    def is_error_value(self, text):
        t = text.strip()
        return bool(re.match(r"Err\s*\(", t)) and match_close(t, t.index("(")) in (len(t) - 1, len(t) - 2) or \
            bool(re.match(r"(unreachable|panic|unimplemented|todo)!\s*\(", t))

    def run_block(self, fn, block, paths):
        """abstractly execute a block: returns (fallthrough paths, exits)"""
        exits = []
        stmts = self.split_statements(block)
        for idx, (st, semi) in enumerate(stmts):
            if not paths:
                break
            is_tail = (idx == len(stmts) - 1) and not semi
            paths, ex = self.run_stmt(fn, st, paths, is_tail)
            exits += ex
        return paths, exits

    def run_stmt(self, fn, st, paths, is_tail):
        st0 = re.sub(r"^(?:#\[[^\]]*\]\s*)+", "", st).strip()
        # return
        m = re.match(r"return\b", st0)
        if m:
            val = st0[m.end():].strip()
            if self.is_error_value(val) or val.startswith("Err("):
                return [], []
            if self.success_returns(val):
                raise TranslateError(f"{fn.qual()}: nested return")
            return [], self.apply_events(fn, val, paths)
        if not self.has_relevant(fn, st0):
            if is_tail and self.is_error_value(st0):
                return [], []
            return paths, []
        # if / else chains
        if re.match(r"if\b", st0):
            return self.run_if(fn, st0, paths)
        if re.match(r"match\b", st0):
            return self.run_match(fn, st0, paths)
        if re.match(r"(for|while|loop)\b", st0):
            raise TranslateError(f"{fn.qual()}: $pc-relevant code or a success return inside a loop")
        if re.match(r"(unsafe\s*)?\{", st0):
            b = st0.index("{")
            e = match_close(st0, b)
            if st0[e + 1:].strip():
                raise TranslateError(f"{fn.qual()}: unexpected text after block")
            return self.run_block(fn, st0[b + 1:e], paths)
        # simple statement / expression: no success return may hide in a nested block
        if self.success_returns(st0):
            raise TranslateError(f"{fn.qual()}: success `return` nested inside an expression: {st0[:80]!r}")
        # relevant events inside nested `{…}` blocks of an expression (e.g. `let x = if c { inc_pc(pc) } …`) are not understood,
        # except struct literals / argument lists (events there are plain sub-expressions evaluated in order)
        for mm in re.finditer(r"\b(if|match|for|while|loop)\b", st0):
            b = st0.find("{", mm.end())
            if b >= 0:
                e = match_close(st0, b)
                if self.relevant_events(fn, st0[mm.start():e + 1]):
                    raise TranslateError(f"{fn.qual()}: $pc-relevant code inside a nested control expression: {st0[:80]!r}")
        return self.apply_events(fn, st0, paths), []

    def run_if(self, fn, st, paths):
        fall, exits = [], []
        rest = st
        has_else = False
        while True:
            m = re.match(r"if\b", rest)
            if not m:
                raise TranslateError(f"{fn.qual()}: malformed if chain")
            b = self.cond_brace(rest, m.end())
            cond = " ".join(rest[m.end():b].split())
            if self.relevant_events(fn, cond):
                raise TranslateError(f"{fn.qual()}: $pc-relevant code inside an `if` condition")
            e = match_close(rest, b)
            g = re.fullmatch(r"(!?)\s*([A-Z]\w*::[A-Z][A-Z0-9_]*)", cond)
            if g:
                pin = self.extend(paths, guards=[(g.group(2), g.group(1) == "")])
            else:
                pin = self.extend(paths, conds=[cond])
            f1, e1 = self.run_block(fn, rest[b + 1:e], pin)
            fall += f1
            exits += e1
            # paths that do not take this branch
            if g:
                paths = self.extend(paths, guards=[(g.group(2), g.group(1) != "")])
            else:
                paths = self.extend(paths, conds=["!(" + cond + ")"])
            after = rest[e + 1:].strip()
            if not after:
                break
            m2 = re.match(r"else\b\s*", after)
            if not m2:
                raise TranslateError(f"{fn.qual()}: unexpected text after if block: {after[:40]!r}")
            after = after[m2.end():]
            if after.startswith("if"):
                rest = after
                continue
            if not after.startswith("{"):
                raise TranslateError(f"{fn.qual()}: malformed else")
            e2 = match_close(after, 0)
            if after[e2 + 1:].strip():
                raise TranslateError(f"{fn.qual()}: unexpected text after else block")
            f2, ex2 = self.run_block(fn, after[1:e2], paths)
            fall += f2
            exits += ex2
            has_else = True
            break
        if not has_else:
            fall += paths
        return fall, exits

    @staticmethod
    def cond_brace(s, k):
        """index of the `{` that opens the body of an `if`/`match` whose condition starts at k"""
        i = k
        while i < len(s):
            c = s[i]
            if c in "([":
                i = match_close(s, i) + 1
                continue
            if c == "{":
                # a struct literal in the condition would be parenthesised in Rust
                return i
            i += 1
        raise TranslateError("no body brace")

    def run_match(self, fn, st, paths):
        m = re.match(r"match\b", st)
        b = self.cond_brace(st, m.end())
        scrut = st[m.end():b]
        if self.relevant_events(fn, scrut):
            raise TranslateError(f"{fn.qual()}: $pc-relevant code inside a `match` scrutinee")
        e = match_close(st, b)
        if st[e + 1:].strip():
            raise TranslateError(f"{fn.qual()}: unexpected text after match")
        body = st[b + 1:e]
        fall, exits = [], []
        k, n = 0, len(body)
        narms = 0
        while k < n:
            # pattern up to `=>` at depth 0
            j, depth = k, 0
            while j < n:
                c = body[j]
                if c in OPEN:
                    j = match_close(body, j) + 1
                    continue
                if body.startswith("=>", j):
                    break
                j += 1
            if j >= n:
                if body[k:].strip():
                    raise TranslateError(f"{fn.qual()}: malformed match arm")
                break
            pat = " ".join(body[k:j].split())
            j += 2
            while j < n and body[j].isspace():
                j += 1
            if j < n and body[j] == "{":
                ae = match_close(body, j)
                arm = body[j + 1:ae]
                nxt = ae + 1
                while nxt < n and (body[nxt].isspace() or body[nxt] == ","):
                    nxt += 1
            else:
                # expression arm up to the next top-level comma
                q = j
                while q < n:
                    c = body[q]
                    if c in OPEN:
                        q = match_close(body, q) + 1
                        continue
                    if c == ",":
                        break
                    q += 1
                arm = body[j:q]
                nxt = q + 1
            narms += 1
            pin = self.extend(paths, conds=[f"{' '.join(scrut.split())} is {pat}"])
            f1, e1 = self.run_block(fn, arm, pin)
            fall += f1
            exits += e1
            k = nxt
        if narms == 0:
            raise TranslateError(f"{fn.qual()}: match without arms")
        return fall, exits


# ---------------------------------------------------------------------------------------------------------------


def lean_str(s):
    return '"' + s.replace("\\", "\\\\").replace('"', '\\"') + '"'


def step_lean(s):
    if s[0] == "incPc":
        return ".incPc"
    if s[0] == "restoreFrame":
        return ".restoreFrame"
    if s[0] == "assign":
        return "(.assign %s)" % lean_str(s[1])
    if s[0] == "handler":
        return "(.handler %s)" % lean_str(s[1])
    raise TranslateError("unknown step")


def all_pc_write_sites(an):
    """(file, fn, kind) of every textual `$pc` write in fuel-vm/src (non-test), from the function index"""
    sites = []
    for f in an.fns:
        for a, b, s in direct_tokens(f.body):
            sites.append((f.rel, f.qual(), s[0] if s[0] != "assign" else "assign"))
        for a, b, s in an.handler_calls(f, f.body):
            sites.append((f.rel, f.qual(), "handler"))
    return sorted(set(sites))


def dispatch_table():
    src = clean(read("fuel-vm/src/interpreter/executors/instruction.rs"))
    m = need(re.search(r"fn execute_instruction\b", src), "fn execute_instruction")
    b = src.index("{", src.index(")", m.end()))
    # skip the where clause: the body is the first `{` after the `where … V: Verifier,` clause
    b = src.index("{", need(re.search(r"V:\s*Verifier,\s*\{", src[m.end():]), "execute_instruction where clause").end() - 1 + m.end())
    e = match_close(src, b)
    body = src[b + 1:e]
    mac = need(re.search(r"macro_rules!\s*execute_op\s*\{\s*\(\$op:ident\)\s*=>\s*\{\s*fuel_asm::op::\$op::from_raw_args\(raw_args\)\s*"
                         r"\.map_err\(\|_\|\s*RuntimeError::from\(PanicReason::InvalidInstruction\)\)\?\s*\.execute\(interpreter\)\s*\};?\s*\}", body),
               "execute_op! macro shape")
    mt = need(re.search(r"match\s+opcode\s*\{", body[mac.end():]), "match opcode")
    mb = mac.end() + mt.end() - 1
    me = match_close(body, mb)
    if body[me + 1:].strip():
        raise TranslateError("execute_instruction: code after `match opcode`")
    arms = [a.strip() for a in body[mb + 1:me].split(",") if a.strip()]
    out = []
    for a in arms:
        am = re.fullmatch(r"Opcode::(\w+)\s*=>\s*execute_op!\((\w+)\)", a)
        if not am:
            raise TranslateError(f"execute_instruction: unexpected arm {a!r}")
        out.append((am.group(1), am.group(2)))
    return out


def inc_pc_shape(an):
    fs = [f for f in an.by_name.get("inc_pc", []) if f.owner is None]
    if len(fs) != 1:
        raise TranslateError("expected exactly one free fn inc_pc")
    f = fs[0]
    if [t for _, t in f.params] != ["RegMut<PC>"]:
        raise TranslateError("inc_pc signature changed")
    if " ".join(f.body.split()) != "*pc = pc.saturating_add(Instruction::SIZE as Word);":
        raise TranslateError("inc_pc body is no longer `*pc = pc.saturating_add(Instruction::SIZE as Word);`")
    asm = strip_comments(read("fuel-asm/src/lib.rs"))
    need(re.search(r"pub const SIZE: usize = core::mem::size_of::<Instruction>\(\);", asm), "Instruction::SIZE")
    need(re.search(r"pub type RawInstruction = u32;", asm), "RawInstruction = u32")
    return f


def ecal_default():
    src = strip_comments(read("fuel-vm/src/interpreter/ecal.rs"))
    m = need(re.search(r"pub trait EcalHandler\b.*?\{(.*?)\n\}", src, re.S), "trait EcalHandler")
    d = need(re.search(r"const INC_PC: bool = (true|false);", m.group(1)), "EcalHandler::INC_PC default")
    return d.group(1)


def main():
    fns, texts = build_index()
    an = Analyzer(fns)
    an.compute_touch()
    inc_pc_shape(an)

    # roots: the Execute impls
    src = clean(read(OPC))
    roots = []
    for m in re.finditer(r"impl<M, S, Tx, Ecal, V> Execute<M, S, Tx, Ecal, V> for fuel_asm::op::(\w+)", src):
        name = m.group(1)
        cands = [f for f in fns if f.rel.endswith("executors/opcodes_impl.rs") and f.owner == name and f.name == "execute"]
        if len(cands) != 1:
            raise TranslateError(f"op::{name}: expected exactly one fn execute")
        f = cands[0]
        if [p for p, _ in f.params] != ["interpreter"] or not f.has_self:
            raise TranslateError(f"op::{name}: unexpected execute signature")
        roots.append((name, f))
    names = [n for n, _ in roots]
    if len(set(names)) != len(names) or len(names) < 100:
        raise TranslateError("duplicate or suspiciously few Execute impls")
    # every fn in opcodes_impl.rs is one of these impls
    others = [f.qual() for f in fns if f.rel.endswith("executors/opcodes_impl.rs") and not (f.name == "execute" and f.owner in names)]
    if others:
        raise TranslateError(f"opcodes_impl.rs contains functions that are not Execute impls: {others}")

    # `interpreter` inside the impls is the Interpreter: make `interpreter.x(…)` resolve to Interpreter methods
    orig_var_type = an.var_type

    def var_type(fn, var):
        if var == "interpreter" and fn.name == "execute":
            return "Interpreter"
        return orig_var_type(fn, var)
    an.var_type = var_type

    table = []
    for name, f in roots:
        exits = an.analyze(f)
        rows = []
        for x in exits:
            # the value returned by the impl on this path
            rows.append((tuple(x["steps"]), tuple(x["via"]), tuple(x["conds"]), tuple(x["guards"])))
        # identical (steps, via, guards) reached under different runtime conditions are merged (conditions are documentation)
        merged = {}
        for st, via, conds, guards in rows:
            merged.setdefault((st, via, guards), [])
            if conds:
                merged[(st, via, guards)].append(" && ".join(conds))
        table.append((name, [(k[0], k[1], k[2], v) for k, v in merged.items()]))

    # returned ExecuteState per impl (Proceed / Return / ReturnData / Revert)
    states = {}
    for name, f in roots:
        st = sorted(set(re.findall(r"ExecuteState::(\w+)", f.body)))
        if len(st) != 1:
            raise TranslateError(f"op::{name}: expected exactly one ExecuteState constructor, found {st}")
        states[name] = st[0]

    disp = dispatch_table()
    if [a for a, _ in disp] != [b for _, b in disp]:
        raise TranslateError("execute_instruction: an arm dispatches to a different op type")
    if sorted(a for a, _ in disp) != sorted(names):
        raise TranslateError("execute_instruction arms and Execute impls differ")

    sites = all_pc_write_sites(an)
    ecal = ecal_default()

    L = ["/- GENERATED by tools/gen/pc_sites.py from fuel-vm/src/interpreter/executors/{opcodes_impl,instruction}.rs and the helpers",
         "   the Execute impls delegate to (alu*.rs, flow.rs, memory.rs, blockchain.rs, contract.rs, crypto.rs, log.rs, blob.rs,",
         "   metadata.rs, internal.rs, ecal.rs) — do not edit -/",
         "namespace FuelVerif.Gen", "",
         "/-- one textual update of `$pc` on a success path -/",
         "inductive PcStep where",
         "  | incPc                      -- `inc_pc(pc)`: `*pc = pc.saturating_add(Instruction::SIZE as Word)`",
         "  | assign (rhs : String)      -- `*…pc = rhs`",
         "  | restoreFrame               -- `registers.copy_from_slice(frame.registers())` (only if a call frame is popped)",
         "  | handler (f : String)       -- the whole interpreter is handed to `f`, code outside the crate",
         "deriving DecidableEq, Repr", "",
         "/-- a success exit of an `impl Execute`: the `$pc` updates in execution order, the functions followed to the one",
         "    performing the last update, compile-time constant guards `(constant, required value)`, and the runtime",
         "    conditions under which the exit is reached (documentation only) -/",
         "structure PcExit where",
         "  steps : List PcStep",
         "  via : List String",
         "  guards : List (String × Bool)",
         "  conds : List String",
         "deriving Repr", "",
         "/-- (mnemonic, returned `ExecuteState` constructor, success exits) per `impl Execute for fuel_asm::op::X`, in source order -/",
         "def pcSites : List (String × String × List PcExit) := ["]
    rows = []
    for name, exits in table:
        ex = []
        for steps, via, guards, conds in exits:
            ex.append("⟨[%s], [%s], [%s], [%s]⟩" % (
                ", ".join(step_lean(s) for s in steps),
                ", ".join(lean_str(v) for v in via),
                ", ".join("(%s, %s)" % (lean_str(g), "true" if v else "false") for g, v in guards),
                ", ".join(lean_str(c) for c in conds)))
        rows.append("  (%s, %s, [\n    %s])" % (lean_str(name), lean_str(states[name]), ",\n    ".join(ex)))
    L.append(",\n".join(rows))
    L += ["]", "",
          "/-- arms of `execute_instruction`: `Opcode::X => execute_op!(Y)` as (X, Y) -/",
          "def dispatchArms : List (String × String) := ["]
    L.append(",\n".join("  (%s, %s)" % (lean_str(a), lean_str(b)) for a, b in disp))
    L += ["]", "",
          "/-- (file under fuel-vm/src, function, kind) of EVERY textual write of `$pc` in the non-test sources -/",
          "def pcWriteSites : List (String × String × String) := ["]
    L.append(",\n".join("  (%s, %s, %s)" % (lean_str(a), lean_str(b), lean_str(c)) for a, b, c in sites))
    L += ["]", "",
          "/-- default of the associated constant `EcalHandler::INC_PC` -/",
          "def constDefaults : List (String × Bool) := [(\"Ecal::INC_PC\", %s)]" % ecal, "",
          "end FuelVerif.Gen", ""]
    changed = write_if_changed("PcSites.lean", "\n".join(L))
    nex = sum(len(e) for _, e in table)
    print("pc_sites: %d impls, %d success exits, %d $pc write sites%s" % (len(table), nex, len(sites), " (regenerated)" if changed else ""))


if __name__ == "__main__":
    try:
        main()
    except TranslateError as e:
        print(f"TRANSLATE-ERROR pc_sites: {e}")
        sys.exit(3)
