#!/usr/bin/env python3
"""C29: for every `impl Execute for fuel_asm::op::X` of opcodes_impl.rs the first gas charge it performs (directly or
in the helper it delegates to), the default gas schedule (default_gas_costs.rs; accessor -> struct field through gas.rs),
and the variants of `BugVariant` (error.rs) -> Gen/VmGas.lean. Fails closed when an impl no longer starts by charging."""
import os, re, sys
from common import *


def brace_body(src, start):
    j = src.index("{", start)
    depth, k = 0, j
    while True:
        if src[k] == "{":
            depth += 1
        elif src[k] == "}":
            depth -= 1
            if depth == 0:
                return src[j + 1:k]
        k += 1


def helper_bodies():
    """all `fn name(` bodies under fuel-vm/src/interpreter (non-test), keyed by name (several definitions possible)"""
    out = {}
    root = os.path.join(REPO, "fuel-vm", "src", "interpreter")
    for d, _, fs in os.walk(root):
        for f in fs:
            if not f.endswith(".rs") or f == "tests.rs" or "/tests" in d:
                continue
            src = strip_comments(open(os.path.join(d, f), encoding="utf-8").read())
            for m in re.finditer(r"\bfn (\w+)\s*(?:<[^>]*>)?\s*\(", src):
                try:
                    out.setdefault(m.group(1), []).append(brace_body(src, src.index(")", m.end())))
                except ValueError:
                    pass
    return out


CHARGE = re.compile(r"\.(gas_charge|dependent_gas_charge|dependent_gas_charge_without_base)\(\s*(?:interpreter|self)\s*\.gas_costs\(\)\s*\.(\w+)\(\)")
HELPER_CHARGE = re.compile(r"let gas_cost = self\s*\.(?:gas_costs\(\)|interpreter_params\s*\.gas_costs)\s*\.(\w+)\(\)(?:\s*\.map_err\(PanicReason::from\)\?)?;.*?self\.gas_charge\(gas_cost\.base\(\)\)\?;", re.S)


def sites():
    src = strip_comments(read("fuel-vm/src/interpreter/executors/opcodes_impl.rs"))
    helpers = helper_bodies()
    out = []
    for m in re.finditer(r"impl<M, S, Tx, Ecal, V> Execute<M, S, Tx, Ecal, V> for fuel_asm::op::(\w+)", src):
        name = m.group(1)
        body = brace_body(src, src.index("fn execute", m.end()))
        c = CHARGE.search(body)
        if c:
            before = body[:c.start()]
            if re.search(r"\bOk\(|\breturn\b|\binc_pc\b", before):
                raise TranslateError(f"op::{name}: something can return before the first gas charge")
            kind = "direct" if c.group(1) == "gas_charge" else "dependent"
            out.append((name, kind, c.group(2), ""))
            continue
        h = re.search(r"interpreter\s*\.(\w+)\(", body)
        if not h:
            raise TranslateError(f"op::{name}: neither a gas charge nor a delegation found")
        helper = h.group(1)
        if helper == "external_call":
            out.append((name, "ecal", "", helper))
            continue
        def first_charge(hname, depth):
            for hb in helpers.get(hname, []):
                hc = HELPER_CHARGE.search(hb)
                if hc and not re.search(r"\bOk\(|\breturn\b|\?;", hb[:hc.start()]):
                    return hc.group(1)
                # a pure forwarding wrapper: its whole body is one call `self.other(...)`
                fw = re.fullmatch(r"\s*self\s*\.(\w+)\((?:.|\n)*\)\s*", hb)
                if fw and depth > 0:
                    r = first_charge(fw.group(1), depth - 1)
                    if r:
                        return r
            return None
        found = first_charge(helper, 1)
        if not found:
            raise TranslateError(f"op::{name}: helper `{helper}` does not start by charging gas_cost.base()")
        out.append((name, "delegated", found, helper))
    if len(out) < 100:
        raise TranslateError("suspiciously few Execute impls")
    return out


def accessor_fields():
    src = strip_comments(read("fuel-tx/src/transaction/consensus_parameters/gas.rs"))
    m = need(re.search(r"pub fn default_gas_costs|GasCostsValues::V(\d+)\(", src), "GasCostsValues versions")
    latest = max(int(x) for x in re.findall(r"GasCostsValues::V(\d+)\(", src))
    acc = {}
    for m in re.finditer(r"pub fn (\w+)\(&self\) -> (?:Word|DependentCost|Result<Word, GasCostNotDefined>|Result<DependentCost, GasCostNotDefined>) \{(.*?)\n    \}", src, re.S):
        r = re.search(r"GasCostsValues::V%d\(v%d\) => (?:Ok\()?v%d\.(\w+)" % (latest, latest, latest), m.group(2))
        if r:
            acc[m.group(1)] = r.group(1)
    return latest, acc


def defaults(latest):
    src = strip_comments(read("fuel-tx/src/transaction/consensus_parameters/gas/default_gas_costs.rs"))
    m = need(re.search(r"pub fn default_gas_costs\(\) -> GasCostsValues \{\s*GasCostsValuesV%d \{(.*)\}\s*\.into\(\)" % latest, src, re.S), "default_gas_costs literal of the latest version")
    body = m.group(1)
    vals = {}
    for f, v in re.findall(r"(\w+): (\d[\d_]*),", body):
        vals[f] = ("word", rust_int(v), 0)
    for f, kind, base, unit, n in re.findall(r"(\w+): DependentCost::(LightOperation|HeavyOperation) \{\s*base: (\d[\d_]*),\s*(units_per_gas|gas_per_unit): (\d[\d_]*),?\s*\}", body):
        vals[f] = (kind, rust_int(base), rust_int(n))
    if len(vals) < 100:
        raise TranslateError("default gas table suspiciously small")
    return vals


def bug_variants():
    src = strip_comments(read("fuel-vm/src/error.rs"))
    m = need(re.search(r"pub enum BugVariant \{(.*?)\n\}", src, re.S), "enum BugVariant")
    body = re.sub(r"#\[strum\((?:.|\n)*?\)\]", "", m.group(1))
    body = re.sub(r"\{[^}]*\}", "", body)
    vs = [v for v in re.findall(r"\b([A-Z]\w+)\s*,", body)]
    if len(vs) < 8:
        raise TranslateError("BugVariant suspiciously small")
    return vs


def main():
    st = sites()
    latest, acc = accessor_fields()
    dv = defaults(latest)
    L = ["/- GENERATED by tools/gen/gas_sites.py from fuel-vm/src/interpreter/executors/opcodes_impl.rs (+ delegating helpers),",
         "   fuel-tx/src/transaction/consensus_parameters/{gas.rs,gas/default_gas_costs.rs}, fuel-vm/src/error.rs — do not edit -/",
         "namespace FuelVerif.Gen", "",
         "/-- how an instruction implementation first charges gas -/",
         "inductive ChargeKind where",
         "  | direct      -- `gas_charge(gas_costs().f())` is the first effect",
         "  | dependent   -- `dependent_gas_charge(gas_costs().f(), n)`: base + per-unit part",
         "  | delegated   -- the helper the impl calls starts with `gas_charge(gas_costs().f().base())`",
         "  | ecal        -- `external_call`: charging is up to the ECAL handler (the default handler panics)",
         "deriving DecidableEq, Repr", "",
         "/-- (mnemonic, kind, cost accessor, helper) per `impl Execute for op::X` -/",
         "def chargeSites : List (String × ChargeKind × String × String) := ["]
    L.append(",\n".join('  ("%s", .%s, "%s", "%s")' % s for s in st))
    L += ["]", "", "/-- cost accessor -> the amount certainly charged under `default_gas_costs()` (the value, or the base of a dependent cost) -/",
          "def defaultCharge : List (String × Nat) := ["]
    rows = []
    used = sorted({s[2] for s in st if s[2]})
    for a in used:
        if a not in acc:
            raise TranslateError(f"cost accessor {a}() not found in gas.rs")
        f = acc[a]
        if f not in dv:
            raise TranslateError(f"default_gas_costs() has no field {f}")
        rows.append('  ("%s", %d)' % (a, dv[f][1]))
    L.append(",\n".join(rows))
    L += ["]", "", "/-- `GasCostsValues` version of `default_gas_costs()` -/", "def gasCostsVersion : Nat := %d" % latest, "",
          "/-- variants of `BugVariant` -/", "def bugVariants : List String := [" + ", ".join('"%s"' % v for v in bug_variants()) + "]", "",
          "end FuelVerif.Gen"]
    changed = write_if_changed("VmGas.lean", "\n".join(L) + "\n")
    print("gas_sites: %d impls (%d delegated), %d accessors, V%d%s" % (len(st), sum(1 for s in st if s[1] == "delegated"), len(used), latest, " (changed)" if changed else ""))


if __name__ == "__main__":
    try:
        main()
    except TranslateError as e:
        print("TRANSLATE-ERROR gas_sites: %s" % e)
        sys.exit(3)
