#!/usr/bin/env python3
"""T-gtf (C05): the GTF / GM selector tables of fuel-asm -> Gen/Gtf.lean

Extracted (and re-checked on every run):
  * fuel-asm/src/args.rs: every variant of `enum GMArgs` and `enum GTFArgs` with its discriminant (`Name = 0x..`),
    and that `enum_try_from!` maps an unknown immediate to `PanicReason::InvalidMetadataIdentifier`;
  * fuel-vm/src/consts.rs `VM_MEMORY_BASE_ASSET_ID_OFFSET`, `VM_MEMORY_BALANCES_OFFSET`; fuel-tx `TxParameters::tx_offset`,
    `BALANCE_ENTRY_SIZE`; `ExecutableTransaction::transaction_type` of the five executable kinds;
  * the bodies of the functions the hand model (Model/Gtf.lean) transcribes — `get_transaction_field` (both),
    `metadata`, `init_inner`, `init_script`, `init_predicate`, `RuntimeBalances::to_vm`, `convert::to_usize` —
    compared, whitespace-normalised, with tools/gen/gtf_pins.json.
Fails closed (TranslateError, exit 3).
"""
import json, os, re, sys
from common import *
from offsets import fn_body, balanced


def enum_rows(src, name):
    m = need(re.search(r"pub enum %s\s*\{" % name, src), f"args.rs enum {name}")
    end = balanced(src, m.end() - 1)
    body = re.sub(r"#\[[^\]]*\]", "", src[m.end():end - 1])
    body = re.sub(r"#\[deprecated\([^)]*\)\]", "", body, flags=re.S)
    rows = re.findall(r"(\w+)\s*=\s*(0x[0-9a-fA-F]+|\d+)\s*,", body)
    left = re.sub(r"(\w+)\s*=\s*(0x[0-9a-fA-F]+|\d+)\s*,", "", body)
    left = re.sub(r"#\[[^\]]*\]", "", left, flags=re.S)
    if left.strip():
        raise TranslateError(f"args.rs enum {name}: unparsed text {left.strip()[:80]!r}")
    vals = [rust_int(v) for _, v in rows]
    if len(set(vals)) != len(vals) or len(set(n for n, _ in rows)) != len(rows):
        raise TranslateError(f"args.rs enum {name}: duplicate name or discriminant")
    return [(n, rust_int(v)) for n, v in rows]


PINS = [
    ("metadata.get_transaction_field.outer", "fuel-vm/src/interpreter/metadata.rs", "get_transaction_field", r"&mut self"),
    ("metadata.get_transaction_field", "fuel-vm/src/interpreter/metadata.rs", "get_transaction_field", r"\( self,"),
    ("metadata.metadata.outer", "fuel-vm/src/interpreter/metadata.rs", "metadata", r"&mut self"),
    ("metadata.metadata", "fuel-vm/src/interpreter/metadata.rs", "metadata", r"context: &Context"),
    ("init.init_inner", "fuel-vm/src/interpreter/initialization.rs", "init_inner", None),
    ("init.init_script", "fuel-vm/src/interpreter/initialization.rs", "init_script", None),
    ("init.init_predicate", "fuel-vm/src/interpreter/initialization.rs", "init_predicate", None),
    ("balances.to_vm", "fuel-vm/src/interpreter/balances.rs", "to_vm", None),
    ("convert.to_usize", "fuel-vm/src/convert.rs", "to_usize", None),
    ("tx_params.tx_offset", "fuel-tx/src/transaction/consensus_parameters.rs", "tx_offset", None),
]


def main():
    src = strip_comments(read("fuel-asm/src/args.rs"))
    gm = enum_rows(src, "GMArgs")
    gtf = enum_rows(src, "GTFArgs")
    mac = strip_comments(read("fuel-asm/src/macros.rs"))
    need(re.search(r"macro_rules! enum_try_from\s*\{.*?\$\(x if x == \$name::\$vname as \$from => Ok\(\$name::\$vname\),\)\*\s*_ => Err\(\$crate::PanicReason::InvalidMetadataIdentifier\),", mac, re.S),
         "macros.rs enum_try_from: unknown value -> InvalidMetadataIdentifier")
    consts = strip_comments(read("fuel-vm/src/consts.rs"))
    need(re.search(r"pub const VM_MEMORY_BASE_ASSET_ID_OFFSET\s*:\s*usize\s*=\s*Bytes32::LEN\s*;", consts), "consts.rs VM_MEMORY_BASE_ASSET_ID_OFFSET = Bytes32::LEN")
    need(re.search(r"pub const VM_MEMORY_BALANCES_OFFSET\s*:\s*usize\s*=\s*VM_MEMORY_BASE_ASSET_ID_OFFSET\s*\+\s*AssetId::LEN\s*;", consts), "consts.rs VM_MEMORY_BALANCES_OFFSET")
    cp = strip_comments(read("fuel-tx/src/transaction/consensus_parameters.rs"))
    m = need(re.search(r"const BALANCE_ENTRY_SIZE\s*:\s*usize\s*=\s*([^;]+);", strip_comments(read("fuel-tx/src/consts.rs"))), "BALANCE_ENTRY_SIZE")
    if re.sub(r"\s+", "", m.group(1)) not in ("AssetId::LEN+WORD_SIZE", "WORD_SIZE+AssetId::LEN"):
        raise TranslateError(f"BALANCE_ENTRY_SIZE = {m.group(1)!r}")
    interp = strip_comments(read("fuel-vm/src/interpreter.rs"))
    types = []
    for kind in ("Create", "Script", "Upgrade", "Upload", "Blob"):
        mm = need(re.search(r"impl ExecutableTransaction for %s\s*\{" % kind, interp), f"interpreter.rs impl ExecutableTransaction for {kind}")
        block = interp[mm.end() - 1:balanced(interp, mm.end() - 1)]
        body = fn_body(block, "transaction_type", f"transaction_type of {kind}")
        t = need(re.fullmatch(r"TransactionRepr::(\w+)", body), f"transaction_type of {kind}").group(1)
        if t != kind:
            raise TranslateError(f"transaction_type of {kind} is {t}")
        types.append(kind)
    # pinned bodies
    p = os.path.join(os.path.dirname(os.path.abspath(__file__)), "gtf_pins.json")
    expected = json.load(open(p)) if os.path.exists(p) else {}
    got, cache = {}, {}
    for key, rel, fn, sig in PINS:
        if rel not in cache:
            cache[rel] = strip_comments(read(rel))
        got[key] = fn_body(cache[rel], fn, f"{rel} {fn}", sig)
    if "--write-pins" in sys.argv:
        json.dump(got, open(p, "w"), indent=1, sort_keys=True)
        print("gtf: pins written")
        return
    for k, v in got.items():
        if expected.get(k) != v:
            raise TranslateError(f"the body of {k} changed; the hand model Model/Gtf.lean transcribes the pinned text (tools/gen/gtf_pins.json)")
    L = ["/- GENERATED by tools/gen/gtf.py from fuel-asm/src/args.rs — do not edit -/", "namespace FuelVerif.Gen.Gtf", "",
         "/-- `enum GMArgs`: variant, discriminant -/",
         "def gmArgs : List (String × Nat) := [" + ", ".join('("%s", %d)' % r for r in gm) + "]", "",
         "/-- `enum GTFArgs`: variant, discriminant -/",
         "def gtfArgs : List (String × Nat) := [\n" + ",\n".join('  ("%s", %d)' % r for r in gtf) + "\n]", "",
         "/-- kinds with `impl ExecutableTransaction` (`transaction_type() = TransactionRepr::<kind>`) -/",
         "def executable : List String := [" + ", ".join('"%s"' % t for t in types) + "]", "",
         "end FuelVerif.Gen.Gtf"]
    changed = write_if_changed("Gtf.lean", "\n".join(L) + "\n")
    print("gtf: %d GM selectors, %d GTF selectors%s" % (len(gm), len(gtf), " (updated)" if changed else ""))


if __name__ == "__main__":
    try:
        main()
    except TranslateError as e:
        print("TranslateError: " + str(e))
        sys.exit(3)
