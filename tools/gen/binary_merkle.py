#!/usr/bin/env python3
"""T-bmt: fuel-merkle binary tree constants and hashing shape -> Gen/BinaryMerkle.lean

Extracted (and re-checked on every run):
  * common/prefix.rs : `const NODE: u8`, `const LEAF: u8`, and that `Prefix::Node = NODE`, `Prefix::Leaf = LEAF`
  * common.rs        : the 32 literal bytes of `EMPTY_SUM` returned by `empty_sum_sha256()`
  * binary/hash.rs   : the order of the `hash.update(..)` calls in `node_sum` / `leaf_sum`, `empty_sum()` = `empty_sum_sha256()`
  * binary/merkle_tree.rs : which fields `MerkleTree::reset` clears (C11)
  * binary/verify.rs : the shape of the two u64 expressions the C10 model guards (shift and end-index computation)
Fails closed (TranslateError, exit 3) when the text no longer has the expected shape.
"""
import re, sys
from common import *


def prefixes():
    src = strip_comments(read("fuel-merkle/src/common/prefix.rs"))
    node = need(re.search(r"const\s+NODE\s*:\s*u8\s*=\s*(0x[0-9a-fA-F]+|\d+)\s*;", src), "prefix.rs const NODE")
    leaf = need(re.search(r"const\s+LEAF\s*:\s*u8\s*=\s*(0x[0-9a-fA-F]+|\d+)\s*;", src), "prefix.rs const LEAF")
    enum = need(re.search(r"pub enum Prefix\s*\{(.*?)\}", src, re.S), "prefix.rs enum Prefix").group(1)
    body = re.sub(r"#\[[^\]]*\]", "", enum)
    body = re.sub(r"\s+", "", body)
    if body not in ("Node=NODE,Leaf=LEAF,", "Node=NODE,Leaf=LEAF"):
        raise TranslateError(f"prefix.rs: enum Prefix body changed: {body!r}")
    # AsRef<[u8]> must hand out exactly the one prefix byte (this is what `hash.update(Prefix::X)` consumes)
    asref = need(re.search(r"impl AsRef<\[u8\]> for Prefix\s*\{(.*?)\n\}", src, re.S), "prefix.rs AsRef<[u8]>").group(1)
    a = re.sub(r"\s+", "", asref)
    if "Prefix::Node=>&[NODE]" not in a or "Prefix::Leaf=>&[LEAF]" not in a:
        raise TranslateError("prefix.rs: AsRef<[u8]> for Prefix no longer returns &[NODE] / &[LEAF]")
    return rust_int(node.group(1)), rust_int(leaf.group(1))


def empty_sum():
    src = strip_comments(read("fuel-merkle/src/common.rs"))
    m = need(re.search(r"pub const fn empty_sum_sha256\(\)\s*->\s*&'static Bytes32\s*\{\s*const EMPTY_SUM\s*:\s*Bytes32\s*=\s*\[(.*?)\];\s*&EMPTY_SUM\s*\}", src, re.S),
             "common.rs empty_sum_sha256 / EMPTY_SUM literal")
    bs = [rust_int(x) for x in m.group(1).replace("\n", " ").split(",") if x.strip()]
    if len(bs) != 32 or any(b < 0 or b > 255 for b in bs):
        raise TranslateError("common.rs: EMPTY_SUM is not 32 bytes")
    return bs


def hash_shape():
    src = strip_comments(read("fuel-merkle/src/binary/hash.rs"))
    need(re.search(r"type Hash\s*=\s*Sha256\s*;", src), "hash.rs type Hash = Sha256")
    need(re.search(r"pub const fn empty_sum\(\)\s*->\s*&'static Bytes32\s*\{\s*empty_sum_sha256\(\)\s*\}", src), "hash.rs empty_sum() = empty_sum_sha256()")
    def updates(fn, sig):
        m = need(re.search(r"pub fn %s\(%s\)\s*->\s*Bytes32\s*\{(.*?)\n\}" % (fn, sig), src, re.S), f"hash.rs fn {fn}")
        body = m.group(1)
        need(re.search(r"let mut hash = Hash::new\(\);", body), f"hash.rs {fn}: Hash::new()")
        need(re.search(r"hash\.finalize\(\)\.into\(\)\s*$", body.strip()), f"hash.rs {fn}: finalize().into()")
        return re.findall(r"hash\.update\(([^)]*)\);", body)
    n = updates("node_sum", r"lhs_data: &Bytes32, rhs_data: &Bytes32")
    l = updates("leaf_sum", r"data: &\[u8\]")
    if n != ["Prefix::Node", "lhs_data", "rhs_data"]:
        raise TranslateError(f"hash.rs node_sum: update order changed: {n}")
    if l != ["Prefix::Leaf", "data"]:
        raise TranslateError(f"hash.rs leaf_sum: update order changed: {l}")


def reset_fields():
    src = strip_comments(read("fuel-merkle/src/binary/merkle_tree.rs"))
    m = need(re.search(r"pub fn reset\(&mut self\)\s*\{(.*?)\}", src, re.S), "merkle_tree.rs fn reset")
    stmts = [re.sub(r"\s+", "", s) for s in m.group(1).split(";") if s.strip()]
    known = {"self.nodes.clear()": "nodes", "self.leaves_count=0": "leaves_count"}
    out = []
    for s in stmts:
        if s not in known:
            raise TranslateError(f"merkle_tree.rs reset: unrecognised statement {s!r}")
        out.append(known[s])
    if "nodes" not in out:
        raise TranslateError("merkle_tree.rs reset: does not clear nodes")
    return out


def verify_shape():
    """which of the two u64 hazards of `verify`'s loop are guarded in the source (C10 / F5)"""
    src = strip_comments(read("fuel-merkle/src/binary/verify.rs"))
    m = need(re.search(r"pub fn verify<.*?\n\}\n", src, re.S), "verify.rs fn verify")
    body = re.sub(r"#\[allow\([^\]]*\)\]", "", m.group(0))
    flat = re.sub(r"\s+", "", body)
    if "letsubtree_size=1u64<<height;" in flat:
        shl = "unchecked"
    elif re.search(r"letSome\(subtree_size\)=1u64\.checked_shl\(height(asu32|\.try_into\(\)\.unwrap_or\(u32::MAX\))\)else\{break;?\};", flat):
        shl = "checked_break"
    else:
        raise TranslateError("verify.rs: subtree_size computation has an unrecognised shape")
    if "letsubtree_end_index=subtree_start_index+subtree_size-1;" in flat:
        end = "add_then_sub"
    elif "letsubtree_end_index=subtree_start_index+(subtree_size-1);" in flat:
        end = "sub_then_add"
    else:
        raise TranslateError("verify.rs: subtree_end_index computation has an unrecognised shape")
    need(re.search(r"letsubtree_start_index=proof_index/subtree_size\*subtree_size;", flat), "verify.rs subtree_start_index")
    need(re.search(r"ifsubtree_end_index>=num_leaves\{break;?\}", flat), "verify.rs loop exit condition")
    return shl, end


def main():
    node, leaf = prefixes()
    es = empty_sum()
    hash_shape()
    rf = reset_fields()
    shl, end = verify_shape()
    L = []
    L.append("/- GENERATED by tools/gen/binary_merkle.py from fuel-merkle/src/{common.rs,common/prefix.rs,binary/hash.rs,binary/merkle_tree.rs,binary/verify.rs} — do not edit -/")
    L.append("namespace FuelVerif.Gen.BinaryMerkle")
    L.append("")
    L.append("/-- `const NODE: u8` (common/prefix.rs); `node_sum` feeds `[NODE] ++ lhs ++ rhs` to the hash (update order checked by the translator) -/")
    L.append("def nodePrefix : UInt8 := 0x%02x" % node)
    L.append("/-- `const LEAF: u8` (common/prefix.rs); `leaf_sum` feeds `[LEAF] ++ data` -/")
    L.append("def leafPrefix : UInt8 := 0x%02x" % leaf)
    L.append("/-- `EMPTY_SUM` in `empty_sum_sha256()` (common.rs) -/")
    L.append("def emptySum : List UInt8 := [%s]" % ", ".join("0x%02x" % b for b in es))
    L.append("/-- `MerkleTree::reset` assigns `self.leaves_count = 0` (binary/merkle_tree.rs) -/")
    L.append("def resetZeroesLeavesCount : Bool := %s" % ("true" if "leaves_count" in rf else "false"))
    L.append("/-- `verify`: `1u64 << height` is replaced by a `checked_shl … else break` (binary/verify.rs) -/")
    L.append("def verifyShlChecked : Bool := %s" % ("true" if shl == "checked_break" else "false"))
    L.append("/-- `verify`: the end index is computed as `start + (size - 1)` rather than `start + size - 1` -/")
    L.append("def verifyEndSubFirst : Bool := %s" % ("true" if end == "sub_then_add" else "false"))
    L.append("")
    L.append("end FuelVerif.Gen.BinaryMerkle")
    text = "\n".join(L) + "\n"
    ch = write_if_changed("BinaryMerkle.lean", text)
    print("binary_merkle: node=0x%02x leaf=0x%02x reset clears %s; verify shl=%s end=%s%s" % (node, leaf, rf, shl, end, " (changed)" if ch else ""))


if __name__ == "__main__":
    try:
        main()
    except TranslateError as e:
        print("TranslateError: %s" % e)
        sys.exit(3)
