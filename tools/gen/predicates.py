#!/usr/bin/env python3
"""C20: what fuel-vm states as data / fixed shape around predicate checking:
 * the arms of `PredicateVerificationFailed::interpreter_error` (fuel-vm/src/error.rs),
 * the success value of a predicate (`ProgramState::Return(0x01)` in check_predicate, `r == 1` in verify_predicate),
 * shape guards (fail closed) for the statements of `check_predicate` / `finalize_check_predicate` / `check_signature`
   the model transcribes: owner check only when Verifying and before the VM is created, `checked_sub` of the
   remaining gas, GasMismatch on non-zero remaining gas, max_gas limit, `checked_add` accumulation, the cache
   lookup followed by the owner comparison.
 -> lean/FuelVerif/Gen/Predicates.lean"""
import re, sys
from common import *


def body_of(src, header_re, what):
    m = need(re.search(header_re, src, re.S), what)
    j = src.index("{", m.end() - 1)
    depth = 0
    for k in range(j, len(src)):
        if src[k] == "{": depth += 1
        elif src[k] == "}":
            depth -= 1
            if depth == 0:
                return src[j + 1:k]
    raise TranslateError("unbalanced braces in " + what)


def ordered(body, pats, what):
    pos = -1
    for name, p in pats:
        m = re.search(p, body[pos + 1:], re.S)
        if not m:
            raise TranslateError("%s: statement not found (or out of order): %s" % (what, name))
        pos = pos + 1 + m.start()


def main():
    err = strip_comments(read("fuel-vm/src/error.rs"))
    b = body_of(err, r"pub\(crate\) fn interpreter_error\(\s*index: usize,\s*error: InterpreterError<predicate::PredicateStorageError>,\s*\) -> Self \{", "interpreter_error")
    mb = body_of(b, r"match error \{", "interpreter_error match")
    arms = []
    m = need(re.search(r"error if error\.panic_reason\(\) == Some\(PanicReason::(\w+)\) => \{\s*Self::(\w+) \{ index \}\s*\}", mb), "OutOfGas guard arm")
    arms.append(("reason:" + m.group(1), m.group(2)))
    rest = mb[m.end():]
    for pat, ctor in re.findall(r"(InterpreterError::\w+\(\w+\)|_)\s*=>\s*(?:\{\s*)?Self::(\w+)", rest):
        arms.append((re.sub(r"\(\w+\)", "", pat).replace("InterpreterError::", ""), ctor))
    if [a for a, _ in arms] != ["reason:OutOfGas", "Panic", "PanicInstruction", "Bug", "Storage", "_"]:
        raise TranslateError("interpreter_error arms changed: %s" % arms)

    main_rs = strip_comments(read("fuel-vm/src/interpreter/executors/main.rs"))
    cp = body_of(main_rs, r"fn check_predicate<Tx, Ecal>\(.*?\) -> \(Word, Result<\(\), PredicateVerificationFailed>\)\s*where.*?Ecal: EcalHandler,\s*\{", "check_predicate")
    ret = need(re.search(r"let is_successful = matches!\(result, Ok\(ProgramState::Return\((0x[0-9a-fA-F]+|\d+)\)\)\);", cp), "is_successful definition")
    success = rust_int(ret.group(1))
    ordered(cp, [
        ("owner check only when Verifying", r"if predicate_action == PredicateAction::Verifying \{\s*match &tx\.inputs\(\)\[index\]"),
        ("owner comparison", r"if !Input::is_predicate_owner_valid\(address, &\*\*predicate\) \{\s*return \(\s*0,\s*Err\(PredicateVerificationFailed::InvalidOwner \{ index \}\)"),
        ("vm construction", r"Interpreter::<_, _, _, Ecal>::with_storage_and_ecal\("),
        ("verifying gas = declared", r"PredicateAction::Verifying => \{.*?let available_gas = tx\.inputs\(\)\[index\]\s*\.predicate_gas_used\(\)"),
        ("estimating gas", r"PredicateAction::Estimating \{ available_gas \} => \{"),
        ("init_predicate", r"if let Err\(err\) = vm\.init_predicate\(context, tx, available_gas\) \{\s*return \(\s*0,\s*Err\(PredicateVerificationFailed::interpreter_error\(index, err\)\)"),
        ("verify_predicate", r"let result = vm\.verify_predicate\(\);"),
        ("is_successful", r"let is_successful = matches!"),
        ("checked_sub", r"let Some\(gas_used\) = available_gas\.checked_sub\(vm\.remaining_gas\(\)\) else \{\s*return \(0, Err\(Bug::new\(BugVariant::GlobalGasUnderflow\)\.into\(\)\)\);"),
        ("verifying only", r"if let PredicateAction::Verifying = predicate_action \{"),
        ("not successful", r"if !is_successful \{\s*return if let Err\(err\) = result \{.*?PredicateVerificationFailed::interpreter_error\(index, err\).*?\} else \{\s*\(gas_used, Err\(PredicateVerificationFailed::False \{ index \}\)\)"),
        ("gas mismatch", r"if vm\.remaining_gas\(\) != 0 \{\s*return \(\s*gas_used,\s*Err\(PredicateVerificationFailed::GasMismatch \{ index \}\)"),
        ("ok", r"\(gas_used, Ok\(\(\)\)\)"),
    ], "check_predicate")
    fz = body_of(main_rs, r"fn finalize_check_predicate<Tx>\(.*?\) -> Result<PredicatesChecked, PredicateVerificationFailed>\s*where\s*Tx: ExecutableTransaction,\s*\{", "finalize_check_predicate")
    ordered(fz, [
        ("write estimates", r"if let PredicateRunKind::Estimating\(tx\) = &mut kind \{.*?if let Ok\(gas_used\) = result \{.*?\*predicate_gas_used = \*gas_used;"),
        ("max_gas limit", r"let max_gas = kind\.tx\(\)\.max_gas\(&params\.gas_costs, &params\.fee_params\);\s*if max_gas > params\.max_gas_per_tx \{\s*return Err\(\s*PredicateVerificationFailed::TransactionExceedsTotalGasAllowance\(max_gas\)"),
        ("accumulate", r"let mut cumulative_gas_used: u64 = 0;\s*for \(input_index, result\) in checks \{"),
        ("checked_add", r"cumulative_gas_used\.checked_add\(gas_used\)\.ok_or\(\s*PredicateVerificationFailed::OutOfGas \{ index: input_index \}"),
        ("first error", r"Err\(failed\) => \{\s*return Err\(failed\);"),
    ], "finalize_check_predicate")
    rp = body_of(main_rs, r"fn run_predicates<Tx>\(.*?\) -> Result<PredicatesChecked, PredicateVerificationFailed>\s*where\s*Tx: ExecutableTransaction,\s*\{", "run_predicates")
    ordered(rp, [
        ("global gas", r"let mut global_available_gas = max_gas_per_tx\.saturating_sub\(max_gas\);"),
        ("available", r"let available_gas = global_available_gas\.min\(max_gas_per_predicate\);"),
        ("decrement", r"global_available_gas = global_available_gas\.saturating_sub\(gas_used\);"),
        ("push", r"checks\.push\(\(index, result\.map\(\|\(\)\| gas_used\)\)\);"),
    ], "run_predicates")
    ra = body_of(main_rs, r"async fn run_predicate_async<Tx, Ecal, E>\(.*?\) -> Result<PredicatesChecked, PredicateVerificationFailed>\s*where.*?Ecal: EcalHandler \+ Send \+ 'static,\s*\{", "run_predicate_async")
    ordered(ra, [
        ("estimating bound", r"let available_gas = core::cmp::min\(max_gas_per_predicate, max_gas_per_tx\);"),
        ("task", r"E::create_task\(move \|\| \{.*?\(index, result\.map\(\|\(\)\| used_gas\)\)"),
        ("execute", r"let checks = E::execute_tasks\(checks\)\.await;\s*finalize_check_predicate\(kind, checks, params\)"),
    ], "run_predicate_async")
    vp = strip_comments(read("fuel-vm/src/interpreter/executors/predicate.rs"))
    m = need(re.search(r"ExecuteState::Return\(r\) => \{\s*if r == (\d+) \{\s*return Ok\(ProgramState::Return\(r\)\)\s*\} else \{\s*return Err\(InterpreterError::Panic\(\s*PanicReason::PredicateReturnedNonOne", vp), "verify_predicate Return arm")
    vone = int(m.group(1))
    val = strip_comments(read("fuel-tx/src/transaction/validity.rs"))
    cs = body_of(val, r"pub fn check_signature\(\s*&self,\s*index: usize,\s*txhash: &Bytes32,\s*witnesses: &\[Witness\],\s*recovery_cache: &mut Option<HashMap<u16, Address>>,\s*\) -> Result<\(\), ValidityError> \{", "check_signature")
    ordered(cs, [
        ("witness lookup", r"witnesses\s*\.get\(\*witness_index as usize\)\s*\.ok_or\(ValidityError::InputWitnessIndexBounds \{ index \}\)\?;"),
        ("recover", r"witness\.recover_witness\(txhash, index\)"),
        ("cache", r"let recovered_address = if let Some\(cache\) = recovery_cache \{\s*if let Some\(recovered_address\) = cache\.get\(witness_index\) \{\s*\*recovered_address\s*\} else \{"),
        ("insert", r"let recovered_address = recover_address\(\)\?;\s*cache\.insert\(\*witness_index, recovered_address\);\s*recovered_address"),
        ("no cache", r"\} else \{\s*recover_address\(\)\?\s*\};"),
        ("owner comparison", r"if owner != &recovered_address \{\s*return Err\(ValidityError::InputInvalidSignature \{ index \}\);"),
        ("predicate owner", r"if !Input::is_predicate_owner_valid\(owner, &\*\*predicate\) =>\s*\{\s*Err\(ValidityError::InputPredicateOwner \{ index \}\)"),
    ], "check_signature")

    L = ["/- GENERATED by tools/gen/predicates.py from fuel-vm/src/error.rs, fuel-vm/src/interpreter/executors/{main,predicate}.rs,",
         "   fuel-tx/src/transaction/validity.rs — do not edit -/", "namespace FuelVerif.Gen.Predicates", "",
         "/-- arms of `PredicateVerificationFailed::interpreter_error`, in order: (pattern, constructor) -/",
         "def interpreterErrorArms : List (String × String) := [" + ", ".join('("%s", "%s")' % a for a in arms) + "]",
         "/-- `matches!(result, Ok(ProgramState::Return(N)))` in check_predicate -/",
         "def successReturn : Nat := %d" % success,
         "/-- `if r == N` in verify_predicate -/",
         "def verifyReturnOne : Nat := %d" % vone,
         "", "end FuelVerif.Gen.Predicates", ""]
    ch = write_if_changed("Predicates.lean", "\n".join(L))
    print("predicates: %d interpreter_error arms, success value %d/%d, shapes of check_predicate/finalize/run_predicates/run_predicate_async/check_signature ok%s" % (len(arms), success, vone, " (changed)" if ch else ""))


if __name__ == "__main__":
    try:
        main()
    except TranslateError as e:
        print("TRANSLATE-ERROR predicates: %s" % e)
        sys.exit(3)
