#!/usr/bin/env python3
"""C20: what fuel-vm states as data / fixed shape around predicate checking:
 * the arms of `PredicateVerificationFailed::interpreter_error` (fuel-vm/src/error.rs),
 * the success value of a predicate (`ProgramState::Return(0x01)` in check_predicate, `r == 1` in verify_predicate),
 * shape guards (fail closed) for the statements of `check_predicate` / `finalize_check_predicate` / `check_signature`
   the model transcribes: owner check only when Verifying and before the VM is created, `checked_sub` of the
   remaining gas, GasMismatch on non-zero remaining gas, max_gas limit, `checked_add` accumulation, the cache
   lookup followed by the owner comparison.
 -> lean/FuelVerif/Gen/Predicates.lean"""
import re, sys
from common import *


def body_of(src, header_re, what):
    m = need(re.search(header_re, src, re.S), what)
    j = src.index("{", m.end() - 1)
    depth = 0
    for k in range(j, len(src)):
        if src[k] == "{": depth += 1
        elif src[k] == "}":
            depth -= 1
            if depth == 0:
                return src[j + 1:k]
    raise TranslateError("unbalanced braces in " + what)


def ordered(body, pats, what):
    pos = -1
    for name, p in pats:
        m = re.search(p, body[pos + 1:], re.S)
        if not m:
            raise TranslateError("%s: statement not found (or out of order): %s" % (what, name))
        pos = pos + 1 + m.start()


def main():
    err = strip_comments(read("fuel-vm/src/error.rs"))
    b = body_of(err, r"pub\(crate\) fn interpreter_error\(\s*index: usize,\s*error: InterpreterError<predicate::PredicateStorageError>,\s*\) -> Self \{", "interpreter_error")
    mb = body_of(b, r"match error \{", "interpreter_error match")
    arms = []
    m = need(re.search(r"error if error\.panic_reason\(\) == Some\(PanicReason::(\w+)\) => \{\s*Self::(\w+) \{ index \}\s*\}", mb), "OutOfGas guard arm")
    arms.append(("reason:" + m.group(1), m.group(2)))
    rest = mb[m.end():]
    for pat, ctor in re.findall(r"(InterpreterError::\w+\(\w+\)|_)\s*=>\s*(?:\{\s*)?Self::(\w+)", rest):
        arms.append((re.sub(r"\(\w+\)", "", pat).replace("InterpreterError::", ""), ctor))
    if [a for a, _ in arms] != ["reason:OutOfGas", "Panic", "PanicInstruction", "Bug", "Storage", "_"]:
        raise TranslateError("interpreter_error arms changed: %s" % arms)

    main_rs = strip_comments(read("fuel-vm/src/interpreter/executors/main.rs"))
    cp = body_of(main_rs, r"fn check_predicate<Tx, Ecal>\(.*?\) -> \(Word, Result<\(\), PredicateVerificationFailed>\)\s*where.*?Ecal: EcalHandler,\s*\{", "check_predicate")
    ret = need(re.search(r"let is_successful = matches!\(result, Ok\(ProgramState::Return\((0x[0-9a-fA-F]+|\d+)\)\)\);", cp), "is_successful definition")
    success = rust_int(ret.group(1))
    ordered(cp, [
        ("owner check only when Verifying", r"if predicate_action == PredicateAction::Verifying \{\s*match &tx\.inputs\(\)\[index\]"),
        ("owner comparison", r"if !Input::is_predicate_owner_valid\(address, &\*\*predicate\) \{\s*return \(\s*0,\s*Err\(PredicateVerificationFailed::InvalidOwner \{ index \}\)"),
        ("vm construction", r"Interpreter::<_, _, _, Ecal>::with_storage_and_ecal\("),
        ("verifying gas = declared", r"PredicateAction::Verifying => \{.*?let available_gas = tx\.inputs\(\)\[index\]\s*\.predicate_gas_used\(\)"),
        ("estimating gas", r"PredicateAction::Estimating \{ available_gas \} => \{"),
        ("init_predicate", r"if let Err\(err\) = vm\.init_predicate\(context, tx, available_gas\) \{\s*return \(\s*0,\s*Err\(PredicateVerificationFailed::interpreter_error\(index, err\)\)"),
        ("verify_predicate", r"let result = vm\.verify_predicate\(\);"),
        ("is_successful", r"let is_successful = matches!"),
        ("checked_sub", r"let Some\(gas_used\) = available_gas\.checked_sub\(vm\.remaining_gas\(\)\) else \{\s*return \(0, Err\(Bug::new\(BugVariant::GlobalGasUnderflow\)\.into\(\)\)\);"),
        ("verifying only", r"if let PredicateAction::Verifying = predicate_action \{"),
        ("not successful", r"if !is_successful \{\s*return if let Err\(err\) = result \{.*?PredicateVerificationFailed::interpreter_error\(index, err\).*?\} else \{\s*\(gas_used, Err\(PredicateVerificationFailed::False \{ index \}\)\)"),
        ("gas mismatch", r"if vm\.remaining_gas\(\) != 0 \{\s*return \(\s*gas_used,\s*Err\(PredicateVerificationFailed::GasMismatch \{ index \}\)"),
        ("ok", r"\(gas_used, Ok\(\(\)\)\)"),
    ], "check_predicate")
    fz = body_of(main_rs, r"fn finalize_check_predicate<Tx>\(.*?\) -> Result<PredicatesChecked, PredicateVerificationFailed>\s*where\s*Tx: ExecutableTransaction,\s*\{", "finalize_check_predicate")
    ordered(fz, [
        ("write estimates", r"if let PredicateRunKind::Estimating\(tx\) = &mut kind \{.*?if let Ok\(gas_used\) = result \{.*?\*predicate_gas_used = \*gas_used;"),
        ("max_gas limit", r"let max_gas = kind\.tx\(\)\.max_gas\(&params\.gas_costs, &params\.fee_params\);\s*if max_gas > params\.max_gas_per_tx \{\s*return Err\(\s*PredicateVerificationFailed::TransactionExceedsTotalGasAllowance\(max_gas\)"),
        ("accumulate", r"let mut cumulative_gas_used: u64 = 0;\s*for \(input_index, result\) in checks \{"),
        ("checked_add", r"cumulative_gas_used\.checked_add\(gas_used\)\.ok_or\(\s*PredicateVerificationFailed::OutOfGas \{ index: input_index \}"),
        ("first error", r"Err\(failed\) => \{\s*return Err\(failed\);"),
    ], "finalize_check_predicate")
    rp = body_of(main_rs, r"fn run_predicates<Tx>\(.*?\) -> Result<PredicatesChecked, PredicateVerificationFailed>\s*where\s*Tx: ExecutableTransaction,\s*\{", "run_predicates")
    ordered(rp, [
        ("global gas", r"let mut global_available_gas = max_gas_per_tx\.saturating_sub\(max_gas\);"),
        ("available", r"let available_gas = global_available_gas\.min\(max_gas_per_predicate\);"),
        ("decrement", r"global_available_gas = global_available_gas\.saturating_sub\(gas_used\);"),
        ("push", r"checks\.push\(\(index, result\.map\(\|\(\)\| gas_used\)\)\);"),
    ], "run_predicates")
    ra = body_of(main_rs, r"async fn run_predicate_async<Tx, Ecal, E>\(.*?\) -> Result<PredicatesChecked, PredicateVerificationFailed>\s*where.*?Ecal: EcalHandler \+ Send \+ 'static,\s*\{", "run_predicate_async")
    ordered(ra, [
        ("estimating bound", r"let available_gas = core::cmp::min\(max_gas_per_predicate, max_gas_per_tx\);"),
        ("task", r"E::create_task\(move \|\| \{.*?\(index, result\.map\(\|\(\)\| used_gas\)\)"),
        ("execute", r"let checks = E::execute_tasks\(checks\)\.await;\s*finalize_check_predicate\(kind, checks, params\)"),
    ], "run_predicate_async")
    vp = strip_comments(read("fuel-vm/src/interpreter/executors/predicate.rs"))
    m = need(re.search(r"ExecuteState::Return\(r\) => \{\s*if r == (\d+) \{\s*return Ok\(ProgramState::Return\(r\)\)\s*\} else \{\s*return Err\(InterpreterError::Panic\(\s*PanicReason::PredicateReturnedNonOne", vp), "verify_predicate Return arm")
    vone = int(m.group(1))
    val = strip_comments(read("fuel-tx/src/transaction/validity.rs"))
    cs = body_of(val, r"pub fn check_signature\(\s*&self,\s*index: usize,\s*txhash: &Bytes32,\s*witnesses: &\[Witness\],\s*recovery_cache: &mut Option<HashMap<u16, Address>>,\s*\) -> Result<\(\), ValidityError> \{", "check_signature")
    ordered(cs, [
        ("witness lookup", r"witnesses\s*\.get\(\*witness_index as usize\)\s*\.ok_or\(ValidityError::InputWitnessIndexBounds \{ index \}\)\?;"),
        ("recover", r"witness\.recover_witness\(txhash, index\)"),
        ("cache", r"let recovered_address = if let Some\(cache\) = recovery_cache \{\s*if let Some\(recovered_address\) = cache\.get\(witness_index\) \{\s*\*recovered_address\s*\} else \{"),
        ("insert", r"let recovered_address = recover_address\(\)\?;\s*cache\.insert\(\*witness_index, recovered_address\);\s*recovered_address"),
        ("no cache", r"\} else \{\s*recover_address\(\)\?\s*\};"),
        ("owner comparison", r"if owner != &recovered_address \{\s*return Err\(ValidityError::InputInvalidSignature \{ index \}\);"),
        ("predicate owner", r"if !Input::is_predicate_owner_valid\(owner, &\*\*predicate\) =>\s*\{\s*Err\(ValidityError::InputPredicateOwner \{ index \}\)"),
    ], "check_signature")

    # ---- the checked-transaction entry: every into_checked_basic recomputes the metadata UNCONDITIONALLY first
    ct = strip_comments(read("fuel-vm/src/checked_transaction/types.rs"))
    steps = []
    for m in re.finditer(r"impl IntoChecked for (\w+) \{", ct):
        ty = m.group(1)
        j = ct.index("{", m.end() - 1)
        depth, e = 0, None
        for k in range(j, len(ct)):
            if ct[k] == "{": depth += 1
            elif ct[k] == "}":
                depth -= 1
                if depth == 0:
                    e = k; break
        ib = ct[j:e]
        b = body_of(ib, r"fn into_checked_basic\(\s*mut self,\s*block_height: BlockHeight,\s*consensus_params: &ConsensusParameters,\s*\) -> Result<Checked<Self>, CheckError> \{", "%s::into_checked_basic" % ty)
        flat = re.sub(r"\s+", " ", b).strip()
        head = "let chain_id = consensus_params.chain_id(); self.precompute(&chain_id)?; self.check_without_signatures(block_height, consensus_params)?;"
        if not flat.startswith(head):
            raise TranslateError("%s::into_checked_basic no longer starts with the unconditional `self.precompute(&chain_id)?;` followed by check_without_signatures: %s" % (ty, flat[:160]))
        if "precompute" in flat[len(head):] or "is_computed" in flat:
            raise TranslateError("%s::into_checked_basic mentions precompute/is_computed elsewhere" % ty)
        steps.append((ty, ["precompute", "check_without_signatures"]))
    if sorted(t for t, _ in steps) != ["Blob", "Create", "Mint", "Script", "Upgrade", "Upload"]:
        raise TranslateError("into_checked_basic impls found for %s" % [t for t, _ in steps])
    cm = strip_comments(read("fuel-vm/src/checked_transaction.rs"))
    need(re.search(r"self\.into_checked_basic\(block_height, consensus_params\)\?\s*\.check_signatures\(&consensus_params\.chain_id\(\)\)\?\s*\.check_predicates\(", cm), "into_checked = basic, signatures, predicates")
    need(re.search(r"pub fn check_signatures\(mut self, chain_id: &ChainId\) -> Result<Self, CheckError> \{\s*if !self\.checks_bitmask\.contains\(Checks::Signatures\) \{\s*self\.transaction\.check_signatures\(chain_id\)\?;", cm), "Checked::check_signatures")
    # precompute clears the metadata before computing; id() returns the cached id when present
    clears = []
    for rel, ty in [("script.rs", "Script"), ("create.rs", "Create"), ("upload.rs", "Upload"), ("blob.rs", "Blob"), ("upgrade.rs", "Upgrade"), ("mint.rs", "Mint")]:
        src = strip_comments(read("fuel-tx/src/transaction/types/" + rel))
        pb = body_of(src, r"fn precompute\(&mut self, chain_id: &ChainId\) -> Result<\(\), ValidityError> \{", ty + "::precompute")
        flat = re.sub(r"\s+", " ", pb).strip()
        if not re.match(r"self\.metadata = None; self\.metadata = Some\(", flat):
            raise TranslateError("%s::precompute no longer clears the metadata before recomputing it: %s" % (ty, flat[:120]))
        clears.append(ty)
    chg = strip_comments(read("fuel-tx/src/transaction/types/chargeable_transaction.rs"))
    idb = body_of(chg, r"fn id\(&self, chain_id: &ChainId\) -> Bytes32 \{", "ChargeableTransaction::id")
    ordered(idb, [("cached id", r"if let Some\(id\) = self\.cached_id\(\) \{\s*return id;"), ("clone", r"let mut clone = self\.clone\(\);"),
                  ("prepare_sign", r"clone\.prepare_sign\(\);"), ("clear witnesses", r"clone\.witnesses_mut\(\)\.clear\(\);"),
                  ("hash", r"compute_transaction_id\(chain_id, &mut clone\)")], "ChargeableTransaction::id")
    ordered(chg, [("check_signatures uses self.id", r"fn check_signatures\(&self, chain_id: &ChainId\) -> Result<\(\), ValidityError> \{\s*let id = self\.id\(chain_id\);")], "ChargeableTransaction::check_signatures")

    L = ["/- GENERATED by tools/gen/predicates.py from fuel-vm/src/error.rs, fuel-vm/src/interpreter/executors/{main,predicate}.rs,",
         "   fuel-tx/src/transaction/validity.rs — do not edit -/", "namespace FuelVerif.Gen.Predicates", "",
         "/-- arms of `PredicateVerificationFailed::interpreter_error`, in order: (pattern, constructor) -/",
         "def interpreterErrorArms : List (String × String) := [" + ", ".join('("%s", "%s")' % a for a in arms) + "]",
         "/-- `matches!(result, Ok(ProgramState::Return(N)))` in check_predicate -/",
         "def successReturn : Nat := %d" % success,
         "/-- `if r == N` in verify_predicate -/",
         "def verifyReturnOne : Nat := %d" % vone,
         "/-- first steps of each `IntoChecked::into_checked_basic` body (fuel-vm/src/checked_transaction/types.rs), in order -/",
         "def intoCheckedBasicSteps : List (String × List String) := [" + ", ".join('("%s", [%s])' % (t, ", ".join('"%s"' % x for x in st)) for t, st in steps) + "]",
         "/-- transaction kinds whose `precompute` starts with `self.metadata = None;` -/",
         "def precomputeClearsFirst : List String := [" + ", ".join('"%s"' % t for t in clears) + "]",
         "", "end FuelVerif.Gen.Predicates", ""]
    ch = write_if_changed("Predicates.lean", "\n".join(L))
    print("predicates: %d interpreter_error arms, success value %d/%d, shapes of check_predicate/finalize/run_predicates/run_predicate_async/check_signature ok%s" % (len(arms), success, vone, " (changed)" if ch else ""))


if __name__ == "__main__":
    try:
        main()
    except TranslateError as e:
        print("TRANSLATE-ERROR predicates: %s" % e)
        sys.exit(3)
