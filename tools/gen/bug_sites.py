#!/usr/bin/env python3
"""C29: every place in NON-TEST code of fuel-vm/src/interpreter/** and fuel-vm/src/*.rs that can produce an internal-bug
error or panic the host by construction -> Gen/BugSites.lean

A site is one of
  bug          `BugVariant::X` used as a value (this covers `Bug::new(BugVariant::X)`)
  expect       `.expect(".."")`
  unwrap       `.unwrap()`
  unreachable  `unreachable!(..)`              (also inside `unwrap_or_else(|_| unreachable!())`)
  panic        `panic!(..)`, `unimplemented!(..)`, `todo!(..)`
  assert       `assert!(..)`, `assert_eq!(..)`, `assert_ne!(..)`            (release builds too)
  debugAssert  `debug_assert!(..)`, `debug_assert_eq!(..)`, `debug_assert_ne!(..)`   (debug builds only)
  allowArith   `#[allow(clippy::arithmetic_side_effects)]` — the crate denies unchecked arithmetic (lib.rs), every place
               where `+ - * / % <<` may overflow/trap is marked by this attribute; `clippy::indexing_slicing` is NOT
               denied by the crate, so plain `a[i]` carries no marker (checked below: no allow-attribute for it exists)
For each site: file, enclosing `fn` (with the `impl` type when there is one), the kind, the detail (variant name /
message literal / macro name), the guard text = the source text from the preceding `;` (or the start of the function
body) up to the site with white space removed, an ordinal among the sites with equal (file, fn, kind, detail), and a
32-bit fingerprint of the guard text.  Model/BugSites.lean classifies every (key, fingerprint); Props/C29 proves by
`decide +kernel` that the classification covers exactly this list, so a new or edited site breaks the build until it is
classified again.

What is test code: files declared by a `#[cfg(test)] mod x;`, items under `#[cfg(test)]`, `#[test]`,
`#[cfg(feature = "test-helpers")]`, `#[cfg(any(test, feature = "test-helpers"))]`.  Every other cfg predicate keeps the item.
Fails closed: a .rs file in scope that no `mod` declaration names, a cfg predicate mentioning `test` in another shape, an
unbalanced item, a site outside any `fn`, or a changed lint policy in lib.rs."""
import hashlib, os, re, sys
from common import *

SRC = "fuel-vm/src"


def mask(src):
    """same-length copy with comments, string contents and char literals blanked (quotes of strings kept)"""
    out = list(src)
    i, n = 0, len(src)
    def blank(a, b):
        for k in range(a, b):
            if out[k] != "\n":
                out[k] = " "
    while i < n:
        c = src[i]
        if src.startswith("//", i):
            j = src.find("\n", i)
            j = n if j < 0 else j
            blank(i, j); i = j
        elif src.startswith("/*", i):
            depth, j = 1, i + 2
            while depth and j < n:
                if src.startswith("/*", j): depth += 1; j += 2
                elif src.startswith("*/", j): depth -= 1; j += 2
                else: j += 1
            if depth: raise TranslateError("unterminated block comment")
            blank(i, j); i = j
        elif c == '"' or (c in "rb" and re.match(r'(?:b?r#*"|b")', src[i:i + 8]) and not (i and (src[i - 1].isalnum() or src[i - 1] == "_"))):
            m = re.match(r'(b?r(#*)"|b?")', src[i:])
            pre = m.group(1)
            if "r" in pre:
                close = '"' + (m.group(2) or "")
                j = src.find(close, i + len(pre))
                if j < 0: raise TranslateError("unterminated raw string")
                blank(i + len(pre), j); i = j + len(close)
            else:
                j = i + len(pre)
                while j < n and src[j] != '"':
                    j += 2 if src[j] == "\\" else 1
                if j >= n: raise TranslateError("unterminated string")
                blank(i + len(pre), j); i = j + 1
        elif c == "'":
            m = re.match(r"'(?:\\(?:x[0-9a-fA-F]{2}|u\{[0-9a-fA-F_]+\}|.)|[^\\'])'", src[i:])
            if m:
                blank(i + 1, i + len(m.group(0)) - 1); i += len(m.group(0))
            else:
                i += 1  # a lifetime
        else:
            i += 1
    return "".join(out)


def match_close(msk, j, o="{", c="}"):
    depth = 0
    for k in range(j, len(msk)):
        if msk[k] == o: depth += 1
        elif msk[k] == c:
            depth -= 1
            if depth == 0: return k
    raise TranslateError("unbalanced %s" % o)


def test_gated(pred):
    """decide whether a cfg predicate (white space removed) marks test-only code"""
    if pred in ("test", 'feature="test-helpers"', 'any(test,feature="test-helpers")', 'any(feature="test-helpers",test)'):
        return True
    if pred in ("not(test)", 'not(feature="test-helpers")', 'not(any(test,feature="test-helpers"))'):
        return False  # production-only alternative of a test helper: kept
    if re.search(r"\btest\b", pred.replace('"test-helpers"', '"TH"')) or "test-helpers" in pred:
        if re.fullmatch(r'all\((?:test|feature="test-helpers")(?:,[^()]*|,not\([^()]*\))*\)', pred):
            return True
        raise TranslateError("cfg predicate mentions test in a shape not understood: %s" % pred)
    return False


ATTR = re.compile(r"#\[")


def item_end(msk, k):
    """end (exclusive) of the item starting at k (after its attributes): up to `;` or the matching `}` of its first brace
    at parenthesis depth 0"""
    depth = 0
    while k < len(msk):
        ch = msk[k]
        if ch in "([": depth += 1
        elif ch in ")]": depth -= 1
        elif ch == ";" and depth == 0: return k + 1
        elif ch == "{" and depth == 0: return match_close(msk, k) + 1
        k += 1
    raise TranslateError("item without end")


def drop_test_items(src, msk, rel):
    """blank test-gated items; returns (masked, names of test-gated `mod x;`, names of all `mod x;`)"""
    out = list(msk)
    test_mods, pos = set(), 0
    while True:
        m = ATTR.search(msk, pos)
        if not m: break
        if out[m.start()] == " ": pos = m.start() + 1; continue
        a_end = match_close(msk, m.start() + 1, "[", "]") + 1
        text = re.sub(r"\s+", "", src[m.start():a_end])
        pos = a_end
        gated = False
        if text == "#[test]" or text.startswith("#[test_case") or text.startswith("#[rstest") or text.startswith("#[quickcheck"):
            gated = True
        else:
            c = re.fullmatch(r"#\[cfg\((.*)\)\]", text)
            if c: gated = test_gated(c.group(1))
            elif re.match(r"#!?\[cfg_attr\(", text) and "test" in text and not re.fullmatch(
                    r'#\[cfg_attr\((?:test|feature="test-helpers"|any\(test,feature="test-helpers"\)),derive\([\w:,]*\)\)\]', text):
                # a test-only derive adds no code path to production; anything else is not understood
                raise TranslateError("%s: cfg_attr mentioning test: %s" % (rel, text))
        if not gated: continue
        # skip further attributes / doc comments (already blank) in front of the item
        k = a_end
        while True:
            while k < len(msk) and msk[k].isspace(): k += 1
            if msk.startswith("#[", k): k = match_close(msk, k + 1, "[", "]") + 1
            else: break
        e = item_end(msk, k)
        mm = re.match(r"(?:pub(?:\([^)]*\))?\s+)?mod\s+(\w+)\s*;", msk[k:e])
        if mm: test_mods.add(mm.group(1))
        b = m.start()
        while True:  # attributes in front of the cfg attribute belong to the same item
            pm = re.search(r"#\[[^\[\]]*(?:\[[^\[\]]*\][^\[\]]*)*\]\s*$", msk[:b])
            if not pm: break
            b = pm.start()
        for q in range(b, e):
            if out[q] != "\n": out[q] = " "
        pos = e
    new = "".join(out)
    mods = set(re.findall(r"(?m)^\s*(?:pub(?:\([^)]*\))?\s+)?mod\s+(\w+)\s*;", new))
    return new, test_mods, mods


def files_in_scope():
    """walk the module tree from lib.rs: (rel path) of non-test files in fuel-vm/src/*.rs and fuel-vm/src/interpreter/**"""
    root = os.path.join(REPO, SRC)
    seen, todo, keep = set(), [("lib.rs", "")], []
    cache = {}
    while todo:
        rel, moddir = todo.pop()
        if rel in seen: continue
        seen.add(rel)
        src = read(os.path.join(SRC, rel))
        msk, test_mods, mods = drop_test_items(src, mask(src), rel)
        cache[rel] = (src, msk)
        for t in test_mods:
            for cand in (os.path.join(moddir, t + ".rs"), os.path.join(moddir, t, "mod.rs")):
                if os.path.exists(os.path.join(root, cand)): seen.add(cand); seen.add("T:" + os.path.join(moddir, t))
        for mname in mods:
            c1, c2 = os.path.join(moddir, mname + ".rs"), os.path.join(moddir, mname, "mod.rs")
            if os.path.exists(os.path.join(root, c1)): todo.append((c1, os.path.join(moddir, mname)))
            elif os.path.exists(os.path.join(root, c2)): todo.append((c2, os.path.join(moddir, mname)))
            else: raise TranslateError("%s: `mod %s;` has no file" % (rel, mname))
    test_dirs = [s[2:] for s in seen if s.startswith("T:")]
    for d, _, fs in os.walk(root):
        for f in fs:
            if not f.endswith(".rs"): continue
            rel = os.path.relpath(os.path.join(d, f), root)
            if rel in seen: continue
            if any(rel.startswith(t + os.sep) for t in test_dirs): continue
            raise TranslateError("file %s is not named by any `mod` declaration reachable from lib.rs" % rel)
    for rel in sorted(cache):
        if os.sep not in rel or rel.startswith("interpreter" + os.sep):
            keep.append((rel,) + cache[rel])
    return keep


FN = re.compile(r"\bfn\s+(\$?\w+|\[<[^>]*>\])")  # also paste!-built names `fn [<alu_wideint_cmp_ $t:lower>]`
IMPL = re.compile(r"\bimpl\b")
SITE = re.compile(r"\bBugVariant::(\w+)|\.expect\(|\.unwrap\(\)|\b(unreachable|panic|unimplemented|todo|assert|assert_eq|assert_ne|debug_assert|debug_assert_eq|debug_assert_ne)!\s*[(\[{]"
                  r"|#!?\[allow\(([^\]]*)\)\]")


def impl_type(header):
    """`impl<..> Trait<..> for Type<..> where ..` -> `Type`, `impl<..> Type<..>` -> `Type`"""
    h = re.sub(r"\s+", " ", header)
    h = re.sub(r"\bwhere\b.*", "", h)
    def strip_generics(s):
        out, d = [], 0
        for ch in s:
            if ch == "<": d += 1
            elif ch == ">": d -= 1
            elif d == 0: out.append(ch)
        return "".join(out)
    h = strip_generics(h[4:]).strip()
    if " for " in h:
        tr, ty = h.split(" for ", 1)
        return ty.strip().split("::")[-1] + "<" + tr.strip().split("::")[-1] + ">"
    return h.split("::")[-1]


def scopes(msk):
    """list of (start, end, name) for fn bodies, name = `ImplType::fn` / `fn`; innermost match wins"""
    impls = []
    for m in IMPL.finditer(msk):
        # header up to the `{` at angle/paren depth 0
        k, d = m.end(), 0
        while k < len(msk) and not (msk[k] == "{" and d == 0) and not (msk[k] == ";" and d == 0):
            if msk[k] in "(<[": d += 1
            elif msk[k] in ")>]" and not (msk[k] == ">" and msk[k - 1] in "-="): d -= 1
            k += 1
        if k >= len(msk) or msk[k] != "{": continue
        hdr = msk[m.start():k]
        if re.search(r"[=(,&]\s*$", msk[:m.start()].rstrip()[-1:] or " ") or re.search(r"(->|:|\(|,|&|<)\s*$", msk[:m.start()]):
            continue  # `impl Trait` in type position
        impls.append((k, match_close(msk, k), impl_type(hdr)))
    fns = []
    for m in FN.finditer(msk):
        k, d = m.end(), 0
        while k < len(msk) and not (msk[k] == "{" and d == 0) and not (msk[k] == ";" and d == 0):
            if msk[k] in "([": d += 1
            elif msk[k] in ")]": d -= 1
            k += 1
        if k >= len(msk) or msk[k] != "{": continue  # trait method declaration
        s, e = k, match_close(msk, k)
        owner = [t for (a, b, t) in impls if a < m.start() < b]
        fns.append((s, e, (owner[-1] + "::" if owner else "") + re.sub(r"\s+", "", m.group(1))))
    # an exported macro's expansion runs in the caller: a site inside it (outside any fn) is named after the macro
    base = list(fns)
    for m in re.finditer(r"\bmacro_rules!\s*(\w+)\s*\{", msk):
        outer = [(s, e, nm) for (s, e, nm) in base if s < m.start() < e]
        pre = max(outer)[2] + "/" if outer else ""
        fns.append((m.end() - 1, match_close(msk, m.end() - 1), pre + "macro " + m.group(1) + "!"))
    return fns


def lean_str(s):
    return '"' + s.replace("\\", "\\\\").replace('"', '\\"').replace("\n", "\\n") + '"'


def collect():
    sites = []
    for rel, src, msk in files_in_scope():
        fns = scopes(msk)
        for m in SITE.finditer(msk):
            at = m.start()
            if m.group(3) is not None:
                lints = [x.strip() for x in m.group(3).split(",")]
                if any("indexing_slicing" in x for x in lints):
                    raise TranslateError("%s: allow(clippy::indexing_slicing) appeared — the lint policy changed" % rel)
                if "clippy::arithmetic_side_effects" not in lints: continue
                kind, detail = "allowArith", ""
                # the comment on the same line (the authors' safety argument) is the detail
                line_end = src.find("\n", at)
                cm = re.search(r"//\s*(.*)", src[m.end():line_end])
                detail = cm.group(1).strip() if cm else ""
            elif m.group(1):
                kind, detail = "bug", m.group(1)
            elif m.group(2):
                mac = m.group(2)
                kind = {"unreachable": "unreachable", "panic": "panic", "unimplemented": "panic", "todo": "panic"}.get(mac) or ("debugAssert" if mac.startswith("debug_") else "assert")
                close = match_close(msk, m.end() - 1, msk[m.end() - 1], {"(": ")", "[": "]", "{": "}"}[msk[m.end() - 1]])
                lit = re.search(r'"((?:[^"\\]|\\.)*)"', src[m.end():close])
                detail = mac + ("" if kind != "panic" and kind != "unreachable" or not lit else ": " + lit.group(1)) if kind in ("panic", "unreachable") else mac
            elif msk.startswith(".expect(", at):
                kind = "expect"
                close = match_close(msk, at + 7, "(", ")")
                lit = re.search(r'"((?:[^"\\]|\\.)*)"', src[at + 8:close], re.S)
                detail = re.sub(r"\s*\\\n\s*", " ", lit.group(1)) if lit else re.sub(r"\s+", "", src[at + 8:close])
            else:
                kind, detail = "unwrap", ""
            inside = [(s, e, nm) for (s, e, nm) in fns if s < at < e]
            if not inside:
                if kind == "allowArith":
                    # attribute in front of a fn / impl item: it governs the next fn
                    nxt = [(s, e, nm) for (s, e, nm) in fns if s > at]
                    if not nxt: raise TranslateError("%s: allow attribute governs nothing" % rel)
                    s, e, nm = min(nxt)
                    guard = "(whole function)"
                    sites.append([rel, nm, kind, detail, guard]); continue
                raise TranslateError("%s: %s site outside any fn at offset %d" % (rel, kind, at))
            s, e, nm = max(inside)  # innermost = largest start
            if kind == "allowArith":
                # guard = the statement / expression the attribute is attached to (up to the next `;` at depth 0)
                k, d = m.end(), 0
                while k < e and not (msk[k] == ";" and d == 0) and d >= 0:
                    if msk[k] in "([{": d += 1
                    elif msk[k] in ")]}":
                        d -= 1
                        if d == 0 and msk[k] == "}" and not re.match(r"\s*(else\b|[.?;)\],]|as\b)", msk[k + 1:k + 12]):
                            k += 1; break   # `if .. { .. }` / `match .. { .. }` used as a statement
                    k += 1
                guard = re.sub(r"\s+", "", msk[m.end():k])
                # an attribute directly in front of a nested `fn` governs that whole function
                if re.match(r"(pub(\([^)]*\))?)?(const)?fn\w", guard): guard = "(whole function)"
            else:
                b = max(msk.rfind(";", s, at), s)
                guard = re.sub(r"\s+", "", src_with_blank_comments(src, msk, b + 1, at))
                if m.group(2):  # assert-like macros: the condition is the guard
                    guard += re.sub(r"\s+", "", src_with_blank_comments(src, msk, at, close + 1))
            sites.append([rel, nm, kind, detail, guard])
    # ordinals
    cnt, out = {}, []
    for rel, nm, kind, detail, guard in sites:
        k = (rel, nm, kind, detail)
        o = cnt.get(k, 0); cnt[k] = o + 1
        fp = int(hashlib.sha256(guard.encode()).hexdigest()[:8], 16)
        key = "%s|%s|%s|%s|%d" % (rel[:-3], nm, kind, detail if kind == "bug" else short(detail), o)
        kid = int(hashlib.sha256(key.encode()).hexdigest()[:12], 16)
        out.append((key, rel, nm, kind, detail, guard, fp, kid))
    keys = [x[0] for x in out]
    if len(set(keys)) != len(keys): raise TranslateError("site keys not unique")
    return out


def short(detail):
    return re.sub(r"[^A-Za-z0-9]+", "-", detail)[:40].strip("-")


def src_with_blank_comments(src, msk, a, b):
    """source text a..b where comments are dropped but string literals are kept"""
    out = []
    in_str = False
    for k in range(a, b):
        if msk[k] == '"': in_str = not in_str; out.append('"'); continue
        out.append(src[k] if (in_str or msk[k] != " ") else " ")
    return "".join(out)


def lint_policy():
    lib = re.sub(r"\s+", "", strip_comments(read("fuel-vm/src/lib.rs")))
    m = need(re.search(r"#!\[deny\((clippy::[^\]]*)\)\]", lib), "lib.rs #![deny(clippy::..)]")
    lints = m.group(1).split(",")
    if "clippy::arithmetic_side_effects" not in lints:
        raise TranslateError("lib.rs no longer denies clippy::arithmetic_side_effects: unchecked arithmetic is no longer marked")
    if "#![deny(unsafe_code)]" not in lib:
        raise TranslateError("lib.rs no longer denies unsafe_code")
    return [l for l in lints if l]


def pins():
    """facts of the code that the class-(b) local arguments (Lemmas/BugSites.lean) are stated over"""
    out = {}
    # fuel-tx receipt.rs: which variants `Receipt::digest()` answers `Some` for (flow.rs ret_data expects ReturnData among them)
    r = strip_comments(read("fuel-tx/src/receipt.rs"))
    m = need(re.search(r"pub const fn digest\(&self\) -> Option<&Bytes32> \{\s*match self \{(.*?)\n        \}", r, re.S), "receipt.rs digest()")
    arms = re.findall(r"Self::(\w+) \{ digest, \.\. \} => Some\(digest\)", m.group(1))
    rest = re.sub(r"Self::\w+ \{ digest, \.\. \} => Some\(digest\),", "", m.group(1)).strip()
    if not arms or rest != "_ => None,":
        raise TranslateError("receipt.rs digest(): arms not understood: %r" % rest)
    out["receiptDigestArms"] = arms
    fl = re.sub(r"\s+", "", strip_comments(read("fuel-vm/src/interpreter/flow.rs")))
    if "letreceipt=Receipt::return_data(" not in fl or "letdigest=*receipt.digest().expect(" not in fl:
        raise TranslateError("flow.rs ret_data: receipt construction / digest expect changed")
    # balances area: constants and the three code facts the finding rests on
    c = strip_comments(read("fuel-tx/src/consts.rs"))
    need(re.search(r"pub const BALANCE_ENTRY_SIZE: usize = AssetId::LEN \+ WORD_SIZE;", c), "fuel-tx consts.rs BALANCE_ENTRY_SIZE")
    v = strip_comments(read("fuel-vm/src/consts.rs"))
    need(re.search(r"pub const VM_MEMORY_BASE_ASSET_ID_OFFSET: usize = Bytes32::LEN;", v), "consts.rs VM_MEMORY_BASE_ASSET_ID_OFFSET")
    need(re.search(r"pub const VM_MEMORY_BALANCES_OFFSET: usize =\s*VM_MEMORY_BASE_ASSET_ID_OFFSET \+ AssetId::LEN;", v), "consts.rs VM_MEMORY_BALANCES_OFFSET")
    out["balanceEntrySize"] = 32 + 8
    out["balancesOffset"] = 32 + 32
    b = re.sub(r"\s+", "", strip_comments(read("fuel-vm/src/interpreter/balances.rs")))
    if "letlen=(vm.max_inputs()asusize).saturating_mul(BALANCE_ENTRY_SIZE)asWord;" not in b:
        raise TranslateError("balances.rs to_vm: size of the balances area changed")
    if "letoffset=VM_MEMORY_BALANCES_OFFSET.saturating_add(i.saturating_mul(BALANCE_ENTRY_SIZE));" not in b:
        raise TranslateError("balances.rs try_from_iter: entry offset changed")
    ip = strip_comments(read("fuel-vm/src/interpreter.rs"))
    need(re.search(r"pub max_inputs: u16,", ip), "interpreter.rs InterpreterParams::max_inputs: u16")
    cb = re.sub(r"\s+", "", strip_comments(read("fuel-vm/src/checked_transaction/balances.rs")))
    md = need(re.search(r"fndeduct_max_fee_from_base_asset\(.*?\{(.*?)Ok\(\(\)\)\}", cb), "balances.rs deduct_max_fee_from_base_asset")
    # does the fee deduction create an entry for the base asset even when no input carries it?
    out["feeDeductionCreatesBaseEntry"] = "non_retryable_balances.entry(*base_asset_id).or_default()" in md.group(1)
    if not out["feeDeductionCreatesBaseEntry"] and "non_retryable_balances.get_mut(base_asset_id)" not in md.group(1):
        raise TranslateError("deduct_max_fee_from_base_asset: body not understood")
    # is the number of balance entries checked against max_inputs anywhere in the checks?
    ty = re.sub(r"\s+", "", strip_comments(read("fuel-vm/src/checked_transaction/types.rs")))
    out["entriesCheckedAgainstMaxInputs"] = bool(re.search(r"non_retryable_balances\.len\(\)>", cb + ty))
    return out


def main():
    lints = lint_policy()
    pn = pins()
    sites = collect()
    if len(sites) < 60: raise TranslateError("suspiciously few sites (%d)" % len(sites))
    L = ["/- GENERATED by tools/gen/bug_sites.py from the non-test code of fuel-vm/src/*.rs and fuel-vm/src/interpreter/** — do not edit -/",
         "namespace FuelVerif.Gen.BugSites", "",
         "inductive SiteKind where", "  | bug | expect | unwrap | unreachable | panic | assert | debugAssert | allowArith", "deriving DecidableEq, Repr", "",
         "structure Site where", "  id : Nat          -- first 48 bits of sha256(key): what the kernel compares (string equality is slow in the kernel)",
         "  key : String      -- file|fn|kind|detail|ordinal", "  file : String", "  fn : String", "  kind : SiteKind",
         "  detail : String   -- BugVariant / message literal / macro / the authors' safety comment", "  guard : String    -- source text from the preceding `;` up to the site, white space removed",
         "  fp : Nat          -- first 32 bits of sha256(guard)", "deriving Repr", "",
         "/-- clippy lints denied crate-wide (lib.rs) -/", "def deniedLints : List String := [" + ", ".join(lean_str(l) for l in lints) + "]", "",
         "/-- variants for which `Receipt::digest()` is `Some` (fuel-tx receipt.rs) -/",
         "def receiptDigestArms : List String := [" + ", ".join(lean_str(a) for a in pn["receiptDigestArms"]) + "]", "",
         "/-- `BALANCE_ENTRY_SIZE`, `VM_MEMORY_BALANCES_OFFSET`; the balances area of `to_vm` is `max_inputs (u16) * BALANCE_ENTRY_SIZE` bytes",
         "    at that offset and entry `i` of the sorted asset table is written at `offset + i * size` (both texts pinned) -/",
         "def balanceEntrySize : Nat := %d" % pn["balanceEntrySize"], "def balancesOffset : Nat := %d" % pn["balancesOffset"],
         "/-- `deduct_max_fee_from_base_asset` does `.entry(base).or_default()`: the table has a base-asset entry even when no input carries it -/",
         "def feeDeductionCreatesBaseEntry : Bool := %s" % ("true" if pn["feeDeductionCreatesBaseEntry"] else "false"),
         "/-- some check compares the number of balance entries with `max_inputs` -/",
         "def entriesCheckedAgainstMaxInputs : Bool := %s" % ("true" if pn["entriesCheckedAgainstMaxInputs"] else "false"), "",
         "def sites : List Site := ["]
    rows = []
    for key, rel, nm, kind, detail, guard, fp, kid in sites:
        rows.append("  { id := %d, key := %s,\n    file := %s, fn := %s, kind := .%s, detail := %s,\n    guard := %s,\n    fp := %d }" % (kid, lean_str(key), lean_str(rel), lean_str(nm), kind, lean_str(detail), lean_str(guard), fp))
    L.append(",\n".join(rows))
    L += ["]", "", "end FuelVerif.Gen.BugSites"]
    changed = write_if_changed("BugSites.lean", "\n".join(L) + "\n")
    by = {}
    for s in sites: by[s[3]] = by.get(s[3], 0) + 1
    print("bug_sites: %d sites (%s)%s" % (len(sites), ", ".join("%s %d" % kv for kv in sorted(by.items())), " (changed)" if changed else ""))


if __name__ == "__main__":
    try:
        main()
    except TranslateError as e:
        print("TRANSLATE-ERROR bug_sites: %s" % e)
        sys.exit(3)
