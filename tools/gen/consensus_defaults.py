#!/usr/bin/env python3
"""Default consensus parameters and default gas-cost table -> Gen/ConsensusDefaults.lean (C18, C19).

Sources (plain literal tables):
  fuel-tx/src/transaction/consensus_parameters/gas/default_gas_costs.rs   `GasCostsValuesV<n> { field: value, ... }`
  fuel-tx/src/transaction/consensus_parameters.rs                         `<X>ParametersV<n>::DEFAULT`, MAX_GAS, MAX_SIZE
Fails closed (TranslateError, exit 3) when a table no longer has the expected shape.
"""
import re, sys
from common import *

GAS_FIELDS = ["eck1", "s256", "contract_root", "state_root", "vm_initialization", "new_storage_per_byte"]


def const_expr(s, consts):
    """evaluate `1024 * 1024`, `1_000_000_000`, `MAX_GAS`, `110 * 1024`"""
    val = 1
    for f in s.split("*"):
        f = f.strip()
        if not f:
            raise TranslateError(f"empty factor in constant expression {s!r}")
        if re.fullmatch(r"[A-Z_][A-Z0-9_]*", f):
            if f not in consts:
                raise TranslateError(f"unknown constant {f} in {s!r}")
            val *= consts[f]
        elif re.fullmatch(r"(0x[0-9A-Fa-f_]+|[0-9][0-9_]*)(u8|u16|u32|u64|usize)?", f):
            val *= rust_int(f)
        else:
            raise TranslateError(f"unsupported constant expression {s!r}")
    return val


def gas_table():
    src = strip_comments(read("fuel-tx/src/transaction/consensus_parameters/gas/default_gas_costs.rs"))
    m = need(re.search(r"pub fn default_gas_costs\(\) -> GasCostsValues \{\s*GasCostsValuesV(\d+) \{(.*)\}\s*\.into\(\)\s*\}", src, re.S),
             "default_gas_costs() { GasCostsValuesV<n> { .. }.into() }")
    version = int(m.group(1))
    body = m.group(2)
    plain, dep = {}, {}
    pos = 0
    item = re.compile(
        r"\s*([a-z_0-9]+)\s*:\s*(?:(\d[\d_]*)|DependentCost::(LightOperation|HeavyOperation)\s*\{\s*base:\s*(\d[\d_]*),\s*(units_per_gas|gas_per_unit):\s*(\d[\d_]*),?\s*\})\s*,")
    while True:
        if not body[pos:].strip():
            break
        r = item.match(body, pos)
        if not r:
            raise TranslateError("default_gas_costs: unrecognised entry near %r" % body[pos:pos + 80].strip())
        name = r.group(1)
        if name in plain or name in dep:
            raise TranslateError(f"default_gas_costs: duplicate field {name}")
        if r.group(2) is not None:
            plain[name] = rust_int(r.group(2))
        else:
            kind, base, key, val = r.group(3), rust_int(r.group(4)), r.group(5), rust_int(r.group(6))
            if (kind == "LightOperation") != (key == "units_per_gas"):
                raise TranslateError(f"default_gas_costs: {name}: {kind} with {key}")
            dep[name] = (kind, base, val)
        pos = r.end()
    if len(plain) < 60 or len(dep) < 20:
        raise TranslateError("default gas table suspiciously small (%d plain, %d dependent)" % (len(plain), len(dep)))
    for f in GAS_FIELDS:
        if f not in plain and f not in dep:
            raise TranslateError(f"default_gas_costs: field {f} missing")
    return version, plain, dep


def default_struct(src, name, fields, consts):
    m = need(re.search(r"impl %s \{[^{}]*?pub const DEFAULT: Self = (?:Self|%s) \{(.*?)\};" % (name, name), src, re.S),
             f"{name}::DEFAULT")
    out = {}
    for fm in re.finditer(r"([a-z_0-9]+)\s*:\s*([^,]+),", m.group(1)):
        out[fm.group(1)] = const_expr(fm.group(2), consts)
    if sorted(out) != sorted(fields):
        raise TranslateError(f"{name}::DEFAULT has fields {sorted(out)}, expected {sorted(fields)}")
    return out


def params():
    src = strip_comments(read("fuel-tx/src/transaction/consensus_parameters.rs"))
    consts = {}
    for cm in re.finditer(r"const ([A-Z_]+): u64 = ([^;]+);", src):
        try:
            consts[cm.group(1)] = const_expr(cm.group(2), consts)
        except TranslateError:
            pass
    for c in ("MAX_GAS", "MAX_SIZE"):
        if c not in consts:
            raise TranslateError(f"constant {c} not found")
    # which struct version each parameter family's DEFAULT points to
    ver = {}
    for fam in ("Fee", "Predicate", "Tx", "Script", "Contract"):
        m = need(re.search(r"impl %sParameters \{[^{}]*?pub const DEFAULT: Self = Self::V(\d+)\(%sParametersV(\d+)::DEFAULT\);" % (fam, fam), src, re.S),
                 f"{fam}Parameters::DEFAULT")
        if m.group(1) != m.group(2):
            raise TranslateError(f"{fam}Parameters::DEFAULT version mismatch")
        ver[fam] = m.group(1)
    out = {}
    out["fee"] = default_struct(src, "FeeParametersV" + ver["Fee"], ["gas_price_factor", "gas_per_byte"], consts)
    out["predicate"] = default_struct(src, "PredicateParametersV" + ver["Predicate"],
                                      ["max_predicate_length", "max_predicate_data_length", "max_message_data_length", "max_gas_per_predicate"], consts)
    out["tx"] = default_struct(src, "TxParametersV" + ver["Tx"],
                               ["max_inputs", "max_outputs", "max_witnesses", "max_gas_per_tx", "max_size", "max_bytecode_subsections"], consts)
    script_fields = ["max_script_length", "max_script_data_length"] + (["max_storage_slot_length"] if ver["Script"] != "1" else [])
    out["script"] = default_struct(src, "ScriptParametersV" + ver["Script"], script_fields, consts)
    out["contract"] = default_struct(src, "ContractParametersV" + ver["Contract"], ["contract_max_size", "max_storage_slots"], consts)
    return out


def lean_dep(d):
    kind, base, val = d
    return "(.light %d %d)" % (base, val) if kind == "LightOperation" else "(.heavy %d %d)" % (base, val)


def camel(s):
    p = s.split("_")
    return p[0] + "".join(x.capitalize() for x in p[1:])


def main():
    version, plain, dep = gas_table()
    p = params()

    def gas(f):
        if f in dep:
            return lean_dep(dep[f])
        return str(plain[f])
    for f in ("s256", "contract_root", "state_root", "vm_initialization"):
        if f not in dep:
            raise TranslateError(f"default_gas_costs: {f} is not a DependentCost")
    for f in ("eck1", "new_storage_per_byte"):
        if f not in plain:
            raise TranslateError(f"default_gas_costs: {f} is not a plain Word")
    L = ["/- GENERATED by tools/gen/consensus_defaults.py from fuel-tx/src/transaction/consensus_parameters{.rs,/gas/default_gas_costs.rs} — do not edit -/",
         "import FuelVerif.Model.Fee", "namespace FuelVerif.Gen", "open FuelVerif.Fee", "",
         "def defaultGasCostsVersion : Nat := %d" % version, "",
         "/-- the `GasCosts` entries read by the fee code, as `GasCosts::default()` states them -/",
         "def defaultGasCosts : GasCosts :=",
         "  { eck1 := %s, s256 := %s, contractRoot := %s, stateRoot := %s," % (gas("eck1"), gas("s256"), gas("contract_root"), gas("state_root")),
         "    vmInitialization := %s, newStoragePerByte := %s }" % (gas("vm_initialization"), gas("new_storage_per_byte")), "",
         "/-- every `DependentCost` entry of the default table -/",
         "def defaultDependentCosts : List (String × DepCost) := ["]
    L.append(",\n".join('  ("%s", %s)' % (k, lean_dep(v).strip("()").replace(".light", "DepCost.light").replace(".heavy", "DepCost.heavy")) for k, v in dep.items()))
    L += ["]", "",
          "def defaultFeeParams : FeeParams := { gasPriceFactor := %d, gasPerByte := %d }" % (p["fee"]["gas_price_factor"], p["fee"]["gas_per_byte"]), ""]
    for fam in ("tx", "predicate", "script", "contract"):
        for k, v in p[fam].items():
            L.append("def default%s : Nat := %d" % (camel(k)[0].upper() + camel(k)[1:], v))
    L += ["", "end FuelVerif.Gen", ""]
    changed = write_if_changed("ConsensusDefaults.lean", "\n".join(L))
    print("consensus_defaults: gas table V%d (%d plain, %d dependent), 5 parameter families%s" % (version, len(plain), len(dep), " (changed)" if changed else ""))


if __name__ == "__main__":
    try:
        main()
    except TranslateError as e:
        print("TranslateError: %s" % e)
        sys.exit(3)
