#!/usr/bin/env python3
"""T-ids: contract / predicate identifier constants and hashing shape -> Gen/Contract.lean   (C15)

Extracted (and re-checked on every run; fails closed with TranslateError / exit 3):
  * fuel-tx/src/contract.rs
      - `const LEAF_SIZE`, `const PADDING_BYTE`, `const MULTIPLE`
      - the body of `root_from_code` (chunking, the "push unpadded" condition, the padding expression)
      - the body of `initial_state_root` (key hashed by `MerkleTreeKey::new`, value passed as is, `root_from_set`)
      - the order of the `hasher.input(..)` calls of `Contract::id`; `Contract::root` = `root_from_code(self)`
  * fuel-types/src/array_types.rs      `ContractId::SEED`
  * fuel-crypto/src/hasher.rs          `Hasher` = streaming SHA-256 (`input` = update, `digest` = finalize of a clone)
  * fuel-merkle/src/sparse/merkle_tree.rs   `MerkleTreeKey::new` = SHA-256 of the storage key
  * fuel-tx/src/transaction/types/input.rs  `predicate_owner` (inputs of the hasher), `is_predicate_owner_valid`
  * fuel-tx/src/transaction/types/create.rs `CreateMetadata::compute`, `Cacheable::precompute`, `Create::bytecode`
  * fuel-vm/src/interpreter/executors/main.rs   `deploy_inner`: which metadata field feeds root / state root / id,
                                                the redeployment guard, `deploy_contract_with_id(storage_slots, contract, &id)`
  * fuel-vm/src/interpreter/blockchain.rs       `CodeRootCtx::code_root`: root = `storage_contract(id) … .root()`, written at `a`
  * fuel-vm/src/storage/interpreter.rs          `deploy_contract_with_id` default body
"""
import re, sys
from common import *


def flat(s):
    return re.sub(r"\s+", "", s)


def fn_body(src, header_re, what):
    """text between the braces of the first fn whose header matches (brace counting)"""
    m = need(re.search(header_re, src, re.S), what)
    i = src.index("{", m.end() - 1) if src[m.end() - 1] != "{" else m.end() - 1
    depth, j = 0, i
    while j < len(src):
        if src[j] == "{":
            depth += 1
        elif src[j] == "}":
            depth -= 1
            if depth == 0:
                return src[i + 1:j]
        j += 1
    raise TranslateError(f"unbalanced braces in {what}")


def const_expr(s):
    """integer literal or a product of integer literals"""
    parts = [p.strip() for p in s.split("*")]
    v = 1
    for p in parts:
        if not re.fullmatch(r"(0x[0-9a-fA-F_]+|[0-9_]+)(u8|usize|u64|u32)?", p):
            raise TranslateError(f"unsupported constant expression {s!r}")
        v *= rust_int(p)
    return v


def expect(body, want, what):
    if flat(body) != flat(want):
        raise TranslateError(f"{what}: body changed:\n  have {flat(body)}\n  want {flat(want)}")


def contract_rs():
    src = strip_comments(read("fuel-tx/src/contract.rs"))
    leaf = const_expr(need(re.search(r"const\s+LEAF_SIZE\s*:\s*usize\s*=\s*([^;]+);", src), "contract.rs LEAF_SIZE").group(1))
    pad = const_expr(need(re.search(r"const\s+PADDING_BYTE\s*:\s*u8\s*=\s*([^;]+);", src), "contract.rs PADDING_BYTE").group(1))
    mult = const_expr(need(re.search(r"const\s+MULTIPLE\s*:\s*usize\s*=\s*([^;]+);", src), "contract.rs MULTIPLE").group(1))
    if not (0 <= pad <= 255):
        raise TranslateError("PADDING_BYTE out of range")
    need(re.search(r"binary::root_calculator::MerkleRootCalculator\s+as\s+BinaryMerkleTree", src), "contract.rs BinaryMerkleTree alias")
    need(re.search(r"in_memory::MerkleTree\s+as\s+SparseMerkleTree", src), "contract.rs SparseMerkleTree alias")
    need(re.search(r"sparse::\{\s*MerkleTreeKey\s*,", src), "contract.rs MerkleTreeKey import")
    expect(fn_body(src, r"pub fn root_from_code<B>\(bytes: B\)\s*->\s*Bytes32\s*where\s*B:\s*AsRef<\[u8\]>,?\s*\{", "contract.rs root_from_code"),
           """let mut tree = BinaryMerkleTree::new();
              bytes.as_ref().chunks(LEAF_SIZE).for_each(|leaf| {
                  let len = leaf.len();
                  if len == LEAF_SIZE || len % MULTIPLE == 0 { tree.push(leaf); }
                  else {
                      let padding_size = len.next_multiple_of(MULTIPLE);
                      let mut padded_leaf = [PADDING_BYTE; LEAF_SIZE];
                      padded_leaf[0..len].clone_from_slice(leaf);
                      tree.push(padded_leaf[..padding_size].as_ref());
                  }
              });
              tree.root().into()""", "contract.rs root_from_code")
    expect(fn_body(src, r"pub fn root\(&self\)\s*->\s*Bytes32\s*\{", "contract.rs Contract::root"),
           "Self::root_from_code(self)", "contract.rs Contract::root")
    expect(fn_body(src, r"pub fn initial_state_root<'a, I>\(storage_slots: I\)\s*->\s*Bytes32\s*where\s*I:\s*Iterator<Item = &'a StorageSlot>,?\s*\{", "contract.rs initial_state_root"),
           """let storage_slots = storage_slots
                  .map(|slot| (*slot.key(), slot.value()))
                  .map(|(key, data)| (MerkleTreeKey::new(key), data));
              let root = SparseMerkleTree::root_from_set(storage_slots);
              root.into()""", "contract.rs initial_state_root")
    expect(fn_body(src, r"pub fn default_state_root\(\)\s*->\s*Bytes32\s*\{", "contract.rs default_state_root"),
           "Self::initial_state_root(iter::empty())", "contract.rs default_state_root")
    body = fn_body(src, r"pub fn id\(salt: &Salt, root: &Bytes32, state_root: &Bytes32\)\s*->\s*ContractId\s*\{", "contract.rs Contract::id")
    f = flat(body)
    if not f.startswith("letmuthasher=Hasher::default();") or not f.endswith("ContractId::from(*hasher.digest())"):
        raise TranslateError("contract.rs Contract::id: not `Hasher::default() … ContractId::from(*hasher.digest())`")
    inputs = re.findall(r"hasher\.input\(([^)]*)\);", body)
    rest = re.sub(r"hasher\.input\([^)]*\);", "", f)
    if rest != "letmuthasher=Hasher::default();ContractId::from(*hasher.digest())":
        raise TranslateError(f"contract.rs Contract::id: unexpected statements: {rest}")
    names = {"ContractId::SEED": "seed", "salt": "salt", "root": "root", "state_root": "stateRoot"}
    parts = []
    for a in inputs:
        a = a.strip()
        if a not in names:
            raise TranslateError(f"contract.rs Contract::id: unknown hasher input {a!r}")
        parts.append(names[a])
    return leaf, pad, mult, parts


def seed():
    src = strip_comments(read("fuel-types/src/array_types.rs"))
    m = need(re.search(r"impl ContractId\s*\{\s*pub const SEED\s*:\s*\[u8;\s*4\]\s*=\s*(0x[0-9a-fA-F_]+?)_?u32\.to_be_bytes\(\);", src), "array_types.rs ContractId::SEED")
    v = int(m.group(1).replace("_", ""), 16)
    if v >= 2 ** 32:
        raise TranslateError("SEED does not fit u32")
    return [(v >> s) & 0xFF for s in (24, 16, 8, 0)]


def hasher():
    src = strip_comments(read("fuel-crypto/src/hasher.rs"))
    need(re.search(r"pub struct Hasher\(Sha256\);", src), "hasher.rs struct Hasher(Sha256)")
    need(re.search(r"#\[derive\([^\]]*\bDefault\b[^\]]*\)\]\s*pub struct Hasher", src), "hasher.rs Hasher derives Default")
    expect(fn_body(src, r"pub fn input<B>\(&mut self, data: B\)\s*where\s*B:\s*AsRef<\[u8\]>,?\s*\{", "hasher.rs input"),
           "sha2::Digest::update(&mut self.0, data)", "hasher.rs Hasher::input")
    expect(fn_body(src, r"pub fn digest\(&self\)\s*->\s*Bytes32\s*\{", "hasher.rs digest"),
           "<[u8; Bytes32::LEN]>::from(self.0.clone().finalize()).into()", "hasher.rs Hasher::digest")


def tree_key():
    src = strip_comments(read("fuel-merkle/src/sparse/merkle_tree.rs"))
    expect(fn_body(src, r"impl MerkleTreeKey\s*\{\s*pub fn new<B>\(storage_key: B\)\s*->\s*Self\s*where\s*B:\s*AsRef<\[u8\]>,?\s*\{", "merkle_tree.rs MerkleTreeKey::new"),
           """use digest::Digest;
              let mut hash = sha2::Sha256::new();
              hash.update(storage_key.as_ref());
              let hash = hash.finalize().into();
              Self(hash)""", "merkle_tree.rs MerkleTreeKey::new")


def input_rs():
    src = strip_comments(read("fuel-tx/src/transaction/types/input.rs"))
    body = fn_body(src, r"pub fn predicate_owner<P>\(predicate: P\)\s*->\s*Address\s*where\s*P:\s*AsRef<\[u8\]>,?\s*\{", "input.rs predicate_owner")
    f = flat(body)
    inputs = re.findall(r"hasher\.input\(([^)]*)\);", body)
    rest = re.sub(r"hasher\.input\([^)]*\);", "", f)
    if rest != "usecrate::Contract;letroot=Contract::root_from_code(predicate);letmuthasher=Hasher::default();(*hasher.digest()).into()":
        raise TranslateError(f"input.rs predicate_owner: unexpected statements: {rest}")
    names = {"ContractId::SEED": "seed", "root": "root"}
    parts = []
    for a in inputs:
        a = a.strip()
        if a not in names:
            raise TranslateError(f"input.rs predicate_owner: unknown hasher input {a!r}")
        parts.append(names[a])
    expect(fn_body(src, r"pub fn is_predicate_owner_valid<P>\(owner: &Address, predicate: P\)\s*->\s*bool\s*where\s*P:\s*AsRef<\[u8\]>,?\s*\{", "input.rs is_predicate_owner_valid"),
           "owner == &Self::predicate_owner(predicate)", "input.rs is_predicate_owner_valid")
    # the three call sites of the owner check (validity, builder helper, VM predicate verification) keep their shape
    v = flat(strip_comments(read("fuel-tx/src/transaction/validity.rs")))
    if "if!Input::is_predicate_owner_valid(owner,&**predicate)=>{Err(ValidityError::InputPredicateOwner{index})}" not in v:
        raise TranslateError("validity.rs: predicate owner guard of check_signature changed")
    m = flat(strip_comments(read("fuel-vm/src/interpreter/executors/main.rs")))
    if "if!Input::is_predicate_owner_valid(address,&**predicate){return(0,Err(PredicateVerificationFailed::InvalidOwner{index}),);}" not in m:
        raise TranslateError("executors/main.rs: predicate owner guard of check_predicate changed")
    return parts


def create_rs():
    src = strip_comments(read("fuel-tx/src/transaction/types/create.rs"))
    expect(fn_body(src, r"pub fn compute\(tx: &Create\)\s*->\s*Result<Self, ValidityError>\s*\{", "create.rs CreateMetadata::compute"),
           """let salt = tx.salt();
              let storage_slots = tx.storage_slots();
              let bytecode = tx.bytecode()?;
              let contract_root = Contract::root_from_code(bytecode);
              let state_root = Contract::initial_state_root(storage_slots.iter());
              let contract_id = Contract::id(salt, &contract_root, &state_root);
              Ok(Self { contract_id, contract_root, state_root, })""", "create.rs CreateMetadata::compute")
    expect(fn_body(src, r"fn precompute\(&mut self, chain_id: &ChainId\)\s*->\s*Result<\(\), ValidityError>\s*\{", "create.rs precompute"),
           """self.metadata = None;
              self.metadata = Some(ChargeableMetadata {
                  common: CommonMetadata::compute(self, chain_id)?,
                  body: CreateMetadata::compute(self)?,
              });
              Ok(())""", "create.rs Cacheable::precompute")
    expect(fn_body(src, r"pub fn bytecode\(&self\)\s*->\s*Result<&\[u8\], ValidityError>\s*\{", "create.rs Create::bytecode"),
           """let Create { body: CreateBody { bytecode_witness_index, .. }, witnesses, .. } = self;
              witnesses.get(*bytecode_witness_index as usize).map(|c| c.as_ref())
                  .ok_or(ValidityError::TransactionCreateBytecodeWitnessIndex)""", "create.rs Create::bytecode")
    m = need(re.search(r"pub struct CreateMetadata\s*\{(.*?)\}", src, re.S), "create.rs struct CreateMetadata").group(1)
    if flat(m) != "pubcontract_id:ContractId,pubcontract_root:Bytes32,pubstate_root:Bytes32,":
        raise TranslateError("create.rs: CreateMetadata fields changed")
    # check_unique_rules compares the ContractCreated output with the cached metadata
    f = flat(src)
    if "if letSome(metadata)=&self.metadata{(metadata.body.state_root,metadata.body.contract_id)}else{letmetadata=CreateMetadata::compute(self)?;(metadata.state_root,metadata.contract_id)}".replace(" ", "") not in f:
        raise TranslateError("create.rs check_unique_rules: source of (state_root, contract_id) changed")
    m = re.search(r"Output::ContractCreated\{contract_id,state_root,?\}ifcontract_id!=&contract_id_calculated(\|\||&&)state_root!=&state_root_calculated=>"
                  r"\{?Err\(ValidityError::TransactionCreateOutputContractCreatedDoesntMatch\{index,?\},?\)\}?", f)
    if not m:
        raise TranslateError("create.rs check_unique_rules: ContractCreated comparison changed")
    # the arms that follow: a second ContractCreated is `Multiple`, the first sets the flag; afterwards the flag is required
    if "Output::ContractCreated{..}ifcontract_created=>{Err(ValidityError::TransactionCreateOutputContractCreatedMultiple{index,})}Output::ContractCreated{..}=>{contract_created=true;Ok(())}" not in f:
        raise TranslateError("create.rs check_unique_rules: Multiple / flag arms changed")
    if "if!contract_created{returnErr(ValidityError::TransactionOutputDoesntContainContractCreated);}" not in f:
        raise TranslateError("create.rs check_unique_rules: final contract_created test changed")
    return m.group(1) == "||"


META = {"contract_root": "contractRoot", "state_root": "stateRoot", "contract_id": "contractId"}


def deploy_inner():
    src = strip_comments(read("fuel-vm/src/interpreter/executors/main.rs"))
    body = fn_body(src, r"fn deploy_inner\(\s*create: &mut Create,\s*storage: &mut S,.*?\)\s*->\s*Result<\(\), InterpreterError<S::DataError>>\s*\{", "main.rs deploy_inner")
    f = flat(body)
    f = re.sub(r"debug_assert!\(metadata\.is_some\(\),\"[^\"]*\"\);", "", f)
    head = "letmetadata=create.metadata().as_ref();letsalt=create.salt();letstorage_slots=create.storage_slots();letcontract=create.bytecode()?;"
    if not f.startswith(head):
        raise TranslateError("main.rs deploy_inner: prologue changed")
    f = f[len(head):]
    pat = (r"letroot=ifletSome\(m\)=metadata\{m\.body\.(\w+)\}else\{Contract::root_from_code\(contract\)\};"
           r"letstorage_root=ifletSome\(m\)=metadata\{m\.body\.(\w+)\}else\{Contract::initial_state_root\(storage_slots\.iter\(\)\)\};"
           r"letid=ifletSome\(m\)=metadata\{m\.body\.(\w+)\}else\{Contract::id\(salt,&root,&storage_root\)\};"
           r"ifstorage\.storage_contract_exists\(&id\)\.map_err\(RuntimeError::Storage\)\?\{returnErr\(InterpreterError::Panic\(PanicReason::ContractIdAlreadyDeployed,?\)\);?\}"
           r"storage\.deploy_contract_with_id\(storage_slots,contract,&id\)\.map_err\(RuntimeError::Storage\)\?;"
           r"Self::finalize_outputs\(")
    m = need(re.match(pat, f), "main.rs deploy_inner: identifier selection / redeployment guard / deploy_contract_with_id")
    fields = []
    for g in m.groups():
        if g not in META:
            raise TranslateError(f"main.rs deploy_inner: unknown metadata field {g}")
        fields.append(META[g])
    st = strip_comments(read("fuel-vm/src/storage/interpreter.rs"))
    expect(fn_body(st, r"fn deploy_contract_with_id\(\s*&mut self,\s*slots: &\[StorageSlot\],\s*contract: &\[u8\],\s*id: &ContractId,\s*\)\s*->\s*Result<\(\), Self::DataError>\s*\{", "storage/interpreter.rs deploy_contract_with_id"),
           """self.storage_contract_insert(id, contract)?;
              slots.iter().try_for_each(|s| {
                  self.contract_state_insert(id, s.key(), s.value().as_ref())?;
                  Ok(())
              })?;
              Ok(())""", "storage/interpreter.rs deploy_contract_with_id")
    return fields


def croo():
    src = strip_comments(read("fuel-vm/src/interpreter/blockchain.rs"))
    body = fn_body(src, r"impl<S, V> CodeRootCtx<'_, S, V>\s*\{\s*pub\(crate\) fn code_root\(self, a: Word, b: Word\)\s*->\s*IoResult<\(\), S::DataError>\s*where\s*S: InterpreterStorage,\s*V: Verifier,?\s*\{", "blockchain.rs CodeRootCtx::code_root")
    expect(body,
           """self.memory.write_noownerchecks(a, Bytes32::LEN)?;
              let contract_id = ContractId::new(self.memory.read_bytes(b)?);
              self.verifier.check_contract_in_inputs(self.panic_context, self.input_contracts, &contract_id,)?;
              let len = contract_size(self.storage, &contract_id)?;
              dependent_gas_charge_without_base(self.cgas, self.ggas, self.gas_cost, len as u64,)?;
              let root = self.storage.storage_contract(&contract_id).transpose()
                  .ok_or(PanicReason::ContractNotFound)?.map_err(RuntimeError::Storage)?.root();
              self.memory.write_bytes(self.owner, a, *root)?;
              inc_pc(self.pc);
              Ok(())""", "blockchain.rs CodeRootCtx::code_root")


def main():
    leaf, pad, mult, id_parts = contract_rs()
    sd = seed()
    hasher()
    tree_key()
    owner_parts = input_rs()
    guard_or = create_rs()
    dfields = deploy_inner()
    croo()
    L = []
    L.append("/- GENERATED by tools/gen/contract.py from fuel-tx/src/contract.rs, fuel-types/src/array_types.rs,")
    L.append("   fuel-tx/src/transaction/types/{input,create}.rs, fuel-vm/src/interpreter/{executors/main,blockchain}.rs — do not edit -/")
    L.append("namespace FuelVerif.Gen.Contract")
    L.append("")
    L.append("/-- `const LEAF_SIZE: usize` (contract.rs) -/")
    L.append("def leafSize : Nat := %d" % leaf)
    L.append("/-- `const MULTIPLE: usize` (contract.rs) -/")
    L.append("def multiple : Nat := %d" % mult)
    L.append("/-- `const PADDING_BYTE: u8` (contract.rs) -/")
    L.append("def paddingByte : UInt8 := 0x%02x" % pad)
    L.append("/-- `ContractId::SEED` = the big-endian bytes of the u32 literal (array_types.rs) -/")
    L.append("def seed : List UInt8 := [%s]" % ", ".join("0x%02x" % b for b in sd))
    L.append("")
    L.append("/-- what a `hasher.input(..)` call feeds -/")
    L.append("inductive Part | seed | salt | root | stateRoot")
    L.append("  deriving DecidableEq, Repr")
    L.append("/-- `Contract::id`: the `hasher.input(..)` calls in source order -/")
    L.append("def idParts : List Part := [%s]" % ", ".join("." + p for p in id_parts))
    L.append("/-- `Input::predicate_owner`: the `hasher.input(..)` calls in source order (`root` = `Contract::root_from_code(predicate)`) -/")
    L.append("def ownerParts : List Part := [%s]" % ", ".join("." + p for p in owner_parts))
    L.append("")
    L.append("/-- a field of `CreateMetadata` -/")
    L.append("inductive MetaField | contractId | contractRoot | stateRoot")
    L.append("  deriving DecidableEq, Repr")
    L.append("/-- `deploy_inner`: the metadata field read for `root`, `storage_root`, `id` when the metadata is cached -/")
    L.append("def deployRootField : MetaField := .%s" % dfields[0])
    L.append("def deployStateRootField : MetaField := .%s" % dfields[1])
    L.append("def deployIdField : MetaField := .%s" % dfields[2])
    L.append("")
    L.append("/-- `check_unique_rules` (create.rs): the `DoesntMatch` guard on `Output::ContractCreated` joins")
    L.append("`contract_id != calculated` and `state_root != calculated` with `||` (true) or `&&` (false) -/")
    L.append("def createGuardIsOr : Bool := %s" % ("true" if guard_or else "false"))
    L.append("")
    L.append("end FuelVerif.Gen.Contract")
    text = "\n".join(L) + "\n"
    ch = write_if_changed("Contract.lean", text)
    print("contract: LEAF_SIZE=%d MULTIPLE=%d PADDING_BYTE=%d SEED=%s id=%s owner=%s deploy=%s%s" % (
        leaf, mult, pad, bytes(sd).hex(), id_parts, owner_parts, dfields, " (changed)" if ch else ""))


if __name__ == "__main__":
    try:
        main()
    except TranslateError as e:
        print("TranslateError: %s" % e)
        sys.exit(3)
