#!/usr/bin/env python3
"""T4: gas schedule -> Gen/Gas.lean (+ harness glue harness/src/gen/gas_gen.rs)

 * fuel-tx/src/transaction/consensus_parameters/gas/default_gas_costs.rs : the literal default table
 * fuel-tx/src/transaction/consensus_parameters/gas.rs                   : GasCostsValuesV7 field list, getters
 * fuel-vm/src/interpreter/executors/opcodes_impl.rs                     : per `impl Execute for op::X` the charge site
   (for opcodes that delegate the charge: flow.rs / blockchain.rs / blob.rs `gas_charge(gas_cost.base())`)
"""
import os, re, sys
from common import *

GAS_RS = "fuel-tx/src/transaction/consensus_parameters/gas.rs"
DEFAULT_RS = "fuel-tx/src/transaction/consensus_parameters/gas/default_gas_costs.rs"
IMPL_RS = "fuel-vm/src/interpreter/executors/opcodes_impl.rs"

# opcodes whose `execute` only forwards to an interpreter method that charges `c.base()` then the dependent part
DELEGATED = {
    "prepare_call": ("fuel-vm/src/interpreter/flow.rs", "prepare_call_inner"),
    "code_copy": ("fuel-vm/src/interpreter/blockchain.rs", "code_copy"),
    "code_root": ("fuel-vm/src/interpreter/blockchain.rs", "code_root"),
    "code_size": ("fuel-vm/src/interpreter/blockchain.rs", "code_size"),
    "load_contract_code": ("fuel-vm/src/interpreter/blockchain.rs", "load_contract_code"),
    "blob_size": ("fuel-vm/src/interpreter/blob.rs", "blob_size"),
    "blob_load_data": ("fuel-vm/src/interpreter/blob.rs", "blob_load_data"),
}


def v7_fields():
    src = strip_comments(read(GAS_RS))
    m = need(re.search(r"pub struct GasCostsValuesV7 \{(.*?)\n\}", src, re.S), "gas.rs struct GasCostsValuesV7")
    fields = re.findall(r"pub (\w+):\s*(Word|DependentCost),", m.group(1))
    if len(fields) < 100:
        raise TranslateError("GasCostsValuesV7 field list suspiciously small")
    rest = re.sub(r"#\[serde\([^\]]*\)\]", "", m.group(1))
    rest = re.sub(r"pub \w+:\s*(Word|DependentCost),", "", rest)
    if rest.strip():
        raise TranslateError("GasCostsValuesV7: unrecognised member text %r" % rest.strip()[:80])
    return fields


def getters():
    """getter name -> (V7 field, optional?)  from `impl GasCostsValues`"""
    src = strip_comments(read(GAS_RS))
    out = {}
    for name, ret, body in re.findall(r"pub fn (\w+)\(&self\) -> ([^{]+?)\s*\{\s*match self \{(.*?)\n        \}\n    \}", src, re.S):
        m = re.search(r"GasCostsValues::V7\((\w+)\) => (Ok\()?(\w+)\.(\w+)\)?,", body)
        if not m or m.group(1) != m.group(3):
            continue
        opt = ret.strip().startswith("Result<")
        if opt != bool(m.group(2)):
            raise TranslateError(f"getter {name}: Ok-wrapping does not match return type")
        out[name] = (m.group(4), opt, "DependentCost" in ret)
    return out


VERSIONS = [1, 2, 3, 4, 5, 6, 7]
STORAGE_RS = "fuel-vm/src/interpreter/storage.rs"


def version_fields():
    """{k: [(field, 'Word'|'DependentCost')]} for every `pub struct GasCostsValuesV{k}`"""
    src = strip_comments(read(GAS_RS))
    enum = need(re.search(r"pub enum GasCostsValues \{(.*?)\n\}", src, re.S), "enum GasCostsValues")
    vs = [int(a) for a, b in re.findall(r"V(\d+)\(GasCostsValuesV(\d+)\),", enum.group(1)) if a == b]
    if vs != VERSIONS or len(re.findall(r"\(", enum.group(1))) != len(VERSIONS):
        raise TranslateError("enum GasCostsValues: variants are not exactly V1..V7 (found %r)" % vs)
    out = {}
    for k in VERSIONS:
        m = need(re.search(r"pub struct GasCostsValuesV%d \{(.*?)\n\}" % k, src, re.S), "struct GasCostsValuesV%d" % k)
        fields = re.findall(r"pub (\w+):\s*(Word|DependentCost),", m.group(1))
        rest = re.sub(r"#\[[^\]]*\]", "", m.group(1))
        rest = re.sub(r"pub \w+:\s*(Word|DependentCost),", "", rest)
        if rest.strip() or len(fields) < 100:
            raise TranslateError("GasCostsValuesV%d: unrecognised member text %r" % (k, rest.strip()[:80]))
        out[k] = fields
    return out


def getters_all(vfields):
    """[(getter, returns DependentCost?, returns Result?, [arm for V1..V7])], arm = ('field', f) | ('heavy0', f) | ('undef',)
    from `impl GasCostsValues { pub fn g(&self) -> T { match self { GasCostsValues::Vk(vk) => … } } }`"""
    src = strip_comments(read(GAS_RS))
    out = []
    arm_re = re.compile(r"GasCostsValues::V(\d)\((\w+)\)=>(?:Ok\((\w+)\.(\w+)\)|(\w+)\.(\w+)|(Err\(GasCostNotDefined\))"
                        r"|DependentCost::HeavyOperation\{base:(\w+)\.(\w+),gas_per_unit:0,\}),")
    blocks = re.findall(r"\nimpl GasCostsValues \{\n(.*?)\n\}\n", src, re.S)
    block = [b for b in blocks if "match self" in b]
    if len(block) != 1:
        raise TranslateError("impl GasCostsValues: getter block not found")
    for name, ret, body in re.findall(r"pub fn (\w+)\(&self\) -> ([^{]+?)\s*\{\s*match self \{(.*?)\n        \}\n    \}", block[0], re.S):
        ret = re.sub(r"\s+", "", ret)
        if ret not in ("Word", "DependentCost", "Result<Word,GasCostNotDefined>", "Result<DependentCost,GasCostNotDefined>"):
            raise TranslateError(f"getter {name}: return type {ret!r} not understood")
        is_dep, is_res = "DependentCost" in ret, ret.startswith("Result<")
        b = re.sub(r"\s+", "", body)
        arms, pos = {}, 0
        for m in arm_re.finditer(b):
            if m.start() != pos:
                raise TranslateError(f"getter {name}: unrecognised match arm text {b[pos:m.start()][:80]!r}")
            pos = m.end()
            k, var = int(m.group(1)), m.group(2)
            types = dict(vfields[k])
            if m.group(3):
                v, f, kind, ok = m.group(3), m.group(4), "field", True
            elif m.group(5):
                v, f, kind, ok = m.group(5), m.group(6), "field", False
            elif m.group(7):
                v, f, kind, ok = var, None, "undef", True
            else:
                v, f, kind, ok = m.group(8), m.group(9), "heavy0", False
            if kind != "undef" and v != var:
                raise TranslateError(f"getter {name}: V{k} arm reads {v}, bound {var}")
            if var == "_" and kind != "undef":
                raise TranslateError(f"getter {name}: V{k} arm ignores its value")
            if ok != is_res:
                raise TranslateError(f"getter {name}: V{k} arm Ok/Err wrapping does not match the return type")
            if kind == "field" and types.get(f) != ("DependentCost" if is_dep else "Word"):
                raise TranslateError(f"getter {name}: V{k} field {f} has type {types.get(f)}")
            if kind == "heavy0" and (not is_dep or types.get(f) != "Word"):
                raise TranslateError(f"getter {name}: V{k} heavy-operation wrapper over non-Word field {f}")
            if k in arms:
                raise TranslateError(f"getter {name}: duplicate arm V{k}")
            arms[k] = (kind, f) if f else (kind,)
        if pos != len(b) or sorted(arms) != VERSIONS:
            raise TranslateError(f"getter {name}: arms {sorted(arms)} / trailing text {b[pos:][:60]!r}")
        out.append((name, is_dep, is_res, [arms[k] for k in VERSIONS]))
    if len(out) < 100:
        raise TranslateError("impl GasCostsValues: too few getters found")
    return out


def _fn_parts(src, name, what):
    """(parameter names, whitespace-free body) of `fn name` in comment-stripped source"""
    m = need(re.search(r"fn %s\b(?:<[^>]*>)?\s*\(" % name, src), what)
    depth, i = 1, m.end()
    while depth:
        depth += {"(": 1, ")": -1}.get(src[i], 0)
        i += 1
    params = [re.sub(r"\s+", "", x).split(":")[0] for x in src[m.end():i - 1].split(",") if x.strip()]
    k = src.index("{", i)
    if re.search(r"\bfn\b", src[i:k]):
        raise TranslateError(f"{what}: body not found")
    depth, j = 0, k
    while True:
        depth += {"{": 1, "}": -1}.get(src[j], 0)
        j += 1
        if depth == 0:
            break
    return params, re.sub(r"\s+", "", src[k:j])


def _template(text, groups):
    """regex matching `text` exactly, with each name in `groups` (in order of appearance) turned into a capture group"""
    pat = re.escape(text)
    for g in groups:
        if pat.count(re.escape(g)) != 1:
            raise TranslateError("internal: template placeholder %s" % g)
        pat = pat.replace(re.escape(g), r"(\w+)")
    return pat


# storage.rs micro-operations, whitespace-free; «…» = captured schedule getter
T_READ = ("{letcache_key=(contract_id,key);ifletSome(v)=self.storage_slot_cache.get(&cache_key){letgas_charge_units=v.as_ref().map(|data|data.len()asu64).unwrap_or(0);"
          "letr=f(self.memory.as_mut(),v.as_deref());self.dependent_gas_charge(self.gas_costs().«HOT»().map_err(PanicReason::from)?,gas_charge_units,)?;returnOk(r);}"
          "letvalue=StorageRead::<ContractsState>::read_alloc(&self.storage,&ContractsStateKey::new(&contract_id,&key),).map_err(RuntimeError::Storage)?;"
          "letgas_charge_units=value.as_ref().map(|data|data.len()asu64).unwrap_or(0);letr=f(self.memory.as_mut(),value.as_deref());"
          "self.dependent_gas_charge(self.gas_costs().«COLD»().map_err(PanicReason::from)?,gas_charge_units,)?;self.storage_slot_cache.insert(cache_key,value);Ok(r)}")
T_LEN = ("{letcache_key=(contract_id,key);ifletSome(v)=self.storage_slot_cache.get(&cache_key){returnOk(v.as_ref().map(|d|d.len()).unwrap_or(0));}"
         "letvalue=StorageRead::<ContractsState>::read_alloc(&self.storage,&ContractsStateKey::new(&contract_id,&key),).map_err(RuntimeError::Storage)?;"
         "letlen=value.as_ref().map(|d|d.len()).unwrap_or(0);self.storage_slot_cache.insert(cache_key,value);Ok(len)}")
T_WRITE = ("{letold_len=self.storage_slot_len_no_gas(contract_id,key)?;letmax_size=self.interpreter_params.max_storage_slot_length;"
           "if(value.len()asu64)>max_size{returnErr(RuntimeError::Recoverable(PanicReason::StorageOutOfBounds));}letcache_key=(contract_id,key);"
           "self.storage.contract_state_insert(&contract_id,&key,&value).map_err(RuntimeError::Storage)?;letgas_charge_units=value.len()asu64;"
           "self.storage_slot_cache.insert(cache_key,Some(value));self.dependent_gas_charge(self.gas_costs().«WRITE»().map_err(PanicReason::from)?,gas_charge_units,)?;"
           "self.gas_charge(self.gas_costs().«NEWBYTES»().saturating_mul(gas_charge_units.saturating_sub(old_lenasu64)),)?;Ok(())}")
T_CLEAR = ("{ifrange>1{letstart=primitive_types::U256::from_big_endian(&*key);#[allow(clippy::arithmetic_side_effects)]start.checked_add(primitive_types::U256::from(range-1))"
           ".ok_or(PanicReason::TooManySlots)?;}self.dependent_gas_charge(self.gas_costs().«CLEAR»().map_err(PanicReason::from)?,rangeasu64,)?;"
           "self.storage.contract_state_remove_range(&contract_id,&key,range).map_err(RuntimeError::Storage)?;forkeyinkey_range(key,range){letkey=key.ok_or(PanicReason::TooManySlots)?;"
           "letcache_key=(contract_id,key);self.storage_slot_cache.insert(cache_key,None);}Ok(())}")
# helpers between the opcodes and the micro-operations: pinned text -> (parameter list, key parameter, steps)
T_HELPERS = {
    "storage_write_slot_from_memory": "{letvalue=f(self.memory.as_ref())?.to_vec();self.storage_write_slot(contract_id,key,value)}",
    "storage_read_to_memory": ("{letoffset=convert::to_usize(offset).ok_or(PanicReason::MemoryOverflow)?;letlen=convert::to_usize(len).ok_or(PanicReason::MemoryOverflow)?;"
                               "letowner=self.ownership_registers();self.registers[RegId::ERR]=self.storage_read_slot::<_,Result<u64,RuntimeError<S::DataError>>>(contract_id,key,"
                               "|memory,value|matchvalue{Some(value)=>{letsrc=value.get(offset..offset.saturating_add(len)).ok_or(RuntimeError::Recoverable(PanicReason::StorageOutOfBounds),)?;"
                               "letdst=memory.write(owner,dst_ptr,len)?;dst.copy_from_slice(src);Ok(0)}None=>Ok(1),},)??;Ok(())}"),
    "storage_write_from_memory": ("{letlen=convert::to_usize(len).ok_or(PanicReason::MemoryOverflow)?;self.storage_write_slot_from_memory(contract_id,key,|memory|{Ok(memory.read(src_ptr,len)?)})}"),
    "storage_update_from_memory": ("{letmutvalue=self.storage_read_slot(contract_id,key,|_,v|v.unwrap_or_default().to_vec())?;letoffset=ifoffset==u64::MAX{value.len()}else{convert::to_usize(offset)"
                                   ".ok_or(PanicReason::MemoryOverflow)?};ifoffset>value.len(){returnErr(RuntimeError::Recoverable(PanicReason::StorageOutOfBounds));}"
                                   "letwrite_len=convert::to_usize(write_len).ok_or(PanicReason::MemoryOverflow)?;letlen_after=offset.saturating_add(write_len);"
                                   "letmax_size=self.interpreter_params.max_storage_slot_length;if(len_afterasu64)>max_size{returnErr(RuntimeError::Recoverable(PanicReason::StorageOutOfBounds));}"
                                   "iflen_after>value.len(){value.resize(len_after,0);}value[offset..len_after].copy_from_slice(self.memory.as_mut().read(src_ptr,write_len)?);"
                                   "letcontract_id=self.internal_contract()?;self.storage_write_slot(contract_id,key,value)}"),
    "dynamic_storage_read": "{letcontract_id=self.internal_contract()?;letkey=Bytes32::from(self.memory().read_bytes(key_ptr)?);self.storage_read_to_memory(contract_id,key,buffer_ptr,offset,len)?;Ok(())}",
    "dynamic_storage_write": "{letcontract_id=self.internal_contract()?;letkey=Bytes32::from(self.memory().read_bytes(key_ptr)?);self.storage_write_from_memory(contract_id,key,value_ptr,len)?;Ok(())}",
    "dynamic_storage_update": "{letcontract_id=self.internal_contract()?;letkey=Bytes32::from(self.memory().read_bytes(key_ptr)?);self.storage_update_from_memory(contract_id,key,value_ptr,offset,len)?;Ok(())}",
    "storage_preload": ("{letcontract_id=self.internal_contract()?;matchself.storage_read_slot(contract_id,key,|_,v|v.map(|data|data.len()))?{Some(len)=>{self.registers[RegId::ERR]=0;"
                        "self.write_user_register(r_dst_len,lenasu64)?;Ok(())}None=>{self.registers[RegId::ERR]=1;self.write_user_register(r_dst_len,0)?;Ok(())}}}"),
}
# what the pinned helper texts above mean (hand-read): parameters, and the micro-operations in order
HELPER_MEANING = {
    "dynamic_storage_read": (["buffer_ptr", "key_ptr", "offset", "len"], "key_ptr", [("read",)]),
    "dynamic_storage_write": (["key_ptr", "value_ptr", "len"], "key_ptr", [("write", ("arg", "len"))]),
    "dynamic_storage_update": (["key_ptr", "value_ptr", "offset", "len"], "key_ptr", [("read",), ("write", ("update", "offset", "len"))]),
    "storage_preload": (["r_dst_len", "key"], None, [("read",)]),
}
HELPER_PARAMS = {
    "storage_read_slot": ["&mutself", "contract_id", "key", "f"], "storage_slot_len_no_gas": ["&mutself", "contract_id", "key"],
    "storage_write_slot": ["&mutself", "contract_id", "key", "value"], "storage_clear_slot_range": ["&mutself", "contract_id", "key", "range"],
    "storage_write_slot_from_memory": ["&mutself", "contract_id", "key", "f"], "storage_read_to_memory": ["&mutself", "contract_id", "key", "dst_ptr", "offset", "len"],
    "storage_write_from_memory": ["&mutself", "contract_id", "key", "src_ptr", "len"], "storage_update_from_memory": ["&mutself", "contract_id", "key", "src_ptr", "offset", "write_len"],
}


def storage_micro(gets):
    """getters charged by the storage micro-operations of storage.rs; every function on the path is pinned"""
    src = strip_comments(read(STORAGE_RS))
    res = {}
    for fn, tmpl, names in (("storage_read_slot", T_READ, ["«HOT»", "«COLD»"]), ("storage_slot_len_no_gas", T_LEN, []),
                            ("storage_write_slot", T_WRITE, ["«WRITE»", "«NEWBYTES»"]), ("storage_clear_slot_range", T_CLEAR, ["«CLEAR»"])):
        params, body = _fn_parts(src, fn, f"storage.rs fn {fn}")
        if params != HELPER_PARAMS[fn]:
            raise TranslateError(f"storage.rs fn {fn}: parameters changed: {params}")
        m = re.fullmatch(_template(tmpl, names), body)
        if not m:
            raise TranslateError(f"storage.rs fn {fn}: body changed")
        for n, g in zip(names, m.groups()):
            res[n] = g
    for n, want_dep in (("«HOT»", True), ("«COLD»", True), ("«WRITE»", True), ("«CLEAR»", True), ("«NEWBYTES»", False)):
        g = [x for x in gets if x[0] == res[n]]
        if not g or g[0][1] != want_dep or g[0][2] != want_dep:
            raise TranslateError(f"storage.rs: getter {res[n]} has an unexpected type")
    for fn, text in T_HELPERS.items():
        params, body = _fn_parts(src, fn, f"storage.rs fn {fn}")
        exp = HELPER_PARAMS.get(fn) or (["&mutself"] + HELPER_MEANING[fn][0])
        if params != exp or body != text:
            raise TranslateError(f"storage.rs fn {fn}: text changed")
    if len(re.findall(r"gas_charge\s*\(", src)) != 5:
        raise TranslateError("storage.rs: number of gas-charging statements changed")
    return res


def _call_args(text, start):
    """argument strings of the call whose '(' is at text[start]"""
    depth, i, args, cur = 0, start, [], ""
    while True:
        c = text[i]
        if c in "([{":
            depth += 1
            if depth > 1:
                cur += c
        elif c in ")]}":
            depth -= 1
            if depth == 0:
                break
            cur += c
        elif c == "," and depth == 1:
            args.append(cur)
            cur = ""
        else:
            cur += c
        i += 1
    if cur:
        args.append(cur)
    return args, i + 1


def storage_shapes(storage_ops):
    """per storage opcode: key operand, range operand (loop over `key_range`), micro-operations inside / after the loop"""
    src = strip_comments(read(IMPL_RS))
    parts = re.split(r"impl<M, S, Tx, Ecal, V> Execute<M, S, Tx, Ecal, V> for fuel_asm::op::(\w+)", src)
    out = []
    for i in range(1, len(parts), 2):
        op, raw = parts[i], parts[i + 1]
        body = re.sub(r"\s+", "", raw)
        touches = bool(re.search(r"storage_(read|write|clear|preload)|dynamic_storage|key_range", body))
        if op not in storage_ops:
            if touches:
                raise TranslateError(f"{op}: touches contract state storage but is not a known storage opcode")
            continue
        m = need(re.search(r"let\(([\w,]+)\)=self\.unpack\(\);", body), f"{op}: operand tuple")
        tup = [x for x in m.group(1).split(",") if x]

        def operand(expr):
            r = (re.fullmatch(r"interpreter\.registers\[(\w+)\]", expr) or re.fullmatch(r"(\w+)\.to_u8\(\)\.into\(\)", expr)
                 or re.fullmatch(r"(\w+)\.to_u16\(\)\.into\(\)", expr))
            if not r or r.group(1) not in tup:
                raise TranslateError(f"{op}: operand expression {expr!r} not understood")
            return tup.index(r.group(1))

        key_arg, range_arg, range_var = None, None, None
        k = re.search(r"read_bytes\(interpreter\.registers\[(\w+)\]\)", body)
        if k:
            key_arg = operand("interpreter.registers[%s]" % k.group(1))
        r = re.search(r"let(\w+)=crate::convert::to_usize\(interpreter\.registers\[(\w+)\]\)\.ok_or\(PanicReason::TooManySlots\)\?;", body)
        if r:
            range_var, range_arg = r.group(1), operand("interpreter.registers[%s]" % r.group(2))
        loop = None
        lm = re.search(r"for(?:\(i,key\)|key)inkey_range\(key,(\w+)\)(?:\.enumerate\(\))?\{", body)
        if lm:
            if lm.group(1) != range_var:
                raise TranslateError(f"{op}: loop range {lm.group(1)} is not the converted range operand")
            depth, j = 1, lm.end()
            while depth:
                depth += {"{": 1, "}": -1}.get(body[j], 0)
                j += 1
            loop = (lm.start(), j)
            if not body[lm.end():].startswith("letkey=key.ok_or(PanicReason::TooManySlots)?;"):
                raise TranslateError(f"{op}: loop does not start with the key overflow check")
        inside, after = [], []
        for c in re.finditer(r"interpreter\.(storage_read_slot|storage_write_slot_from_memory|storage_write_slot|storage_clear_slot_range|dynamic_storage_read"
                             r"|dynamic_storage_write|dynamic_storage_update|storage_preload|storage_\w+|dynamic_\w+)\(", body):
            name = c.group(1)
            args, _ = _call_args(body, c.end() - 1)
            in_loop = loop is not None and loop[0] < c.start() < loop[1]
            if loop is not None and c.start() < loop[0]:
                raise TranslateError(f"{op}: storage access before the slot loop")
            steps = []
            if name == "storage_read_slot":
                if args[:2] != ["contract_id", "key"]:
                    raise TranslateError(f"{op}: storage_read_slot arguments {args[:2]}")
                steps = [("read",)]
            elif name == "storage_write_slot":
                if args != ["contract_id", "key", "value.to_vec()"] or "letmutvalue=Bytes32::zeroed();" not in body:
                    raise TranslateError(f"{op}: storage_write_slot arguments {args}")
                steps = [("write", ("const", 32))]
            elif name == "storage_write_slot_from_memory":
                if args[:2] != ["contract_id", "key"] or not re.fullmatch(r"\|memory\|\{letsrc_ptr=start_ptr\.saturating_add\(\(iasu64\)\.saturating_mul\(32\)\);Ok\(memory\.read\(src_ptr,32u64\)\?\)\}", args[2]):
                    raise TranslateError(f"{op}: storage_write_slot_from_memory arguments {args}")
                steps = [("write", ("const", 32))]
            elif name == "storage_clear_slot_range":
                if len(args) != 3 or args[0] != "contract_id" or args[2] != range_var or in_loop:
                    raise TranslateError(f"{op}: storage_clear_slot_range arguments {args}")
                steps = [("clear", range_arg)]
            elif name in HELPER_MEANING:
                params, keyp, hsteps = HELPER_MEANING[name]
                if len(args) != len(params) or in_loop:
                    raise TranslateError(f"{op}: {name} arguments {args}")
                bind = dict(zip(params, args))
                if keyp is not None:
                    key_arg = operand(bind[keyp])
                elif bind["key"] != "key" or key_arg is None:
                    raise TranslateError(f"{op}: {name} key argument")
                for st in hsteps:
                    if st[0] == "write":
                        l = st[1]
                        steps.append(("write", (l[0],) + tuple(operand(bind[x]) for x in l[1:])))
                    else:
                        steps.append(st)
            else:
                raise TranslateError(f"{op}: unknown storage access {name}")
            (inside if in_loop else after).extend(steps)
        if key_arg is None or (not inside and not after) or (loop is None) != (not inside):
            raise TranslateError(f"{op}: storage access shape not understood")
        if loop is None and range_arg is not None and not any(s[0] == "clear" for s in after):
            raise TranslateError(f"{op}: unused slot range")
        out.append((op, key_arg, range_arg if loop is not None else None, inside, after))
    if sorted(o[0] for o in out) != sorted(storage_ops):
        raise TranslateError("storage opcodes found %r" % sorted(o[0] for o in out))
    return out



def surcharge(gets):
    """the new-balance-entry surcharge of TR / CALL / MINT: `gas_charge(ENTRY_BYTES.saturating_mul(new_storage_per_byte))`"""
    sites = (("fuel-vm/src/interpreter/contract.rs", "ifcreated_new_entry{gas_charge(self.cgas,self.ggas,((Bytes32::LEN+WORD_SIZE)asu64).saturating_mul(self.new_storage_gas_per_byte),)?;}", 1, "TR"),
             ("fuel-vm/src/interpreter/flow.rs", "ifcreated_new_entry{gas_charge(self.registers.system_registers.cgas.as_mut(),self.registers.system_registers.ggas.as_mut(),"
              "((Bytes32::LEN+WORD_SIZE)asu64).saturating_mul(self.new_storage_gas_per_byte),)?;}", 1, "CALL"),
             ("fuel-vm/src/interpreter/blockchain.rs", "ifold_value.is_none(){gas_charge(self.cgas,self.ggas,(BALANCE_ENTRY_SIZEasu64).saturating_mul(self.new_storage_gas_per_byte),)?;}", 1, "MINT"))
    getter = None
    for path, text, n, op in sites:
        src = re.sub(r"\s+", "", strip_comments(read(path)))
        if src.count(text) != n:
            raise TranslateError(f"{path}: new-balance-entry surcharge of {op} changed")
        if src.count("self.new_storage_gas_per_byte") != n:
            raise TranslateError(f"{path}: new_storage_gas_per_byte used elsewhere")
        g = set(re.findall(r"letnew_storage_gas_per_byte=self\.gas_costs\(\)\.(\w+)\(\);", src))
        if len(g) != 1 or (getter and g != {getter}):
            raise TranslateError(f"{path}: binding of new_storage_gas_per_byte changed")
        getter = g.pop()
    if [x for x in gets if x[0] == getter][0][1:3] != (False, False):
        raise TranslateError("surcharge getter is not an infallible Word getter")
    c = re.sub(r"\s+", "", strip_comments(read("fuel-tx/src/consts.rs")))
    if "pubconstBALANCE_ENTRY_SIZE:usize=AssetId::LEN+WORD_SIZE;" not in c:
        raise TranslateError("fuel-tx consts.rs: BALANCE_ENTRY_SIZE definition changed")
    t = re.sub(r"\s+", "", strip_comments(read("fuel-types/src/bytes.rs")))
    if "pubconstWORD_SIZE:usize=core::mem::size_of::<Word>();" not in t:
        raise TranslateError("fuel-types bytes.rs: WORD_SIZE definition changed")
    n = re.sub(r"\s+", "", strip_comments(read("fuel-types/src/numeric_types.rs"))) if os.path.exists(os.path.join(REPO, "fuel-types/src/numeric_types.rs")) else ""
    return getter, 32 + 8



def dep_resolve():
    """check DependentCost::{base, resolve, resolve_without_base} have the transcribed shape"""
    src = strip_comments(read(GAS_RS))
    m = need(re.search(r"pub fn resolve\(&self, units: Word\) -> Word \{(.*?)\n    \}", src, re.S), "DependentCost::resolve")
    if re.sub(r"\s+", "", m.group(1)) != "letbase=self.base();letdependent_value=self.resolve_without_base(units);base.saturating_add(dependent_value)":
        raise TranslateError("DependentCost::resolve body changed")
    m = need(re.search(r"pub fn resolve_without_base\(&self, units: Word\) -> Word \{(.*?)\n    \}", src, re.S), "DependentCost::resolve_without_base")
    b = re.sub(r"\s+", "", m.group(1))
    exp = ("matchself{DependentCost::LightOperation{units_per_gas,..}=>{units.checked_div(*units_per_gas)"
           ".expect(\"units_per_gascannotbezero\")}DependentCost::HeavyOperation{gas_per_unit,..}=>{units.saturating_mul(*gas_per_unit)}}")
    if b != exp:
        raise TranslateError("DependentCost::resolve_without_base body changed: %r" % b)


def default_table(fields):
    src = strip_comments(read(DEFAULT_RS))
    m = need(re.search(r"pub fn default_gas_costs\(\) -> GasCostsValues \{\s*GasCostsValuesV7 \{(.*)\}\s*\.into\(\)\s*\}", src, re.S), "default_gas_costs() literal")
    body = m.group(1)
    fixed, dep = {}, {}
    for name, kind, base, which, per in re.findall(r"(\w+):\s*DependentCost::(Light|Heavy)Operation\s*\{\s*base:\s*(\d+),\s*(units_per_gas|gas_per_unit):\s*(\d+),?\s*\}\s*,", body):
        if (kind == "Light") != (which == "units_per_gas"):
            raise TranslateError(f"default {name}: {kind}Operation with {which}")
        if name in dep:
            raise TranslateError(f"default table: duplicate {name}")
        dep[name] = (kind, int(base), int(per))
    rest = re.sub(r"\w+:\s*DependentCost::(Light|Heavy)Operation\s*\{[^}]*\}\s*,", "", body)
    for name, val in re.findall(r"(\w+):\s*([0-9_]+)\s*,", rest):
        if name in fixed:
            raise TranslateError(f"default table: duplicate {name}")
        fixed[name] = rust_int(val)
    rest = re.sub(r"\w+:\s*[0-9_]+\s*,", "", rest)
    if rest.strip():
        raise TranslateError("default table: unrecognised text %r" % rest.strip()[:80])
    for f, ty in fields:
        if ty == "Word" and f not in fixed:
            raise TranslateError(f"default table lacks Word field {f}")
        if ty == "DependentCost" and f not in dep:
            raise TranslateError(f"default table lacks DependentCost field {f}")
    if len(fixed) + len(dep) != len(fields):
        raise TranslateError("default table has fields not in GasCostsValuesV7")
    return fixed, dep


def fn_body(src, name, what):
    m = need(re.search(r"fn %s\s*(?:<[^>]*>)?\((.*?)\n    \}" % name, src, re.S), what)
    return m.group(1)


def charge_sites(gets):
    src = strip_comments(read(IMPL_RS))
    parts = re.split(r"impl<M, S, Tx, Ecal, V> Execute<M, S, Tx, Ecal, V> for fuel_asm::op::(\w+)", src)
    out, ed19 = [], None
    cache = {}
    for i in range(1, len(parts), 2):
        op, body = parts[i], parts[i + 1]
        n_charge = len(re.findall(r"gas_charge\s*\(", body))
        tup = None
        m = re.search(r"let \(([\w\s,]+)\) = self\.unpack\(\);", body)
        if m:
            tup = [x.strip() for x in m.group(1).split(",") if x.strip()]
        else:
            m = re.search(r"let (\w+) = self\.unpack\(\);", body)
            if m:
                tup = [m.group(1)]

        def getter(g):
            if g not in gets:
                raise TranslateError(f"{op}: unknown GasCostsValues getter {g}")
            return gets[g]

        m = re.search(r"interpreter\s*\.gas_charge\(\s*interpreter\.gas_costs\(\)\.(\w+)\(\)(\.map_err\(PanicReason::from\)\?)?\s*\)\?;", body)
        if m:
            if n_charge != 1:
                raise TranslateError(f"{op}: expected exactly one charge statement, found {n_charge}")
            field, opt, isdep = getter(m.group(1))
            if isdep or opt != bool(m.group(2)):
                raise TranslateError(f"{op}: getter {m.group(1)} kind mismatch")
            out.append((op, ".fixedOpt" if opt else ".fixed", m.group(1), None))
            continue
        m = re.search(r"interpreter\s*\.dependent_gas_charge\(\s*interpreter\.gas_costs\(\)\.(\w+)\(\)(\.map_err\(PanicReason::from\)\?)?,\s*(.*?),?\s*\)\?;", body, re.S)
        if m:
            if n_charge != 1:
                raise TranslateError(f"{op}: expected exactly one charge statement, found {n_charge}")
            field, opt, isdep = getter(m.group(1))
            if not isdep or opt != bool(m.group(2)):
                raise TranslateError(f"{op}: getter {m.group(1)} kind mismatch")
            expr = re.sub(r"\s+", "", m.group(3))
            pos = None
            r = re.fullmatch(r"interpreter\.registers\[(\w+)\]", expr)
            if r:
                var = r.group(1)
            else:
                if not re.fullmatch(r"\w+", expr):
                    raise TranslateError(f"{op}: unit expression {expr!r} not understood")
                d = need(re.search(r"let (?:mut )?%s(?::\s*\w+)? = (.*?);" % expr, body, re.S), f"{op}: definition of {expr}")
                rhs = re.sub(r"\s+", "", d.group(1))
                r = (re.fullmatch(r"interpreter\.registers\[(\w+)\]", rhs) or re.fullmatch(r"Word::from\((\w+)\)", rhs)
                     or re.fullmatch(r"(\w+)\.into\(\)", rhs))
                if r:
                    var = r.group(1)
                elif rhs == "self.unpack().into()":
                    var, tup = "_self", ["_self"]
                else:
                    raise TranslateError(f"{op}: unit definition {rhs!r} not understood")
            if tup is None or var not in tup:
                raise TranslateError(f"{op}: unit operand {var} is not an unpacked operand")
            pos = tup.index(var)
            z = re.search(r"if (\w+) == 0 \{\s*\1 = (\d+);\s*\}", body)
            if z:
                if op != "ED19" or z.group(1) != expr:
                    raise TranslateError(f"{op}: unexpected zero-length substitution")
                ed19 = int(z.group(2))
            out.append((op, ".depOpt" if opt else ".dep", m.group(1), pos))
            continue
        if n_charge != 0:
            raise TranslateError(f"{op}: charge statement of unknown shape")
        m = need(re.search(r"interpreter\s*\.(\w+)\(", body), f"{op}: delegated call")
        callee = m.group(1)
        if callee == "external_call":
            e = strip_comments(read("fuel-vm/src/interpreter/ecal.rs"))
            if "gas_charge" in e:
                raise TranslateError("ecal.rs now charges gas; model says it does not")
            out.append((op, ".none", None, None))
            continue
        if callee not in DELEGATED:
            raise TranslateError(f"{op}: delegates to unknown method {callee}")
        path, fn = DELEGATED[callee]
        if path not in cache:
            cache[path] = strip_comments(read(path))
        fb = fn_body(cache[path], fn, f"{path} fn {fn}")
        g = re.search(r"let gas_cost = self\.gas_costs\(\)\.(\w+)\(\);", fb)
        opt = False
        if not g:
            g = need(re.search(r"let gas_cost = self\s*\.interpreter_params\s*\.gas_costs\s*\.(\w+)\(\)\s*\.map_err\(PanicReason::from\)\?;", fb), f"{fn}: gas_cost binding")
            opt = True
        field, gopt, isdep = getter(g.group(1))
        if not isdep or gopt != opt:
            raise TranslateError(f"{fn}: getter {g.group(1)} kind mismatch")
        after = fb[g.end():]
        if not re.match(r"\s*(let new_storage_gas_per_byte = self\.gas_costs\(\)\.new_storage_per_byte\(\);)?\s*self\.gas_charge\(gas_cost\.base\(\)\)\?;", after):
            raise TranslateError(f"{fn}: `self.gas_charge(gas_cost.base())?` no longer directly follows the gas_cost binding")
        out.append((op, ".baseThenDepOpt" if opt else ".baseThenDep", g.group(1), None))
    if len(out) < 100:
        raise TranslateError("opcodes_impl.rs: too few Execute impls found")
    if ed19 is None:
        raise TranslateError("ED19: zero-length substitution not found")
    return out, ed19


def consts():
    c = {}
    s = strip_comments(read("fuel-vm/src/interpreter/gas.rs"))
    m = need(re.search(r"pub\(crate\) fn gas_charge\((.*?)\n\}", s, re.S), "gas.rs gas_charge")
    b = re.sub(r"\s+", "", m.group(1))
    exp = ("ifgas_to_use>cgas_before{*reg_ggas=ggas_before.saturating_sub(cgas_before);*reg_cgas=0;Err(PanicReason::OutOfGas.into())}"
           "else{*reg_ggas=ggas_before-gas_to_use;*reg_cgas=cgas_before-gas_to_use;Ok(())}")
    if exp not in b:
        raise TranslateError("gas.rs gas_charge body changed")
    return c


def lean_arm(a):
    return ".undef" if a[0] == "undef" else '.%s "%s"' % (a[0], a[1])


def lean_slen(l):
    return {"const": ".const %d", "arg": ".arg %d", "update": ".update %d %d"}[l[0]] % tuple(l[1:])


def lean_step(st):
    if st[0] == "read":
        return ".read"
    if st[0] == "clear":
        return ".clear %d" % st[1]
    return ".write (%s)" % lean_slen(st[1])


def main():
    fields = v7_fields()
    vfields = version_fields()
    if vfields[7] != fields:
        raise TranslateError("GasCostsValuesV7 field list read two ways differs")
    gets = getters()
    allgets = getters_all(vfields)
    for name, (f7, opt7, dep7) in gets.items():
        g = [x for x in allgets if x[0] == name][0]
        if g[3][6] != ("field", f7) or g[1] != dep7 or g[2] != opt7:
            raise TranslateError(f"getter {name}: V7 arm read two ways differs")
    dep_resolve()
    fixed, dep = default_table(fields)
    sites, ed19 = charge_sites(gets)
    consts()
    micro = storage_micro(allgets)
    sur_getter, entry_bytes = surcharge(allgets)
    storage_ops = [op for op, kind, g, pos in sites if kind == ".fixed" and g == "noop" and op != "NOOP"]
    shapes = storage_shapes(storage_ops)
    L = ["/- GENERATED by tools/gen/gas.py from fuel-tx/.../gas.rs, gas/default_gas_costs.rs and fuel-vm/.../opcodes_impl.rs, storage.rs, flow.rs, contract.rs, blockchain.rs — do not edit -/",
         "import FuelVerif.Model.GasBase", "namespace FuelVerif.Gen", "open FuelVerif.Gas", ""]
    L.append("/-- `Word` fields of `GasCostsValuesV7`, declaration order -/")
    L.append("def gasFixedFields : List String := [%s]" % ", ".join('"%s"' % f for f, t in fields if t == "Word"))
    L.append("/-- `DependentCost` fields of `GasCostsValuesV7`, declaration order -/")
    L.append("def gasDepFields : List String := [%s]" % ", ".join('"%s"' % f for f, t in fields if t == "DependentCost"))
    L.append("")
    L.append("/-- fields of `GasCostsValuesV1` … `GasCostsValuesV7` (declaration order): name, is it a `DependentCost` -/")
    L.append("def gasVersionFields : List (List (String × Bool)) := [")
    L.append(",\n".join("  [%s]" % ", ".join('("%s", %s)' % (f, "true" if t == "DependentCost" else "false") for f, t in vfields[k]) for k in VERSIONS))
    L.append("]")
    L.append("")
    L.append("/-- `impl GasCostsValues`: every getter, whether it returns a `DependentCost`, whether it returns a `Result<_, GasCostNotDefined>`,")
    L.append("    and what its match arm returns for V1 … V7 -/")
    L.append("def gasGetters : List (String × Bool × Bool × List GetterArm) := [")
    L.append(",\n".join('  ("%s", %s, %s, [%s])' % (n, str(d).lower(), str(r).lower(), ", ".join(lean_arm(a) for a in arms)) for n, d, r, arms in allgets))
    L.append("]")
    L.append("")
    L.append("/-- `default_gas_costs()` -/")
    L.append("def defaultFixed : List (String × Nat) := [")
    L.append(",\n".join('  ("%s", %d)' % (f, fixed[f]) for f, t in fields if t == "Word"))
    L.append("]")
    L.append("def defaultDep : List (String × DepCost) := [")
    L.append(",\n".join('  ("%s", .%s %d %d)' % (f, "light" if dep[f][0] == "Light" else "heavy", dep[f][1], dep[f][2]) for f, t in fields if t == "DependentCost"))
    L.append("]")
    L.append("")
    L.append("/-- charge site of every `impl Execute for fuel_asm::op::X`, by mnemonic; the string is the `GasCostsValues` getter called -/")
    L.append("def opcodeCharge : List (String × ChargeKind) := [")
    rows = []
    for op, kind, field, pos in sites:
        if kind == ".none":
            rows.append('  ("%s", .none)' % op)
        elif pos is None:
            rows.append('  ("%s", %s "%s")' % (op, kind, field))
        else:
            rows.append('  ("%s", %s "%s" %d)' % (op, kind, field, pos))
    L.append(",\n".join(rows))
    L.append("]")
    L.append("")
    L.append("/-- ED19: `if len == 0 { len = N }` before the dependent charge -/")
    L.append("def ed19ZeroLenUnits : Nat := %d" % ed19)
    L.append("")
    L.append("/-- storage.rs `storage_read_slot`: getter charged (dependent, units = byte length of the value) on a slot-cache hit / miss -/")
    L.append('def storageReadHotGetter : String := "%s"' % micro["«HOT»"])
    L.append('def storageReadColdGetter : String := "%s"' % micro["«COLD»"])
    L.append("/-- storage.rs `storage_write_slot`: dependent getter over the new length, then `g().saturating_mul(new_len.saturating_sub(old_len))` -/")
    L.append('def storageWriteGetter : String := "%s"' % micro["«WRITE»"])
    L.append('def storageNewBytesGetter : String := "%s"' % micro["«NEWBYTES»"])
    L.append("/-- storage.rs `storage_clear_slot_range`: dependent getter over the number of slots -/")
    L.append('def storageClearGetter : String := "%s"' % micro["«CLEAR»"])
    L.append("")
    L.append("/-- the storage opcodes (`execute` charges `noop()` first): operand holding the key pointer, operand holding the slot count when")
    L.append("    the opcode loops over `key_range(key, range)`, the micro-operations per slot (inside the loop) and after it, in program order -/")
    L.append("def storageOpTable : List (String × StorageOp) := [")
    L.append(",\n".join('  ("%s", ⟨%d, %s, [%s], [%s]⟩)' % (op, k, "none" if r is None else "some %d" % r, ", ".join(lean_step(x) for x in ins), ", ".join(lean_step(x) for x in aft))
                        for op, k, r, ins, aft in shapes))
    L.append("]")
    L.append("")
    L.append("/-- TR / CALL / MINT: `gas_charge(ENTRY_BYTES.saturating_mul(g()))` when a contract balance entry is created -/")
    L.append('def newEntryGetter : String := "%s"' % sur_getter)
    L.append("def balanceEntryBytes : Nat := %d" % entry_bytes)
    L.append("")
    L.append("end FuelVerif.Gen")
    changed = write_if_changed("Gas.lean", "\n".join(L) + "\n")
    # harness glue
    fx = [f for f, t in fields if t == "Word"]
    dp = [f for f, t in fields if t == "DependentCost"]
    R = ["// GENERATED by tools/gen/gas.py from GasCostsValuesV1..V7 - do not edit",
         "#![allow(dead_code)]",
         "use fuel_tx::{DependentCost, GasCostsValues, consensus_parameters::gas::{%s}};" % ", ".join("GasCostsValuesV%d" % k for k in VERSIONS), "",
         "pub const FIXED: &[&str] = &[%s];" % ", ".join('"%s"' % f for f in fx),
         "pub const DEP: &[&str] = &[%s];" % ", ".join('"%s"' % f for f in dp), "",
         "pub fn fixed_values(g: &GasCostsValues) -> Option<Vec<u64>> {",
         "    match g { GasCostsValues::V7(v) => Some(vec![%s]), _ => None }" % ", ".join("v.%s" % f for f in fx), "}",
         "pub fn dep_values(g: &GasCostsValues) -> Option<Vec<DependentCost>> {",
         "    match g { GasCostsValues::V7(v) => Some(vec![%s]), _ => None }" % ", ".join("v.%s" % f for f in dp), "}",
         "pub fn make(f: &[u64], d: &[DependentCost]) -> GasCostsValues {",
         "    GasCostsValuesV7 {"]
    for i, f in enumerate(fx):
        R.append("        %s: f[%d]," % (f, i))
    for i, f in enumerate(dp):
        R.append("        %s: d[%d]," % (f, i))
    R += ["    }.into()", "}", ""]
    R.append("/// version number of the schedule")
    R.append("pub fn version(g: &GasCostsValues) -> usize { match g { %s } }" % " ".join("GasCostsValues::V%d(_) => %d," % (k, k) for k in VERSIONS))
    R.append("/// names of the `Word` / `DependentCost` fields of `GasCostsValuesV{k}`, declaration order")
    R.append("pub fn fixed_names(k: usize) -> &'static [&'static str] { match k { %s _ => &[] } }" % " ".join("%d => &[%s]," % (k, ", ".join('"%s"' % f for f, t in vfields[k] if t == "Word")) for k in VERSIONS))
    R.append("pub fn dep_names(k: usize) -> &'static [&'static str] { match k { %s _ => &[] } }" % " ".join("%d => &[%s]," % (k, ", ".join('"%s"' % f for f, t in vfields[k] if t == "DependentCost")) for k in VERSIONS))
    R.append("/// the fields of any version, in the order of `fixed_names` / `dep_names`")
    R.append("pub fn fixed_values_any(g: &GasCostsValues) -> Vec<u64> {")
    R.append("    match g {")
    for k in VERSIONS:
        R.append("        GasCostsValues::V%d(v) => vec![%s]," % (k, ", ".join("v.%s" % f for f, t in vfields[k] if t == "Word")))
    R += ["    }", "}"]
    R.append("pub fn dep_values_any(g: &GasCostsValues) -> Vec<DependentCost> {")
    R.append("    match g {")
    for k in VERSIONS:
        R.append("        GasCostsValues::V%d(v) => vec![%s]," % (k, ", ".join("v.%s" % f for f, t in vfields[k] if t == "DependentCost")))
    R += ["    }", "}"]
    R.append("/// `GasCostsValuesV{k}` with the given field values (orders as above)")
    R.append("pub fn make_version(k: usize, f: &[u64], d: &[DependentCost]) -> GasCostsValues {")
    R.append("    match k {")
    for k in VERSIONS:
        wf = [f for f, t in vfields[k] if t == "Word"]
        df = [f for f, t in vfields[k] if t == "DependentCost"]
        R.append("        %d => GasCostsValuesV%d { %s }.into()," % (k, k, ", ".join(["%s: f[%d]" % (f, i) for i, f in enumerate(wf)] + ["%s: d[%d]" % (f, i) for i, f in enumerate(df)])))
    R += ['        _ => panic!("no such gas costs version"),', "    }", "}"]
    p = os.path.join(VERIF, "harness", "src", "gen", "gas_gen.rs")
    text = "\n".join(R) + "\n"
    old = open(p).read() if os.path.exists(p) else None
    if old != text:
        open(p, "w").write(text)
    print("gas: %d fixed + %d dependent fields, %d versions, %d getters, %d opcode charge sites, %d storage opcodes%s"
          % (len(fx), len(dp), len(VERSIONS), len(allgets), len(sites), len(shapes), " (changed)" if changed else ""))


if __name__ == "__main__":
    try:
        main()
    except TranslateError as e:
        print("TRANSLATE-ERROR gas: %s" % e)
        sys.exit(3)
