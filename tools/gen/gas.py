#!/usr/bin/env python3
"""T4: gas schedule -> Gen/Gas.lean (+ harness glue harness/src/gen/gas_gen.rs)

 * fuel-tx/src/transaction/consensus_parameters/gas/default_gas_costs.rs : the literal default table
 * fuel-tx/src/transaction/consensus_parameters/gas.rs                   : GasCostsValuesV7 field list, getters
 * fuel-vm/src/interpreter/executors/opcodes_impl.rs                     : per `impl Execute for op::X` the charge site
   (for opcodes that delegate the charge: flow.rs / blockchain.rs / blob.rs `gas_charge(gas_cost.base())`)
"""
import os, re, sys
from common import *

GAS_RS = "fuel-tx/src/transaction/consensus_parameters/gas.rs"
DEFAULT_RS = "fuel-tx/src/transaction/consensus_parameters/gas/default_gas_costs.rs"
IMPL_RS = "fuel-vm/src/interpreter/executors/opcodes_impl.rs"

# opcodes whose `execute` only forwards to an interpreter method that charges `c.base()` then the dependent part
DELEGATED = {
    "prepare_call": ("fuel-vm/src/interpreter/flow.rs", "prepare_call_inner"),
    "code_copy": ("fuel-vm/src/interpreter/blockchain.rs", "code_copy"),
    "code_root": ("fuel-vm/src/interpreter/blockchain.rs", "code_root"),
    "code_size": ("fuel-vm/src/interpreter/blockchain.rs", "code_size"),
    "load_contract_code": ("fuel-vm/src/interpreter/blockchain.rs", "load_contract_code"),
    "blob_size": ("fuel-vm/src/interpreter/blob.rs", "blob_size"),
    "blob_load_data": ("fuel-vm/src/interpreter/blob.rs", "blob_load_data"),
}


def v7_fields():
    src = strip_comments(read(GAS_RS))
    m = need(re.search(r"pub struct GasCostsValuesV7 \{(.*?)\n\}", src, re.S), "gas.rs struct GasCostsValuesV7")
    fields = re.findall(r"pub (\w+):\s*(Word|DependentCost),", m.group(1))
    if len(fields) < 100:
        raise TranslateError("GasCostsValuesV7 field list suspiciously small")
    rest = re.sub(r"#\[serde\([^\]]*\)\]", "", m.group(1))
    rest = re.sub(r"pub \w+:\s*(Word|DependentCost),", "", rest)
    if rest.strip():
        raise TranslateError("GasCostsValuesV7: unrecognised member text %r" % rest.strip()[:80])
    return fields


def getters():
    """getter name -> (V7 field, optional?)  from `impl GasCostsValues`"""
    src = strip_comments(read(GAS_RS))
    out = {}
    for name, ret, body in re.findall(r"pub fn (\w+)\(&self\) -> ([^{]+?)\s*\{\s*match self \{(.*?)\n        \}\n    \}", src, re.S):
        m = re.search(r"GasCostsValues::V7\((\w+)\) => (Ok\()?(\w+)\.(\w+)\)?,", body)
        if not m or m.group(1) != m.group(3):
            continue
        opt = ret.strip().startswith("Result<")
        if opt != bool(m.group(2)):
            raise TranslateError(f"getter {name}: Ok-wrapping does not match return type")
        out[name] = (m.group(4), opt, "DependentCost" in ret)
    return out


def dep_resolve():
    """check DependentCost::{base, resolve, resolve_without_base} have the transcribed shape"""
    src = strip_comments(read(GAS_RS))
    m = need(re.search(r"pub fn resolve\(&self, units: Word\) -> Word \{(.*?)\n    \}", src, re.S), "DependentCost::resolve")
    if re.sub(r"\s+", "", m.group(1)) != "letbase=self.base();letdependent_value=self.resolve_without_base(units);base.saturating_add(dependent_value)":
        raise TranslateError("DependentCost::resolve body changed")
    m = need(re.search(r"pub fn resolve_without_base\(&self, units: Word\) -> Word \{(.*?)\n    \}", src, re.S), "DependentCost::resolve_without_base")
    b = re.sub(r"\s+", "", m.group(1))
    exp = ("matchself{DependentCost::LightOperation{units_per_gas,..}=>{units.checked_div(*units_per_gas)"
           ".expect(\"units_per_gascannotbezero\")}DependentCost::HeavyOperation{gas_per_unit,..}=>{units.saturating_mul(*gas_per_unit)}}")
    if b != exp:
        raise TranslateError("DependentCost::resolve_without_base body changed: %r" % b)


def default_table(fields):
    src = strip_comments(read(DEFAULT_RS))
    m = need(re.search(r"pub fn default_gas_costs\(\) -> GasCostsValues \{\s*GasCostsValuesV7 \{(.*)\}\s*\.into\(\)\s*\}", src, re.S), "default_gas_costs() literal")
    body = m.group(1)
    fixed, dep = {}, {}
    for name, kind, base, which, per in re.findall(r"(\w+):\s*DependentCost::(Light|Heavy)Operation\s*\{\s*base:\s*(\d+),\s*(units_per_gas|gas_per_unit):\s*(\d+),?\s*\}\s*,", body):
        if (kind == "Light") != (which == "units_per_gas"):
            raise TranslateError(f"default {name}: {kind}Operation with {which}")
        if name in dep:
            raise TranslateError(f"default table: duplicate {name}")
        dep[name] = (kind, int(base), int(per))
    rest = re.sub(r"\w+:\s*DependentCost::(Light|Heavy)Operation\s*\{[^}]*\}\s*,", "", body)
    for name, val in re.findall(r"(\w+):\s*([0-9_]+)\s*,", rest):
        if name in fixed:
            raise TranslateError(f"default table: duplicate {name}")
        fixed[name] = rust_int(val)
    rest = re.sub(r"\w+:\s*[0-9_]+\s*,", "", rest)
    if rest.strip():
        raise TranslateError("default table: unrecognised text %r" % rest.strip()[:80])
    for f, ty in fields:
        if ty == "Word" and f not in fixed:
            raise TranslateError(f"default table lacks Word field {f}")
        if ty == "DependentCost" and f not in dep:
            raise TranslateError(f"default table lacks DependentCost field {f}")
    if len(fixed) + len(dep) != len(fields):
        raise TranslateError("default table has fields not in GasCostsValuesV7")
    return fixed, dep


def fn_body(src, name, what):
    m = need(re.search(r"fn %s\s*(?:<[^>]*>)?\((.*?)\n    \}" % name, src, re.S), what)
    return m.group(1)


def charge_sites(gets):
    src = strip_comments(read(IMPL_RS))
    parts = re.split(r"impl<M, S, Tx, Ecal, V> Execute<M, S, Tx, Ecal, V> for fuel_asm::op::(\w+)", src)
    out, ed19 = [], None
    cache = {}
    for i in range(1, len(parts), 2):
        op, body = parts[i], parts[i + 1]
        n_charge = len(re.findall(r"gas_charge\s*\(", body))
        tup = None
        m = re.search(r"let \(([\w\s,]+)\) = self\.unpack\(\);", body)
        if m:
            tup = [x.strip() for x in m.group(1).split(",") if x.strip()]
        else:
            m = re.search(r"let (\w+) = self\.unpack\(\);", body)
            if m:
                tup = [m.group(1)]

        def getter(g):
            if g not in gets:
                raise TranslateError(f"{op}: unknown GasCostsValues getter {g}")
            return gets[g]

        m = re.search(r"interpreter\s*\.gas_charge\(\s*interpreter\.gas_costs\(\)\.(\w+)\(\)(\.map_err\(PanicReason::from\)\?)?\s*\)\?;", body)
        if m:
            if n_charge != 1:
                raise TranslateError(f"{op}: expected exactly one charge statement, found {n_charge}")
            field, opt, isdep = getter(m.group(1))
            if isdep or opt != bool(m.group(2)):
                raise TranslateError(f"{op}: getter {m.group(1)} kind mismatch")
            out.append((op, ".fixedOpt" if opt else ".fixed", field, None))
            continue
        m = re.search(r"interpreter\s*\.dependent_gas_charge\(\s*interpreter\.gas_costs\(\)\.(\w+)\(\)(\.map_err\(PanicReason::from\)\?)?,\s*(.*?),?\s*\)\?;", body, re.S)
        if m:
            if n_charge != 1:
                raise TranslateError(f"{op}: expected exactly one charge statement, found {n_charge}")
            field, opt, isdep = getter(m.group(1))
            if not isdep or opt != bool(m.group(2)):
                raise TranslateError(f"{op}: getter {m.group(1)} kind mismatch")
            expr = re.sub(r"\s+", "", m.group(3))
            pos = None
            r = re.fullmatch(r"interpreter\.registers\[(\w+)\]", expr)
            if r:
                var = r.group(1)
            else:
                if not re.fullmatch(r"\w+", expr):
                    raise TranslateError(f"{op}: unit expression {expr!r} not understood")
                d = need(re.search(r"let (?:mut )?%s(?::\s*\w+)? = (.*?);" % expr, body, re.S), f"{op}: definition of {expr}")
                rhs = re.sub(r"\s+", "", d.group(1))
                r = (re.fullmatch(r"interpreter\.registers\[(\w+)\]", rhs) or re.fullmatch(r"Word::from\((\w+)\)", rhs)
                     or re.fullmatch(r"(\w+)\.into\(\)", rhs))
                if r:
                    var = r.group(1)
                elif rhs == "self.unpack().into()":
                    var, tup = "_self", ["_self"]
                else:
                    raise TranslateError(f"{op}: unit definition {rhs!r} not understood")
            if tup is None or var not in tup:
                raise TranslateError(f"{op}: unit operand {var} is not an unpacked operand")
            pos = tup.index(var)
            z = re.search(r"if (\w+) == 0 \{\s*\1 = (\d+);\s*\}", body)
            if z:
                if op != "ED19" or z.group(1) != expr:
                    raise TranslateError(f"{op}: unexpected zero-length substitution")
                ed19 = int(z.group(2))
            out.append((op, ".depOpt" if opt else ".dep", field, pos))
            continue
        if n_charge != 0:
            raise TranslateError(f"{op}: charge statement of unknown shape")
        m = need(re.search(r"interpreter\s*\.(\w+)\(", body), f"{op}: delegated call")
        callee = m.group(1)
        if callee == "external_call":
            e = strip_comments(read("fuel-vm/src/interpreter/ecal.rs"))
            if "gas_charge" in e:
                raise TranslateError("ecal.rs now charges gas; model says it does not")
            out.append((op, ".none", None, None))
            continue
        if callee not in DELEGATED:
            raise TranslateError(f"{op}: delegates to unknown method {callee}")
        path, fn = DELEGATED[callee]
        if path not in cache:
            cache[path] = strip_comments(read(path))
        fb = fn_body(cache[path], fn, f"{path} fn {fn}")
        g = re.search(r"let gas_cost = self\.gas_costs\(\)\.(\w+)\(\);", fb)
        opt = False
        if not g:
            g = need(re.search(r"let gas_cost = self\s*\.interpreter_params\s*\.gas_costs\s*\.(\w+)\(\)\s*\.map_err\(PanicReason::from\)\?;", fb), f"{fn}: gas_cost binding")
            opt = True
        field, gopt, isdep = getter(g.group(1))
        if not isdep or gopt != opt:
            raise TranslateError(f"{fn}: getter {g.group(1)} kind mismatch")
        after = fb[g.end():]
        if not re.match(r"\s*(let new_storage_gas_per_byte = self\.gas_costs\(\)\.new_storage_per_byte\(\);)?\s*self\.gas_charge\(gas_cost\.base\(\)\)\?;", after):
            raise TranslateError(f"{fn}: `self.gas_charge(gas_cost.base())?` no longer directly follows the gas_cost binding")
        out.append((op, ".baseThenDepOpt" if opt else ".baseThenDep", field, None))
    if len(out) < 100:
        raise TranslateError("opcodes_impl.rs: too few Execute impls found")
    if ed19 is None:
        raise TranslateError("ED19: zero-length substitution not found")
    return out, ed19


def consts():
    c = {}
    s = strip_comments(read("fuel-vm/src/interpreter/gas.rs"))
    m = need(re.search(r"pub\(crate\) fn gas_charge\((.*?)\n\}", s, re.S), "gas.rs gas_charge")
    b = re.sub(r"\s+", "", m.group(1))
    exp = ("ifgas_to_use>cgas_before{*reg_ggas=ggas_before.saturating_sub(cgas_before);*reg_cgas=0;Err(PanicReason::OutOfGas.into())}"
           "else{*reg_ggas=ggas_before-gas_to_use;*reg_cgas=cgas_before-gas_to_use;Ok(())}")
    if exp not in b:
        raise TranslateError("gas.rs gas_charge body changed")
    return c


def main():
    fields = v7_fields()
    gets = getters()
    dep_resolve()
    fixed, dep = default_table(fields)
    sites, ed19 = charge_sites(gets)
    consts()
    L = ["/- GENERATED by tools/gen/gas.py from fuel-tx/.../gas.rs, gas/default_gas_costs.rs and fuel-vm/.../opcodes_impl.rs — do not edit -/",
         "import FuelVerif.Model.GasBase", "namespace FuelVerif.Gen", "open FuelVerif.Gas", ""]
    L.append("/-- `Word` fields of `GasCostsValuesV7`, declaration order -/")
    L.append("def gasFixedFields : List String := [%s]" % ", ".join('"%s"' % f for f, t in fields if t == "Word"))
    L.append("/-- `DependentCost` fields of `GasCostsValuesV7`, declaration order -/")
    L.append("def gasDepFields : List String := [%s]" % ", ".join('"%s"' % f for f, t in fields if t == "DependentCost"))
    L.append("")
    L.append("/-- `default_gas_costs()` -/")
    L.append("def defaultFixed : List (String × Nat) := [")
    L.append(",\n".join('  ("%s", %d)' % (f, fixed[f]) for f, t in fields if t == "Word"))
    L.append("]")
    L.append("def defaultDep : List (String × DepCost) := [")
    L.append(",\n".join('  ("%s", .%s %d %d)' % (f, "light" if dep[f][0] == "Light" else "heavy", dep[f][1], dep[f][2]) for f, t in fields if t == "DependentCost"))
    L.append("]")
    L.append("")
    L.append("/-- charge site of every `impl Execute for fuel_asm::op::X`, by mnemonic -/")
    L.append("def opcodeCharge : List (String × ChargeKind) := [")
    rows = []
    for op, kind, field, pos in sites:
        if kind == ".none":
            rows.append('  ("%s", .none)' % op)
        elif pos is None:
            rows.append('  ("%s", %s "%s")' % (op, kind, field))
        else:
            rows.append('  ("%s", %s "%s" %d)' % (op, kind, field, pos))
    L.append(",\n".join(rows))
    L.append("]")
    L.append("")
    L.append("/-- ED19: `if len == 0 { len = N }` before the dependent charge -/")
    L.append("def ed19ZeroLenUnits : Nat := %d" % ed19)
    L.append("")
    L.append("end FuelVerif.Gen")
    changed = write_if_changed("Gas.lean", "\n".join(L) + "\n")
    # harness glue
    fx = [f for f, t in fields if t == "Word"]
    dp = [f for f, t in fields if t == "DependentCost"]
    R = ["// GENERATED by tools/gen/gas.py from GasCostsValuesV7 - do not edit",
         "use fuel_tx::{DependentCost, GasCostsValues, consensus_parameters::gas::GasCostsValuesV7};", "",
         "pub const FIXED: &[&str] = &[%s];" % ", ".join('"%s"' % f for f in fx),
         "pub const DEP: &[&str] = &[%s];" % ", ".join('"%s"' % f for f in dp), "",
         "pub fn fixed_values(g: &GasCostsValues) -> Option<Vec<u64>> {",
         "    match g { GasCostsValues::V7(v) => Some(vec![%s]), _ => None }" % ", ".join("v.%s" % f for f in fx), "}",
         "pub fn dep_values(g: &GasCostsValues) -> Option<Vec<DependentCost>> {",
         "    match g { GasCostsValues::V7(v) => Some(vec![%s]), _ => None }" % ", ".join("v.%s" % f for f in dp), "}",
         "pub fn make(f: &[u64], d: &[DependentCost]) -> GasCostsValues {",
         "    GasCostsValuesV7 {"]
    for i, f in enumerate(fx):
        R.append("        %s: f[%d]," % (f, i))
    for i, f in enumerate(dp):
        R.append("        %s: d[%d]," % (f, i))
    R += ["    }.into()", "}"]
    p = os.path.join(VERIF, "harness", "src", "gen", "gas_gen.rs")
    text = "\n".join(R) + "\n"
    old = open(p).read() if os.path.exists(p) else None
    if old != text:
        open(p, "w").write(text)
    print("gas: %d fixed + %d dependent fields, %d opcode charge sites%s" % (len(fx), len(dp), len(sites), " (changed)" if changed else ""))


if __name__ == "__main__":
    try:
        main()
    except TranslateError as e:
        print("TRANSLATE-ERROR gas: %s" % e)
        sys.exit(3)
