#!/usr/bin/env python3
"""T-serde: serde data-model shapes of the protocol types -> Gen/SerdeShapes.lean

For every type reachable (through field types) from the roots

    Transaction, Receipt, Input, Output, Policies, ConsensusParameters, GasCosts

this translator reads the Rust *text* of fuel-tx / fuel-types / fuel-asm / fuel-vm and computes the shape
(`FuelVerif.Serde.Shape`, Model/Serde.lean) that the type's `serde::Serialize` emits and its
`serde::Deserialize` requests in a NON-self-describing binary format (postcard, bincode):

  * `#[derive(serde::Serialize, serde::Deserialize)]` struct  -> tuple of the field shapes in declaration
    order (named, tuple and unit structs; a newtype struct is its field), enum -> variants in declaration
    order (unit -> `tuple []`, newtype -> the field, tuple/struct variant -> tuple of the fields);
  * generics are instantiated (`Coin<Signed>`), associated types are projected through the
    `impl Trait for X { type A = B; }` blocks (`Specification::Witness`), type aliases are followed,
    paths are resolved with a small module/`use`/glob resolver (so that the two `Contract`s, the two
    `Signed`s ... are told apart);
  * std types: uN -> uN, usize -> u64, bool, String -> bytes, Vec<T> -> seq, Option<T>, Box/Arc/Rc<T> -> T,
    [T; N] -> N-tuple, (A, B) -> tuple, PhantomData<T> -> unit (`tuple []`), BTreeMap/HashMap<K, V> -> seq of pairs;
  * `#[serde(...)]` attributes: exactly the ones in SERDE_ATTRS are understood; any other one on a visited
    item, field or variant is a TranslateError;
  * the hand-written impls are NAMED LEAVES: their source text is matched against the pattern the leaf
    shape was derived from (HAND_WRITTEN below) and the translator fails if it changed.

FAIL CLOSED: unknown type, ambiguous path, unknown attribute, unknown cfg predicate on a visited item,
changed hand-written impl, a root that does not derive serde  ==>  TranslateError (exit 3).
"""
import os, re, sys
from common import *

CRATES = {"fuel_tx": "fuel-tx", "fuel_types": "fuel-types", "fuel_asm": "fuel-asm", "fuel_vm": "fuel-vm"}
ROOTS = [("fuel_tx", "Transaction"), ("fuel_tx", "Receipt"), ("fuel_tx", "Input"), ("fuel_tx", "Output"),
         ("fuel_tx", "policies::Policies"), ("fuel_tx", "ConsensusParameters"), ("fuel_tx", "GasCosts")]
# cfg predicates: `feature = ".."` is evaluated against the feature set the HARNESS builds each crate with
# (harness/Cargo.toml requests + the crates' own [features] tables, resolved by `active_features`), `test` is false
CFG_FALSE_IDENTS = {"test"}
ACTIVE = {}          # crate -> set of active features
CURRENT = [None]     # crate whose text is being parsed (attributes are evaluated while parsing)


def toml_table(text, header):
    m = re.search(r"^\[" + re.escape(header) + r"\]\s*$(.*?)(?=^\[|\Z)", text, re.S | re.M)
    return m.group(1) if m else ""


def toml_entries(table):
    """`key = value` entries of a TOML table (values may span lines inside [] or {})"""
    out, i = {}, 0
    for m in re.finditer(r"^([A-Za-z0-9_\-]+)\s*=\s*", table, re.M):
        j = m.end()
        if table[j] in "[{":
            e = match_close(table, j)
            out[m.group(1)] = table[j:e + 1]
        else:
            out[m.group(1)] = table[j:table.index("\n", j) if "\n" in table[j:] else len(table)]
    return out


def active_features():
    """feature unification as cargo does it for the harness build (only the four modelled crates)"""
    byname = {d: c for c, d in CRATES.items()}
    feats, deps = {}, {}
    ws = read("Cargo.toml")
    wsdeps = toml_entries(toml_table(ws, "workspace.dependencies"))
    for c, d in CRATES.items():
        t = read(os.path.join(d, "Cargo.toml"))
        feats[c] = {k: re.findall(r'"([^"]*)"', v) for k, v in toml_entries(toml_table(t, "features")).items()}
        deps[c] = {k: v for k, v in toml_entries(toml_table(t, "dependencies")).items() if k in byname}
    with open(os.path.join(VERIF, "harness", "Cargo.toml"), encoding="utf-8") as f:
        h = f.read()
    active = {c: set() for c in CRATES}
    work = []

    def request(c, f):
        if f not in active[c]:
            if f != "default" and f not in feats[c]:
                raise TranslateError(f"feature {f} requested of {CRATES[c]} does not exist")
            active[c].add(f)
            work.append((c, f))

    def dep_request(entry, c, via_workspace):
        fl = re.search(r"features\s*=\s*\[(.*?)\]", entry, re.S)
        for f in re.findall(r'"([^"]*)"', fl.group(1)) if fl else []:
            request(c, f)
        nodef = re.search(r"default-features\s*=\s*false", entry)
        if not nodef and via_workspace and re.search(r"workspace\s*=\s*true", entry):
            nodef = re.search(r"default-features\s*=\s*false", wsdeps.get(CRATES[c], ""))
        if not nodef:
            request(c, "default")

    hdeps = toml_entries(toml_table(h, "dependencies"))
    for d, c in byname.items():
        if d not in hdeps:
            raise TranslateError(f"harness/Cargo.toml does not depend on {d}")
        dep_request(hdeps[d], c, False)
    seen_dep = set()
    while work or len(seen_dep) < len(CRATES):
        for c in CRATES:   # a crate that is built requests features of its dependencies
            if c not in seen_dep:
                seen_dep.add(c)
                for d, entry in deps[c].items():
                    dep_request(entry, byname[d], True)
        if not work:
            continue
        c, f = work.pop()
        for item in feats[c].get(f, []):
            if item.startswith("dep:"):
                continue
            if "/" in item:
                d, g = item.split("/")
                d = d.rstrip("?")
                if d in byname:
                    request(byname[d], g)
            elif item in feats[c]:
                request(c, item)
    return active

# the `#[serde(...)]` attributes used in the repository and their effect on the BINARY shape
SERDE_ATTRS = {
    "rename": "field/variant name only - no effect on a non-self-describing format",
    "default": "container default for missing fields - a binary format always supplies all fields of the tuple",
    "transparent": "the struct has the shape of its single field",
    "skip": "the field is not serialised and is filled with Default on deserialisation",
}

PRIMS = {"u8": ".u8", "u16": ".u16", "u32": ".u32", "u64": ".u64", "u128": ".u128", "usize": ".u64",
         "bool": ".bool", "String": ".bytes", "str": ".bytes"}
UNSUPPORTED_PRIMS = {"i8", "i16", "i32", "i64", "i128", "isize", "f32", "f64", "char"}
STD_WRAPPERS = {"Box", "Arc", "Rc"}


# ------------------------------------------------------------------------------------------------ lexing
def strip_comments_keep_strings(src):
    """remove // and /* */ comments; string/char literals are kept but their content is blanked to `_`
    (so braces or `//` inside strings cannot confuse the item scanner); `#[doc = "..."]` stays harmless"""
    out = []
    i, n = 0, len(src)
    while i < n:
        c = src[i]
        if src.startswith("//", i):
            j = src.find("\n", i)
            i = n if j < 0 else j
        elif src.startswith("/*", i):
            depth, i = 1, i + 2
            while i < n and depth:
                if src.startswith("/*", i):
                    depth += 1; i += 2
                elif src.startswith("*/", i):
                    depth -= 1; i += 2
                else:
                    i += 1
        elif c == '"' or (c == "r" and re.match(r'r#*"', src[i:i + 8]) and not (i and (src[i - 1].isalnum() or src[i - 1] == "_"))) \
                or (c == "b" and i + 1 < n and src[i + 1] == '"' and not (i and (src[i - 1].isalnum() or src[i - 1] == "_"))):
            if c == "b":
                i += 1
            if src[i] == "r":
                m = re.match(r'r(#*)"', src[i:])
                close = '"' + m.group(1)
                j = src.find(close, i + len(m.group(0)))
                if j < 0:
                    raise TranslateError("unterminated raw string")
                body = src[i + len(m.group(0)):j]
                out.append('"' + body_keep(body) + '"')
                i = j + len(close)
            else:
                j = i + 1
                while j < n and src[j] != '"':
                    j += 2 if src[j] == "\\" else 1
                if j >= n:
                    raise TranslateError("unterminated string")
                out.append('"' + body_keep(src[i + 1:j]) + '"')
                i = j + 1
        elif c == "'":
            m = re.match(r"'(\\.[^']*|[^'\\])'", src[i:])
            if m:
                out.append("'_'")
                i += len(m.group(0))
            else:  # lifetime
                out.append(c); i += 1
        else:
            out.append(c); i += 1
    return "".join(out)


def body_keep(s):
    """string literal content: keep identifier-ish strings (attribute values such as feature names, rename
    targets, default paths), blank everything else"""
    return s if re.fullmatch(r"[A-Za-z0-9_:\- ]*", s) else "_"


def match_close(s, i):
    """s[i] is an opening bracket; return the index of its matching close"""
    pairs = {"(": ")", "[": "]", "{": "}", "<": ">"}
    op = s[i]
    cl = pairs[op]
    depth = 0
    j = i
    n = len(s)
    while j < n:
        c = s[j]
        if c == '"':
            j = s.index('"', j + 1)
        elif op != "<" and c in "([{":
            depth += 1
        elif op != "<" and c in ")]}":
            depth -= 1
            if depth == 0:
                if c != cl:
                    raise TranslateError(f"bracket mismatch near {s[i:i+40]!r}")
                return j
        elif op == "<":
            if c == "<":
                depth += 1
            elif c == ">" and s[j - 1] != "-" and s[j - 1] != "=":
                depth -= 1
                if depth == 0:
                    return j
            elif c in "([{":
                j = match_close(s, j)
            elif c in ";":
                raise TranslateError(f"unbalanced <> near {s[i:i+60]!r}")
        j += 1
    raise TranslateError(f"unbalanced bracket near {s[i:i+40]!r}")


def split_top(s, sep=","):
    """split at top-level separators (not inside any bracket or generic argument list)"""
    parts, depth, cur = [], 0, []
    i = 0
    while i < len(s):
        c = s[i]
        if c == '"':
            j = s.index('"', i + 1)
            cur.append(s[i:j + 1]); i = j + 1; continue
        if c in "([{<":
            depth += 1
        elif c in ")]}":
            depth -= 1
        elif c == ">" and i and s[i - 1] not in "-=":
            depth -= 1
        if c == sep and depth == 0:
            parts.append("".join(cur)); cur = []
        else:
            cur.append(c)
        i += 1
    if "".join(cur).strip():
        parts.append("".join(cur))
    return [p.strip() for p in parts]


# ------------------------------------------------------------------------------------------------ cfg
def parse_attr_args(s):
    return split_top(s)


def cfg_eval(pred):
    """True / False / ('unknown', text)"""
    pred = pred.strip()
    m = re.fullmatch(r'feature\s*=\s*"([^"]*)"', pred)
    if m:
        return m.group(1) in ACTIVE[CURRENT[0]]
    if pred in CFG_FALSE_IDENTS:
        return False
    m = re.fullmatch(r"(not|all|any)\s*\((.*)\)", pred, re.S)
    if m:
        subs = [cfg_eval(x) for x in split_top(m.group(2))]
        unk = [x for x in subs if isinstance(x, tuple)]
        if m.group(1) == "not":
            if len(subs) != 1:
                return ("unknown", pred)
            return unk[0] if unk else (not subs[0])
        if m.group(1) == "all":
            if any(x is False for x in subs):
                return False
            return unk[0] if unk else True
        if any(x is True for x in subs):
            return True
        return unk[0] if unk else False
    return ("unknown", pred)


class Attrs:
    def __init__(self, raw):
        self.raw = raw            # list of attribute bodies (text inside #[ ])
        self.cfg = True           # True / False / ('unknown', ..)
        self.derives = []
        self.serde = []           # list of (key, value or None)
        flat = []
        for a in raw:
            self._flatten(a.strip(), flat)
        for a in flat:
            m = re.fullmatch(r"cfg\s*\((.*)\)", a, re.S)
            if m:
                v = cfg_eval(m.group(1))
                if v is False:
                    self.cfg = False
                elif isinstance(v, tuple) and self.cfg is True:
                    self.cfg = v
                continue
            m = re.fullmatch(r"derive\s*\((.*)\)", a, re.S)
            if m:
                self.derives += [re.sub(r"\s+", "", d) for d in split_top(m.group(1))]
                continue
            m = re.fullmatch(r"serde\s*\((.*)\)", a, re.S)
            if m:
                for kv in split_top(m.group(1)):
                    mm = re.fullmatch(r'(\w+)\s*(?:=\s*"([^"]*)")?', kv.strip())
                    if not mm:
                        raise TranslateError(f"serde attribute not understood: #[{a}]")
                    self.serde.append((mm.group(1), mm.group(2)))

    def _flatten(self, a, out):
        m = re.fullmatch(r"cfg_attr\s*\((.*)\)", a, re.S)
        if m:
            parts = split_top(m.group(1))
            v = cfg_eval(parts[0])
            if v is True:
                for p in parts[1:]:
                    self._flatten(p.strip(), out)
            elif isinstance(v, tuple):
                for p in parts[1:]:
                    if re.match(r"(serde|derive\s*\(.*serde)", p.strip()):
                        raise TranslateError(f"serde attribute under an unknown cfg predicate: #[{a}]")
            return
        out.append(a)

    def has_serde_derive(self):
        return "serde::Serialize" in self.derives and "serde::Deserialize" in self.derives

    def half_serde_derive(self):
        return ("serde::Serialize" in self.derives) != ("serde::Deserialize" in self.derives)


# ------------------------------------------------------------------------------------------------ items
class Item:
    def __init__(self, kind, name, crate, mod, file):
        self.kind, self.name, self.crate, self.mod, self.file = kind, name, crate, tuple(mod), file
        self.attrs = None
        self.generics = []
        self.fields = None      # struct: ('unit', []) / ('tuple', [(None, ty, Attrs)]) / ('named', [(name, ty, Attrs)])
        self.variants = None    # enum: [(name, shape_kind, fields, Attrs)]
        self.target = None      # alias
        self.leaf = None        # hand-written / macro generated: a closure (resolver) -> shape expr
        self.src = ""

    def qual(self):
        return "::".join((self.crate,) + self.mod + (self.name,))


class Module:
    def __init__(self, crate, path, file):
        self.crate, self.path, self.file = crate, tuple(path), file
        self.items = {}      # name -> [Item]
        self.children = {}   # name -> Module
        self.uses = {}       # local name -> path segments
        self.globs = []      # path segments
        self.impls = []      # (self type text, {assoc: type text}, generics)
        self.macros = []     # (macro name, args text)
        self.macro_defs = {} # name -> body text
        self.cfg = True


ITEM_KW = ("struct", "enum", "union", "type", "mod", "impl", "trait", "fn", "const", "static", "use", "extern", "macro_rules")


class Parser:
    def __init__(self):
        self.modules = {}   # (crate, path tuple) -> Module
        self.files = {}

    def load_crate(self, crate):
        d = CRATES[crate]
        CURRENT[0] = crate
        root = os.path.join(REPO, d, "src", "lib.rs")
        if not os.path.exists(root):
            raise TranslateError(f"{d}/src/lib.rs not found")
        self.load_file(crate, [], os.path.join(d, "src", "lib.rs"), os.path.join(d, "src"), True)

    def load_file(self, crate, path, rel, child_dir, cfg):
        src = strip_comments_keep_strings(read(rel))
        mod = self.modules.setdefault((crate, tuple(path)), Module(crate, path, rel))
        mod.file = rel
        mod.cfg = cfg
        self.parse_block(src, mod, child_dir)

    def parse_block(self, s, mod, child_dir):
        """scan the items of one module body"""
        i, n = 0, len(s)
        while True:
            # attributes
            attrs = []
            while True:
                m = re.compile(r"\s*").match(s, i)
                i = m.end()
                if s.startswith("#![", i):
                    i = match_close(s, i + 2) + 1
                    continue
                if s.startswith("#[", i):
                    j = match_close(s, i + 1)
                    attrs.append(s[i + 2:j])
                    i = j + 1
                    continue
                break
            if i >= n:
                return
            m = re.compile(r"(pub\s*(\([^)]*\))?\s+)?(unsafe\s+|async\s+|default\s+|const\s+(?=fn|unsafe|async|extern))*").match(s, i)
            k = m.end()
            mk = re.compile(r"(macro_rules\s*!|[A-Za-z_][A-Za-z0-9_]*)").match(s, k)
            if not mk:
                if s[i] == ";":
                    i += 1
                    continue
                raise TranslateError(f"{mod.file}: cannot scan item near {s[i:i+60]!r}")
            kw = re.sub(r"\s+", "", mk.group(1))
            if kw == "macro_rules!":
                mm = re.compile(r"\s*([A-Za-z_][A-Za-z0-9_]*)\s*").match(s, mk.end())
                b = mm.end()
                e = match_close(s, b)
                mod.macro_defs[mm.group(1)] = s[b + 1:e]
                i = e + 1
                if s[i:i + 1] == ";":
                    i += 1
                continue
            if kw in ("struct", "enum", "union"):
                i = self.parse_adt(s, mk.end(), kw, Attrs(attrs), mod)
                continue
            if kw == "type":
                e = s.index(";", mk.end())
                m2 = re.fullmatch(r"\s*([A-Za-z_][A-Za-z0-9_]*)\s*(<[^=]*>)?\s*=\s*(.*)", s[mk.end():e], re.S)
                if m2:
                    it = Item("alias", m2.group(1), mod.crate, mod.path, mod.file)
                    it.attrs = Attrs(attrs)
                    it.generics = generics_of(m2.group(2))
                    it.target = m2.group(3).strip()
                    mod.items.setdefault(it.name, []).append(it)
                i = e + 1
                continue
            if kw == "mod":
                m2 = re.compile(r"\s*([A-Za-z_][A-Za-z0-9_]*)\s*([;{])").match(s, mk.end())
                if not m2:
                    raise TranslateError(f"{mod.file}: mod item not understood near {s[i:i+60]!r}")
                name = m2.group(1)
                a = Attrs(attrs)
                cfg = a.cfg if mod.cfg is True else mod.cfg
                if m2.group(2) == ";":
                    i = m2.end()
                    if cfg is False:
                        continue
                    pm = [re.fullmatch(r'path\s*=\s*"([^"]*)"', x.strip()) for x in attrs]
                    pm = [x for x in pm if x]
                    if pm:
                        rel = os.path.join(child_dir, pm[0].group(1))
                        cdir = os.path.dirname(rel)
                    else:
                        f1 = os.path.join(child_dir, name + ".rs")
                        f2 = os.path.join(child_dir, name, "mod.rs")
                        if os.path.exists(os.path.join(REPO, f1)):
                            rel = f1
                        elif os.path.exists(os.path.join(REPO, f2)):
                            rel = f2
                        else:
                            raise TranslateError(f"{mod.file}: file of `mod {name};` not found")
                        cdir = os.path.join(child_dir, name)
                    child = Module(mod.crate, mod.path + (name,), rel)
                    mod.children[name] = child
                    self.modules[(mod.crate, child.path)] = child
                    self.load_file(mod.crate, list(child.path), rel, cdir, cfg)
                else:
                    b = m2.end() - 1
                    e = match_close(s, b)
                    i = e + 1
                    if cfg is False:
                        continue
                    child = Module(mod.crate, mod.path + (name,), mod.file)
                    child.cfg = cfg
                    mod.children[name] = child
                    self.modules[(mod.crate, child.path)] = child
                    self.parse_block(s[b + 1:e], child, os.path.join(child_dir, name))
                continue
            if kw == "use":
                e = s.index(";", mk.end())
                if Attrs(attrs).cfg is not False:
                    self.parse_use(s[mk.end():e].strip(), [], mod)
                i = e + 1
                continue
            if kw == "impl":
                i = self.parse_impl(s, mk.end(), Attrs(attrs), mod)
                continue
            if kw in ("trait", "fn", "extern", "const", "static"):
                # skip to the end of the item: first `;` or balanced `{}` at top level
                j = mk.end()
                while True:
                    c = s[j]
                    if c == ";":
                        i = j + 1
                        break
                    if c == "{":
                        i = match_close(s, j) + 1
                        break
                    if c in "([":
                        j = match_close(s, j)
                    elif c == '"':
                        j = s.index('"', j + 1)
                    j += 1
                continue
            # a macro invocation `path::name! ( .. ) ;` / `{ .. }`
            mi = re.compile(r"((?:[A-Za-z_][A-Za-z0-9_]*\s*::\s*)*[A-Za-z_][A-Za-z0-9_]*)\s*!\s*([({\[])").match(s, k)
            if mi:
                b = mi.end() - 1
                e = match_close(s, b)
                name = mi.group(1).split("::")[-1].strip()
                if Attrs(attrs).cfg is not False:
                    mod.macros.append((name, s[b + 1:e]))
                    # items written literally inside a macro invocation body (enum_from!, bitflags!) are scanned too
                    if name not in ("macro_rules",):
                        try:
                            self.parse_block(s[b + 1:e], mod, child_dir)
                        except TranslateError:
                            pass  # not item syntax (e.g. `key!(Address, 32)`): handled by the macro tables
                i = e + 1
                if s[i:i + 1] == ";":
                    i += 1
                continue
            raise TranslateError(f"{mod.file}: item not understood near {s[i:i+80]!r}")

    def parse_use(self, t, prefix, mod):
        t = t.strip()
        if t.startswith("::"):
            t = t[2:]
        m = re.fullmatch(r"((?:[A-Za-z_#][A-Za-z0-9_#]*\s*::\s*)*)\{(.*)\}", t, re.S)
        if m:
            pre = prefix + [x.strip() for x in m.group(1).split("::") if x.strip()]
            for p in split_top(m.group(2)):
                if p:
                    self.parse_use(p, pre, mod)
            return
        m = re.fullmatch(r"((?:[A-Za-z_#][A-Za-z0-9_#]*\s*::\s*)*)\*", t)
        if m:
            mod.globs.append(prefix + [x.strip() for x in m.group(1).split("::") if x.strip()])
            return
        m = re.fullmatch(r"((?:[A-Za-z_#][A-Za-z0-9_#]*\s*::\s*)*[A-Za-z_#][A-Za-z0-9_#]*)(?:\s+as\s+(\w+))?", t)
        if not m:
            raise TranslateError(f"{mod.file}: use tree not understood: {t!r}")
        segs = prefix + [x.strip() for x in m.group(1).split("::")]
        local = m.group(2) or segs[-1]
        if segs[-1] == "self":
            segs = segs[:-1]
            local = m.group(2) or segs[-1]
        if local != "_":
            mod.uses[local] = segs

    def parse_adt(self, s, i, kw, attrs, mod):
        m = re.compile(r"\s*(\$?[A-Za-z_][A-Za-z0-9_]*)\s*").match(s, i)
        if not m:
            raise TranslateError(f"{mod.file}: {kw} without a name near {s[i:i+40]!r}")
        name = m.group(1)
        j = m.end()
        gen = []
        if s[j:j + 1] == "<":
            e = match_close(s, j)
            gen = generics_of(s[j:e + 1])
            j = e + 1
        it = Item(kw, name, mod.crate, mod.path, mod.file)
        it.attrs = attrs
        it.generics = gen
        # bitflags: `struct Name: u32 { const .. }`
        mb = re.compile(r"\s*:\s*(\w+)\s*\{").match(s, j)
        if kw == "struct" and mb:
            e = match_close(s, mb.end() - 1)
            it.kind = "bitflags"
            it.target = mb.group(1)
            it.src = s[mb.end():e]
            end = e + 1
        else:
            # optional where clause before the body / after a tuple body
            mw = re.compile(r"\s*(where\b[^{;(]*)?").match(s, j)
            j = mw.end()
            c = s[j:j + 1]
            if c == ";":
                it.fields = ("unit", [])
                end = j + 1
            elif c == "(":
                e = match_close(s, j)
                it.fields = ("tuple", [self.parse_field(x, False, mod) for x in split_top(s[j + 1:e]) if x])
                k = re.compile(r"\s*(where\b[^;]*)?;").match(s, e + 1)
                if not k:
                    raise TranslateError(f"{mod.file}: tuple struct {name} not terminated")
                end = k.end()
            elif c == "{":
                e = match_close(s, j)
                body = s[j + 1:e]
                if kw == "enum":
                    it.variants = [self.parse_variant(x, mod) for x in split_top(body) if x]
                else:
                    it.fields = ("named", [self.parse_field(x, True, mod) for x in split_top(body) if x])
                end = e + 1
            else:
                raise TranslateError(f"{mod.file}: body of {kw} {name} not understood near {s[j:j+40]!r}")
        if not name.startswith("$") and attrs.cfg is not False and mod.cfg is not False:
            mod.items.setdefault(name, []).append(it)
        return end

    def split_attrs(self, x, mod):
        attrs = []
        x = x.strip()
        while x.startswith("#["):
            j = match_close(x, 1)
            attrs.append(x[2:j])
            x = x[j + 1:].strip()
        return Attrs(attrs), x

    def parse_field(self, x, named, mod):
        a, x = self.split_attrs(x, mod)
        x = re.sub(r"^pub\s*(\([^)]*\))?\s*", "", x)
        if named:
            m = re.fullmatch(r"(r#)?([A-Za-z_][A-Za-z0-9_]*)\s*:\s*(.*)", x, re.S)
            if not m:
                raise TranslateError(f"{mod.file}: field not understood: {x!r}")
            return (m.group(2), m.group(3).strip(), a)
        return (None, x.strip(), a)

    def parse_variant(self, x, mod):
        a, x = self.split_attrs(x, mod)
        m = re.fullmatch(r"([A-Za-z_][A-Za-z0-9_]*)\s*(.*?)\s*(=\s*[^=(){}]+)?", x, re.S)
        if not m:
            raise TranslateError(f"{mod.file}: enum variant not understood: {x!r}")
        name, body = m.group(1), m.group(2).strip()
        if body == "":
            return (name, "unit", [], a)
        if body.startswith("(") and match_close(body, 0) == len(body) - 1:
            return (name, "tuple", [self.parse_field(f, False, mod) for f in split_top(body[1:-1]) if f], a)
        if body.startswith("{") and match_close(body, 0) == len(body) - 1:
            return (name, "named", [self.parse_field(f, True, mod) for f in split_top(body[1:-1]) if f], a)
        raise TranslateError(f"{mod.file}: enum variant body not understood: {x!r}")

    def parse_impl(self, s, i, attrs, mod):
        # impl<G> Trait for Type where .. { body }
        j = i
        m = re.compile(r"\s*").match(s, j)
        j = m.end()
        gen = []
        if s[j:j + 1] == "<":
            e = match_close(s, j)
            gen = generics_of(s[j:e + 1])
            j = e + 1
        # header up to the body brace (skipping brackets)
        k = j
        while s[k] != "{":
            if s[k] in "([":
                k = match_close(s, k)
            elif s[k] == "<":
                k = match_close(s, k)
            elif s[k] == ";":
                return k + 1
            k += 1
        header = s[j:k]
        e = match_close(s, k)
        body = s[k + 1:e]
        if attrs.cfg is not False and mod.cfg is not False:
            header = re.split(r"\bwhere\b", header)[0]
            m2 = re.fullmatch(r"\s*(.*?)\s+for\s+(.*?)\s*", header, re.S)
            trait, selfty = (m2.group(1), m2.group(2)) if m2 else (None, header.strip())
            assoc = {}
            # only top-level `type X = Y;` of the impl body
            depth0 = []
            d, cur = 0, []
            for ch in body:
                if ch in "{":
                    d += 1
                elif ch in "}":
                    d -= 1
                    if d == 0:
                        cur.append(" ; "); continue
                if d == 0:
                    cur.append(ch)
            for stmt in "".join(cur).split(";"):
                m3 = re.fullmatch(r"(?:\s*#\[[^\]]*\])*\s*type\s+(\w+)\s*=\s*(.*?)\s*", stmt, re.S)
                if m3:
                    assoc[m3.group(1)] = m3.group(2)
            mod.impls.append({"trait": trait, "self": selfty, "assoc": assoc, "generics": gen, "body": body,
                              "attrs": attrs, "file": mod.file})
        return e + 1


def generics_of(g):
    """`<A, B: Bound, const N: usize, 'a>` -> ['A', 'B', 'N'] (lifetimes dropped)"""
    if not g:
        return []
    g = g.strip()
    if g.startswith("<"):
        g = g[1:-1]
    out = []
    for p in split_top(g):
        p = p.strip()
        if not p or p.startswith("'"):
            continue
        p = re.sub(r"^const\s+", "", p)
        out.append(re.match(r"\w+", p).group(0))
    return out


# ------------------------------------------------------------------------------------------------ type expressions
def parse_type(t):
    """-> ('path', [(seg, [args])...]) | ('tuple', [..]) | ('array', ty, n_text) """
    t = t.strip()
    if t.startswith("("):
        if match_close(t, 0) != len(t) - 1:
            raise TranslateError(f"type not understood: {t!r}")
        return ("tuple", [parse_type(x) for x in split_top(t[1:-1]) if x])
    if t.startswith("["):
        if match_close(t, 0) != len(t) - 1:
            raise TranslateError(f"type not understood: {t!r}")
        parts = split_top(t[1:-1], ";")
        if len(parts) != 2:
            raise TranslateError(f"slice/array type not understood: {t!r}")
        return ("array", parse_type(parts[0]), parts[1].strip())
    if t.startswith("&") or t.startswith("*") or t.startswith("dyn ") or t.startswith("impl ") or t.startswith("<") or t.startswith("fn"):
        raise TranslateError(f"unsupported type syntax: {t!r}")
    segs = []
    i = 0
    if t.startswith("::"):
        i = 2
    while True:
        m = re.compile(r"\s*([A-Za-z_][A-Za-z0-9_]*)\s*").match(t, i)
        if not m:
            raise TranslateError(f"type path not understood: {t!r}")
        i = m.end()
        args = []
        if t[i:i + 1] == "<":
            e = match_close(t, i)
            args = [parse_type(x) for x in split_top(t[i + 1:e]) if x and not x.strip().startswith("'")]
            i = e + 1
        segs.append((m.group(1), args))
        m = re.compile(r"\s*::\s*").match(t, i)
        if m and m.end() > i:
            i = m.end()
            if t[i:i + 1] == "<":  # turbofish
                continue
            continue
        if t[i:].strip():
            raise TranslateError(f"type path not understood: {t!r}")
        return ("path", segs)


# ------------------------------------------------------------------------------------------------ resolution + shapes
class Shapes:
    def __init__(self, parser):
        self.p = parser
        self.defs = {}       # lean name -> (expr text, doc, refs)
        self.order = []
        self.in_progress = set()
        self.attr_uses = {}  # serde attr -> count
        self.leaf_notes = []

    # ---- name resolution
    def module(self, crate, path):
        m = self.p.modules.get((crate, tuple(path)))
        if m is None:
            raise TranslateError(f"module {crate}::{'::'.join(path)} not found")
        return m

    def lookup(self, mod, name, seen):
        """items / child module named `name` visible in `mod` -> list of ('item', Item) | ('mod', Module) | ('ext', segs)"""
        key = (mod.crate, mod.path, name)
        if key in seen:
            return []
        seen = seen | {key}
        res = []
        for it in mod.items.get(name, []):
            res.append(("item", it))
        if name in mod.children:
            res.append(("mod", mod.children[name]))
        if res:
            return res
        if name in mod.uses:
            return self.resolve_path(mod, mod.uses[name], seen, use_ctx=True)
        for g in mod.globs:
            for k, tgt in self.resolve_path(mod, g, seen, use_ctx=True):
                if k == "mod":
                    res += [r for r in self.lookup(tgt, name, seen) if r not in res]
        return res

    def resolve_path(self, mod, segs, seen=frozenset(), use_ctx=False):
        segs = list(segs)
        first = segs[0]
        if first == "crate":
            cur = [("mod", self.module(mod.crate, []))]
            rest = segs[1:]
        elif first == "self":
            cur = [("mod", mod)]
            rest = segs[1:]
        elif first == "super":
            m = mod
            rest = segs
            while rest and rest[0] == "super":
                m = self.module(m.crate, m.path[:-1])
                rest = rest[1:]
            cur = [("mod", m)]
        elif first in CRATES and not (mod.items.get(first) or first in mod.children):
            cur = [("mod", self.module(first, []))]
            rest = segs[1:]
        elif first in ("std", "core", "alloc"):
            return [("ext", segs)]
        else:
            cur = self.lookup(mod, first, seen)
            if not cur:
                # 2018 edition `use` paths may also start at an extern crate not modelled here
                return [("ext", segs)] if use_ctx else []
            rest = segs[1:]
        for s in rest:
            nxt = []
            for k, tgt in cur:
                if k == "mod":
                    nxt += self.lookup(tgt, s, seen)
                elif k == "ext":
                    nxt.append(("ext", tgt + [s]))
            cur = nxt
        return cur

    # ---- shapes
    def note_attr(self, k):
        if k not in SERDE_ATTRS:
            raise TranslateError(f"unknown #[serde({k})] attribute: extend SERDE_ATTRS after deciding its effect on the shape")
        self.attr_uses[k] = self.attr_uses.get(k, 0) + 1

    def shape_of_type(self, ty, mod, env, ctx):
        """ty: parsed type; env: generic name -> (closed type value); returns (lean expr, refs set)
        closed type value = ('inst', Item, [closed args]) | ('std', expr, refs) """
        v = self.close_type(ty, mod, env, ctx)
        return self.shape_of_closed(v, ctx)

    def close_type(self, ty, mod, env, ctx):
        kind = ty[0]
        if kind == "tuple":
            return ("tuple", [self.close_type(x, mod, env, ctx) for x in ty[1]])
        if kind == "array":
            n = ty[2].replace("_", "")
            if not re.fullmatch(r"\d+(usize)?", n):
                raise TranslateError(f"{ctx}: array length is not a literal: {ty[2]!r}")
            return ("array", self.close_type(ty[1], mod, env, ctx), int(n.replace("usize", "")))
        segs = ty[1]
        names = [s for s, _ in segs]
        # generic parameter / associated type projection
        if names[0] in env:
            if len(segs) == 1:
                return env[names[0]]
            if len(segs) == 2 and not segs[0][1] and not segs[1][1]:
                return self.project(env[names[0]], names[1], ctx)
            raise TranslateError(f"{ctx}: projection not understood: {names}")
        if names[0] == "Self":
            raise TranslateError(f"{ctx}: `Self` in a field type is not supported")
        last, args = segs[-1]
        for s, a in segs[:-1]:
            if a:
                raise TranslateError(f"{ctx}: generic arguments on a non-final path segment: {names}")
        cargs = [self.close_type(a, mod, env, ctx) for a in args]
        if len(segs) == 1:
            local = mod.items.get(last) or (last in mod.uses) or None
            if not local:
                if last in PRIMS and not cargs:
                    return ("prim", last)
                if last in UNSUPPORTED_PRIMS:
                    raise TranslateError(f"{ctx}: primitive type {last} has no Tree/Shape counterpart")
        res = self.resolve_path(mod, names)
        items = [t for k, t in res if k == "item"]
        exts = [t for k, t in res if k == "ext"]
        # same-named items under different cfg alternatives: keep the active ones
        if len(items) > 1:
            uniq = []
            for it in items:
                if it not in uniq:
                    uniq.append(it)
            items = uniq
        if len(items) > 1:
            raise TranslateError(f"{ctx}: path {'::'.join(names)} is ambiguous: {[i.qual() + ' @' + i.file for i in items]}")
        if len(items) == 1:
            return ("inst", items[0], cargs)
        std = exts[0][-1] if exts else (last if len(segs) == 1 or names[0] in ("std", "core", "alloc") else None)
        if std is not None:
            return self.std_type(std, cargs, ctx, names)
        raise TranslateError(f"{ctx}: cannot resolve type {'::'.join(names)} (from module {mod.crate}::{'::'.join(mod.path)})")

    def std_type(self, name, cargs, ctx, names):
        if name in PRIMS and not cargs:
            return ("prim", name)
        if name == "Vec" and len(cargs) == 1:
            return ("seq", cargs[0])
        if name == "Option" and len(cargs) == 1:
            return ("option", cargs[0])
        if name in STD_WRAPPERS and len(cargs) == 1:
            return cargs[0]
        if name == "PhantomData" and len(cargs) == 1:
            return ("unit",)
        if name in ("BTreeMap", "HashMap") and len(cargs) >= 2:
            return ("seq", ("tuple", [cargs[0], cargs[1]]))
        if name in ("BTreeSet", "HashSet") and len(cargs) >= 1:
            return ("seq", cargs[0])
        raise TranslateError(f"{ctx}: unknown external type {'::'.join(names)}<{len(cargs)} args>")

    def project(self, tv, assoc, ctx):
        """`X::Assoc` where X is bound to the closed type tv: find the impl block for tv that defines Assoc"""
        if tv[0] != "inst":
            raise TranslateError(f"{ctx}: associated type {assoc} of a non-nominal type")
        it, cargs = tv[1], tv[2]
        found = []
        for m in self.p.modules.values():
            if m.cfg is False:
                continue
            for im in m.impls:
                if assoc not in im["assoc"] or im["attrs"].cfg is False:
                    continue
                try:
                    sv = self.close_type(parse_type(im["self"]), m, {g: ("param", g) for g in im["generics"]}, ctx + " (impl self)")
                except TranslateError:
                    continue
                if self.same_closed(sv, tv):
                    found.append((m, im))
        if len(found) != 1:
            raise TranslateError(f"{ctx}: expected exactly one impl defining `{assoc}` for {self.mangle(tv)}, found {len(found)}")
        m, im = found[0]
        if im["generics"]:
            raise TranslateError(f"{ctx}: generic impl defining {assoc} for {self.mangle(tv)} is not supported")
        if im["attrs"].cfg is not True:
            raise TranslateError(f"{ctx}: impl defining {assoc} is under an unknown cfg: {im['attrs'].cfg}")
        return self.close_type(parse_type(im["assoc"][assoc]), m, {}, ctx + f" (assoc {assoc})")

    def same_closed(self, a, b):
        if a[0] != b[0]:
            return False
        if a[0] == "inst":
            return a[1] is b[1] and len(a[2]) == len(b[2]) and all(self.same_closed(x, y) for x, y in zip(a[2], b[2]))
        return a == b

    def mangle(self, tv):
        k = tv[0]
        if k == "inst":
            return self.item_name(tv[1]) + "".join("_" + self.mangle(a) for a in tv[2])
        if k == "prim":
            return tv[1]
        if k == "seq":
            return "Vec_" + self.mangle(tv[1])
        if k == "option":
            return "Option_" + self.mangle(tv[1])
        if k == "array":
            return f"Arr{tv[2]}_" + self.mangle(tv[1])
        if k == "tuple":
            return "Tup" + "".join("_" + self.mangle(a) for a in tv[1])
        if k == "unit":
            return "Unit"
        if k == "param":
            return "$" + tv[1]
        raise TranslateError(f"cannot name {tv}")

    def item_name(self, it):
        """the item's name; when several struct/enum/alias items of the four crates share it, prefixed with the
        shortest suffix of its module path that tells them apart (`input_contract_Contract`)"""
        same = []
        for m in self.p.modules.values():
            for o in m.items.get(it.name, []):
                if o is not it and o not in same and o.attrs.cfg is not False and m.cfg is not False:
                    same.append(o)
        if not same:
            return it.name
        full = (it.crate,) + it.mod
        for k in range(1, len(full) + 1):
            suf = full[len(full) - k:]
            if all(((o.crate,) + o.mod)[-k:] != suf for o in same):
                return "_".join(suf) + "_" + it.name
        raise TranslateError(f"two items named {it.qual()}")

    def shape_of_closed(self, tv, ctx):
        k = tv[0]
        if k == "prim":
            return PRIMS[tv[1]], set()
        if k == "unit":
            return "(.tuple [])", set()
        if k == "seq":
            e, r = self.shape_of_closed(tv[1], ctx)
            return f"(.seq {e})", r
        if k == "option":
            e, r = self.shape_of_closed(tv[1], ctx)
            return f"(.option {e})", r
        if k == "array":
            if tv[2] > 32:
                raise TranslateError(f"{ctx}: serde implements arrays only up to 32 elements, found {tv[2]}")
            e, r = self.shape_of_closed(tv[1], ctx)
            return f"(.tuple (List.replicate {tv[2]} {e}))", r
        if k == "tuple":
            parts = [self.shape_of_closed(x, ctx) for x in tv[1]]
            return "(.tuple [" + ", ".join(e for e, _ in parts) + "])", set().union(*[r for _, r in parts]) if parts else set()
        if k == "inst":
            name = self.define(tv, ctx)
            return "s" + name, {name}
        raise TranslateError(f"{ctx}: cannot give a shape to {tv}")

    def define(self, tv, ctx):
        it, cargs = tv[1], tv[2]
        # aliases are followed, not named
        if it.kind == "alias":
            if it.attrs.cfg is not True:
                raise TranslateError(f"type alias {it.qual()} under cfg {it.attrs.cfg}")
            if len(cargs) != len(it.generics):
                raise TranslateError(f"{ctx}: alias {it.name} expects {len(it.generics)} arguments")
            mod = self.module(it.crate, it.mod)
            tgt = self.close_type(parse_type(it.target), mod, dict(zip(it.generics, cargs)), f"alias {it.qual()}")
            alias = self.item_name(it) + "".join("_" + self.mangle(a) for a in cargs)
            if alias in self.defs:
                if self.defs[alias][3] is not it:
                    raise TranslateError(f"two different types are both named {alias}: {it.qual()} and {self.defs[alias][3].qual()}")
                return alias
            if tgt[0] != "inst":
                # alias of a std type (`Word = u64`): it still gets its own name so that the table stays readable
                e, r = self.shape_of_closed(tgt, ctx)
                self.add(alias, e, f"type alias {it.qual()} = {it.target}  ({it.file})", r, it)
                return alias
            name = self.define(tgt, ctx)
            self.add(alias, "s" + name, f"type alias {it.qual()} = {it.target}  ({it.file})", {name}, it)
            return alias
        name = self.mangle(tv)
        if name in self.defs:
            if self.defs[name][3] is not it:
                raise TranslateError(f"two different types are both named {name}: {it.qual()} and {self.defs[name][3].qual()}")
            return name
        if name in self.in_progress:
            raise TranslateError(f"recursive type {name}: shapes are finite trees")
        self.in_progress.add(name)
        if it.attrs.cfg is not True:
            raise TranslateError(f"{it.qual()} is under an unknown/false cfg predicate: {it.attrs.cfg}")
        mod = self.module(it.crate, it.mod)
        if len(cargs) != len(it.generics):
            raise TranslateError(f"{ctx}: {it.name} expects {len(it.generics)} generic arguments, got {len(cargs)}")
        env = dict(zip(it.generics, cargs))
        where = f"{it.qual()}  ({it.file})"
        if it.leaf is not None:
            e, r, doc = it.leaf(self, it, cargs)
            self.add(name, e, doc + "  " + where, r, it)
        elif it.kind == "bitflags":
            e, r, doc = self.bitflags_leaf(it)
            self.add(name, e, doc + "  " + where, r, it)
        else:
            hw = self.hand_written(it)
            if hw is not None:
                e, r, doc = hw
                self.add(name, e, doc + "  " + where, r, it)
            else:
                if it.attrs.half_serde_derive():
                    raise TranslateError(f"{it.qual()} derives only one of serde::Serialize / serde::Deserialize")
                if not it.attrs.has_serde_derive():
                    raise TranslateError(f"{ctx}: {it.qual()} ({it.file}) is reachable but neither derives serde::Serialize + serde::Deserialize nor is a known hand-written impl")
                e, r, doc = self.derived(it, mod, env, name)
                self.add(name, e, doc + "  " + where, r, it)
        self.in_progress.discard(name)
        return name

    def add(self, name, expr, doc, refs, item=None):
        self.defs[name] = (expr, doc, set(refs), item)
        self.order.append(name)

    def field_shapes(self, fields, mod, env, ctx):
        out, refs = [], set()
        for fname, fty, fa in fields:
            if fa.cfg is False:
                continue
            if fa.cfg is not True:
                raise TranslateError(f"{ctx}: field {fname} under unknown cfg {fa.cfg}")
            skip = False
            for k, v in fa.serde:
                self.note_attr(k)
                if k == "skip":
                    skip = True
                elif k == "rename":
                    pass
                else:
                    raise TranslateError(f"{ctx}: #[serde({k})] is not expected on a field")
            if skip:
                continue
            e, r = self.shape_of_type(parse_type(fty), mod, env, f"{ctx}.{fname if fname else '_'}")
            out.append(e)
            refs |= r
        return out, refs

    def derived(self, it, mod, env, name):
        transparent = False
        for k, v in it.attrs.serde:
            self.note_attr(k)
            if k == "transparent":
                transparent = True
            elif k == "default":
                pass
            else:
                raise TranslateError(f"{it.qual()}: #[serde({k})] is not expected on a container")
        ctx = it.qual()
        if it.kind == "struct":
            kind, fields = it.fields
            fs, refs = self.field_shapes(fields, mod, env, ctx)
            if transparent:
                if len(fs) != 1:
                    raise TranslateError(f"{ctx}: #[serde(transparent)] with {len(fs)} fields")
                return fs[0], refs, "derive, transparent struct"
            if kind == "unit":
                return "(.tuple [])", refs, "derive, unit struct"
            if kind == "tuple" and len(fields) == 1:
                # serialize_newtype_struct: the field itself (also when that field is skipped? not used)
                if len(fs) != 1:
                    raise TranslateError(f"{ctx}: newtype struct with a skipped field")
                return fs[0], refs, "derive, newtype struct"
            return "(.tuple [" + ", ".join(fs) + "])", refs, f"derive, {kind} struct, {len(fs)} serialised fields"
        if it.kind == "enum":
            vs, refs = [], set()
            for vname, vkind, vfields, va in it.variants:
                if va.cfg is not True:
                    raise TranslateError(f"{ctx}::{vname}: variant under a cfg predicate")
                for k, v in va.serde:
                    self.note_attr(k)
                    if k != "rename":
                        raise TranslateError(f"{ctx}::{vname}: #[serde({k})] is not expected on a variant")
                fs, r = self.field_shapes(vfields, mod, env, f"{ctx}::{vname}")
                refs |= r
                if vkind == "unit":
                    vs.append("(.tuple [])")
                elif vkind == "tuple" and len(vfields) == 1:
                    if len(fs) != 1:
                        raise TranslateError(f"{ctx}::{vname}: newtype variant with a skipped field")
                    vs.append(fs[0])
                else:
                    vs.append("(.tuple [" + ", ".join(fs) + "])")
            if not vs:
                raise TranslateError(f"{ctx}: enum without variants")
            if transparent:
                raise TranslateError(f"{ctx}: transparent enum")
            return "(.enum [\n    " + ",\n    ".join(vs) + "])", refs, f"derive, enum, {len(vs)} variants in declaration order"
        raise TranslateError(f"{ctx}: cannot derive a shape for a {it.kind}")

    # ---- named leaves: hand-written impls, matched against their text
    def impl_for(self, it, trait_re):
        out = []
        for m in self.p.modules.values():
            for im in m.impls:
                if im["trait"] and re.fullmatch(trait_re, re.sub(r"\s+", "", im["trait"])) and im["attrs"].cfg is not False:
                    if re.sub(r"\s+", "", im["self"]) == it.name:
                        # the impl must be in the crate of the type
                        if m.crate == it.crate:
                            out.append((m, im))
        return out

    def hand_written(self, it):
        ser = self.impl_for(it, r"(<'de>)?serde::Serialize")
        de = self.impl_for(it, r"(<'de>)?serde::Deserialize<'de>")
        if not ser and not de:
            return None
        if it.attrs.has_serde_derive() or len(ser) != 1 or len(de) != 1:
            raise TranslateError(f"{it.qual()}: expected exactly one hand-written Serialize and one Deserialize impl, found {len(ser)}/{len(de)}")
        h = HAND_WRITTEN.get((it.crate, it.name))
        if h is None:
            raise TranslateError(f"{it.qual()} has a hand-written serde impl that this translator does not know: add it to HAND_WRITTEN")
        sbody = re.sub(r"\s+", " ", ser[0][1]["body"])
        dbody = re.sub(r"\s+", " ", de[0][1]["body"])
        for pat in h["ser"]:
            if not re.search(pat, sbody):
                raise TranslateError(f"{it.qual()}: hand-written Serialize impl no longer matches /{pat}/")
        for pat in h["de"]:
            if not re.search(pat, dbody):
                raise TranslateError(f"{it.qual()}: hand-written Deserialize impl no longer matches /{pat}/")
        for pat in h.get("ser_not", []):
            if re.search(pat, sbody):
                raise TranslateError(f"{it.qual()}: hand-written Serialize impl contains unexpected /{pat}/")
        mod = self.module(it.crate, it.mod)
        e, r = h["shape"](self, it, mod)
        self.leaf_notes.append((it.qual(), h["doc"]))
        return e, r, "HAND-WRITTEN impl (named leaf): " + h["doc"]

    def bitflags_leaf(self, it):
        # bitflags 2.x with `#[derive(serde::Serialize, serde::Deserialize)]` inside `bitflags!`: the public
        # struct is a newtype over the internal flags type, whose serde impl (bitflags/src/external/serde.rs)
        # writes `bits()` as the underlying integer when the format is not human readable and reads it back
        # with `from_bits_retain` (unknown bits are kept).
        if not it.attrs.has_serde_derive():
            raise TranslateError(f"{it.qual()}: bitflags type without serde derive")
        if it.target not in ("u8", "u16", "u32", "u64", "u128"):
            raise TranslateError(f"{it.qual()}: bitflags over {it.target}")
        for k, v in it.attrs.serde:
            raise TranslateError(f"{it.qual()}: #[serde({k})] on a bitflags type")
        return PRIMS[it.target], set(), f"bitflags! over {it.target}: its integer in binary formats"


def ty_shape(sh, mod, text, ctx):
    return sh.shape_of_type(parse_type(text), mod, {}, ctx)


def policies_shape(sh, it, mod):
    bits, r1 = ty_shape(sh, mod, "PoliciesBits", "Policies.bits")
    if bits != "sPoliciesBits" or sh.defs["PoliciesBits"][0] != ".u32":
        raise TranslateError("Policies.bits is expected to be the bitflags type PoliciesBits over u32")
    legacy, r2 = ty_shape(sh, mod, "[Word; 4]", "Policies.values (legacy)")
    compact, r3 = ty_shape(sh, mod, "Vec<Word>", "Policies.values (compact)")
    # the selector constants are regenerated from the same file by tools/gen/policies.py
    return (f"(.sel FuelVerif.Gen.Policies.allMask FuelVerif.Gen.Policies.legacyMaskSeq {legacy} {compact})",
            r1 | r2 | r3)


HAND_WRITTEN = {
    ("fuel_types", "Bytes"): {
        "doc": "serialize_bytes(&self.0) / deserialize_bytes",
        "ser": [r"fn serialize<S>\(&self, serializer: S\) -> Result<S::Ok, S::Error> where S: serde::Serializer, \{ serializer\.serialize_bytes\(&self\.0\) \}"],
        "de": [r"let bytes = deserializer\.deserialize_bytes\(BytesVisitor\)\?; Ok\(Self\(bytes\)\)",
               r"fn visit_byte_buf<E>\(self, v: Vec<u8>\) -> Result<Self::Value, E> where E: serde::de::Error, \{ Ok\(v\) \}",
               r"fn visit_borrowed_bytes<E>\(self, items: &'de \[u8\]\) -> Result<Self::Value, E> \{ Ok\(items\.to_vec\(\)\) \}"],
        "shape": lambda sh, it, mod: (".bytes", set()),
    },
    ("fuel_tx", "GasCosts"): {
        "doc": "delegates to GasCostsValues through the Arc",
        "ser": [r"\{ serde::Serialize::serialize\(self\.0\.as_ref\(\), serializer\) \}"],
        "de": [r"\{ Ok\(GasCosts\(Arc::new\(serde::Deserialize::deserialize\( deserializer, \)\?\)\)\) \}"],
        "shape": lambda sh, it, mod: _gascosts_shape(sh, it, mod),
    },
    ("fuel_tx", "Policies"): {
        "doc": "struct of 2: u32 bits, then [Word; 4] when the bits are within the legacy set, else Vec<Word> (selector constants from Gen/Policies.lean); decoded values are further validated by PoliciesSerde.deSeq",
        "ser": [r'let mut state = serializer\.serialize_struct\("Policies", 2\)\?; state\.serialize_field\("bits", &self\.bits\)\?;',
                r'let first_four_values: \[Word; 4\] = self\.values\[\.\.4\]\.try_into\(\)',
                r'state\.serialize_field\("values", &first_four_values\)\?;',
                r'let mut values = Vec::new\(\); for \(value, bit\) in self\.values\.iter\(\)\.zip\(PoliciesBits::all\(\)\.iter\(\)\) \{ if self\.bits\.contains\(bit\) \{ values\.push\(\*value\); \} \} state\.serialize_field\("values", &values\)\?; \} state\.end\(\)'],
        "de": [r"let bits = match seq\.next_element::<PoliciesBits>\(\)\? \{",
               r"match seq\.next_element::<\[Word; 4\]>\(\)\? \{",
               r"let decoded_values = match seq\.next_element::<Vec<Word>>\(\)\? \{",
               r'const FIELDS: &\[&str\] = &\["_", "_"\]|const FIELDS: &\[&str\] = &\["bits", "values"\]',
               r'serde::Deserializer::deserialize_struct\( deserializer, "Policies", FIELDS, StructVisitor \{'],
        "shape": policies_shape,
    },
}


def _gascosts_shape(sh, it, mod):
    kind, fields = it.fields
    if kind != "tuple" or len(fields) != 1 or re.sub(r"\s+", "", fields[0][1]) != "Arc<GasCostsValues>":
        raise TranslateError("GasCosts is expected to be `struct GasCosts(Arc<GasCostsValues>)`")
    return ty_shape(sh, mod, "GasCostsValues", "GasCosts.0")


# macro-generated key types -------------------------------------------------------------------------------
def install_macro_types(parser):
    # fuel-types/src/array_types.rs: key!(Name, N) / key_with_big_array!(Name, N): hand-written serde in the
    # macro `key_methods!`-family body: N-tuple of u8 in binary formats
    m = parser.modules.get(("fuel_types", ("array_types",)))
    if m is None:
        raise TranslateError("fuel-types: module array_types not found")
    body = None
    for name, b in m.macro_defs.items():
        if "impl serde::Serialize for $i" in re.sub(r"\s+", " ", b):
            if body is not None:
                raise TranslateError("array_types.rs: two macros implement serde::Serialize for $i")
            body, impl_macro = re.sub(r"\s+", " ", b), name
    if body is None:
        raise TranslateError("array_types.rs: the macro implementing serde for the key types was not found")
    for pat in [r"if serializer\.is_human_readable\(\) \{ serializer\.serialize_str\(&format!\(\"[^\"]*\", &self\)\) \} else \{ let mut arr = serializer\.serialize_tuple\(\$s\)\?; for elem in &self\.0 \{ arr\.serialize_element\(elem\)\?; \} arr\.end\(\) \}",
                r"\} else \{ deserializer\.deserialize_tuple\(\$s, ArrayVisitor\)\.map\(Self\) \}"]:
        if not re.search(pat, body):
            raise TranslateError(f"array_types.rs: serde impl of the key types no longer matches /{pat[:60]}.../")
    # which user-facing macros expand to the impl macro with ($i, $s) unchanged
    users = {impl_macro}
    changed = True
    while changed:
        changed = False
        for name, b in m.macro_defs.items():
            if name in users:
                continue
            for u in list(users):
                if re.search(r"\b%s!\s*\(\s*\$i\s*,\s*\$s\s*\)" % re.escape(u), b):
                    users.add(name); changed = True
    # the struct definition `pub struct $i([u8; $s]);`
    struct_ok = any(re.search(r"pub struct \$i\(\s*(?:#\[[^\]]*\]\s*)*\[u8; \$s\]\s*\)", re.sub(r"\s+", " ", b)) for n, b in m.macro_defs.items() if n in users)
    if not struct_ok:
        raise TranslateError("array_types.rs: `pub struct $i([u8; $s]);` not found in the key macros")
    # ArrayVisitor::visit_seq reads exactly S elements
    vis = [im for im in m.impls if im["trait"] and "Visitor" in im["trait"] and "ArrayVisitor" in im["self"]]
    if len(vis) != 1 or not re.search(r"let mut arr = \[0u8; S\]; for \(i, elem\) in arr\.iter_mut\(\)\.enumerate\(\) \{ \*elem = value \.next_element\(\)\?", re.sub(r"\s+", " ", vis[0]["body"])):
        raise TranslateError("array_types.rs: ArrayVisitor::visit_seq no longer reads exactly S elements")
    count = 0
    for name, args in m.macros:
        if name in users:
            mm = re.fullmatch(r"\s*(\w+)\s*,\s*(\d+)\s*", args)
            if not mm:
                raise TranslateError(f"array_types.rs: {name}!({args}) not understood")
            n = int(mm.group(2))
            it = Item("struct", mm.group(1), "fuel_types", ("array_types",), m.file)
            it.attrs = Attrs([])
            it.leaf = (lambda n: lambda sh, it, cargs: (f"(.tuple (List.replicate {n} .u8))", set(),
                       f"HAND-WRITTEN impl in macro {name}! (named leaf): serialize_tuple({n}) of u8 / deserialize_tuple({n})"))(n)
            m.items.setdefault(it.name, []).append(it)
            count += 1
    if count < 10:
        raise TranslateError(f"array_types.rs: only {count} key types found")
    # fuel-types/src/numeric_types.rs: key!(Name, uN): `#[serde(transparent)] pub struct $i($t);` with serde derive
    m = parser.modules.get(("fuel_types", ("numeric_types",)))
    if m is None:
        raise TranslateError("fuel-types: module numeric_types not found")
    b = m.macro_defs.get("key")
    if b is None:
        raise TranslateError("numeric_types.rs: macro key! not found")
    bb = re.sub(r"\s+", " ", b)
    if not re.search(r'#\[cfg_attr\(feature = "serde", derive\(serde::Serialize, serde::Deserialize\)\)\] #\[cfg_attr\(feature = "serde", serde\(transparent\)\)\]', bb) \
            or not re.search(r"pub struct \$i\(\$t\);", bb):
        raise TranslateError("numeric_types.rs: key! no longer defines a serde(transparent) newtype `pub struct $i($t);`")
    n2 = 0
    for name, args in m.macros:
        if name == "key":
            mm = re.fullmatch(r"\s*(\w+)\s*,\s*(u8|u16|u32|u64|u128)\s*", args)
            if not mm:
                raise TranslateError(f"numeric_types.rs: key!({args}) not understood")
            it = Item("struct", mm.group(1), "fuel_types", ("numeric_types",), m.file)
            it.attrs = Attrs([])
            it.leaf = (lambda t: lambda sh, it, cargs: (PRIMS[t], sh.note_attr("transparent") or set(),
                       f"macro key!: #[serde(transparent)] newtype of {t}"))(mm.group(2))
            m.items.setdefault(it.name, []).append(it)
            n2 += 1
    if n2 < 2:
        raise TranslateError("numeric_types.rs: fewer than 2 numeric key types")


# ------------------------------------------------------------------------------------------------ main
def main():
    ACTIVE.update(active_features())
    parser = Parser()
    for c in CRATES:
        parser.load_crate(c)
    install_macro_types(parser)
    sh = Shapes(parser)
    roots = []
    for crate, path in ROOTS:
        mod = sh.module(crate, [])
        res = sh.resolve_path(mod, path.split("::"))
        items = []
        for k, t in res:
            if k == "item" and t not in items:
                items.append(t)
        if len(items) != 1:
            raise TranslateError(f"root {crate}::{path}: expected exactly one item, found {[i.qual() for i in items]}")
        name = sh.define(("inst", items[0], []), f"root {path}")
        roots.append(name)
    # every `#[serde(..)]` attribute anywhere in the four crates must be a known one (even on types not reached)
    for c, d in CRATES.items():
        for dirpath, _, files in os.walk(os.path.join(REPO, d, "src")):
            for f in files:
                if f.endswith(".rs"):
                    txt = strip_comments_keep_strings(open(os.path.join(dirpath, f), encoding="utf-8").read())
                    for mm in re.finditer(r"\bserde\s*\(\s*(\w+)", txt):
                        if mm.group(1) not in SERDE_ATTRS:
                            raise TranslateError(f"{os.path.relpath(os.path.join(dirpath, f), REPO)}: unknown #[serde({mm.group(1)} ..)] attribute")
    names = sh.order
    if len(set(names)) != len(names):
        raise TranslateError("duplicate shape names")
    L = ["/- GENERATED by tools/gen/serde_shapes.py from the serde derives / hand-written impls of fuel-tx, fuel-types,",
         "   fuel-asm, fuel-vm — do not edit.  One `Shape` per type reachable from the roots",
         "   " + ", ".join(roots) + ".",
         "   cargo features of the harness build: " + "; ".join(f"{CRATES[c]}: {' '.join(sorted(ACTIVE[c]))}" for c in CRATES) + ".",
         "   #[serde(..)] attributes met: " + ", ".join(f"{k} x{v}" for k, v in sorted(sh.attr_uses.items())) + " -/",
         "import FuelVerif.Model.Serde",
         "import FuelVerif.Gen.Policies",
         "namespace FuelVerif.Gen.SerdeShapes",
         "open FuelVerif.Serde",
         ""]
    for n in names:
        expr, doc, refs, _ = sh.defs[n]
        L.append(f"/-- {doc} -/")
        L.append(f"def s{n} : Shape := {expr}")
    L.append("")
    L.append("inductive TypeName")
    for n in names:
        L.append(f"  | {lean_ctor(n)}")
    L.append("  deriving DecidableEq, Repr")
    L.append("")
    L.append("def shapeOf : TypeName → Shape")
    for n in names:
        L.append(f"  | .{lean_ctor(n)} => s{n}")
    L.append("")
    L.append("def TypeName.all : List TypeName := [" + ", ".join("." + lean_ctor(n) for n in names) + "]")
    L.append("")
    L.append("def TypeName.toString : TypeName → String")
    for n in names:
        L.append(f'  | .{lean_ctor(n)} => "{n}"')
    L.append("")
    L.append("def TypeName.ofString? (s : String) : Option TypeName := TypeName.all.find? (fun t => t.toString == s)")
    L.append("")
    L.append("/-- the roots the harness serialises at top level -/")
    L.append("def roots : List TypeName := [" + ", ".join("." + lean_ctor(n) for n in roots) + "]")
    L.append("")
    L.append("/-- type name -> names of the types its definition refers to (for the closedness obligation) -/")
    L.append("def refs : List (String × List String) := [")
    L.append(",\n".join(f'  ("{n}", [' + ", ".join(f'"{r}"' for r in sorted(sh.defs[n][2])) + "])" for n in names))
    L.append("]")
    L.append("")
    L.append("end FuelVerif.Gen.SerdeShapes")
    L.append("")
    ch = write_if_changed("SerdeShapes.lean", "\n".join(L))
    print("serde_shapes: %d types (%d roots), hand-written leaves: %s, serde attrs: %s%s" % (
        len(names), len(roots), ", ".join(q for q, _ in sh.leaf_notes), dict(sorted(sh.attr_uses.items())), " (changed)" if ch else ""))


def lean_ctor(n):
    return "T" + n


if __name__ == "__main__":
    try:
        main()
    except TranslateError as e:
        print("TRANSLATE-ERROR serde_shapes: %s" % e)
        sys.exit(3)
