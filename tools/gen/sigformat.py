#!/usr/bin/env python3
"""Signature wire format and memory constants -> Gen/SigFormat.lean  (C16, C17)

Sources (regex over the Rust text; fails closed when the text no longer has the expected shape):
  fuel-crypto/src/secp256/signature_format.rs  encode_signature / decode_signature: byte index of the
      recovery bit, the masks and the shift;  the TryFrom/From impls of RecoveryId (no reduced x)
  fuel-types/src/array_types.rs (key_with_big_array!/key!) Bytes32 / Bytes64 lengths
  fuel-crypto/src/{message.rs, secp256/{signature,public,secret}.rs}  LEN constants
  fuel-vm/src/consts.rs  FUEL_MAX_MEMORY_SIZE, VM_MAX_RAM, MEM_SIZE
  fuel-vm/src/interpreter/crypto.rs  the read widths / write width of the three signature handlers and
      which library function each calls
"""
import re, sys
from common import *


def squash(s):
    return re.sub(r"\s+", "", s)


def sigformat():
    src = strip_comments(read("fuel-crypto/src/secp256/signature_format.rs"))
    enc = need(re.search(r"pub fn encode_signature\(mut signature: \[u8; 64\], recovery_id: RecoveryId\) -> \[u8; 64\] \{(.*?)\n\}", src, re.S), "encode_signature")
    body = squash(enc.group(1))
    m = need(re.fullmatch(
        r'assert!\(signature\[(\d+)\]>>(\d+)==0,"Non-normalizedsignature"\);'
        r'letv=recovery_id\.is_y_oddasu8;'
        r'signature\[(\d+)\]=\(v<<(\d+)\)\|\(signature\[(\d+)\]&(0x[0-9a-fA-F]+)\);signature', body),
        "encode_signature body shape")
    e_idx, e_ashift, e_idx2, e_shift, e_idx3, e_mask = m.groups()
    dec = need(re.search(r"pub fn decode_signature\(mut signature: \[u8; 64\]\) -> \(\[u8; 64\], RecoveryId\) \{(.*?)\n\}", src, re.S), "decode_signature")
    body = squash(dec.group(1))
    m = need(re.fullmatch(
        r'letis_y_odd=\(signature\[(\d+)\]&(0x[0-9a-fA-F]+)\)!=0;'
        r'signature\[(\d+)\]&=(0x[0-9a-fA-F]+);\(signature,RecoveryId\{is_y_odd\}\)', body),
        "decode_signature body shape")
    d_idx, d_bit, d_idx2, d_mask = m.groups()
    if len({e_idx, e_idx2, e_idx3}) != 1 or d_idx != d_idx2:
        raise TranslateError("signature_format.rs: byte indices inside one function differ")
    # RecoveryId conversions: k256 side builds (is_y_odd, false) and rejects reduced x; secp256k1 side maps 0/1 only
    need(re.search(r"k256::ecdsa::RecoveryId::new\(recid\.is_y_odd,\s*false\)", src), "From<RecoveryId> for k256 RecoveryId = new(is_y_odd, false)")
    need(re.search(r"if recid\.is_x_reduced\(\)\s*\{\s*return Err\(\(\)\)", src), "TryFrom<ecdsa::RecoveryId>: reduced x rejected")
    need(re.search(r"match i32::from\(recid\)\s*\{\s*0 => Ok\(Self \{ is_y_odd: false \}\),\s*1 => Ok\(Self \{ is_y_odd: true \}\),\s*_ => Err\(\(\)\),", src), "TryFrom<secp256k1 RecoveryId>: 0/1 only")
    need(re.search(r"secp256k1::ecdsa::RecoveryId::try_from\(recid\.is_y_odd as i32\)", src), "From<RecoveryId> for secp256k1 RecoveryId")
    return dict(encIdx=int(e_idx), encAssertShift=int(e_ashift), encShift=int(e_shift), encMask=rust_int(e_mask),
                decIdx=int(d_idx), decBit=rust_int(d_bit), decMask=rust_int(d_mask))


def lens():
    out = {}
    at = strip_comments(read("fuel-types/src/array_types.rs"))
    for name in ("Bytes32", "Bytes64"):
        m = need(re.search(r"key(?:_with_big_array)?!\(\s*%s\s*,\s*(\d+)\s*\)" % name, at), f"array_types.rs {name} length")
        out[name] = int(m.group(1))
    for rel, ty, base in (("fuel-crypto/src/message.rs", "Message", "Bytes32"),
                          ("fuel-crypto/src/secp256/signature.rs", "Signature", "Bytes64"),
                          ("fuel-crypto/src/secp256/public.rs", "PublicKey", "Bytes64"),
                          ("fuel-crypto/src/secp256/secret.rs", "SecretKey", "Bytes32")):
        src = strip_comments(read(rel))
        need(re.search(r"pub struct %s\(%s\);" % (ty, base), src), f"{rel}: struct {ty}({base})")
        need(re.search(r"pub const LEN: usize = %s::LEN;" % base, src), f"{rel}: LEN = {base}::LEN")
        out[ty] = out[base]
    return out


def vmconsts():
    src = strip_comments(read("fuel-vm/src/consts.rs"))
    mb = need(re.search(r"pub const FUEL_MAX_MEMORY_SIZE: u64 = (\d+);", src), "FUEL_MAX_MEMORY_SIZE")
    need(re.search(r"pub const VM_MAX_RAM: u64 = 1024 \* 1024 \* FUEL_MAX_MEMORY_SIZE;", src), "VM_MAX_RAM formula")
    need(re.search(r"pub const MEM_SIZE: usize = VM_MAX_RAM as usize;", src), "MEM_SIZE = VM_MAX_RAM")
    return 1024 * 1024 * int(mb.group(1))


def handlers():
    """shape of the three handlers in interpreter/crypto.rs: what is read, which library call, what is written"""
    src = strip_comments(read("fuel-vm/src/interpreter/crypto.rs"))
    out = {}
    for fn, call in (("secp256k1_recover", r"signature\.recover\(message\)"),
                     ("secp256r1_recover", r"fuel_crypto::secp256r1::recover\(&sig, message\)")):
        m = need(re.search(r"^pub\(crate\) fn %s\((.*?)\) -> SimpleResult<\(\)> \{(.*?)\n\}" % fn, src, re.S | re.M), f"crypto.rs {fn}")
        body = squash(m.group(2))
        exp = (r"letsig=Bytes64::from\(memory\.read_bytes\(b\)\?\);letmsg=Bytes32::from\(memory\.read_bytes\(c\)\?\);"
               r"(?:letsignature=Signature::from_bytes_ref\(&sig\);)?letmessage=Message::from_bytes_ref\(&msg\);"
               r"match%s\{Ok\(pub_key\)=>\{memory\.write_bytes\(owner,a,\*pub_key\)\?;clear_err\(err\);\}"
               r"Err\(_\)=>\{memory\.write_bytes\(owner,a,\[0;PublicKey::LEN\]\)\?;set_err\(err\);\}\}inc_pc\(pc\);Ok\(\(\)\)") % squash(call)
        need(re.fullmatch(exp, body), f"crypto.rs {fn}: body shape (read b:64, c:32; write a; err; inc_pc)")
    m = need(re.search(r"^pub\(crate\) fn ed25519_verify\((.*?)\) -> SimpleResult<\(\)> \{(.*?)\n\}", src, re.S | re.M), "crypto.rs ed25519_verify")
    body = squash(m.group(2))
    exp = (r"letpub_key=Bytes32::from\(memory\.read_bytes\(a\)\?\);letsig=Bytes64::from\(memory\.read_bytes\(b\)\?\);"
           r"letmsg=memory\.read\(c,len\)\?;iffuel_crypto::ed25519::verify\(&pub_key,&sig,msg\)\.is_ok\(\)"
           r"\{clear_err\(err\);\}else\{set_err\(err\);\}inc_pc\(pc\);Ok\(\(\)\)")
    need(re.fullmatch(exp, body), "crypto.rs ed25519_verify: body shape")
    # Signature::recover = k1::recover (backend chosen by feature), ED19 len == 0 -> 32
    sig = strip_comments(read("fuel-crypto/src/secp256/signature.rs"))
    need(re.search(r"pub fn recover\(&self, message: &Message\) -> Result<PublicKey, Error> \{\s*k1::recover\(\*self\.0, message\)", sig), "Signature::recover = k1::recover")
    need(re.search(r"pub fn verify\(&self, public_key: &PublicKey, message: &Message\) -> Result<\(\), Error> \{\s*k1::verify\(\*self\.0, \*\*public_key, message\)", sig), "Signature::verify = k1::verify")
    need(re.search(r"pub fn sign\(secret: &SecretKey, message: &Message\) -> Self \{\s*Self\(Bytes64::from\(k1::sign\(secret, message\)\)\)", sig), "Signature::sign = k1::sign")
    ops = strip_comments(read("fuel-vm/src/interpreter/executors/opcodes_impl.rs"))
    m = need(re.search(r"for fuel_asm::op::ED19\b.*?let mut len = interpreter\.registers\[len\];\s*if len == (\d+) \{\s*len = (\d+);\s*\}", ops, re.S), "ED19: zero length rule")
    out["ed19ZeroLen"] = int(m.group(1))
    out["ed19DefaultLen"] = int(m.group(2))
    be = strip_comments(read("fuel-crypto/src/secp256/backend.rs"))
    need(re.search(r'#\[cfg\(not\(feature = "std"\)\)\]\s*pub use self::k256::\*;\s*#\[cfg\(feature = "std"\)\]\s*pub use self::secp256k1::\*;', be), "backend.rs: std => secp256k1, no-std => k256")
    return out


def main():
    sf = sigformat()
    ln = lens()
    mem = vmconsts()
    hd = handlers()
    L = ["/- GENERATED by tools/gen/sigformat.py from fuel-crypto/src/secp256/signature_format.rs, fuel-types/src/array_types.rs,",
         "   fuel-crypto/src/{message,secp256/*}.rs, fuel-vm/src/consts.rs, fuel-vm/src/interpreter/crypto.rs — do not edit -/",
         "namespace FuelVerif.Gen.SigFormat", ""]
    doc = {
        "encIdx": "encode_signature: index of the byte that carries the recovery bit",
        "encAssertShift": "encode_signature: `assert!(signature[i] >> k == 0)`",
        "encShift": "encode_signature: `(v << k)`",
        "encMask": "encode_signature: `signature[i] & mask`",
        "decIdx": "decode_signature: index of the byte that carries the recovery bit",
        "decBit": "decode_signature: `(signature[i] & bit) != 0`",
        "decMask": "decode_signature: `signature[i] &= mask`",
    }
    for k in ("encIdx", "encAssertShift", "encShift", "encMask", "decIdx", "decBit", "decMask"):
        L.append("/-- %s -/" % doc[k])
        L.append("def %s : Nat := %d" % (k, sf[k]))
    L.append("")
    for k in ("Bytes32", "Bytes64", "Message", "Signature", "PublicKey", "SecretKey"):
        L.append("def len%s : Nat := %d" % (k, ln[k]))
    L.append("")
    L.append("/-- fuel-vm consts.rs: MEM_SIZE = VM_MAX_RAM = 1024 * 1024 * FUEL_MAX_MEMORY_SIZE -/")
    L.append("def memSize : Nat := %d" % mem)
    L.append("/-- ED19: a zero length register is replaced by this length -/")
    L.append("def ed19ZeroLen : Nat := %d" % hd["ed19ZeroLen"])
    L.append("def ed19DefaultLen : Nat := %d" % hd["ed19DefaultLen"])
    L.append("")
    L.append("end FuelVerif.Gen.SigFormat")
    changed = write_if_changed("SigFormat.lean", "\n".join(L) + "\n")
    print("sigformat: recovery bit at byte %d, mem %d%s" % (sf["decIdx"], mem, " (changed)" if changed else ""))


if __name__ == "__main__":
    try:
        main()
    except TranslateError as e:
        print("TRANSLATE-ERROR sigformat: %s" % e)
        sys.exit(3)
