#!/usr/bin/env python3
"""T2 (ALU part): register ids, flag bits, VM_MAX_RAM, and the immediate-argument decoding tables of
fuel-asm/src/args/{narrowint,wideint}.rs -> Gen/AluArgs.lean   (used by C21, C22, C25)"""
import re, sys
from common import *


def enum_table(src, name):
    m = need(re.search(r"pub enum %s \{(.*?)\n\}" % name, src, re.S), f"enum {name}")
    rows = re.findall(r"^\s*([A-Z][A-Z0-9]*)\s*=\s*([0-9a-fx_]+)\s*,", strip_comments(m.group(1)), re.M)
    body_idents = re.findall(r"^\s*([A-Za-z_][A-Za-z0-9_]*)\b", strip_comments(m.group(1)), re.M)
    if not rows or len(rows) != len([b for b in body_idents if b]):
        raise TranslateError(f"enum {name}: not every variant has an explicit discriminant")
    return [(rust_int(v), n) for n, v in rows]


def fn_body(src, typ, fn):
    m = need(re.search(r"impl %s \{(.*?)\n\}" % typ, src, re.S), f"impl {typ}")
    b = need(re.search(r"pub fn %s\(([^)]*)\)\s*->\s*[^{]+\{(.*?)\n    \}" % fn, m.group(1), re.S), f"{typ}::{fn}")
    return re.sub(r"\s+", " ", strip_comments(b.group(2))).strip()


def expect(body, pattern, what):
    m = re.fullmatch(pattern, body)
    if not m:
        raise TranslateError(f"{what}: body {body!r} does not have the expected shape")
    return m


def regids():
    src = read("fuel-asm/src/lib.rs")
    m = need(re.search(r"impl RegId \{(.*?)pub const fn new", src, re.S), "impl RegId consts")
    rows = re.findall(r"pub const ([A-Z]+): Self = Self\((0x[0-9A-Fa-f]+)\);", m.group(1))
    d = {n: int(v, 16) for n, v in rows}
    want = ["ZERO", "ONE", "OF", "PC", "SSP", "SP", "FP", "HP", "ERR", "GGAS", "CGAS", "BAL", "IS", "RET", "RETL", "FLAG", "WRITABLE"]
    for w in want:
        if w not in d:
            raise TranslateError(f"RegId::{w} not found")
    if len(d) != len(want):
        raise TranslateError(f"RegId constants changed: {sorted(d)}")
    need(re.search(r"pub const fn new\(u: u8\) -> Self \{\s*Self\(u & 0b_0011_1111\)\s*\}", src), "RegId::new mask")
    fl = need(re.search(r"pub struct Flags: Word \{(.*?)\n    \}", src, re.S), "Flags bitflags")
    flags = dict(re.findall(r"const ([A-Z]+) = (0x[0-9A-Fa-f]+);", fl.group(1)))
    if sorted(flags) != ["UNSAFEMATH", "WRAPPING"]:
        raise TranslateError(f"Flags changed: {flags}")
    return d, want, {k: int(v, 16) for k, v in flags.items()}


def consts():
    src = read("fuel-vm/src/consts.rs")
    mm = need(re.search(r"pub const FUEL_MAX_MEMORY_SIZE: u64 = (\d+);", src), "FUEL_MAX_MEMORY_SIZE")
    need(re.search(r"pub const VM_MAX_RAM: u64 = 1024 \* 1024 \* FUEL_MAX_MEMORY_SIZE;", src), "VM_MAX_RAM")
    need(re.search(r"pub const MEM_SIZE: usize = VM_MAX_RAM as usize;", src), "MEM_SIZE")
    return 1024 * 1024 * int(mm.group(1))


def narrow():
    src = read("fuel-asm/src/args/narrowint.rs")
    ops = enum_table(src, "MathOp")
    widths = enum_table(src, "OpWidth")
    b = fn_body(src, "MathArgs", "from_imm")
    m = expect(b, r"let op = MathOp::from_repr\(bits\.0 & (0b[_01]+)\)\?; let width = OpWidth::from_repr\(\(bits\.0 >> (\d+)\) & (0b[_01]+)\)\?; Some\(Self \{ op, width \}\)", "narrowint MathArgs::from_imm")
    return ops, widths, rust_int(m.group(1)), int(m.group(2)), rust_int(m.group(3))


def wide():
    src = read("fuel-asm/src/args/wideint.rs")
    modes = enum_table(src, "CompareMode")
    ops = enum_table(src, "MathOp")
    out = {}
    b = fn_body(src, "CompareArgs", "from_imm")
    m = expect(b, r"let indirect_rhs = \(\(bits\.0 >> (\d+)\) & 1\) == 1; let reserved = \(bits\.0 >> (\d+)\) & (0b[_01]+); if reserved != 0 \{ return None \} let mode = CompareMode::from_repr\(bits\.0 & (0b[_01]+)\)\?; Some\(Self \{ mode, indirect_rhs \}\)", "CompareArgs::from_imm")
    out["cmp"] = (int(m.group(1)), int(m.group(2)), rust_int(m.group(3)), rust_int(m.group(4)))
    b = fn_body(src, "MathArgs", "from_imm")
    m = expect(b, r"let indirect_rhs = \(\(bits\.0 >> (\d+)\) & 1\) == 1; let op = MathOp::from_repr\(bits\.0 & (0b[_01]+)\)\?; Some\(Self \{ op, indirect_rhs \}\)", "wideint MathArgs::from_imm")
    out["math"] = (int(m.group(1)), rust_int(m.group(2)))
    b = fn_body(src, "MulArgs", "from_imm")
    m = expect(b, r"let indirect_lhs = \(\(bits\.0 >> (\d+)\) & 1\) == 1; let indirect_rhs = \(\(bits\.0 >> (\d+)\) & 1\) == 1; if \(bits\.0 & (0b[_01]+)\) != 0 \{ return None \} Some\(Self \{ indirect_lhs, indirect_rhs, \}\)", "MulArgs::from_imm")
    out["mul"] = (int(m.group(1)), int(m.group(2)), rust_int(m.group(3)))
    b = fn_body(src, "DivArgs", "from_imm")
    m = expect(b, r"let indirect_rhs = \(\(bits\.0 >> (\d+)\) & 1\) == 1; if \(bits\.0 & (0b[_01]+)\) != 0 \{ return None \} Some\(Self \{ indirect_rhs \}\)", "DivArgs::from_imm")
    out["div"] = (int(m.group(1)), rust_int(m.group(2)))
    return modes, ops, out


def lean_table(name, doc, rows):
    return ["/-- %s -/" % doc, "def %s : List (Nat × String) := [%s]" % (name, ", ".join('(%d, "%s")' % r for r in rows))]


def main():
    regs, order, flags = regids()
    maxram = consts()
    nops, nwidths, nopmask, nwshift, nwmask = narrow()
    modes, wops, w = wide()
    L = ["/- GENERATED by tools/gen/aluargs.py from fuel-asm/src/lib.rs, fuel-asm/src/args/{narrowint,wideint}.rs, fuel-vm/src/consts.rs — do not edit -/",
         "namespace FuelVerif.Gen.AluArgs", ""]
    L.append("/-! `impl RegId` constants of fuel-asm/src/lib.rs -/")
    for n in order:
        L.append("def reg%s : Nat := %d" % (n, regs[n]))
    L.append("/-- `RegId::new(u)` = `u & 0b0011_1111` -/")
    L.append("def regIdMask : Nat := 63")
    L.append("/-! `bitflags! Flags` of fuel-asm/src/lib.rs -/")
    L.append("def flagUNSAFEMATH : Nat := %d" % flags["UNSAFEMATH"])
    L.append("def flagWRAPPING : Nat := %d" % flags["WRAPPING"])
    L.append("/-- `VM_MAX_RAM` = `MEM_SIZE` of fuel-vm/src/consts.rs -/")
    L.append("def vmMaxRam : Nat := %d" % maxram)
    L.append("")
    L += lean_table("narrowMathOps", "`narrowint::MathOp` discriminants", nops)
    L += lean_table("narrowOpWidths", "`narrowint::OpWidth` discriminants", nwidths)
    L.append("/-- `narrowint::MathArgs::from_imm`: `op = bits & narrowOpMask`, `width = (bits >> narrowWidthShift) & narrowWidthMask` -/")
    L.append("def narrowOpMask : Nat := %d" % nopmask)
    L.append("def narrowWidthShift : Nat := %d" % nwshift)
    L.append("def narrowWidthMask : Nat := %d" % nwmask)
    L.append("")
    L += lean_table("wideCompareModes", "`wideint::CompareMode` discriminants", modes)
    L += lean_table("wideMathOps", "`wideint::MathOp` discriminants", wops)
    L.append("/-- `CompareArgs::from_imm`: indirect_rhs = bit `cmpIndirectShift`; reserved = `(bits >> cmpReservedShift) & cmpReservedMask` must be 0; mode = `bits & cmpModeMask` -/")
    L.append("def cmpIndirectShift : Nat := %d" % w["cmp"][0])
    L.append("def cmpReservedShift : Nat := %d" % w["cmp"][1])
    L.append("def cmpReservedMask : Nat := %d" % w["cmp"][2])
    L.append("def cmpModeMask : Nat := %d" % w["cmp"][3])
    L.append("/-- `wideint::MathArgs::from_imm`: indirect_rhs = bit `mathIndirectShift`; op = `bits & mathOpMask` -/")
    L.append("def mathIndirectShift : Nat := %d" % w["math"][0])
    L.append("def mathOpMask : Nat := %d" % w["math"][1])
    L.append("/-- `MulArgs::from_imm`: indirect_lhs / indirect_rhs bits; `bits & mulReservedMask` must be 0 -/")
    L.append("def mulIndirectLhsShift : Nat := %d" % w["mul"][0])
    L.append("def mulIndirectRhsShift : Nat := %d" % w["mul"][1])
    L.append("def mulReservedMask : Nat := %d" % w["mul"][2])
    L.append("/-- `DivArgs::from_imm`: indirect_rhs bit; `bits & divReservedMask` must be 0 -/")
    L.append("def divIndirectRhsShift : Nat := %d" % w["div"][0])
    L.append("def divReservedMask : Nat := %d" % w["div"][1])
    L.append("")
    L.append("end FuelVerif.Gen.AluArgs")
    changed = write_if_changed("AluArgs.lean", "\n".join(L) + "\n")
    print("aluargs: %d regs, %d+%d narrow, %d+%d wide enum rows%s" % (len(order), len(nops), len(nwidths), len(modes), len(wops), " (changed)" if changed else ""))


if __name__ == "__main__":
    try:
        main()
    except TranslateError as e:
        print("TRANSLATE-ERROR aluargs: %s" % e)
        sys.exit(3)
