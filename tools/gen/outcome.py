#!/usr/bin/env python3
"""C28: receipt limit, reserved tail slots, should_revert kinds, run_program / MemoryClient shapes -> Gen/Outcome.lean

 * fuel-vm/src/interpreter/receipts.rs        ReceiptsCtx::{MAX_RECEIPTS, push}
 * fuel-vm/src/state.rs                       StateTransition::should_revert
 * fuel-vm/src/interpreter/executors/main.rs  run_program (arms of the loop, trailer)
 * fuel-vm/src/memory_client.rs               MemoryClient::transact
 * fuel-vm/src/storage/memory.rs              MemoryStorage::{commit, revert}
 * fuel-vm/src/interpreter/initialization.rs  init_inner (what a reused Interpreter resets before a transaction)
"""
import re, sys
from common import *


def _non_test(rel):
    src = read(rel)
    m = re.search(r"#\[cfg\(test\)\]\s*mod\s+\w+\s*\{", src)
    if m:
        src = src[: m.start()]
    return strip_comments(src)


def receipt_sites():
    """where the interpreter (non-test code of fuel-vm/src) BUILDS Revert / Panic / ScriptResult receipts, and who calls
    the two helper functions that do it: (kind, file, enclosing fn) triples, sorted"""
    import os
    root = os.path.join(REPO, "fuel-vm", "src")
    built, callers = [], []
    for d, _, fs in sorted(os.walk(root)):
        for f in sorted(fs):
            if not f.endswith(".rs"):
                continue
            rel = os.path.relpath(os.path.join(d, f), REPO)
            if "/tests/" in rel or f == "tests.rs" or f.endswith("_tests.rs") or "/test_helpers" in rel or f == "test_helpers.rs":
                continue
            src = _non_test(rel)
            fns = [(m.start(), m.group(1)) for m in re.finditer(r"\bfn\s+(\w+)", src)]
            impls = [(m.start(), m.group(1)) for m in re.finditer(r"\bimpl\b[^{;]*?\bfor\s+([\w:]+)", src)]
            def encl(pos):
                name = "?"
                for st, n in fns:
                    if st < pos:
                        name = n
                if name == "execute":  # the per-opcode `impl Execute for fuel_asm::op::XXX`
                    who = "?"
                    for st, n in impls:
                        if st < pos:
                            who = n.split("::")[-1]
                    name = who + "::execute"
                return name
            short = rel.replace("fuel-vm/src/", "")
            for m in re.finditer(r"\bReceipt::(revert|panic|script_result)\s*\(|\bReceipt::(Revert|Panic|ScriptResult)\s*\{", src):
                kind = (m.group(1) or {"Revert": "revert", "Panic": "panic", "ScriptResult": "script_result"}[m.group(2)])
                # a pattern (`matches!(r, Receipt::Panic { .. })`, match arms) is not a construction
                tail = src[m.end(): m.end() + 200]
                if m.group(2) and re.match(r"\s*(\.\.|[\w\s,:]*\.\.\s*\}|[\w\s,]*\}\s*(=>|\)|\|))", tail):
                    continue
                built.append((kind, short, encl(m.start())))
            for m in re.finditer(r"(?<!fn )\b(append_panic_receipt)\s*\(|(?<![\w.])(?<!fn )(revert)\s*\(\s*&mut|\.(revert)\s*\(", src):
                name = m.group(1) or m.group(2) or m.group(3)
                form = "method" if m.group(3) else "fn"
                if name == "revert" and form == "method" and "interpreter/" not in short:
                    continue  # MemoryStorage::revert etc. are storage roll-backs, not the RVRT helper
                callers.append((name if form == "fn" else "." + name, short, encl(m.start())))
    return sorted(set(built)), sorted(set(callers))


def main():
    r = strip_comments(read("fuel-vm/src/interpreter/receipts.rs"))
    m = need(re.search(r"pub const MAX_RECEIPTS: usize = (.*?);", r), "receipts.rs MAX_RECEIPTS")
    expr = m.group(1).strip()
    vals = {"u16::MAX as usize": 65535, "u8::MAX as usize": 255, "u32::MAX as usize": 4294967295}
    if expr in vals:
        maxr = vals[expr]
    else:
        try:
            maxr = rust_int(expr)
        except ValueError:
            raise TranslateError(f"MAX_RECEIPTS = {expr!r} not understood")
    p = need(re.search(r"pub fn push\(&mut self, receipt: Receipt\) -> SimpleResult<\(\)> \{(.*?)\n    \}", r, re.S), "receipts.rs push")
    t = re.sub(r"\s+", "", p.group(1))
    exp = ("ifself.receipts.len()==Self::MAX_RECEIPTS{returnErr(Bug::new(BugVariant::ReceiptsCtxFull).into())}"
           "if(self.receipts.len()==Self::MAX_RECEIPTS-1&&!matches!(receipt,Receipt::ScriptResult{..}))"
           "||(self.receipts.len()==Self::MAX_RECEIPTS-2&&!matches!(receipt,Receipt::ScriptResult{..}|Receipt::Panic{..}))"
           "{returnErr(PanicReason::TooManyReceipts.into())}"
           "self.receipts_tree.push(receipt.to_bytes().as_slice());self.receipts.push(receipt);Ok(())")
    if t != exp:
        raise TranslateError("receipts.rs push body changed: %r" % t[:200])
    s = strip_comments(read("fuel-vm/src/state.rs"))
    kinds = []
    for blk in re.findall(r"pub fn should_revert\(&self\) -> bool \{(.*?)\n    \}", s, re.S):
        t2 = re.sub(r"\s+", "", blk)
        m2 = need(re.fullmatch(r"self\.receipts\.iter\(\)\.any\(\|r\|matches!\(r,(.*)\)\)", t2), "state.rs should_revert body")
        ks = [k.replace("Receipt::", "").replace("{..}", "") for k in m2.group(1).split("|")]
        kinds.append(ks)
    if not kinds or any(k != kinds[0] for k in kinds):
        raise TranslateError("state.rs: should_revert definitions missing or inconsistent")
    e = strip_comments(read("fuel-vm/src/interpreter/executors/main.rs"))
    rp = e[e.find("pub(crate) fn run_program("):]
    rp = rp[:rp.find("\n    }\n")]
    t3 = re.sub(r"\s+", "", rp)
    arms = ["Ok(ExecuteState::Proceed)=>continue", "Ok(ExecuteState::Revert(r))=>{break(ScriptExecutionResult::Revert,ProgramState::Revert(r))}",
            "Ok(ExecuteState::Return(_)|ExecuteState::ReturnData(_))ifin_call=>{continue}",
            "Ok(ExecuteState::Return(r))=>{break(ScriptExecutionResult::Success,ProgramState::Return(r))}",
            "Ok(ExecuteState::ReturnData(d))=>{break(ScriptExecutionResult::Success,ProgramState::ReturnData(d),)}",
            "Some(result)=>{self.append_panic_receipt(result);break(ScriptExecutionResult::Panic,ProgramState::Revert(0));}",
            "None=>returnErr(e)",
            "letin_call=!self.frames.is_empty();",
            "self.receipts.push(Receipt::script_result(result,gas_used))?;",
            "*script.receipts_root_mut()=self.receipts.root();"]
    pos = -1
    order_sensitive = arms[:7]
    for a in arms:
        if a not in t3:
            raise TranslateError("run_program: expected fragment missing: %s" % a)
    for a in order_sensitive:
        q = t3.find(a)
        if q < pos:
            raise TranslateError("run_program: match arms reordered at %s" % a)
        pos = q
    if t3.find("self.receipts.push(Receipt::script_result(result,gas_used))?;") > t3.find("*script.receipts_root_mut()=self.receipts.root();"):
        raise TranslateError("run_program: receipts root taken before the ScriptResult push")
    fl = re.sub(r"\s+", "", strip_comments(read("fuel-vm/src/interpreter/flow.rs")))
    if 'self.receipts.push(receipt).expect("Appendingapanicreceiptcannotfail");' not in fl:
        raise TranslateError("flow.rs append_panic_receipt: push(..).expect(..) changed")
    mc = re.sub(r"\s+", "", strip_comments(read("fuel-vm/src/memory_client.rs")))
    exp_mc = ("ifletOk(state)=self.transactor.result(){ifstate.should_revert(){self.transactor.as_mut().revert();}else{self.transactor.as_mut().commit();}}"
              "else{self.transactor.as_mut().revert();}")
    if exp_mc not in mc:
        raise TranslateError("memory_client.rs transact: commit/revert decision changed")
    ms = re.sub(r"\s+", "", strip_comments(read("fuel-vm/src/storage/memory.rs")))
    if "pubfncommit(&mutself){self.transacted=self.memory.clone();}" not in ms or "pubfnrevert(&mutself){self.memory=self.transacted.clone();}" not in ms:
        raise TranslateError("storage/memory.rs commit/revert changed")
    # what a reused interpreter (MemoryClient / Transactor) resets before every transaction
    ini = strip_comments(read("fuel-vm/src/interpreter/initialization.rs"))
    mi = need(re.search(r"fn init_inner\s*\(", ini), "initialization.rs fn init_inner")
    k = ini.index("{", ini.index("->", mi.end()))
    depth, j = 0, k
    while True:
        depth += {"{": 1, "}": -1}.get(ini[j], 0)
        j += 1
        if depth == 0:
            break
    body = re.sub(r"\s+", "", ini[k:j])
    for fn in ("init_script", "init_predicate"):
        fm = need(re.search(r"pub fn %s\b.*?\n    \}" % fn, ini, re.S), "initialization.rs fn %s" % fn)
        if "self.init_inner(" not in fm.group(0):
            raise TranslateError("%s no longer goes through init_inner" % fn)
    uses_f = re.findall(r"self\.frames\b[^;]*;", body)
    uses_r = re.findall(r"self\.receipts\b[^;]*;", body)
    if any(u != "self.frames.clear();" for u in uses_f) or any(u != "self.receipts.clear();" for u in uses_r):
        raise TranslateError("init_inner touches frames / receipts in an unknown way: %r" % (uses_f + uses_r))
    clears_frames, clears_receipts = bool(uses_f), bool(uses_r)
    tr = re.sub(r"\s+", "", strip_comments(read("fuel-vm/src/interpreter/executors/main.rs")))
    if "letstate_result=self.init_script(tx).and_then(|_|self.run());" not in tr:
        raise TranslateError("executors/main.rs: transact no longer calls init_script before running")
    L = ["/- GENERATED by tools/gen/outcome.py from fuel-vm/src/{interpreter/receipts.rs,state.rs,interpreter/executors/main.rs,memory_client.rs,storage/memory.rs,interpreter/initialization.rs} — do not edit -/",
         "namespace FuelVerif.Gen", "",
         "/-- `ReceiptsCtx::MAX_RECEIPTS` -/", "def receiptsMax : Nat := %d" % maxr,
         "/-- number of tail slots `push` reserves (conditions `len == MAX-1`, `len == MAX-2`) -/", "def reservedTailSlots : Nat := 2",
         "/-- receipt kinds that make `should_revert` true -/",
         "def shouldRevertKinds : List String := [%s]" % ", ".join('"%s"' % k for k in kinds[0]),
         "/-- initialization.rs `init_inner` (run before every transaction, also on a reused `Interpreter`) contains",
         "    `self.frames.clear();` resp. `self.receipts.clear();` -/",
         "def initClearsFrames : Bool := %s" % str(clears_frames).lower(),
         "def initClearsReceipts : Bool := %s" % str(clears_receipts).lower(),
         ""]
    built, callers = receipt_sites()
    if not built:
        raise TranslateError("no Revert/Panic/ScriptResult receipt construction found in fuel-vm/src")
    fmt = lambda xs: "[" + ", ".join('("%s", "%s", "%s")' % x for x in xs) + "]"
    L += ["/-- every place in the non-test code of fuel-vm/src that BUILDS a Revert / Panic / ScriptResult receipt:",
          "    (constructor, file, enclosing fn) -/",
          "def receiptBuilders : List (String × String × String) := " + fmt(built),
          "/-- every call of the two helpers that build them (`append_panic_receipt`, the free fn `revert(&mut ..)` and",
          "    the `Interpreter::revert` method inside fuel-vm/src/interpreter): (callee, file, enclosing fn) -/",
          "def receiptHelperCallers : List (String × String × String) := " + fmt(callers),
          "", "end FuelVerif.Gen"]
    changed = write_if_changed("Outcome.lean", "\n".join(L) + "\n")
    print("outcome: MAX_RECEIPTS=%d should_revert=%s init_inner clears frames=%s receipts=%s%s" % (maxr, "|".join(kinds[0]), clears_frames, clears_receipts, " (changed)" if changed else ""))


if __name__ == "__main__":
    try:
        main()
    except TranslateError as e:
        print("TRANSLATE-ERROR outcome: %s" % e)
        sys.exit(3)
