#!/usr/bin/env python3
"""T5/T6 (canonical codec part): constants of fuel-types/src/canonical.rs and, for every struct / enum
that derives `canonical::Serialize`/`Deserialize` in fuel-types, fuel-asm and fuel-tx, the data the derive
macro works from: field names in declaration order, the Rust type text of each field,
`#[canonical(skip)]`, the struct-level `#[canonical(prefix = ..)]`, enum variants with explicit
discriminants -> lean/FuelVerif/Gen/Canonical.lean.

The hand-written descriptors of lean/FuelVerif/Model/TxDesc.lean are proved (Props/C01 `descriptors_tied`)
to carry exactly these rows, so adding / removing / reordering / retyping a field, adding or removing a
`skip`, or changing a prefix or a discriminant in Rust breaks a proof obligation.

Fails closed (exit 3) when a derive site appears that is not in EXPECTED, when an expected one is gone,
or when a definition no longer parses.
"""
import os, re, sys
from common import *

# (file, type name) of every derive site this translator understands; discovery must find exactly these.
EXPECTED = [
    ("fuel-types/src/bytes.rs", "Bytes"),
    ("fuel-asm/src/panic_instruction.rs", "PanicInstruction"),
    ("fuel-tx/src/contract.rs", "Contract"),
    ("fuel-tx/src/receipt.rs", "Receipt"),
    ("fuel-tx/src/receipt/script_result.rs", "ScriptExecutionResult"),
    ("fuel-tx/src/tx_pointer.rs", "TxPointer"),
    ("fuel-tx/src/transaction/repr.rs", "TransactionRepr"),
    ("fuel-tx/src/transaction/types/output.rs", "Output"),
    ("fuel-tx/src/transaction/types/output/contract.rs", "Contract"),
    ("fuel-tx/src/transaction/types/chargeable_transaction.rs", "ChargeableTransaction"),
    ("fuel-tx/src/transaction/types/witness.rs", "Witness"),
    ("fuel-tx/src/transaction/types/utxo_id.rs", "UtxoId"),
    ("fuel-tx/src/transaction/types/create.rs", "CreateBody"),
    ("fuel-tx/src/transaction/types/upload.rs", "UploadBody"),
    ("fuel-tx/src/transaction/types/storage.rs", "StorageSlot"),
    ("fuel-tx/src/transaction/types/blob.rs", "BlobBody"),
    ("fuel-tx/src/transaction/types/input/message.rs", "Message"),
    ("fuel-tx/src/transaction/types/input/repr.rs", "InputRepr"),
    ("fuel-tx/src/transaction/types/input/coin.rs", "Coin"),
    ("fuel-tx/src/transaction/types/input/predicate.rs", "PredicateCode"),
    ("fuel-tx/src/transaction/types/input/contract.rs", "Contract"),
    ("fuel-tx/src/transaction/types/script.rs", "ScriptCode"),
    ("fuel-tx/src/transaction/types/script.rs", "ScriptBody"),
    ("fuel-tx/src/transaction/types/upgrade.rs", "UpgradePurpose"),
    ("fuel-tx/src/transaction/types/upgrade.rs", "UpgradeBody"),
    ("fuel-tx/src/transaction/types/mint.rs", "Mint"),
]
# name used in the generated table when two Rust types share an identifier
ALIAS = {
    ("fuel-tx/src/contract.rs", "Contract"): "ContractCode",
    ("fuel-tx/src/transaction/types/output/contract.rs", "Contract"): "OutputContract",
    ("fuel-tx/src/transaction/types/input/contract.rs", "Contract"): "InputContract",
}
# identifiers that mean a different deriving type depending on the file they are written in
LOCAL_NAMES = {
    "fuel-tx/src/transaction/types/output.rs": {"Contract": "OutputContract"},
    "fuel-tx/src/transaction/types/mint.rs": {"input::contract::Contract": "InputContract", "output::contract::Contract": "OutputContract"},
}
PRIMS = ("u8", "u16", "u32", "u64", "u128", "usize")


def parse_ty(text, rel):
    """Rust type text -> Lean `Ty` term (see Gen/Canonical.lean)"""
    t = text
    m = re.fullmatch(r"\[u8;(\d+|\$s)\]", t)
    if m:
        return "(.arrU8 %s)" % m.group(1)
    m = re.fullmatch(r"Vec<(.+)>", t)
    if m:
        return "(.vec %s)" % parse_ty(m.group(1), rel)
    m = re.fullmatch(r"Empty<(.+)>", t)
    if m:
        return "(.empty %s)" % parse_ty(m.group(1), rel)
    m = re.fullmatch(r"Specification::(\w+)", t)
    if m:
        return '(.assoc "%s")' % m.group(1)
    if t in PRIMS:
        return '(.prim "%s")' % t
    if re.fullmatch(r"[A-Za-z_][A-Za-z0-9_]*(::[A-Za-z_][A-Za-z0-9_]*)*", t):
        t = LOCAL_NAMES.get(rel, {}).get(t, t)
        if "::" in t:
            raise TranslateError("%s: path type %s has no LOCAL_NAMES entry" % (rel, t))
        return '(.named "%s")' % t
    return "(.other %s)" % lean_str(t)


MACRO_FILES = ["fuel-types/src/array_types.rs", "fuel-types/src/numeric_types.rs"]
FEATURES_ON = set()          # cargo features of fuel-tx that gate fields; the harness builds with none of them
SCAN_DIRS = ["fuel-types/src", "fuel-asm/src", "fuel-tx/src"]


def balanced(src, i, open_ch, close_ch):
    """src[i] == open_ch; returns index just after the matching close"""
    assert src[i] == open_ch
    depth = 0
    j = i
    while j < len(src):
        c = src[j]
        if c == open_ch:
            depth += 1
        elif c == close_ch:
            depth -= 1
            if depth == 0:
                return j + 1
        j += 1
    raise TranslateError("unbalanced %s" % open_ch)


def split_top(s, sep=","):
    out, depth, cur = [], 0, []
    pairs = {"(": 1, "[": 1, "{": 1, "<": 1, ")": -1, "]": -1, "}": -1, ">": -1}
    prev = ""
    for c in s:
        if c in pairs and not (c == ">" and prev in "-="):
            depth += pairs[c]
        if c == sep and depth == 0:
            out.append("".join(cur)); cur = []
        else:
            cur.append(c)
        prev = c
    if "".join(cur).strip():
        out.append("".join(cur))
    return [x.strip() for x in out if x.strip()]


def take_attrs(s):
    """leading `#[...]` attributes of an item text -> (list of attribute bodies, rest)"""
    attrs = []
    s = s.lstrip()
    while s.startswith("#["):
        j = balanced(s, 1, "[", "]")
        attrs.append(re.sub(r"\s+", " ", s[2:j - 1]).strip())
        s = s[j:].lstrip()
    return attrs, s


def attrs_before(src, pos):
    """attribute bodies of the contiguous `#[..]` block that ends right before src[pos]"""
    attrs = []
    j = pos
    while True:
        k = j
        while k > 0 and src[k - 1] in " \t\r\n":
            k -= 1
        if k == 0 or src[k - 1] != "]":
            break
        # walk back to the matching '#['
        depth, p = 0, k - 1
        while p >= 0:
            if src[p] == "]":
                depth += 1
            elif src[p] == "[":
                depth -= 1
                if depth == 0:
                    break
            p -= 1
        if p < 1 or src[p - 1] != "#":
            break
        attrs.append(re.sub(r"\s+", " ", src[p + 1:k - 1]).strip())
        j = p - 1
    return list(reversed(attrs))


def derives_canonical(attrs, bare_ok):
    """does the attribute block derive the canonical Serialize?  `bare_ok`: the file imports
    `fuel_types::canonical::{.. Serialize ..}` so a bare `Serialize` in a derive list is the canonical one"""
    for a in attrs:
        m = re.match(r"derive\s*\((.*)\)\s*$", a)
        if not m:
            continue
        for item in split_top(m.group(1)):
            item = item.replace(" ", "")
            if item.endswith("canonical::Serialize"):
                return True
            if bare_ok and item == "Serialize":
                return True
    return False


def cfg_keep(attrs):
    """evaluate `#[cfg(feature = "x")]` / `#[cfg(not(feature = "x"))]` on a field; other cfgs are refused"""
    for a in attrs:
        if a.startswith("cfg(") or a == "cfg":
            m = re.fullmatch(r'cfg\(\s*feature\s*=\s*"([\w-]+)"\s*\)', a)
            if m:
                if m.group(1) not in FEATURES_ON:
                    return False
                continue
            m = re.fullmatch(r'cfg\(\s*not\(\s*feature\s*=\s*"([\w-]+)"\s*\)\s*\)', a)
            if m:
                if m.group(1) in FEATURES_ON:
                    return False
                continue
            raise TranslateError("field cfg not understood: %s" % a)
    return True


def canonical_attr(attrs):
    """-> (skip: bool, prefix: str|None) from `canonical(..)` attributes"""
    skip, prefix = False, None
    for a in attrs:
        m = re.match(r"canonical\s*\((.*)\)\s*$", a)
        if not m:
            continue
        body = m.group(1).strip()
        if body == "skip":
            skip = True
        else:
            m2 = re.fullmatch(r"prefix\s*=\s*(.+)", body)
            if not m2:
                raise TranslateError("unknown canonical attribute: %s" % a)
            prefix = m2.group(1).strip()
    return skip, prefix


def norm_ty(t):
    return re.sub(r"\s+", "", t).replace(",>", ">")


def parse_fields(body, tuple_like):
    out = []
    for idx, item in enumerate(split_top(body)):
        attrs, rest = take_attrs(item)
        if not cfg_keep(attrs):
            continue
        skip, prefix = canonical_attr(attrs)
        if prefix is not None:
            raise TranslateError("prefix attribute on a field")
        rest = re.sub(r"^pub(\s*\([^)]*\))?\s+", "", rest)
        if tuple_like:
            out.append((str(len(out)), norm_ty(rest), skip))
        else:
            m = re.fullmatch(r"(r#)?([A-Za-z_][A-Za-z0-9_]*)\s*:\s*(.+)", rest, re.S)
            if not m:
                raise TranslateError("field not understood: %r" % rest[:80])
            out.append((m.group(2), norm_ty(m.group(3)), skip))
    return out


def parse_item(src, m):
    """m: match of `(struct|enum) Name` -> dict"""
    kind, name = m.group(1), m.group(2)
    attrs = attrs_before(src, m.start(0))
    i = m.end(0)
    # generics
    while src[i] in " \t\r\n":
        i += 1
    if src[i] == "<":
        i = balanced(src, i, "<", ">")
    # find the body opener: '{' or '(' (tuple struct), skipping a where clause
    j = i
    while src[j] not in "{(;":
        j += 1
    skip_, prefix = canonical_attr(attrs)
    if skip_:
        raise TranslateError("skip attribute on a type")
    if kind == "struct":
        if src[j] == "(":
            e = balanced(src, j, "(", ")")
            fields = parse_fields(src[j + 1:e - 1], True)
        elif src[j] == "{":
            e = balanced(src, j, "{", "}")
            fields = parse_fields(src[j + 1:e - 1], False)
        else:
            fields = []
        return {"kind": "struct", "name": name, "prefix": prefix, "fields": fields, "attrs": attrs}
    # enum
    if src[j] != "{":
        raise TranslateError("enum %s without body" % name)
    if prefix is not None:
        raise TranslateError("prefix on enum %s" % name)
    e = balanced(src, j, "{", "}")
    variants, nxt = [], 0
    for item in split_top(src[j + 1:e - 1]):
        vattrs, rest = take_attrs(item)
        if not cfg_keep(vattrs):
            continue
        mm = re.match(r"([A-Za-z_][A-Za-z0-9_]*)\s*", rest)
        if not mm:
            raise TranslateError("variant not understood: %r" % rest[:60])
        vname = mm.group(1)
        rest2 = rest[mm.end():]
        fields, disc = [], None
        if rest2.startswith("{"):
            k = balanced(rest2, 0, "{", "}")
            fields = parse_fields(rest2[1:k - 1], False)
            rest2 = rest2[k:].strip()
        elif rest2.startswith("("):
            k = balanced(rest2, 0, "(", ")")
            fields = parse_fields(rest2[1:k - 1], True)
            rest2 = rest2[k:].strip()
        if rest2.startswith("="):
            disc = rust_int(rest2[1:].strip())
        elif rest2:
            raise TranslateError("variant tail not understood: %r" % rest2[:60])
        # the derive macro: explicit discriminant resets the counter, otherwise previous + 1
        if disc is not None:
            nxt = disc
        variants.append((vname, nxt, fields))
        nxt += 1
    return {"kind": "enum", "name": name, "variants": variants, "attrs": attrs}


ITEM_RE = re.compile(r"\b(struct|enum)\s+([A-Za-z_][A-Za-z0-9_]*)")


def bare_import(src):
    """does the file import the canonical derive macros under their bare names?"""
    for m in re.finditer(r"canonical::\{([^}]*)\}", src):
        names = [x.strip() for x in m.group(1).split(",")]
        if "Serialize" in names:
            return True
    return bool(re.search(r"use\s+fuel_types::canonical::Serialize\s*;", src)) and False


def discover():
    """all (file, name) pairs deriving the canonical Serialize in SCAN_DIRS (outside macro_rules bodies)"""
    found = []
    for d in SCAN_DIRS:
        root = os.path.join(REPO, d)
        for dp, dn, fn in os.walk(root):
            for f in fn:
                if not f.endswith(".rs"):
                    continue
                rel = os.path.relpath(os.path.join(dp, f), REPO)
                if rel in MACRO_FILES or rel == "fuel-types/src/canonical.rs":
                    continue
                # files that are only compiled under cfg(test) (`#[cfg(test)] mod tests;`)
                if f == "tests.rs" or f.endswith("_tests.rs") or "/tests/" in rel:
                    continue
                src = strip_comments(read(rel))
                # cut `#[cfg(test)] mod ... { }` blocks: test-only types are not protocol types
                src = cut_test_mods(src)
                if "Serialize" not in src:
                    continue
                bare = bare_import(src)
                for m in ITEM_RE.finditer(src):
                    attrs = attrs_before(src, line_start_of_item(src, m.start(0)))
                    if derives_canonical(attrs, bare):
                        found.append((rel, m.group(2)))
    return found


def line_start_of_item(src, pos):
    """position of the `pub`/`pub(crate)` qualifier in front of `struct|enum`, if any"""
    k = pos
    while k > 0 and src[k - 1] in " \t":
        k -= 1
    m = re.search(r"pub(\s*\([^)]*\))?\s*$", src[:k])
    return m.start(0) if m else pos


def cut_test_mods(src):
    out, i = [], 0
    for m in re.finditer(r"#\[cfg\((all\()?test[^\]]*\]\s*(pub\s+)?mod\s+\w+\s*\{", src):
        if m.start() < i:
            continue
        out.append(src[i:m.start()])
        i = balanced(src, m.end() - 1, "{", "}")
    out.append(src[i:])
    return "".join(out)


def parse_expected():
    items = {}
    for rel, name in EXPECTED:
        src = cut_test_mods(strip_comments(read(rel)))
        bare = bare_import(src)
        ms = [m for m in ITEM_RE.finditer(src) if m.group(2) == name
              and derives_canonical(attrs_before(src, line_start_of_item(src, m.start(0))), bare)]
        if len(ms) != 1:
            raise TranslateError("%s: expected exactly one deriving definition of %s, found %d" % (rel, name, len(ms)))
        m = ms[0]
        # re-anchor at the qualifier so that attrs_before sees the attribute block
        start = line_start_of_item(src, m.start(0))
        it = parse_item_at(src, m, start)
        if not derives_canonical(it["attrs"], bare_import(src)):
            raise TranslateError("%s: %s no longer derives canonical::Serialize" % (rel, name))
        it["file"] = rel
        it["gen_name"] = ALIAS.get((rel, name), name)
        items[it["gen_name"]] = it
    return items


def parse_item_at(src, m, start):
    it = parse_item(src, m)
    it["attrs"] = attrs_before(src, start)
    skip_, prefix = canonical_attr(it["attrs"])
    if it["kind"] == "struct":
        it["prefix"] = prefix
    elif prefix is not None:
        raise TranslateError("prefix on enum")
    return it


def macro_types():
    """array_types.rs `key!(Name, N)` -> struct Name([u8; N]); numeric_types.rs `key!(Name, uN)` -> struct Name(uN)"""
    out = []
    src = strip_comments(read("fuel-types/src/array_types.rs"))
    for mac in ("key", "key_with_big_array"):
        m = need(re.search(r"macro_rules!\s+%s\s*\{(.*?)\n\}" % mac, src, re.S), "array_types.rs macro %s" % mac)
        body = m.group(1)
        need(re.search(r"fuel_types::canonical::Serialize,\s*fuel_types::canonical::Deserialize", body), "%s! derives canonical" % mac)
        need(re.search(r"pub struct \$i\(\[u8; \$s\]\);", body), "%s! tuple struct of [u8; $s]" % mac)
        if "canonical(" in body:
            raise TranslateError("%s!: canonical attribute inside the macro" % mac)
        for name, n in re.findall(r"^%s!\((\w+),\s*(\d+)\);" % mac, src, re.M):
            out.append({"kind": "struct", "name": name, "gen_name": name, "prefix": None, "file": "fuel-types/src/array_types.rs",
                        "fields": [("0", "[u8;%s]" % n, False)]})
    src = strip_comments(read("fuel-types/src/numeric_types.rs"))
    m = need(re.search(r"macro_rules!\s+key\s*\{(.*?)\n\}", src, re.S), "numeric_types.rs macro key")
    body = m.group(1)
    need(re.search(r"fuel_types::canonical::Serialize,\s*fuel_types::canonical::Deserialize", body), "numeric key! derives canonical")
    need(re.search(r"pub struct \$i\(\$t\);", body), "numeric key! tuple struct of $t")
    if "canonical(" in body:
        raise TranslateError("numeric key!: canonical attribute inside the macro")
    for name, t in re.findall(r"^key!\((\w+),\s*(\w+)\);", src, re.M):
        out.append({"kind": "struct", "name": name, "gen_name": name, "prefix": None, "file": "fuel-types/src/numeric_types.rs",
                    "fields": [("0", t, False)]})
    if len(out) < 10:
        raise TranslateError("fuel-types key! invocations not found")
    return out


def safe_int_expr(s):
    s = s.strip()
    if not re.fullmatch(r"[0-9_xa-fA-F\s\*\+\-\(\)<]+", s):
        raise TranslateError("constant expression not understood: %r" % s)
    return int(eval(s.replace("_", ""), {"__builtins__": {}}))


def consts():
    src = strip_comments(read("fuel-types/src/canonical.rs"))
    al = safe_int_expr(need(re.search(r"pub const ALIGN: usize = ([^;]+);", src), "ALIGN").group(1))
    lim = safe_int_expr(need(re.search(r"pub const VEC_DECODE_LIMIT: usize = ([^;]+);", src), "VEC_DECODE_LIMIT").group(1))
    # shape of alignment_bytes / aligned_size (transcribed by hand in Model/Canonical.lean)
    need(re.search(r"const fn alignment_bytes\(len: usize\) -> usize \{\s*let modulo = len % ALIGN;\s*if modulo == 0 \{ 0 \} else \{ ALIGN - modulo \}\s*\}", src), "alignment_bytes body")
    need(re.search(r"pub const fn aligned_size\(len: usize\) -> usize \{\s*len\.saturating_add\(alignment_bytes\(len\)\)\s*\}", src), "aligned_size body")
    # which primitive is flagged UNALIGNED_BYTES
    prims = re.findall(r"impl_for_primitives!\((\w+),\s*(true|false)\);", src)
    if not prims:
        raise TranslateError("impl_for_primitives! invocations not found")
    return al, lim, prims


def policy_bits():
    src = strip_comments(read("fuel-tx/src/transaction/policies.rs"))
    m = need(re.search(r"pub struct PoliciesBits: u32 \{(.*?)\n    \}", src, re.S), "PoliciesBits")
    bits = re.findall(r"const (\w+) = 1 << (\d+);", m.group(1))
    if len(bits) < 4:
        raise TranslateError("PoliciesBits constants not found")
    m = need(re.search(r"pub const fn index\(&self\) -> usize \{\s*match self \{(.*?)\}\s*\}", src, re.S), "PolicyType::index")
    idx = dict(re.findall(r"PolicyType::(\w+) => (\d+),", m.group(1)))
    rows = []
    for name, sh in bits:
        if name not in idx:
            raise TranslateError("PolicyType::index has no arm for %s" % name)
        rows.append((name, int(sh), int(idx[name])))
    return rows


def type_aliases():
    out = []
    a = need(re.search(r"pub type Word = (\w+);", strip_comments(read("fuel-types/src/lib.rs"))), "fuel-types Word").group(1)
    b = need(re.search(r"pub type Word = (\w+);", strip_comments(read("fuel-asm/src/lib.rs"))), "fuel-asm Word").group(1)
    if a != b:
        raise TranslateError("fuel-types and fuel-asm disagree on Word")
    out.append(("Word", a))
    out.append(("RawInstruction", need(re.search(r"pub type RawInstruction = (\w+);", strip_comments(read("fuel-asm/src/lib.rs"))), "RawInstruction").group(1)))
    for n, t in out:
        if t not in PRIMS:
            raise TranslateError("alias %s = %s is not a primitive" % (n, t))
    return out


def input_variants():
    """`pub enum Input { V(T), .. }`, the aliases `pub type T = Coin<Spec>` / `Message<Spec>`, and
    `InputRepr::from_input` -> (variant, InputRepr variant, deriving struct, specification)"""
    src = strip_comments(read("fuel-tx/src/transaction/types/input.rs"))
    m = need(re.search(r"pub enum Input \{(.*?)\n\}", src, re.S), "enum Input")
    variants = re.findall(r"^\s*(\w+)\((\w+)\),", m.group(1), re.M)
    if len(variants) < 3 or re.sub(r"\s*\w+\(\w+\),", "", m.group(1)).strip():
        raise TranslateError("enum Input body not understood")
    aliases = {}
    for rel in ("fuel-tx/src/transaction/types/input/coin.rs", "fuel-tx/src/transaction/types/input/message.rs"):
        for n, t in re.findall(r"pub type (\w+)\s*=\s*([^;]+);", strip_comments(read(rel))):
            t = norm_ty(t).replace("specifications::", "")
            mm = need(re.fullmatch(r"(Coin|Message)<(.+)>", t), "alias %s = %s" % (n, t))
            aliases[n] = (mm.group(1), mm.group(2))
    rsrc = strip_comments(read("fuel-tx/src/transaction/types/input/repr.rs"))
    m = need(re.search(r"pub const fn from_input\(input: &Input\) -> Self \{\s*match input \{(.*?)\n        \}", rsrc, re.S), "InputRepr::from_input")
    repr_of = {}
    for arm in split_top(m.group(1)):
        mm = need(re.fullmatch(r"(.+?)=>\s*InputRepr::(\w+)", arm, re.S), "from_input arm %r" % arm)
        for v in re.findall(r"Input::(\w+)\(_\)", mm.group(1)):
            repr_of[v] = mm.group(2)
    out = []
    for v, t in variants:
        if v not in repr_of:
            raise TranslateError("from_input has no arm for Input::%s" % v)
        if t == "Contract":
            out.append((v, repr_of[v], "InputContract", ""))
        elif t in aliases:
            out.append((v, repr_of[v], aliases[t][0], aliases[t][1]))
        else:
            raise TranslateError("Input::%s(%s): payload type not understood" % (v, t))
    full = [aliases.get("CoinFull"), aliases.get("FullMessage")]
    if full != [("Coin", "Full"), ("Message", "Full")]:
        raise TranslateError("CoinFull / FullMessage aliases changed: %s" % full)
    return out


def tx_variants():
    """`pub enum Transaction { Script(Script), .. }` + `pub type Script = ChargeableTransaction<ScriptBody, ..>`"""
    src = strip_comments(read("fuel-tx/src/transaction.rs"))
    m = need(re.search(r"pub enum Transaction \{(.*?)\n\}", src, re.S), "enum Transaction")
    variants = re.findall(r"^\s*(\w+)\((\w+)\),", m.group(1), re.M)
    if len(variants) < 3 or re.sub(r"\s*\w+\(\w+\),", "", m.group(1)).strip():
        raise TranslateError("enum Transaction body not understood")
    # decode_static: `TransactionRepr::X => Ok(<X as Deserialize>::decode_static(buffer)?.into())`
    m = need(re.search(r"impl Deserialize for Transaction \{(.*?)\n\}", src, re.S), "impl Deserialize for Transaction")
    arms = re.findall(r"TransactionRepr::(\w+) => \{\s*Ok\(<(\w+) as Deserialize>::decode_static\(buffer\)\?\.into\(\)\)\s*\}", m.group(1))
    if sorted(arms) != sorted((v, t) for v, t in variants):
        raise TranslateError("Transaction::decode_static arms %s do not match the variants %s" % (arms, variants))
    out = []
    for v, t in variants:
        if t == "Mint":
            out.append((v, "Mint", ""))
            continue
        rel = "fuel-tx/src/transaction/types/%s.rs" % t.lower()
        mm = need(re.search(r"pub type %s = ChargeableTransaction<(\w+), (\w+)>;" % t, strip_comments(read(rel))), "alias %s" % t)
        out.append((v, "ChargeableTransaction", mm.group(1)))
    return out


def lean_str(s):
    return '"' + s.replace("\\", "\\\\").replace('"', '\\"') + '"'


def lean_prefix(p):
    if not p:
        return "none"
    m = re.fullmatch(r"(\w+)::(\w+)", p.replace(" ", ""))
    if not m:
        raise TranslateError("prefix %r is not Enum::Variant" % p)
    return "some (%s, %s)" % (lean_str(m.group(1)), lean_str(m.group(2)))


def lean_fields(fs, rel):
    return "[" + ", ".join("⟨%s, %s, %s, %s⟩" % (lean_str(n), lean_str(t), parse_ty(t, rel), "true" if sk else "false") for n, t, sk in fs) + "]"


def spec_impls():
    """`impl CoinSpecification for X { type A = T; .. }` and `impl MessageSpecification for X { .. }`:
    the associated types the generic `Coin<Specification>` / `Message<Specification>` are instantiated with"""
    out = []
    for rel, trait in (("fuel-tx/src/transaction/types/input/coin.rs", "CoinSpecification"),
                       ("fuel-tx/src/transaction/types/input/message.rs", "MessageSpecification")):
        src = strip_comments(read(rel))
        n = 0
        for m in re.finditer(r"impl\s+%s\s+for\s+([A-Za-z0-9_<>:]+)\s*\{" % trait, src):
            e = balanced(src, m.end() - 1, "{", "}")
            body = src[m.end():e - 1]
            assoc = re.findall(r"type\s+(\w+)\s*=\s*([^;]+);", body)
            if not assoc or re.sub(r"type\s+\w+\s*=\s*[^;]+;", "", body).strip():
                raise TranslateError("%s: impl %s for %s not understood" % (rel, trait, m.group(1)))
            out.append((trait, norm_ty(m.group(1)), [(a, norm_ty(t)) for a, t in assoc], rel))
            n += 1
        if n < 3:
            raise TranslateError("%s: impls of %s not found" % (rel, trait))
    return out


def main():
    al, lim, prims = consts()
    found = sorted(set(discover()))
    exp = sorted(set(EXPECTED))
    if found != exp:
        extra = [x for x in found if x not in exp]
        gone = [x for x in exp if x not in found]
        raise TranslateError("canonical derive sites changed: new %s, missing %s" % (extra, gone))
    items = parse_expected()
    macs = macro_types()
    pol = policy_bits()
    specs = spec_impls()
    L = []
    L.append("/- GENERATED by tools/gen/canonical.py from fuel-types/src/canonical.rs and every `derive(canonical::Serialize)` site of")
    L.append("   fuel-types, fuel-asm, fuel-tx — do not edit -/")
    L.append("namespace FuelVerif.Gen.Canonical")
    L.append("")
    L.append("/-- `pub const ALIGN: usize` -/")
    L.append("def ALIGN : Nat := %d" % al)
    L.append("/-- `pub const VEC_DECODE_LIMIT: usize` -/")
    L.append("def VEC_DECODE_LIMIT : Nat := %d" % lim)
    L.append("/-- `impl_for_primitives!(ty, UNALIGNED_BYTES)` -/")
    L.append("def primitives : List (String × Bool) := [%s]" % ", ".join('(%s, %s)' % (lean_str(t), b) for t, b in prims))
    L.append("")
    L.append("/-- Rust field type, parsed: primitives, `[u8; N]`, `Vec<T>`, `Empty<T>`, `Specification::X`, a named type;")
    L.append("    anything else is kept as text (`other`) and has no descriptor -/")
    L.append("inductive Ty where")
    L.append("  | prim (name : String)")
    L.append("  | arrU8 (n : Nat)")
    L.append("  | vec (t : Ty)")
    L.append("  | empty (t : Ty)")
    L.append("  | assoc (name : String)")
    L.append("  | named (name : String)")
    L.append("  | other (text : String)")
    L.append("  deriving DecidableEq, Repr, Inhabited")
    L.append("")
    L.append("/-- one field of a deriving type: name (position for tuple fields), Rust type text, parsed type, `#[canonical(skip)]` -/")
    L.append("structure FieldRow where")
    L.append("  name : String")
    L.append("  tyText : String")
    L.append("  ty : Ty")
    L.append("  skip : Bool")
    L.append("  deriving DecidableEq, Repr, Inhabited")
    L.append("")
    L.append("structure StructRow where")
    L.append("  name : String")
    L.append("  /-- `#[canonical(prefix = Enum::Variant)]` as (enum, variant) -/")
    L.append("  pre : Option (String × String)")
    L.append("  fields : List FieldRow")
    L.append("  deriving DecidableEq, Repr, Inhabited")
    L.append("")
    L.append("structure VariantRow where")
    L.append("  name : String")
    L.append("  /-- discriminant as the derive macro computes it (explicit `= n`, else previous + 1) -/")
    L.append("  disc : Nat")
    L.append("  fields : List FieldRow")
    L.append("  deriving DecidableEq, Repr, Inhabited")
    L.append("")
    L.append("structure EnumRow where")
    L.append("  name : String")
    L.append("  variants : List VariantRow")
    L.append("  deriving DecidableEq, Repr, Inhabited")
    L.append("")
    structs = [it for it in list(items.values()) + macs if it["kind"] == "struct"]
    enums = [it for it in items.values() if it["kind"] == "enum"]
    L.append("def structs : List StructRow := [")
    L.append(",\n".join("  ⟨%s, %s, %s⟩" % (lean_str(s["gen_name"]), lean_prefix(s["prefix"]), lean_fields(s["fields"], s["file"]))
                        for s in sorted(structs, key=lambda s: s["gen_name"])))
    L.append("]")
    L.append("")
    L.append("def enums : List EnumRow := [")
    L.append(",\n".join("  ⟨%s, [\n%s]⟩" % (lean_str(e["gen_name"]), ",\n".join("    ⟨%s, %d, %s⟩" % (lean_str(v[0]), v[1], lean_fields(v[2], e["file"])) for v in e["variants"]))
                        for e in sorted(enums, key=lambda e: e["gen_name"])))
    L.append("]")
    L.append("")
    L.append("/-- `impl CoinSpecification / MessageSpecification for X`: (trait, X, associated types) -/")
    L.append("def specImpls : List (String × String × List (String × Ty)) := [")
    L.append(",\n".join("  (%s, %s, [%s])" % (lean_str(tr), lean_str(x), ", ".join("(%s, %s)" % (lean_str(a), parse_ty(t, rel)) for a, t in assoc)) for tr, x, assoc, rel in specs))
    L.append("]")
    L.append("")
    L.append("/-- `pub type X = prim;` aliases used in field types -/")
    L.append("def typeAliases : List (String × String) := [%s]" % ", ".join("(%s, %s)" % (lean_str(a), lean_str(b)) for a, b in type_aliases()))
    L.append("")
    L.append("/-- `enum Input` variants in declaration order: (variant, `InputRepr::from_input` arm, deriving struct, specification) -/")
    L.append("def inputVariants : List (String × String × String × String) := [%s]" % ", ".join("(%s, %s, %s, %s)" % tuple(lean_str(x) for x in r) for r in input_variants()))
    L.append("")
    L.append("/-- `enum Transaction` variants in declaration order: (variant = `TransactionRepr` arm, deriving struct, body type) -/")
    L.append("def txVariants : List (String × String × String) := [%s]" % ", ".join("(%s, %s, %s)" % tuple(lean_str(x) for x in r) for r in tx_variants()))
    L.append("")
    L.append("/-- `PoliciesBits` constants: (name, bit position, `PolicyType::index`) in declaration order -/")
    L.append("def policyBits : List (String × Nat × Nat) := [%s]" % ", ".join("(%s, %d, %d)" % (lean_str(n), b, i) for n, b, i in pol))
    L.append("")
    L.append("end FuelVerif.Gen.Canonical")
    changed = write_if_changed("Canonical.lean", "\n".join(L) + "\n")
    print("canonical: %d structs, %d enums, %d policy bits%s" % (len(structs), len(enums), len(pol), " (changed)" if changed else ""))


if __name__ == "__main__":
    try:
        main()
    except TranslateError as e:
        print("TRANSLATE-ERROR canonical: %s" % e)
        sys.exit(3)
