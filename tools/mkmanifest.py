#!/usr/bin/env python3
"""Writes MANIFEST.json from props/*.json; every property of properties.jsonl without a props file is
listed under not_applicable with the reason recorded in props/_unclaimed.json."""
import json, os, glob
V = os.path.dirname(os.path.dirname(os.path.abspath(__file__)))
ids = [json.loads(l)["id"] for l in open(os.path.join(V, "properties.jsonl"))]
unclaimed = json.load(open(os.path.join(V, "props", "_unclaimed.json")))
hooks = json.load(open(os.path.join(V, "props", "_hooks.json")))
checks, na = [], []
for pid in ids:
    p = os.path.join(V, "props", pid + ".json")
    if os.path.exists(p):
        c = json.load(open(p))
        checks.append({
            "property_id": pid,
            "quick_cmd": "./check %s --tier quick" % pid,
            "thorough_cmd": "./check %s --tier thorough" % pid,
            "evidence_file": "evidence/%s.json" % pid,
            "replay_cmd_template": "./check %s --replay {path}" % pid,
            "engine": "lean4-proof+correspondence",
            "level_claimed": {"category": c.get("level", "proof"), "text": c["level_text"], "design_ref": c.get("design_ref", "DESIGN.md §5")},
            "level_note": c["level_note"],
            "technique": c.get("technique", "Lean 4 machine-checked proof over an executable model + differential correspondence check"),
        })
    else:
        na.append({"property_id": pid, "reason": unclaimed.get(pid, unclaimed["_default"])})
m = {
    "version": 1,
    "setup_cmd": "./setup.sh",
    "hooks": hooks,
    "engines": [{
        "name": "lean4-proof+correspondence", "path": "check",
        "serves_properties": [c["property_id"] for c in checks],
        "kind_free_text": "Lean 4 theorems over executable models (lean/FuelVerif), model parts regenerated from Rust sources by tools/gen, Rust harness (harness/) + compiled Lean driver line-protocol differential check",
    }],
    "checks": checks,
    "notes": "See DESIGN.md. Every check rebuilds the harness against /repo's working tree, regenerates Gen/*.lean, rebuilds the theorems (lake), audits axioms, and diffs model vs implementation.",
    "not_applicable": na,
}
json.dump(m, open(os.path.join(V, "MANIFEST.json"), "w"), indent=1)
print("MANIFEST: %d checks, %d not claimed" % (len(checks), len(na)))
