#!/usr/bin/env python3
"""usage: keep_seed.py <scratch-worktree> <id-n> "<check result line>" "<caught by ...>"  — copies a confirmed seeded change into /verif/seeded/"""
import json, os, shutil, sys
w, name, check, caught = sys.argv[1:5]
d = os.path.join('/verif/seeded', name)
os.makedirs(d, exist_ok=True)
shutil.copy(os.path.join(w, 'seed/patch.diff'), d)
if os.path.exists(os.path.join(d, 'demo')):
    shutil.rmtree(os.path.join(d, 'demo'))
shutil.copytree(os.path.join(w, 'seed/demo'), os.path.join(d, 'demo'))
m = json.load(open(os.path.join(w, 'seed/meta.json')))
conf = open(os.path.join(w, 'seed/confirm.txt')).read().strip().splitlines() if os.path.exists(os.path.join(w, 'seed/confirm.txt')) else []
m['confirmed_by_coordinator'] = {'ran': conf, 'check_run': check, 'caught_by': caught}
json.dump(m, open(os.path.join(d, 'meta.json'), 'w'), indent=1)
print('kept', d)
