#!/bin/sh
# usage: confirm_seed.sh <scratch-worktree-with-seed-dir>
# Re-applies seed/patch.diff (if not applied), runs the repository's own test suite with it and prints the totals.
set -u
W="$1"; cd "$W" || exit 2
export CARGO_NET_OFFLINE=true
git apply --check seed/patch.diff 2>/dev/null && git apply seed/patch.diff
cargo test --workspace --no-fail-fast --offline > seed/existing_tests.log 2>&1
P=$(grep "^test result" seed/existing_tests.log | sed 's/.* \([0-9]*\) passed.*/\1/' | paste -sd+ | bc)
F=$(grep "^test result" seed/existing_tests.log | sed 's/.*; \([0-9]*\) failed.*/\1/' | paste -sd+ | bc)
echo "existing tests with the change: passed=$P failed=$F (build errors: $(grep -c '^error' seed/existing_tests.log))"
