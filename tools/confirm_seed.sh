#!/bin/sh
# usage: confirm_seed.sh <scratch-worktree-with-seed-dir> <crate> <demo-file-name-without-.rs> [full]
# Confirms a seeded change: demo fails with it / passes without it; with "full", the repository's own suite passes with it.
set -u
W="$1"; C="$2"; D="$3"; FULL="${4:-}"
cd "$W" || exit 2
export CARGO_NET_OFFLINE=true
OUT=seed/confirm.txt; : > $OUT
# start from HEAD and apply at the recorded line numbers (git apply relocates a hunk by context when the lines do not
# match, which mis-applies a patch a second time to an identical neighbouring function — seen with C36-2 and C06-2)
git checkout -q -- . && git apply seed/patch.diff || exit 2
mkdir -p $C/tests; cp seed/demo/$D.rs $C/tests/
echo "demo WITH change: $(cargo test -p $C --test $D --offline 2>&1 | grep '^test result' | tr '\n' ' ')" >> $OUT
git checkout -q -- .
echo "demo WITHOUT change: $(cargo test -p $C --test $D --offline 2>&1 | grep '^test result' | tr '\n' ' ')" >> $OUT
rm -f $C/tests/$D.rs; rmdir $C/tests 2>/dev/null
git apply seed/patch.diff || exit 2
git diff -- . ':!seed' | diff -q - seed/patch.diff >/dev/null || echo "WARNING: worktree diff differs from seed/patch.diff" >> $OUT
if [ -n "$FULL" ]; then
  cargo test --workspace --no-fail-fast --offline > seed/existing_tests.log 2>&1
  P=$(grep "^test result" seed/existing_tests.log | awk '{p+=$4} END {print p}')
  F=$(grep "^test result" seed/existing_tests.log | awk '{f+=$6} END {print f}')
  echo "existing suite WITH change: passed=$P failed=$F; failing: $(grep -E '^test .* FAILED|^    [a-z_:]+$' seed/existing_tests.log | head -5 | tr '\n' ' ')" >> $OUT
fi
cat $OUT
