namespace FuelVerif.Gen
def debuggerFieldFiles : List String := []
def debuggerAllowedFiles : List String := []
def debugEventFiles : List String := []
def debugEventAllowedFiles : List String := []
end FuelVerif.Gen
