/- Driver stream `c20b`: the predicate-checking bookkeeping. Per line the harness sends the consensus limits,
`max_gas` of the transaction (before / after estimation), the inputs (non-predicate `n`, predicate
`p,<owner valid>,<declared gas>`), the table of the abstract predicate VM (raw outcomes probed on the real VM at the
gas limits the functions use) and the completion order of the parallel tasks. -/
import FuelVerif.Basic.Loop
import FuelVerif.Model.Auth
namespace FuelVerif.Drv.C20b
open FuelVerif FuelVerif.Auth

def parseInput (s : String) : Option Input :=
  match s.splitOn "," with
  | ["n"] => some .contract
  | ["p", v, g] =>
    match v.toNat?, g.toNat? with
    | some v, some g => some (.predicate (if v == 1 then [1] else [0]) [1] g)   -- predOwner = id, code = [1]
    | _, _ => none
  | _ => none

def parseErrKind (s : String) : ErrKind :=
  if s == "outOfGas" then .outOfGas
  else if s == "bug" then .bug
  else if s == "storage" then .storage
  else if s.startsWith "panic-" then .panic ((s.drop 6).toString)
  else if s.startsWith "panicInstruction-" then .panicInstruction ((s.drop 17).toString)
  else .other

def parseOutcome (s : String) : Option VmOutcome :=
  match s.splitOn ":" with
  | ["I", e] => some (.initErr (parseErrKind e))
  | ["D", r, "t"] => r.toNat?.map (fun r => .done r .returnOne)
  | ["D", r, "o"] => r.toNat?.map (fun r => .done r .okOther)
  | ["D", r, e] => if e.startsWith "e-" then r.toNat?.map (fun r => .done r (.err (parseErrKind ((e.drop 2).toString)))) else none
  | _ => none

def parseEntry (s : String) : Option ((Mode × Nat × Nat) × VmOutcome) :=
  match s.splitOn "=" with
  | [k, v] =>
    match k.splitOn ":", parseOutcome v with
    | [i, m, g], some o =>
      match i.toNat?, g.toNat? with
      | some i, some g => some ((if m == "v" then Mode.verification else Mode.estimation, i, g), o)
      | _, _ => none
    | _, _ => none
  | _ => none

def mkVm (table : List ((Mode × Nat × Nat) × VmOutcome)) : Vm := fun m i g =>
  match table.find? (fun e => e.1 == (m, i, g)) with
  | some e => e.2
  | none => .done 0 (.err (.panic "MISS"))

def showFail : PFail → String
  | .GasMismatch i => s!"GasMismatch:{i}"
  | .OutOfGas i => s!"OutOfGas:{i}"
  | .InvalidOwner i => s!"InvalidOwner:{i}"
  | .False i => s!"False:{i}"
  | .TransactionExceedsTotalGasAllowance g => s!"TransactionExceedsTotalGasAllowance:{g}"
  | .Bug => "Bug"
  | .Panic i r => s!"Panic:{i}:{r}"
  | .PanicInstruction i r => s!"PanicInstruction:{i}:{r}"
  | .Storage i => s!"Storage:{i}"

def showVerdict : Except PFail Nat → String
  | .ok g => s!"ok:{g}"
  | .error e => showFail e

def showTasks (l : Checks) : String :=
  if l.isEmpty then "-" else ";".intercalate (l.map (fun (i, r) => s!"{i}={showVerdict r}"))

def gasVec (l : List Input) : List Nat :=
  l.filterMap (fun i => match i with | .predicate _ _ g => some g | _ => none)

def showGas (l : List Input) : String :=
  let v := gasVec l
  if v.isEmpty then "-" else ",".intercalate (v.map toString)

def parsePerm (s : String) : List Nat := if s == "-" then [] else (s.splitOn ",").filterMap (·.toNat?)

def dash (l : List String) : List String := l.filter (· != "-")

def handle : List String → String
  | "ver" :: "P" :: mptx :: mpp :: "M" :: mg :: "I" :: rest =>
    let is := rest.takeWhile (· != "T")
    let r2 := (rest.dropWhile (· != "T")).drop 1
    let ts := dash (r2.takeWhile (· != "O"))
    let os := (r2.dropWhile (· != "O")).drop 1
    match mptx.toNat?, mpp.toNat?, mg.toNat?, is.mapM parseInput, ts.mapM parseEntry, os with
    | some mptx, some mpp, some mg, some inputs, some table, [o] =>
      let perm := parsePerm o
      let vm : List Input → Vm := fun _ => mkVm table
      let p : Params := ⟨mptx, mpp⟩
      let order : Checks → Checks := fun l => perm.filterMap (fun k => l[k]?)
      let seq := checkPredicates (fun c => c) (fun _ => mg) p vm inputs
      let par := checkPredicatesAsync (fun c => c) (fun _ => mg) p vm order inputs
      let tasks := asyncTasks (fun c => c) (mkVm table) .verifying inputs 0
      s!"seq={showVerdict seq} par={showVerdict par} tasks={showTasks tasks}"
    | _, _, _, _, _, _ => "bad-op"
  | "est" :: "P" :: mptx :: mpp :: "M" :: mg0 :: mgs :: mgp :: "I" :: rest =>
    let is := rest.takeWhile (· != "T")
    let r2 := (rest.dropWhile (· != "T")).drop 1
    let ts := dash (r2.takeWhile (· != "O"))
    let os := (r2.dropWhile (· != "O")).drop 1
    match mptx.toNat?, mpp.toNat?, mg0.toNat?, mgs.toNat?, mgp.toNat?, is.mapM parseInput, ts.mapM parseEntry, os with
    | some mptx, some mpp, some mg0, some mgs, some mgp, some inputs, some table, [o] =>
      let perm := parsePerm o
      let vm : List Input → Vm := fun _ => mkVm table
      let p : Params := ⟨mptx, mpp⟩
      let order : Checks → Checks := fun l => perm.filterMap (fun k => l[k]?)
      let g0 := gasVec inputs
      let maxGas (after : Nat) : List Input → Nat := fun l => if gasVec l == g0 then mg0 else after
      let seq := estimatePredicates (fun c => c) (maxGas mgs) p vm inputs
      let par := estimatePredicatesAsync (fun c => c) (maxGas mgp) p vm order inputs
      let tasks := asyncTasks (fun c => c) (mkVm table) (.estimating (min mpp mptx)) inputs 0
      s!"seq={showVerdict seq.2} gas={showGas seq.1} par={showVerdict par.2} gas={showGas par.1} tasks={showTasks tasks}"
    | _, _, _, _, _, _, _, _ => "bad-op"
  | _ => "bad-op"

def run : IO Unit := lineLoopPure handle

end FuelVerif.Drv.C20b
