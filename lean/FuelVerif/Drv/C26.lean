/- Driver stream `c26`: schedule evaluator + gas machine replayed on the harness's single-step log. -/
import FuelVerif.Basic.Loop
import FuelVerif.Model.Gas
namespace FuelVerif.Drv.C26
open FuelVerif FuelVerif.Gas

structure St where
  sch : Schedule := defaultSchedule
  gas : GasState := ⟨0, 0, []⟩
  limit : Nat := 0

def depStr : DepCost → String
  | .light b u => s!"L:{b}:{u}"
  | .heavy b g => s!"H:{b}:{g}"

def dump (s : Schedule) : String :=
  " ".intercalate (s.fixed.map (fun p => s!"{p.1}={p.2}") ++ s.dep.map (fun p => s!"{p.1}={depStr p.2}"))

/-- `GasCostsValuesV7::unit()`: every fixed cost 1, every dependent cost `HeavyOperation { base: 1, gas_per_unit: 0 }` -/
def unitSchedule : Schedule :=
  { fixed := Gen.gasFixedFields.map (fun f => (f, 1)), dep := Gen.gasDepFields.map (fun f => (f, DepCost.heavy 1 0)) }

def parseDep (s : String) : Option DepCost :=
  match s.splitOn ":" with
  | ["L", b, u] => match b.toNat?, u.toNat? with | some b, some u => some (.light b u) | _, _ => none
  | ["H", b, g] => match b.toNat?, g.toNat? with | some b, some g => some (.heavy b g) | _, _ => none
  | _ => none

/-- `sched <version> <Word fields of that version…> <DependentCost fields of that version…>` -/
def parseSched (ws : List String) : Option Schedule :=
  match ws with
  | v :: ws =>
    let ver := natOr v 0
    if ver = 0 then none else
    match Gen.gasVersionFields[ver - 1]? with
    | none => none
    | some fields =>
      let fnames := (fields.filter (fun f => !f.2)).map (·.1)
      let dnames := (fields.filter (fun f => f.2)).map (·.1)
      let nf := fnames.length
      let fs := (ws.take nf).filterMap String.toNat?
      let ds := (ws.drop nf).filterMap parseDep
      if fs.length = nf ∧ ds.length = dnames.length ∧ ws.length = nf + dnames.length then
        some { fixed := fnames.zip fs, dep := dnames.zip ds, version := ver }
      else none
  | [] => none

def show3 (g : GasState) : String := s!"{g.cgas} {g.ggas} {g.saved.length}"

def errName : GasErr → String
  | .outOfGas => "OutOfGas" | .gasCostNotDefined => "GasCostNotDefined" | .divByZero => "div-by-zero"
  | .arith => "arith-underflow" | .ctxGasOverflow => "ContextGasOverflow" | .ctxGasUnderflow => "ContextGasUnderflow"
  | .globalGasUnderflow => "GlobalGasUnderflow" | .unknownOpcode => "unknown-opcode" | .malformed => "malformed-schedule"

/-- `i MN n a… m s… kind`, kind = `x` (completed or OutOfGas: the model decides which) | `pan Reason c g` (another
    panic, with the registers after it) | `inx c g` (ECAL: not charged by the VM itself) -/
def stepLine (st : St) (ws : List String) : St × String :=
  match ws with
  | mn :: n :: rest =>
    let n := natOr n 0
    let args := (rest.take n).map (fun a => natOr a 0)
    match rest.drop n with
    | m :: rest2 =>
      let m := natOr m 0
      let sizes := (rest2.take m).map (fun a => natOr a 0)
      let kind := rest2.drop m
      let plan : Plan := if mn == "?" then {} else chargePlan st.sch mn args sizes
      let bad : Option GasErr := match plan.stop with
        | some .gasCostNotDefined => none
        | e => e
      match bad with
      | some e => (st, s!"model-error {errName e}")
      | none =>
        let charges := plan.charges
        match kind with
        | ["x"] =>
          if !plan.exact then (st, "model-inexact") else
          match instrGas st.gas mn args charges with
          | (g', some .outOfGas) => ({ st with gas := g' }, show3 g')
          | (g', some e) => ({ st with gas := g' }, s!"model-error {errName e} {show3 g'}")
          | (g', none) =>
            match plan.stop with
            | some e => (st, s!"model-expects-panic {errName e} after charges={charges}")
            | none =>
              if !plan.complete then (st, s!"model-expects-panic (cannot complete) after charges={charges}")
              else ({ st with gas := g' }, show3 g')
        | ["pan", r, c, g] =>
          let c := natOr c 0; let g := natOr g 0
          if r == "GasCostNotDefined" then
            match plan.stop with
            | some .gasCostNotDefined =>
              match chargeAll st.gas charges with
              | (t, none) =>
                if t.cgas == c && t.ggas == g then ({ st with gas := t }, show3 t)
                else (st, s!"inadmissible-panic-state {show3 st.gas} charges={charges}")
              | (t, some _) => (st, s!"model-expects-OutOfGas {show3 t} charges={charges}")
            | _ => (st, s!"model-unexpected-GasCostNotDefined charges={charges}")
          else
            match (panicStates st.gas mn args charges).find? (fun t => t.cgas == c && t.ggas == g) with
            | some t => ({ st with gas := t }, show3 t)
            | none => (st, s!"inadmissible-panic-state {show3 st.gas} charges={charges}")
        | ["inx", c, g] =>
          let c := natOr c 0; let g := natOr g 0
          if plan.exact then (st, "model-exact") else
          -- the VM charges nothing; whatever the handler charged moves both registers together
          let p := st.gas
          if c ≤ p.cgas ∧ p.cgas - c = p.ggas - g ∧ g ≤ p.ggas then
            let t : GasState := { p with cgas := c, ggas := g }
            ({ st with gas := t }, show3 t)
          else if c = 0 ∧ g = p.ggas - p.cgas then
            let t : GasState := { p with cgas := 0, ggas := g }
            ({ st with gas := t }, show3 t)
          else (st, s!"inadmissible-inexact-state {show3 p}")
        | _ => (st, "bad-op")
    | [] => (st, "bad-op")
  | _ => (st, "bad-op")

def step (st : St) (ws : List String) : St × String :=
  match ws with
  | ["dflt"] => (st, dump defaultSchedule)
  | ["unit"] => (st, dump unitSchedule)
  | "sched" :: rest =>
    match parseSched rest with
    | some s => ({ st with sch := s }, s!"ok {s.version} {s.fixed.length + s.dep.length}")
    | none => (st, "bad-schedule")
  | ["begin", l] =>
    let l := natOr l 0
    let g := GasState.init l
    ({ st with gas := g, limit := l }, show3 g)
  | "i" :: rest => stepLine st rest
  | ["end"] =>
    match gasUsed st.limit st.gas with
    | .ok u => (st, toString u)
    | .error e => (st, s!"model-error {errName e}")
  | _ => (st, "bad-op")

def run : IO Unit := lineLoop ({} : St) step

end FuelVerif.Drv.C26
