/- Driver stream `c26`: schedule evaluator + gas machine replayed on the harness's single-step log. -/
import FuelVerif.Basic.Loop
import FuelVerif.Model.Gas
namespace FuelVerif.Drv.C26
open FuelVerif FuelVerif.Gas

structure St where
  sch : Schedule := defaultSchedule
  gas : GasState := ⟨0, 0, []⟩
  limit : Nat := 0

def depStr : DepCost → String
  | .light b u => s!"L:{b}:{u}"
  | .heavy b g => s!"H:{b}:{g}"

def dump (s : Schedule) : String :=
  " ".intercalate (s.fixed.map (fun p => s!"{p.1}={p.2}") ++ s.dep.map (fun p => s!"{p.1}={depStr p.2}"))

/-- `GasCostsValuesV7::unit()`: every fixed cost 1, every dependent cost `HeavyOperation { base: 1, gas_per_unit: 0 }` -/
def unitSchedule : Schedule :=
  ⟨Gen.gasFixedFields.map (fun f => (f, 1)), Gen.gasDepFields.map (fun f => (f, DepCost.heavy 1 0))⟩

def parseDep (s : String) : Option DepCost :=
  match s.splitOn ":" with
  | ["L", b, u] => match b.toNat?, u.toNat? with | some b, some u => some (.light b u) | _, _ => none
  | ["H", b, g] => match b.toNat?, g.toNat? with | some b, some g => some (.heavy b g) | _, _ => none
  | _ => none

def parseSched (ws : List String) : Option Schedule :=
  let nf := Gen.gasFixedFields.length
  let fs := (ws.take nf).filterMap String.toNat?
  let ds := (ws.drop nf).filterMap parseDep
  if fs.length = nf ∧ ds.length = Gen.gasDepFields.length ∧ ws.length = nf + Gen.gasDepFields.length then
    some ⟨Gen.gasFixedFields.zip fs, Gen.gasDepFields.zip ds⟩
  else none

def show3 (g : GasState) : String := s!"{g.cgas} {g.ggas} {g.saved.length}"

def errName : GasErr → String
  | .outOfGas => "OutOfGas" | .gasCostNotDefined => "GasCostNotDefined" | .divByZero => "div-by-zero"
  | .arith => "arith-underflow" | .ctxGasOverflow => "ContextGasOverflow" | .ctxGasUnderflow => "ContextGasUnderflow"
  | .globalGasUnderflow => "GlobalGasUnderflow" | .unknownOpcode => "unknown-opcode"

/-- `i MN n a… m s… kind [c g]` -/
def stepLine (st : St) (ws : List String) : St × String :=
  match ws with
  | mn :: n :: rest =>
    let n := natOr n 0
    let args := (rest.take n).map (fun a => natOr a 0)
    match rest.drop n with
    | m :: rest2 =>
      let m := natOr m 0
      let sizes := (rest2.take m).map (fun a => natOr a 0)
      let kind := rest2.drop m
      let cl : Except GasErr (List Nat × Bool) :=
        if mn == "?" then .ok ([], true) else chargeList st.sch mn args sizes
      match cl with
      | .error e => (st, s!"model-error {errName e}")
      | .ok (charges, exact) =>
        match kind with
        | ["x"] =>
          if !exact then (st, "model-inexact") else
          match instrGas st.gas mn args charges with
          | (g', none) => ({ st with gas := g' }, show3 g')
          | (g', some .outOfGas) => ({ st with gas := g' }, show3 g')
          | (g', some e) => ({ st with gas := g' }, s!"model-error {errName e} {show3 g'}")
        | ["pan", c, g] =>
          let c := natOr c 0; let g := natOr g 0
          match (panicStates st.gas mn args charges).find? (fun t => t.cgas == c && t.ggas == g) with
          | some t => ({ st with gas := t }, show3 t)
          | none => (st, s!"inadmissible-panic-state {show3 st.gas} charges={charges}")
        | ["inx", c, g] =>
          let c := natOr c 0; let g := natOr g 0
          -- known prefix of charges, then further charges the model does not enumerate
          match chargeAll st.gas charges with
          | (p, none) =>
            if c ≤ p.cgas ∧ p.cgas - c = p.ggas - g ∧ g ≤ p.ggas then
              let t : GasState := { p with cgas := c, ggas := g }
              ({ st with gas := t }, show3 t)
            else if c = 0 ∧ g = st.gas.ggas - st.gas.cgas then
              let t : GasState := { p with cgas := 0, ggas := g }
              ({ st with gas := t }, show3 t)
            else (st, s!"inadmissible-inexact-state after-prefix={show3 p}")
          | (p, some _) =>
            if c = p.cgas ∧ g = p.ggas then ({ st with gas := p }, show3 p)
            else (st, s!"inadmissible-inexact-state oog={show3 p}")
        | _ => (st, "bad-op")
    | [] => (st, "bad-op")
  | _ => (st, "bad-op")

def step (st : St) (ws : List String) : St × String :=
  match ws with
  | ["dflt"] => (st, dump defaultSchedule)
  | ["unit"] => (st, dump unitSchedule)
  | "sched" :: rest =>
    match parseSched rest with
    | some s => ({ st with sch := s }, s!"ok {s.fixed.length + s.dep.length}")
    | none => (st, "bad-schedule")
  | ["begin", l] =>
    let l := natOr l 0
    let g := GasState.init l
    ({ st with gas := g, limit := l }, show3 g)
  | "i" :: rest => stepLine st rest
  | ["end"] =>
    match gasUsed st.limit st.gas with
    | .ok u => (st, toString u)
    | .error e => (st, s!"model-error {errName e}")
  | _ => (st, "bad-op")

def run : IO Unit := lineLoop ({} : St) step

end FuelVerif.Drv.C26
