/- Driver stream `c34`: `prepare_call` / `return_from_context` of the model on the register files, call
structs and environment answers observed around single-stepped CALL / RET / RETD of the real interpreter. -/
import FuelVerif.Basic.Loop
import FuelVerif.Model.Call
namespace FuelVerif.Drv.C34
open FuelVerif FuelVerif.Call FuelVerif.Gen

def parseRegs (s : String) : Option Regs := do
  let xs ← (s.splitOn ",").mapM String.toNat?
  if xs.length ≠ 64 then none
  else
    let arr := xs.toArray
    some (fun i => arr.getD i 0)

def fmtRegs (r : Regs) : String := ",".intercalate ((List.range 64).map (fun i => toString (r i)))

def errName : Err → String
  | .MemoryOverflow => "MemoryOverflow" | .UninitalizedMemoryAccess => "UninitalizedMemoryAccess"
  | .MemoryGrowthOverlap => "MemoryGrowthOverlap" | .OutOfGas => "OutOfGas"
  | .ContractNotInInputs => "ContractNotInInputs" | .ContractNotFound => "ContractNotFound"
  | .BugContextGasUnderflow => "BugContextGasUnderflow" | .BugContextGasOverflow => "BugContextGasOverflow"
  | .BugCodeSizeOverflow => "BugCodeSizeOverflow" | .Env n => n

structure St where
  frames : List Frame := []
  ctx : Bool := false

/-- memory known only where the harness told us: the call struct at `$rA`, the asset id at `$rC` -/
def sparseMem (pa : Nat) (callBytes : Bytes) (pc : Nat) (asset : Bytes) (stackLen hp : Nat) : Mem :=
  { bytes := fun x =>
      if pa ≤ x ∧ x < pa + callBytes.length then callBytes.getD (x - pa) 0
      else if pc ≤ x ∧ x < pc + asset.length then asset.getD (x - pc) 0 else 0,
    stackLen := stackLen, hp := hp }

/-- `-` or `<address>:<hex of the 8 balance bytes>` -/
def parseDeb (s : String) : Option (Option (Nat × Bytes)) :=
  if s == "-" then some none
  else match s.splitOn ":" with
    | [off, bs] => do
      let off ← off.toNat?
      let bs ← ofHex bs
      some (some (off, bs))
    | _ => none

/-- the RET/RETD instruction charges its own cost, then returns -/
def retInstr (charge : Nat) (k : RetKind) (vm : VM) : Except Err VM :=
  match gasCharge vm.regs charge with
  | .error e => .error e
  | .ok r => returnFromContext k { vm with regs := r }

def step (st : St) : List String → St × String
  | ["reset"] => ({}, "ok")
  | ["call", regs, a, b, c, d, callBytes, asset, stackLen, ch0, ch1, ch2, code, deb] =>
    match parseRegs regs, a.toNat?, b.toNat?, c.toNat?, d.toNat?, ofHex callBytes, ofHex asset, stackLen.toNat?,
          ch0.toNat?, ch1.toNat?, ch2.toNat?, ofHex code, parseDeb deb with
    | some regs, some a, some b, some c, some d, some callBytes, some asset, some stackLen, some ch0, some ch1, some ch2, some code, some deb =>
      let env : CallEnv := { codeSize := .ok code.length, charge0 := ch0, charge1 := ch1, debitInternal := .ok (), debitExternal := .ok deb, listed := true,
                             credit := .ok (ch2 != 0), charge2 := ch2, code := some code }
      let vm : VM := { regs := regs, mem := sparseMem a callBytes c asset stackLen (regs regHp), frames := st.frames, ctxIsCall := st.ctx }
      match prepareCall a b c d env vm with
      | .error e => (st, s!"err {errName e}")
      | .ok vm' =>
        let fp := vm'.regs regFp
        let n := vm'.regs regSp - fp
        let written := (List.range n).map (fun i => vm'.mem.bytes (fp + i))
        ({ frames := vm'.frames, ctx := vm'.ctxIsCall }, s!"{fmtRegs vm'.regs} {toHex written}")
    | _, _, _, _, _, _, _, _, _, _, _, _, _ => (st, "bad-op")
  | ["ret", regs, a, ch] =>
    match parseRegs regs, a.toNat?, ch.toNat? with
    | some regs, some a, some ch =>
      let vm : VM := { regs := regs, mem := ⟨fun _ => 0, 0, 0⟩, frames := st.frames, ctxIsCall := st.ctx }
      match retInstr ch (.ret a) vm with
      | .error e => (st, s!"err {errName e}")
      | .ok vm' => ({ frames := vm'.frames, ctx := vm'.ctxIsCall }, fmtRegs vm'.regs)
    | _, _, _ => (st, "bad-op")
  | ["retd", regs, a, b, ch] =>
    match parseRegs regs, a.toNat?, b.toNat?, ch.toNat? with
    | some regs, some a, some b, some ch =>
      let vm : VM := { regs := regs, mem := ⟨fun _ => 0, 0, 0⟩, frames := st.frames, ctxIsCall := st.ctx }
      match retInstr ch (.retData a b) vm with
      | .error e => (st, s!"err {errName e}")
      | .ok vm' => ({ frames := vm'.frames, ctx := vm'.ctxIsCall }, fmtRegs vm'.regs)
    | _, _, _, _ => (st, "bad-op")
  | _ => (st, "bad-op")

def run : IO Unit := lineLoop ({} : St) step

end FuelVerif.Drv.C34
