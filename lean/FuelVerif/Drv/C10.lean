/- Driver stream `c10`: binary Merkle proofs. `B n len mul add` builds the model tree over the
sequence leaves (leaf i = big-endian `len` bytes of `(i*mul+add) mod 2^64`); `p i` proves on it and
verifies the produced proof; `V root data index n proof…` runs the model of `binary::verify` on an
arbitrary tuple (the model follows the source's overflow guards, `Gen.BinaryMerkle.verify*`). -/
import FuelVerif.Basic.Loop
import FuelVerif.Basic.Sha256
import FuelVerif.Model.BinaryMerkle
namespace FuelVerif.Drv.C10
open FuelVerif FuelVerif.BMT

def H : HashFn := Sha256.sha256

def errStr : Err → String
  | .panic _ => "panic"
  | e => "err:" ++ e.name

structure St where
  tree : Tree
  leaves : Array Bytes

def seqLeaves (n len mul add : Nat) : List Bytes :=
  (List.range n).map (fun i => natBE len ((i * mul + add) % 2 ^ 64))

def pushAll (t : Tree) : List Bytes → Except Err Tree
  | [] => .ok t
  | d :: ds =>
    match t.push H d with
    | .error e => .error e
    | .ok t' => pushAll t' ds

def fmtVerify : Except Err Bool → String
  | .ok true => "true"
  | .ok false => "false"
  | .error e => errStr e

def parseHexes : List String → Option (List Bytes)
  | [] => some []
  | x :: xs =>
    match ofHex x, parseHexes xs with
    | some b, some r => some (b :: r)
    | _, _ => none

def step (s : St) : List String → St × String
  | ["B", n, len, mul, add] =>
    match n.toNat?, len.toNat?, mul.toNat?, add.toNat? with
    | some n, some len, some mul, some add =>
      let ls := seqLeaves n len mul add
      match pushAll (Tree.new []) ls with
      | .error e => (s, errStr e)
      | .ok t =>
        match t.root H with
        | .ok r => (⟨t, ls.toArray⟩, toHex r)
        | .error e => (s, errStr e)
    | _, _, _, _ => (s, "bad-op")
  | ["p", i] =>
    match i.toNat? with
    | none => (s, "bad-op")
    | some i =>
      match s.tree.prove H i with
      | .error e => (s, errStr e)
      | .ok (root, proof) =>
        let data := s.leaves.getD i []
        let v := verify H root data proof i s.tree.leavesCount
        let ps := if proof.isEmpty then "" else " " ++ " ".intercalate (proof.map toHex)
        (s, s!"ok {toHex root}{ps} v={fmtVerify v}")
  | "V" :: root :: data :: index :: n :: proof =>
    match ofHex root, ofHex data, index.toNat?, n.toNat?, parseHexes proof with
    | some root, some data, some index, some n, some proof => (s, fmtVerify (verify H root data proof index n))
    | _, _, _, _, _ => (s, "bad-op")
  | _ => (s, "bad-op")

def run : IO Unit := lineLoop (⟨Tree.new [], #[]⟩ : St) step

end FuelVerif.Drv.C10
