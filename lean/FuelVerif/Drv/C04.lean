/- Driver stream `c04`: every offset of Model/Offsets.lean for one transaction value, uncached (`off`) and
through the metadata computed by the model of `precompute` (`cached`). Same line format as
harness/src/streams/c04.rs. -/
import FuelVerif.Basic.Loop
import FuelVerif.Model.CodecText
import FuelVerif.Model.Offsets
namespace FuelVerif.Drv.C04
open FuelVerif FuelVerif.Canonical FuelVerif.Offsets

def opt : Option Nat → String
  | some n => toString n
  | none => "-"

def trimOffset (m : String) : String := if m.endsWith "_offset" then (m.dropEnd 7).toString else m

def inputPart (idx : Nat) (i : Val) : List String :=
  match inputKind i with
  | none => [s!"i{idx}:?"]
  | some k =>
    let r := InputRepr.fromInput k
    [s!"i{idx}:{r.name}"] ++
    Gen.Offsets.inputReprOffsets.map (fun row => s!"{trimOffset row.1}={opt (r.offset row.1)}") ++
    [s!"po={opt (predicateOffset i)} pdo={opt (predicateDataOffset i)} pl={opt (predicateLen i)}"]

def outputPart (idx : Nat) (o : Val) : List String :=
  match outputKind o, InputCodec.unVariant o with
  | some k, some (pos, _) =>
    [s!"o{idx}:{pos}"] ++ Gen.Offsets.outputReprOffsets.map (fun row => s!"{trimOffset row.1}={opt (k.offset row.1)}")
  | _, _ => [s!"o{idx}:?"]

def common (t : Tx) : List String :=
  let nin := t.inputs.length
  let nout := t.outputs.length
  let nwit := t.witnesses.length
  [s!"end={t.bodyOffsetEnd}", s!"pol={t.policiesOffset}", s!"in={t.inputsOffset}", s!"out={t.outputsOffset}", s!"wit={t.witnessesOffset}"] ++
  (List.range (nin + 2)).flatMap (fun i =>
    [s!"in@{i}={opt (t.inputsOffsetAt i)}",
     s!"pred@{i}=" ++ (match t.inputsPredicateOffsetAt i with | some (a, b) => s!"{a}:{b}" | none => "-")]) ++
  (t.inputs.zipIdx.flatMap (fun p => inputPart p.2 p.1)) ++
  (List.range (nout + 2)).map (fun i => s!"out@{i}={opt (t.outputsOffsetAt i)}") ++
  (t.outputs.zipIdx.flatMap (fun p => outputPart p.2 p.1)) ++
  (List.range (nwit + 2)).map (fun i => s!"wit@{i}={opt (t.witnessesOffsetAt i)}")

open Gen.Offsets in
def report (t : Tx) : List String :=
  match t.kind with
  | .script =>
    [s!"gas_limit={Script.script_gas_limit_offset_static}", s!"receipts_root={Script.receipts_root_offset_static}",
     s!"script={Script.script_offset_static}", s!"script_data={t.scriptDataOffset}"] ++ common t
  | .create =>
    [s!"bwi={Create.bytecode_witness_index_offset_static}", s!"salt={Create.salt_offset_static}", s!"slots={Create.storage_slots_offset_static}"] ++
    (List.range (t.storageSlots.length + 2)).map (fun i => s!"slot@{i}={opt (t.storageSlotsOffsetAt i)}") ++ common t
  | .upgrade => [s!"purpose={Upgrade.upgrade_purpose_offset_static}"] ++ common t
  | .upload =>
    [s!"root={Upload.bytecode_root_offset_static}", s!"bwi={Upload.bytecode_witness_index_offset_static}",
     s!"sub_index={Upload.subsection_index_offset_static}", s!"sub_number={Upload.subsections_number_offset_static}",
     s!"proofs={Upload.proof_set_offset_static}"] ++
    (List.range (t.proofSet.length + 2)).map (fun i => s!"proof@{i}={opt (t.proofSetOffsetAt i)}") ++ common t
  | .blob => [s!"blob_id={Blob.blob_id_offset_static}", s!"bwi={Blob.bytecode_witness_index_offset_static}"] ++ common t
  | .mint =>
    [s!"tx_pointer={Gen.Offsets.Mint.tx_pointer_static}", s!"input_contract={Offsets.Mint.inputContractOffset}",
     s!"output_contract={Offsets.Mint.outputContractOffset t.val}", s!"mint_amount={Offsets.Mint.mintAmountOffset t.val}",
     s!"mint_asset_id={Offsets.Mint.mintAssetIdOffset t.val}", s!"gas_price={Offsets.Mint.gasPriceOffset t.val}"]

def kindOf (s : String) : Option Kind := Kind.all.find? (fun k => k.name.toLower == s)

def splitBar : List String → List String × List String
  | [] => ([], [])
  | t :: ts => if t == "|" then ([], ts) else let p := splitBar ts; (t :: p.1, p.2)

def errName : Tx.TooLarge → String
  | .input i => s!"err SerializedInputTooLarge {i}"
  | .output i => s!"err SerializedOutputTooLarge {i}"
  | .witness i => s!"err SerializedWitnessTooLarge {i}"

def handle : List String → String
  | "recached" :: kind :: ts =>
    -- precompute on the first value, edit the object to the second value (the cache stays), precompute again, report
    let p := splitBar ts
    match kindOf kind, Text.parseAll p.1, Text.parseAll p.2 with
    | some k, some v, some w =>
      match Tx.precompute (fun _ => []) { kind := k, val := v, metadata := none } with
      | .error e => errName e
      | .ok t1 =>
        match Tx.precompute (fun _ => []) { t1 with val := w } with
        | .error e => errName e
        | .ok t2 => " ".intercalate (report t2)
    | _, _, _ => "bad-request"
  | op :: kind :: ts =>
    match kindOf kind, Text.parseAll ts with
    | some k, some v =>
      let t : Tx := { kind := k, val := v, metadata := none }
      if op == "off" then " ".intercalate (report t)
      else if op == "cached" then
        match Tx.precompute (fun _ => []) t with
        | .ok t' => " ".intercalate (report t')
        | .error (.input i) => s!"err SerializedInputTooLarge {i}"
        | .error (.output i) => s!"err SerializedOutputTooLarge {i}"
        | .error (.witness i) => s!"err SerializedWitnessTooLarge {i}"
      else "bad-op"
    | _, _ => "bad-request"
  | _ => "bad-op"

def run : IO Unit := FuelVerif.lineLoopPure handle
end FuelVerif.Drv.C04
