/- Driver stream `c35`: the deployment / blob / upload / upgrade tables model on the harness's histories. -/
import FuelVerif.Basic.Loop
import FuelVerif.Model.Tables
import FuelVerif.Gen.UpgradeOrder
namespace FuelVerif.Drv.C35
open FuelVerif FuelVerif.Tables

/-- model tables + every key named so far (to print the tables in key order) -/
structure D where
  t : T
  cids : List Bytes
  slotKeys : List (Bytes × Bytes)
  bids : List Bytes
  roots : List Bytes
  cpVers : List Nat
  stVers : List Nat

def D.init : D := { t := T.empty, cids := [], slotKeys := [], bids := [], roots := [], cpVers := [], stVers := [] }

def insB (x : Bytes) : List Bytes → List Bytes
  | [] => [x]
  | y :: ys => if x = y then y :: ys else if x < y then x :: y :: ys else y :: insB x ys
def insN (x : Nat) : List Nat → List Nat
  | [] => [x]
  | y :: ys => if x = y then y :: ys else if x < y then x :: y :: ys else y :: insN x ys
def insP (x : Bytes × Bytes) : List (Bytes × Bytes) → List (Bytes × Bytes)
  | [] => [x]
  | y :: ys => if x = y then y :: ys else if x.1 < y.1 || (x.1 = y.1 && x.2 < y.2) then x :: y :: ys else y :: insP x ys

def n (s : String) : Nat := natOr s 0
def bytes (s : String) : Bytes := (ofHex s).getD []
def hexs (b : Bytes) : String := toHex b

def parseSlots (s : String) : List (Bytes × Bytes) :=
  if s == "-" then [] else (s.splitOn ",").filterMap (fun kv => match kv.splitOn "=" with | [k, v] => some (bytes k, bytes v) | _ => none)

def join (xs : List String) : String := if xs.isEmpty then "-" else ",".intercalate xs

def digest (d : D) : String :=
  let c := d.cids.filterMap (fun id => (d.t.contracts id).map (fun code => s!"{hexs id}:{hexs code}"))
  let s := d.slotKeys.filterMap (fun q => (d.t.slots q).map (fun v => s!"{hexs q.1}/{hexs q.2}:{hexs v}"))
  let b := d.bids.filterMap (fun id => (d.t.blobs id).map (fun v => s!"{hexs id}:{hexs v}"))
  let u := d.roots.filterMap (fun r => (d.t.uploaded r).map (fun v => match v with
    | .uncompleted bc k => s!"{hexs r}:U{k}:{hexs bc}"
    | .completed bc => s!"{hexs r}:C:{hexs bc}"))
  let cp := d.cpVers.filterMap (fun v => (d.t.cpVersions v).map (fun p => s!"{v}:{beNat p}"))
  let st := d.stVers.filterMap (fun v => (d.t.stVersions v).map (fun r => s!"{v}:{hexs r}"))
  s!"C[{join c}] S[{join s}] B[{join b}] U[{join u}] CP[{join cp}] ST[{join st}] cur={d.t.curCp},{d.t.curSt}"

def showR : Except Err Unit → String
  | .ok _ => "ok"
  | .error e => e.name

def restore : Bool := Gen.UpgradeOrder.restoresPrevOnConflict

def apply (d : D) (op : Op) : D × String :=
  let (t, r) := step restore d.t op
  let d := { d with t := t }
  (d, s!"{showR r} | {digest d}")

def stepLine (d : D) : List String → D × String
  | ["reset"] => (D.init, "unit")
  | ["deploy", id, code, slots] =>
    let sl := parseSlots slots
    let d := { d with cids := insB (bytes id) d.cids, slotKeys := sl.foldl (fun acc kv => insP (bytes id, kv.1) acc) d.slotKeys }
    apply d (.deploy (bytes id) (bytes code) sl)
  | ["blob", id, data] => apply { d with bids := insB (bytes id) d.bids } (.blob (bytes id) (bytes data))
  | ["upload", root, i, total, part] => apply { d with roots := insB (bytes root) d.roots } (.upload (bytes root) (n i) (n total) (bytes part))
  | ["upcp", chain] => apply { d with cpVers := insN (nextVersion d.t.curCp) d.cpVers } (.upgradeCp (natBE 8 (n chain)))
  | ["upst", root] => apply { d with stVers := insN (nextVersion d.t.curSt) d.stVers } (.upgradeSt (bytes root))
  | ["setv", cp, st] => apply d (.setVersions (n cp) (n st))
  | _ => (d, "bad-op")

def run : IO Unit := lineLoop D.init stepLine

end FuelVerif.Drv.C35
