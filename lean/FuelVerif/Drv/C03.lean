/- Driver stream `c03`: the transaction-id model (Model/TxId.lean) with `H := SHA-256`.
Requests (same as harness/src/streams/c03.rs):
  `pre <chain> <kind> <value>`                → hex of the bytes hashed
  `id <chain> <kind> <value>`                 → hex of the id
  `cid <chain> <kind> <value>`                → hex of the id cached by the model of `precompute`
  `same <c1> <c2> <kind> <value> | <value'>`  → `1` iff the two ids are equal
  `reid <c1> <c2> <kind> <value> | <value'>`  → hex of the id cached after precompute(c1), edit to value', precompute(c2) on ONE object -/
import FuelVerif.Basic.Loop
import FuelVerif.Basic.Sha256
import FuelVerif.Model.CodecText
import FuelVerif.Model.TxId
namespace FuelVerif.Drv.C03
open FuelVerif FuelVerif.Canonical FuelVerif.Offsets FuelVerif.TxId

def kindOf (s : String) : Option Kind := Kind.all.find? (fun k => k.name.toLower == s)
def H : Bytes → Bytes := Sha256.sha256

def splitBar : List String → List String × List String
  | [] => ([], [])
  | t :: ts => if t == "|" then ([], ts) else let p := splitBar ts; (t :: p.1, p.2)

/-- `reid c1 c2 kind v1 | v2`: precompute(c1) on v1, edit the object to v2 (the cache stays), precompute(c2): the cached id -/
def reid (c1 c2 : Nat) (k : Kind) (v w : Val) : String :=
  if k = .mint then
    let t1 := MintTx.precompute H c1 { val := v, metadata := none }
    match (MintTx.precompute H c2 { t1 with val := w }).cachedId with
    | some id => toHex id
    | none => "none"
  else
    match TxId.precompute H c1 { kind := k, val := v, metadata := none } with
    | .error _ => "err"
    | .ok t1 =>
      match TxId.precompute H c2 { t1 with val := w } with
      | .error _ => "err"
      | .ok t2 => (match cachedId t2 with | some id => toHex id | none => "none")

def handle : List String → String
  | "reid" :: c1 :: c2 :: kind :: ts =>
    let p := splitBar ts
    match kindOf kind, Text.parseAll p.1, Text.parseAll p.2 with
    | some k, some v, some w => reid (natOr c1 0) (natOr c2 0) k v w
    | _, _, _ => "bad-request"
  | "same" :: c1 :: c2 :: kind :: ts =>
    let p := splitBar ts
    match kindOf kind, Text.parseAll p.1, Text.parseAll p.2 with
    | some k, some v, some w => if freshId H (natOr c1 0) k v == freshId H (natOr c2 0) k w then "1" else "0"
    | _, _, _ => "bad-request"
  | op :: chain :: kind :: ts =>
    match kindOf kind, Text.parseAll ts with
    | some k, some v =>
      let c := natOr chain 0
      if op == "pre" then toHex (preimage c k v)
      else if op == "id" then
        if k = .mint then toHex (MintTx.id H c { val := v, metadata := none }) else toHex (txId H c { kind := k, val := v, metadata := none })
      else if op == "cid" then
        if k = .mint then
          match (MintTx.precompute H c { val := v, metadata := none }).cachedId with
          | some id => toHex id
          | none => "none"
        else
          match TxId.precompute H c { kind := k, val := v, metadata := none } with
          | .ok t => (match cachedId t with | some id => toHex id | none => "none")
          | .error _ => "err"
      else "bad-op"
    | _, _ => "bad-request"
  | _ => "bad-op"

def run : IO Unit := FuelVerif.lineLoopPure handle
end FuelVerif.Drv.C03
