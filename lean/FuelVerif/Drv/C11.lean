/- Driver stream `c11`: histories of push / reset / load / root / prove / count on the model of the
in-memory tree (`M …` lines) and of the storage-backed tree (`T …` lines). `new` starts a fresh
pair of trees. The model's `reset` follows the source (`Gen.BinaryMerkle.resetZeroesLeavesCount`). -/
import FuelVerif.Basic.Loop
import FuelVerif.Basic.Sha256
import FuelVerif.Model.BinaryMerkle
namespace FuelVerif.Drv.C11
open FuelVerif FuelVerif.BMT

def H : HashFn := Sha256.sha256

/-- error answers: variant name without payload; every panic site prints `panic` -/
def errStr : Err → String
  | .panic _ => "panic"
  | e => "err:" ++ e.name

structure St where
  mem : Tree
  st : Tree

def hexes (xs : List Bytes) : String := " ".intercalate (xs.map toHex)

def fmtProof (okTag : String) : Except Err (Bytes × List Bytes) → String
  | .ok (r, p) => if p.isEmpty then s!"{okTag} {toHex r}" else s!"{okTag} {toHex r} {hexes p}"
  | .error e => errStr e

def fmtRoot : Except Err Bytes → String
  | .ok b => toHex b
  | .error e => errStr e

def step (s : St) : List String → St × String
  | ["new"] => (⟨Tree.new [], Tree.new []⟩, "ok")
  | ["M", "push", x] =>
    match ofHex x with
    | none => (s, "bad-op")
    | some d => ({ s with mem := s.mem.pushIgnore H d }, "ok")
  | ["M", "reset"] => ({ s with mem := s.mem.reset }, "ok")
  | ["M", "root"] => (s, fmtRoot (s.mem.root H))
  | ["M", "prove", i] =>
    match i.toNat? with
    | none => (s, "bad-op")
    | some i =>
      match s.mem.proveOpt H i with
      | .ok none => (s, "none")
      | .ok (some r) => (s, fmtProof "some" (.ok r))
      | .error e => (s, errStr e)
  | ["T", "push", x] =>
    match ofHex x with
    | none => (s, "bad-op")
    | some d =>
      match s.st.push H d with
      | .ok t => ({ s with st := t }, "ok")
      | .error e => (s, errStr e)
  | ["T", "reset"] => ({ s with st := s.st.reset }, "ok")
  | ["T", "root"] => (s, fmtRoot (s.st.root H))
  | ["T", "count"] => (s, toString s.st.leavesCount)
  | ["T", "prove", i] =>
    match i.toNat? with
    | none => (s, "bad-op")
    | some i => (s, fmtProof "ok" (s.st.prove H i))
  | ["T", "load", k] =>
    match k.toNat? with
    | none => (s, "bad-op")
    | some k =>
      match Tree.load s.st.storage k with
      | .ok t => ({ s with st := t }, "ok")
      | .error e => (s, errStr e)
  | _ => (s, "bad-op")

def run : IO Unit := lineLoop (⟨Tree.new [], Tree.new []⟩ : St) step

end FuelVerif.Drv.C11
