/- Driver stream `c24b`: verdict of the per-opcode write classification on the memory diff of one instruction,
   and (lines `w`) the outcome of owner-checked stores executed by the generated programs. -/
import FuelVerif.Basic.Loop
import FuelVerif.Model.WriteClass
import FuelVerif.Drv.C24
namespace FuelVerif.Drv.C24b
open FuelVerif FuelVerif.Memory

def pairs : List Nat → List (Nat × Nat)
  | a :: b :: rest => (a, b) :: pairs rest
  | _ => []

def handle (ws : List String) : String :=
  match ws with
  | "w" :: _ => FuelVerif.Drv.C24.handle ws
  | "mc" :: _ => FuelVerif.Drv.C24.handle ws
  | "step" :: rest =>
    match rest.mapM (·.toNat?) with
    | some (opc :: sspB :: spB :: hpB :: prevHpB :: fpB :: sspA :: spA :: balLo :: balHi :: txLo :: txHi :: csLo :: csHi :: n :: ch) =>
      if ch.length ≠ 2 * n then "bad-op"
      else
        let o : StepObs := { opcode := opc, sspB := sspB, spB := spB, hpB := hpB, prevHpB := prevHpB, fpB := fpB,
                             sspA := sspA, spA := spA, balLo := balLo, balHi := balHi, txLo := txLo, txHi := txHi,
                             codeSizeLo := csLo, codeSizeHi := csHi }
        match verdict Gen.memSize o (pairs ch) with
        | .ok () => "ok"
        | .error _ => "bad"
    | _ => "bad-op"
  | _ => "bad-op"

def run : IO Unit := lineLoopPure handle

end FuelVerif.Drv.C24b
