/- Driver stream `c33`: the contract-storage model (with the slot cache) on the harness's histories. -/
import FuelVerif.Basic.Loop
import FuelVerif.Model.Storage
namespace FuelVerif.Drv.C33
open FuelVerif FuelVerif.Storage

def maxSlot : Nat := 72

/-- model state + every slot an instruction has named so far (to print the persistent table) -/
structure D where
  st : St
  touched : List Slot

def cidOf (c : String) : Bytes := if c == "A" then List.replicate 32 0xA0 else List.replicate 32 0xB0
def cidName (c : Bytes) : String := if c == List.replicate 32 0xA0 then "A" else "B"
def n (s : String) : Nat := natOr s 0
def key (s : String) : Nat := beNat ((ofHex s).getD [])
def bytes (s : String) : Bytes := (ofHex s).getD []

def chunks32 : Nat → Bytes → List Bytes
  | 0, _ => []
  | k + 1, bs => bs.take 32 :: chunks32 k (bs.drop 32)

def showOut : Out → String
  | .panic p => s!"panic {p.name}"
  | .unit => "unit"
  | .regs a b => s!"regs {a} {b}"
  | .flag k => s!"flag {k}"
  | .mem b f => s!"mem {toHex b} {f}"
  | .dyn none => "dyn none"
  | .dyn (some b) => s!"dyn {toHex b}"

def slotsOf (c : Bytes) (k range : Nat) : List Slot := if range < 2 ^ 32 then (List.range range).map (fun i => (c, k + i)) else []

def insertSorted (x : Slot) : List Slot → List Slot
  | [] => [x]
  | y :: ys => if x = y then y :: ys else if (x.1 < y.1) || (x.1 = y.1 && x.2 < y.2) then x :: y :: ys else y :: insertSorted x ys

def parse : List String → Option (Op × List Slot)
  | ["srw", c, k, off] => some (.srw (cidOf c) (key k) (n off), [(cidOf c, key k)])
  | ["srwq", c, k, r] => some (.srwq (cidOf c) (key k) (n r), slotsOf (cidOf c) (key k) (n r))
  | ["sww", c, k, w] => some (.sww (cidOf c) (key k) (n w), [(cidOf c, key k)])
  | ["swwq", c, k, r, v] => some (.swwq (cidOf c) (key k) (n r) (chunks32 (min (n r) 8) (bytes v)), slotsOf (cidOf c) (key k) (n r))
  | ["scwq", c, k, r] => some (.scwq (cidOf c) (key k) (n r), slotsOf (cidOf c) (key k) (n r))
  | ["sclr", c, k, r] => some (.sclr (cidOf c) (key k) (n r), slotsOf (cidOf c) (key k) (n r))
  | ["srdd", c, k, off, len] => some (.srdd (cidOf c) (key k) (n off) (n len), [(cidOf c, key k)])
  | ["swrd", c, k, v] => some (.swrd (cidOf c) (key k) (bytes v), [(cidOf c, key k)])
  | ["supd", c, k, off, v] => some (.supd (cidOf c) (key k) (n off) (bytes v), [(cidOf c, key k)])
  | ["spld", c, k] => some (.spld (cidOf c) (key k), [(cidOf c, key k)])
  | ["tx", "revert"] => some (.tx true, [])
  | ["tx", "commit"] => some (.tx false, [])
  | _ => none

def dump (d : D) : String :=
  let rows := d.touched.filterMap (fun sl => (d.st.store sl).map (fun v => s!"{cidName sl.1}:{toHex (natBE 32 sl.2)}={toHex v}"))
  if rows.isEmpty then "-" else ";".intercalate rows

def stepLine (d : D) (ws : List String) : D × String :=
  match ws with
  | ["reset"] => ({ st := St.empty true, touched := [] }, "unit")
  | ["dump"] => (d, dump d)
  | _ =>
    match parse ws with
    | none => (d, "bad-op")
    | some (op, slots) =>
      let (st, out) := step maxSlot d.st op
      ({ st := st, touched := slots.foldl (fun acc s => if s.2 < U256 then insertSorted s acc else acc) d.touched }, showOut out)

def run : IO Unit := lineLoop ({ st := St.empty true, touched := [] } : D) stepLine

end FuelVerif.Drv.C33
