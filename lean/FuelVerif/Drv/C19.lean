/- Driver stream `c19`: the validity model on the harness's request lines. The request carries the RAW transaction: the
   bytes the hash-based sub-checks read (Upload root / proof set / index, Create salt / slots / output ids, Blob id, Upgrade
   checksum, the data of every witness); the verdicts are computed HERE through `Raw.toTx sha256` (Model/ValidityCompose.lean:
   `BMT.verify`, `Ids.CreateMetadata.compute`, SHA-256), not taken from the harness.

  chk <height> <13 limits> <factor> <gas_per_byte> <eck1> <s256> <contract_root> <state_root> <vm_init> <nspb> <base asset> <privileged>
      <body> <size> <tip> <witness limit> <maturity> <max fee> <expiration> <owner> <n> <input>*n <m> <output>*m <k> <witness data hex>*k
      body = script:<gas>:<len>:<len> | create:<bwi>:<salt>:<key=value,..|-> | upgc:<wi>:<checksum>:<deserialises 0|1> | upgs
           | upload:<wi>:<n>:<root>:<proof,..|->:<index> | blob:<wi>:<blob id>;   output cc:<contract id>:<state root>
      => ok <min_gas> <max_gas> <retryable> <asset>=<amount>,.. (sorted) | err <ValidityError variant> | panic <site>
  mint <height> <max size> <base asset> <size> <tx pointer height> <output input index> <mint asset>  => ok | err <variant>
-/
import FuelVerif.Basic.Loop
import FuelVerif.Basic.Sha256
import FuelVerif.Model.ValidityCompose
import FuelVerif.Drv.C18
namespace FuelVerif.Drv.C19
open FuelVerif FuelVerif.Fee FuelVerif.Validity

def hexNat (s : String) : Option Nat := (ofHex s).map beNat
def bit (s : String) : Option Bool := if s == "1" then some true else if s == "0" then some false else none

def parseInput (s : String) : Option Input :=
  match s.splitOn ":" with
  | ["cs", u, o, amt, a, w] => do pure (.coinSigned (← hexNat u) (← hexNat o) (← amt.toNat?) (← hexNat a) (← w.toNat?))
  | ["cp", u, o, amt, a, pl, pdl, g] => do
    pure (.coinPredicate (← hexNat u) (← hexNat o) (← amt.toNat?) (← hexNat a) (← pl.toNat?) (← pdl.toNat?) (← g.toNat?))
  | ["ct", u, c] => do pure (.contract (← hexNat u) (← hexNat c))
  | ["ms", n, r, amt, w] => do pure (.messageCoinSigned (← hexNat n) (← hexNat r) (← amt.toNat?) (← w.toNat?))
  | ["mp", n, r, amt, pl, pdl, g] => do
    pure (.messageCoinPredicate (← hexNat n) (← hexNat r) (← amt.toNat?) (← pl.toNat?) (← pdl.toNat?) (← g.toNat?))
  | ["ds", n, r, amt, w, dl] => do pure (.messageDataSigned (← hexNat n) (← hexNat r) (← amt.toNat?) (← w.toNat?) (← dl.toNat?))
  | ["dp", n, r, amt, dl, pl, pdl, g] => do
    pure (.messageDataPredicate (← hexNat n) (← hexNat r) (← amt.toNat?) (← dl.toNat?) (← pl.toNat?) (← pdl.toNat?) (← g.toNat?))
  | _ => none

def parseOutput (s : String) : Option ROutput :=
  match s.splitOn ":" with
  | ["coin", a, amt] => do pure (.plain (.coin (← hexNat a) (← amt.toNat?)))
  | ["contract", i] => do pure (.plain (.contract (← i.toNat?)))
  | ["change", a] => do pure (.plain (.change (← hexNat a)))
  | ["variable"] => some (.plain .variable)
  | ["cc", c, r] => do pure (.contractCreated (← ofHex c) (← ofHex r))
  | _ => none

def hexList (s : String) : Option (List Bytes) := if s == "-" then some [] else (s.splitOn ",").mapM ofHex

def parseSlot (s : String) : Option Ids.Slot :=
  match s.splitOn "=" with
  | [k, v] => do pure (← ofHex k, ← ofHex v)
  | _ => none

def parseBody (s : String) : Option RBody :=
  match s.splitOn ":" with
  | ["script", g, sl, sdl] => do pure (.script (← g.toNat?) (← sl.toNat?) (← sdl.toNat?))
  | ["create", bwi, salt, slots] => do
    let ss ← if slots == "-" then some [] else (slots.splitOn ",").mapM parseSlot
    pure (.create (← bwi.toNat?) (← ofHex salt) ss)
  | ["upgc", wi, c, d] => do pure (.upgradeConsensus (← wi.toNat?) (← ofHex c) (← bit d))
  | ["upgs"] => some .upgradeState
  | ["upload", wi, n, root, proof, idx] => do pure (.upload (← wi.toNat?) (← n.toNat?) (← ofHex root) (← hexList proof) (← idx.toNat?))
  | ["blob", wi, id] => do pure (.blob (← wi.toNat?) (← ofHex id))
  | _ => none

/-- `n` followed by `n` items -/
def takeList {α} (f : String → Option α) : List String → Option (List α × List String)
  | n :: rest => do
    let n ← n.toNat?
    if rest.length < n then none
    else
      let xs ← (rest.take n).mapM f
      pure (xs, rest.drop n)
  | [] => none

def parseParams : List String → Option (Params × List String)
  | mi :: mo :: mw :: mg :: ms :: mb :: mpl :: mpdl :: mmdl :: msl :: msdl :: cms :: mss :: factor :: gpb ::
    eck1 :: s256 :: cr :: sr :: vi :: nspb :: base :: priv :: rest => do
    let gas : GasCosts := { eck1 := ← eck1.toNat?, s256 := ← C18.parseDep s256, contractRoot := ← C18.parseDep cr,
                            stateRoot := ← C18.parseDep sr, vmInitialization := ← C18.parseDep vi, newStoragePerByte := ← nspb.toNat? }
    let p : Params := {
      maxInputs := ← mi.toNat?, maxOutputs := ← mo.toNat?, maxWitnesses := ← mw.toNat?, maxGasPerTx := ← mg.toNat?,
      maxSize := ← ms.toNat?, maxBytecodeSubsections := ← mb.toNat?, maxPredicateLength := ← mpl.toNat?,
      maxPredicateDataLength := ← mpdl.toNat?, maxMessageDataLength := ← mmdl.toNat?, maxScriptLength := ← msl.toNat?,
      maxScriptDataLength := ← msdl.toNat?, contractMaxSize := ← cms.toNat?, maxStorageSlots := ← mss.toNat?,
      fee := ⟨← factor.toNat?, ← gpb.toNat?⟩, gas, baseAsset := ← hexNat base, privileged := ← hexNat priv }
    pure (p, rest)
  | _ => none

def parseTx : List String → Option Raw
  | body :: size :: tip :: wl :: mat :: mf :: exp :: own :: rest => do
    let pol : Policies := { tip := ← C18.parseOpt tip, witnessLimit := ← C18.parseOpt wl, maturity := ← C18.parseOpt mat,
                            maxFee := ← C18.parseOpt mf, expiration := ← C18.parseOpt exp, owner := ← C18.parseOpt own }
    let (inputs, rest) ← takeList parseInput rest
    let (outputs, rest) ← takeList parseOutput rest
    let (witnesses, rest) ← takeList ofHex rest
    if !rest.isEmpty then none
    else pure { body := ← parseBody body, size := ← size.toNat?, policies := pol, inputs, outputs, witnesses }
  | _ => none

def errName (e : VErr) : String := ((toString (repr e)).splitOn ".").getLastD ""

/-- insertion sort of the balance entries by asset id (the BTreeMap iteration order) -/
def insertSorted (e : Nat × Nat) : List (Nat × Nat) → List (Nat × Nat)
  | [] => [e]
  | x :: rest => if e.1 ≤ x.1 then e :: x :: rest else x :: insertSorted e rest
def sortEntries (m : List (Nat × Nat)) : List (Nat × Nat) := m.foldr insertSorted []

def showBalances (m : List (Nat × Nat)) : String :=
  if m.isEmpty then "-" else ",".intercalate ((sortEntries m).map fun e => s!"{toHex (natBE 32 e.1)}={e.2}")

def showR {α} (f : α → String) : R α → String
  | .ok a => f a
  | .error (.validity e) => s!"err {errName e}"
  | .error (.panic p) => s!"panic {C18.panicName p}"

def handle : List String → String
  | "chk" :: height :: rest =>
    match height.toNat?, parseParams rest with
    | some h, some (p, rest) =>
      match parseTx rest with
      | none => "bad-op"
      | some raw => showR (fun c => s!"ok {c.minGas} {c.maxGas} {c.balances.retryable} {showBalances c.balances.nonRetryable}")
          (checkRaw Sha256.sha256 p h raw)
    | _, _ => "bad-op"
  | ["mint", height, maxSize, base, size, ptr, idx, asset] =>
    match height.toNat?, maxSize.toNat?, hexNat base, size.toNat?, ptr.toNat?, idx.toNat?, hexNat asset with
    | some h, some ms, some b, some sz, some ph, some i, some a =>
      let p : Params := { (default : Params) with maxSize := ms, baseAsset := b }
      showR (fun _ => "ok") (checkMint p h ⟨sz, ph, i, a⟩)
    | _, _, _, _, _, _, _ => "bad-op"
  | _ => "bad-op"

def run : IO Unit := lineLoopPure handle

end FuelVerif.Drv.C19
