/- Driver stream `c13`: persistence of the sparse Merkle tree in its node storage — reload
(`MerkleTree::load` from the storage at the current root) at any point of a history, load from
`nodes_from_set`, load at the empty root / at a missing root, and behaviour with dropped nodes. -/
import FuelVerif.Model.SparseDriverLib
namespace FuelVerif.Drv.C13
open FuelVerif FuelVerif.SmtStore FuelVerif.Drv.Smt

structure St where
  t : SMT Store := SMT.new {}

def opAnswer (t : SMT Store) (r : Except Err Unit) : String :=
  s!"{resName r} {toHex t.rootHash} {t.storage.size}"

def step (s : St) : List String → St × String
  | ["new"] => ({}, "ok")
  | ["ins", k, d] =>
    match ofHex k, ofHex d with
    | some k, some d => let (t, r) := insert H storeOps s.t k d; ({ t }, opAnswer t r)
    | _, _ => (s, "bad-op")
  | ["del", k] =>
    match ofHex k with
    | some k => let (t, r) := delete H storeOps s.t k; ({ t }, opAnswer t r)
    | none => (s, "bad-op")
  | ["prove", k] =>
    match ofHex k with
    | some k =>
      match generateProof H storeOps s.t k with
      | .error e => (s, e.name)
      | .ok p => (s, fmtProof p)
    | none => (s, "bad-op")
  | ["reload"] =>
    -- drop the in-memory tree, `MerkleTree::load(storage, &root)`
    match load H storeOps s.t.storage s.t.rootHash with
    | .ok t => ({ t }, s!"ok {toHex t.rootHash} {t.storage.size}")
    | .error e => (s, e.name)
  | ["loadat", root] =>
    match ofHex root with
    | some root =>
      match load H storeOps s.t.storage root with
      | .ok t => ({ t }, s!"ok {toHex t.rootHash} {t.storage.size}")
      | .error e => (s, e.name)
    | none => (s, "bad-op")
  | ["drop", h] =>
    match ofHex h with
    | some h => ({ t := { s.t with storage := s.t.storage.erase h } }, s!"ok {(s.t.storage.erase h).size}")
    | none => (s, "bad-op")
  | ["fromnodes", ps] =>
    match parsePairs ps with
    | none => (s, "bad-op")
    | some set =>
      match nodesFromSet H set with
      | .error e => (s, e.name)
      | .ok (root, nodes) =>
        let st : Store := nodes.foldl (fun m e => m.insert e.1 e.2) {}
        match load H storeOps st root with
        | .ok t => ({ t }, s!"ok {toHex t.rootHash} {t.storage.size}")
        | .error e => (s, e.name)
  | ["digest"] => (s, storeSummary s.t.storage)
  | _ => (s, "bad-op")

def run : IO Unit := lineLoop ({} : St) step

end FuelVerif.Drv.C13
