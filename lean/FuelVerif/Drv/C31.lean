/- Driver stream `c31`: the `MemoryInstance` model on the harness's operation histories (`m …` lines);
`reuse`/`pred` lines are evaluated by the harness's own oracle on the real VM and only echoed here. -/
import FuelVerif.Basic.Loop
import FuelVerif.Model.VmMemory
namespace FuelVerif.Drv.C31
open FuelVerif FuelVerif.VmMemory

def errName : Err → String
  | .MemoryOverflow => "MemoryOverflow"
  | .MemoryGrowthOverlap => "MemoryGrowthOverlap"
  | .UninitalizedMemoryAccess => "UninitalizedMemoryAccess"

def status (m : MemI) : String := s!"sl={m.stackLen} hp={m.hp} hl={m.heapLen}"

def out (m : MemI) (r : Except Err Bytes) : String :=
  match r with
  | .ok bs => s!"ok {toHex bs} {status m}"
  | .error e => s!"err {errName e} {status m}"

def step (m : MemI) : List String → MemI × String
  | ["m", "new"] => (MemI.new, out MemI.new (.ok []))
  | ["m", "reset"] => let r := applyOp m .reset; (r.1, out r.1 r.2)
  | ["m", "gs", n] => match n.toNat? with
    | some n => let r := applyOp m (.growStack n); (r.1, out r.1 r.2)
    | none => (m, "bad-op")
  | ["m", "gh", sp, n] => match sp.toNat?, n.toNat? with
    | some sp, some n => let r := applyOp m (.growHeapBy sp n); (r.1, out r.1 r.2)
    | _, _ => (m, "bad-op")
  | ["m", "rd", s, n] => match s.toNat?, n.toNat? with
    | some s, some n => let r := applyOp m (.read s n); (r.1, out r.1 r.2)
    | _, _ => (m, "bad-op")
  | ["m", "wr", s, d] => match s.toNat?, ofHex d with
    | some s, some d => let r := applyOp m (.write s d); (r.1, out r.1 r.2)
    | _, _ => (m, "bad-op")
  | "reuse" :: _ => (m, "same")
  | "pred" :: _ => (m, "same")
  | _ => (m, "bad-op")

def run : IO Unit := lineLoop MemI.new step

end FuelVerif.Drv.C31
