/- Driver stream `c21`: one ALU instruction on preset registers. Request: `x <raw> <idx:val>...` -/
import FuelVerif.Model.VmLine
import FuelVerif.Model.Alu
namespace FuelVerif.Drv.C21
open FuelVerif FuelVerif.Alu FuelVerif.VmLine

def handle : List String → String
  | "x" :: raw :: rest =>
    match raw.toNat? with
    | none => "bad-op"
    | some w =>
      let arr := parseRegArr rest
      match stepAlu iroot w (regsOfArray arr) with
      | some o => fmtOut arr o
      | none => "not-alu"
  | _ => "bad-op"

def run : IO Unit := lineLoopPure handle

end FuelVerif.Drv.C21
