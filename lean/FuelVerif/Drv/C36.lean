/- Driver stream `c36`: the storage-read model on the harness's request lines. -/
import FuelVerif.Basic.Loop
import FuelVerif.Model.StorageRead
namespace FuelVerif.Drv.C36
open FuelVerif FuelVerif.StorageRead FuelVerif.Gen.StoreRead

def parseVal (s : String) : Option (Option Bytes) :=
  if s == "missing" || s == "na" then some none else (ofHex s).map some

/-- harness table name → field name whose impl the translator compared -/
def tableOk (t : String) : Bool :=
  tables.contains (if t == "state" then "contract_state" else t)

def fmtRead : Except ReadErr (Bytes × Nat) → String
  | .ok (b, t) => s!"ok {t} {toHex b}"
  | .error e => e.name

/-- memory whose only non-zero bytes are the given windows -/
def memOf (slen hp : Nat) (wins : List (Nat × Bytes)) : Mem :=
  { stackLen := slen, hp := hp,
    get := fun p => match wins.find? (fun w => w.1 ≤ p ∧ p - w.1 < w.2.length) with
      | some w => w.2.getD (p - w.1) 0
      | none => 0 }

def n (s : String) : Nat := natOr s 0

def handle : List String → String
  | ["rd", "exact", t, v, off, len, fill] =>
    match parseVal v with
    | some val => if tableOk t then fmtRead (readExact val (n off) (List.replicate (n len) (UInt8.ofNat (n fill)))) else "bad-table"
    | none => "bad-op"
  | ["rd", "zerofill", t, v, off, len, fill] =>
    match parseVal v with
    | some val => if tableOk t then fmtRead (readZerofill val (n off) (List.replicate (n len) (UInt8.ofNat (n fill)))) else "bad-table"
    | none => "bad-op"
  | ["rd", "alloc", t, v] =>
    match parseVal v with
    | some val => if tableOk t then (match readAlloc val with | none => "none" | some b => s!"some {toHex b}") else "bad-table"
    | none => "bad-op"
  | ["rd", "size", t, v] =>
    match parseVal v with
    | some val => if tableOk t then (match sizeOfValue val with | none => "none" | some k => s!"some {k}") else "bad-table"
    | none => "bad-op"
  | ["ldc", mode, cx, ssp, sp, hp, fp, slen, mx, a, b, c, idin, obj, srcw, oldcs] =>
    match parseVal obj, parseVal srcw with
    | some o, some sw =>
      let internal := cx == "call"
      let csPtr := satAdd (n fp) codeSizeOffset
      let wins : List (Nat × Bytes) :=
        (if internal then [(csPtr, wordBE (n oldcs))] else []) ++
        (match sw with | some w => [(satAdd (n a) (n b), w)] | none => [])
      let v : Vm := { mem := memOf (n slen) (n hp) wins, ssp := n ssp, sp := n sp, hp := n hp, fp := n fp, pc := 0,
                      prevHp := 0, isInternal := internal, isPredicate := false, contractMaxSize := n mx }
      let env : Env := { contracts := fun _ => if n mode == 0 then o else none,
                         blobs := fun _ => if n mode == 1 then o else none,
                         inInputs := fun _ => n idin == 1 }
      if n mode == 2 && sw.isNone && n c ≤ 4096 then "need-src" else
      match ldc v env (n a) (n b) (n c) (n mode) with
      | .error e => s!"panic {e.name}"
      | .ok v' =>
        let cs := if internal then beWord (v'.mem.slice csPtr 8) else 0
        s!"ok {v'.ssp} {v'.sp} {v'.pc} {toHex (v'.mem.slice (n ssp) (v'.ssp - n ssp))} {cs}"
    | _, _ => "bad-op"
  | [op, ssp, sp, hp, prevHp, slen, a, b, c, d, idin, obj] =>
    match parseVal obj with
    | some o =>
      let v : Vm := { mem := memOf (n slen) (n hp) [], ssp := n ssp, sp := n sp, hp := n hp, fp := 0, pc := 0,
                      prevHp := n prevHp, isInternal := false, isPredicate := false, contractMaxSize := 0 }
      let env : Env := { contracts := fun _ => if op == "ccp" then o else none,
                         blobs := fun _ => if op == "bldd" then o else none,
                         inInputs := fun _ => n idin == 1 }
      let r := if op == "ccp" then codeCopy v env (n a) (n b) (n c) (n d)
               else if op == "bldd" then blobLoadData v env (n a) (n b) (n c) (n d)
               else .error .InvalidImmediateValue
      match r with
      | .error e => s!"panic {e.name}"
      | .ok v' => s!"ok {v'.pc} {toHex (v'.mem.slice (n a) (n d))}"
    | none => "bad-op"
  | _ => "bad-op"

def run : IO Unit := lineLoopPure handle

end FuelVerif.Drv.C36
