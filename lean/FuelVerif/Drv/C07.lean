/- Driver stream `c07`: field-level DA compression model with the ring registry context.
`new <size> <start>` starts a fresh context; `tx <path|group|val>…` stores the transaction's coin/message data,
compresses it and decompresses the result against the context as it is afterwards. -/
import FuelVerif.Basic.Loop
import FuelVerif.Model.Compression
namespace FuelVerif.Drv.C07
open FuelVerif FuelVerif.Compression

def parseSeg (s : String) : Seg :=
  match s.splitOn "." with
  | [a, b] => (a, b)
  | _ => (s, "")

def parseVal (s : String) : Option Val :=
  match s.toList with
  | 'n' :: r => (String.ofList r).toNat?.map Val.num
  | 'x' :: r => (ofHex (String.ofList r)).map Val.bytes
  | 'v' :: r => some (.tag (String.ofList r))
  | _ => none

def showVal : Val → String
  | .num n => s!"n{n}"
  | .bytes b => "x" ++ toHex b
  | .tag s => "v" ++ s

def parseLeaf (s : String) : Option Leaf :=
  match s.splitOn "|" with
  | [p, g, v] => (parseVal v).map (fun v => ⟨(p.splitOn "/").map parseSeg, if g == "-" then "" else g, v⟩)
  | _ => none

def showC : CLeaf → Option String
  | .val v => some (showVal v)
  | .key _ k => some ("x" ++ toHex (natBE Gen.Fields.registryKeySize k))
  | .utxo k => some ("x" ++ toHex (natBE 4 k ++ zeros 4))
  | .skipped => none

def step (r : Ring) : List String → Ring × String
  | ["new", size, start] =>
    match size.toNat?, start.toNat? with
    | some size, some start => (⟨size, start, [], [], [], []⟩, "ok")
    | _, _ => (r, "bad-op")
  | "tx" :: ls =>
    match ls.mapM parseLeaf with
    | none => (r, "bad-op")
    | some tx =>
      match runTx genTable r tx with
      | (r', .error e) => (r', s!"err:{e}")
      | (r', .ok (cls, d)) =>
        let c := ",".intercalate (cls.filterMap showC)
        match d with
        | none => (r', s!"c={c} d=FAILED")
        | some ds => (r', s!"c={c} d={",".intercalate (ds.map (fun d => showVal d.val))}")
  | _ => (r, "bad-op")

def run : IO Unit := lineLoop (⟨0, 0, [], [], [], []⟩ : Ring) step

end FuelVerif.Drv.C07
