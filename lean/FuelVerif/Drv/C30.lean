/- Driver stream `c30`: the site table of the model against the access log of the recording storage. -/
import FuelVerif.Basic.Loop
import FuelVerif.Model.Access
namespace FuelVerif.Drv.C30
open FuelVerif FuelVerif.Access

def handle : List String → String
  | ["acc", op, passed, observed] =>
    let allowed := allowedFor op (passed == "1")
    let obs := if observed == "-" then [] else observed.splitOn ","
    match obs.find? (fun o => !(allowed.contains o)) with
    | none => "ok"
    | some o => s!"not-allowed:{o}"
  | ["frames", inputs, events] =>
    -- replay the frame invariant: events c<hex>/r/o
    match (if inputs == "-" then some [] else (inputs.splitOn ",").mapM ofHex) with
    | none => "bad-op"
    | some ins =>
      let evs := (if events == "-" then [] else events.splitOn ",").map (fun e =>
        if e == "r" then Event.ret else if e == "o" then Event.other
        else match ofHex (e.drop 1).toString with | some c => Event.call c | none => Event.other)
      let fr := evs.foldl (stepFrames ins) []
      s!"{fr.length} {if fr.all (fun c => ins.contains c) then "listed" else "unlisted"}"
  | _ => "bad-op"

def run : IO Unit := lineLoopPure handle

end FuelVerif.Drv.C30
