/- Driver stream `c15`: contract / predicate identifiers. One answer line per request line of
`harness/src/streams/c15.rs`; the model's storage (`Ids.Storage`) persists between lines until `new`.
Besides the model's answers the driver prints the SPECIFICATION side computed inside Lean (`mth` of
`specLeaves`, `specRoot` of `slotMap`) where the harness prints its sha2-only oracle value. -/
import FuelVerif.Basic.Loop
import FuelVerif.Basic.Sha256
import FuelVerif.Model.ContractId
import FuelVerif.Model.SparseBytes
namespace FuelVerif.Drv.C15
open FuelVerif FuelVerif.Ids

def H : Bytes → Bytes := Sha256.sha256

def fmt : Except Err Bytes → String
  | .ok b => toHex b
  | .error e => "err:" ++ e.name

/-- `G:len:mul:add` = byte i is bits 24..31 of `(i*mul + add) mod 2^64`; `X:hex` = explicit bytes -/
def parseBytes (s : String) : Option Bytes :=
  match s.splitOn ":" with
  | ["G", len, mul, add] =>
    match len.toNat?, mul.toNat?, add.toNat? with
    | some len, some mul, some add =>
      some ((List.range len).map (fun i => UInt8.ofNat (((i * mul + add) % 2 ^ 64) / 2 ^ 24 % 256)))
    | _, _, _ => none
  | ["X", h] => ofHex h
  | _ => none

/-- `spec;spec;…` (`-` = none) -/
def parseWitnesses (s : String) : Option (List Bytes) :=
  if s == "-" then some [] else (s.splitOn ";").mapM parseBytes

/-- `k:v,k:v,…` (`-` = none) -/
def parseSlots (s : String) : Option (List Slot) :=
  if s == "-" then some []
  else (s.splitOn ",").mapM (fun kv =>
    match kv.splitOn ":" with
    | [k, v] => do let k ← ofHex k; let v ← ofHex v; pure (k, v)
    | _ => none)

def parseList (s : String) : Option (List Bytes) :=
  if s == "-" then some [] else (s.splitOn ",").mapM ofHex

def specRootOf (slots : List Slot) : String :=
  let m := slots.foldl (fun m s => Smt.alInsert (H s.1) (H s.2) m) []
  match Smt.specRoot SmtBytes.bitOf (SmtBytes.hashes H) SmtBytes.width 0 m with
  | some r => toHex r
  | none => "spec-undefined"

def parseCreate (widx salt slots wits : String) : Option Create := do
  let widx ← widx.toNat?
  let salt ← ofHex salt
  let slots ← parseSlots slots
  let wits ← parseWitnesses wits
  pure { bytecodeWitnessIndex := widx, salt, storageSlots := slots, witnesses := wits }

/-- `C:<contract id>:<state root>` = `Output::ContractCreated`, `O` = an output the other arms let pass; `;`-separated -/
def parseOutputs (s : String) : Option (List Output) :=
  if s == "-" then some []
  else (s.splitOn ";").mapM (fun o =>
    match o.splitOn ":" with
    | ["O"] => some .other
    | ["C", cid, sr] => do let cid ← ofHex cid; let sr ← ofHex sr; pure (.contractCreated cid sr)
    | _ => none)

def fmtMeta : Except Err CreateMetadata → String
  | .ok m => s!"{toHex m.contractId},{toHex m.contractRoot},{toHex m.stateRoot}"
  | .error e => "err:" ++ e.name

def step (st : Storage) : List String → Storage × String
  -- constants and the empty-code / empty-state values
  | ["K"] =>
    (st, s!"{toHex Gen.Contract.seed} {fmt (rootFromCode H [])} {fmt (defaultStateRoot H)} {toHex (H [])} " ++
      (match rootFromCode H [], defaultStateRoot H with
       | .ok r, .ok s => toHex (contractId H (zeros 32) r s)
       | _, _ => "err"))
  | ["code", spec] =>
    match parseBytes spec with
    | none => (st, "bad-op")
    | some code =>
      let r := rootFromCode H code
      (st, s!"{fmt r} {fmt r} {fmt (predicateOwner H code)} {toHex (BMT.mth H (specLeaves code))}")
  | ["slots", ps] =>
    match parseSlots ps with
    | none => (st, "bad-op")
    | some slots => (st, s!"{fmt (initialStateRoot H slots)} {specRootOf slots}")
  | ["id", salt, root, sroot] =>
    match ofHex salt, ofHex root, ofHex sroot with
    | some salt, some root, some sroot =>
      (st, s!"{toHex (contractId H salt root sroot)} {toHex (H (Gen.Contract.seed ++ salt ++ root ++ sroot))}")
    | _, _, _ => (st, "bad-op")
  | ["powner", owner, spec] =>
    match ofHex owner, parseBytes spec with
    | some owner, some p =>
      let v := match isPredicateOwnerValid H owner p with
        | .ok b => toString b
        | .error e => "err:" ++ e.name
      let t := match checkPredicateOwnerTx H owner p with
        | .ok _ => "ok"
        | .error e => e.name
      let m := match checkPredicateOwnerVm H owner p with
        | .ok _ => "ok"
        | .error e => e.name
      (st, s!"{v} {t} {m}")
    | _, _ => (st, "bad-op")
  | ["meta", widx, salt, slots, wits] =>
    match parseCreate widx salt slots wits with
    | none => (st, "bad-op")
    | some c =>
      let (c', r) := c.precompute H
      let cached := match r, c'.metadata with
        | .ok _, some m => fmtMeta (.ok m)
        | .ok _, none => "missing"
        | .error e, _ => "err:" ++ e.name
      (st, s!"{fmtMeta (CreateMetadata.compute H c)} {cached}")
  | ["new"] => ({}, "ok")
  | ["deploy", _variant, widx, salt, slots, wits] =>
    match parseCreate widx salt slots wits with
    | none => (st, "bad-op")
    | some c =>
      let (c', r) := c.precompute H
      match r with
      | .error e => (st, "err:" ++ e.name)
      | .ok _ =>
        match deployInner H c' st with
        | .error e => (st, "err:" ++ e.name)
        | .ok (st', id) =>
          let code := (st'.contract id).getD []
          (st', s!"ok {toHex id} {code.length}:{toHex (H code)} {c.storageSlots.length}")
  -- a Create with explicit outputs: the verdict of `into_checked` (precompute + the ContractCreated clause), then the deployment
  | ["deployo", widx, salt, slots, wits, outs] =>
    match parseCreate widx salt slots wits, parseOutputs outs with
    | some c, some outs =>
      match c.intoChecked H outs with
      | .error e => (st, s!"err:{e.name} -")
      | .ok c' =>
        match deployInner H c' st with
        | .error e => (st, s!"accept err:{e.name}")
        | .ok (st', id) =>
          let code := (st'.contract id).getD []
          (st', s!"accept ok {toHex id} {code.length}:{toHex (H code)} {c.storageSlots.length}")
    | _, _ => (st, "bad-op")
  | ["croo", inputs, id] =>
    match parseList inputs, ofHex id with
    | some inputs, some id => (st, fmt (codeRoot H inputs st id))
    | _, _ => (st, "bad-op")
  -- CROO after the contract's code has been removed from the VM's storage (the harness removes it after `init_script`)
  | ["croomissing", inputs, id] =>
    match parseList inputs, ofHex id with
    | some inputs, some id =>
      (st, fmt (codeRoot H inputs { st with contracts := st.contracts.filter (fun e => e.1 != id) } id))
    | _, _ => (st, "bad-op")
  | ["state", id, key] =>
    match ofHex id, ofHex key with
    | some id, some key =>
      (st, match st.stateAt id key with
        | some v => toHex v
        | none => "none")
    | _, _ => (st, "bad-op")
  | ["contract", id] =>
    match ofHex id with
    | some id =>
      (st, match st.contract id with
        | some code => s!"{code.length}:{toHex (H code)}"
        | none => "none")
    | none => (st, "bad-op")
  | _ => (st, "bad-op")

def run : IO Unit := lineLoop ({} : Storage) step

end FuelVerif.Drv.C15
