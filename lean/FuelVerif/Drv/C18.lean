/- Driver stream `c18`: the fee model on the harness's request lines.

  fee   <eck1> <s256> <contract_root> <state_root> <vm_init> <nspb> <factor> <gas_per_byte> <price> <u1,u2,..>
        <kind> <kind args..> <size> <witnesses dyn size> <witness limit|-> <tip|-> <max fee|-> <n> <input>*n
        => <min_gas> <max_gas> <min_fee> <max_fee> <refund(u1),refund(u2),..> <min_fee:max_fee:min_gas:max_gas|->
  ready (same fields)  => ready | balanceOverflow | insufficientMaxFee
  defaults             => the generated default tables
  A panicking computation answers `!<panic site>`.
-/
import FuelVerif.Basic.Loop
import FuelVerif.Model.Fee
import FuelVerif.Gen.ConsensusDefaults
namespace FuelVerif.Drv.C18
open FuelVerif FuelVerif.Fee

def parseDep (s : String) : Option DepCost :=
  match s.splitOn ":" with
  | ["L", b, u] => do pure (.light (← b.toNat?) (← u.toNat?))
  | ["H", b, g] => do pure (.heavy (← b.toNat?) (← g.toNat?))
  | _ => none

def parseOpt (s : String) : Option (Option Nat) :=
  if s == "-" then some none else s.toNat?.map some

def parseInput (s : String) : Option FeeInput :=
  match s.splitOn ":" with
  | ["s", w] => do pure (.signed (← w.toNat?))
  | ["p", l, g] => do pure (.predicate (← l.toNat?) (← g.toNat?))
  | ["o"] => some .other
  | _ => none

def parseKind : List String → Option (Kind × List String)
  | "script" :: g :: r => do pure (.script (← g.toNat?), r)
  | "create" :: l :: s :: r => do pure (.create (← l.toNat?) (← s.toNat?), r)
  | "upgc" :: l :: r => do pure (.upgradeConsensus (← l.toNat?), r)
  | "upgs" :: r => some (.upgradeState, r)
  | "upload" :: l :: n :: r => do pure (.upload (← l.toNat?) (← n.toNat?), r)
  | "blob" :: l :: r => do pure (.blob (← l.toNat?), r)
  | _ => none

def parseView (ws : List String) : Option TxView := do
  let (kind, r) ← parseKind ws
  match r with
  | size :: wdyn :: wl :: tip :: mf :: n :: ins =>
    let n ← n.toNat?
    if ins.length ≠ n then none
    else
      let inputs ← ins.mapM parseInput
      pure { kind, size := ← size.toNat?, inputs, witnessesDyn := ← wdyn.toNat?, witnessLimit := ← parseOpt wl,
             tip := ← parseOpt tip, maxFee := ← parseOpt mf }
  | _ => none

structure Req where
  gc : GasCosts
  fp : FeeParams
  price : Nat
  used : List Nat
  view : TxView

def parseReq : List String → Option Req
  | eck1 :: s256 :: cr :: sr :: vi :: nspb :: factor :: gpb :: price :: used :: rest => do
    let gc : GasCosts := { eck1 := ← eck1.toNat?, s256 := ← parseDep s256, contractRoot := ← parseDep cr,
                           stateRoot := ← parseDep sr, vmInitialization := ← parseDep vi, newStoragePerByte := ← nspb.toNat? }
    let used ← (used.splitOn ",").mapM (·.toNat?)
    pure { gc, fp := ⟨← factor.toNat?, ← gpb.toNat?⟩, price := ← price.toNat?, used, view := ← parseView rest }
  | _ => none

def panicName : Panic → String
  | .unitsPerGasZero => "!unitsPerGasZero"
  | .mulOverflow => "!mulOverflow"
  | .divByZero => "!divByZero"

def showE {α} (f : α → String) : Except Panic α → String
  | .ok a => f a
  | .error p => panicName p

def showOpt : Option Nat → String
  | none => "-"
  | some v => toString v

def showFee : Option TransactionFee → String
  | none => "-"
  | some f => s!"{f.minFee}:{f.maxFee}:{f.minGas}:{f.maxGas}"

def showVerdict : ReadyVerdict → String
  | .ready => "ready"
  | .balanceOverflow => "balanceOverflow"
  | .insufficientMaxFee => "insufficientMaxFee"

def showDep : DepCost → String
  | .light b u => s!"L:{b}:{u}"
  | .heavy b g => s!"H:{b}:{g}"

def defaultsLine : String :=
  let g := Gen.defaultGasCosts
  let f := Gen.defaultFeeParams
  s!"{g.eck1} {showDep g.s256} {showDep g.contractRoot} {showDep g.stateRoot} {showDep g.vmInitialization} {g.newStoragePerByte} {f.gasPriceFactor} {f.gasPerByte}" ++
  s!" | {Gen.defaultMaxInputs} {Gen.defaultMaxOutputs} {Gen.defaultMaxWitnesses} {Gen.defaultMaxGasPerTx} {Gen.defaultMaxSize} {Gen.defaultMaxBytecodeSubsections}" ++
  s!" | {Gen.defaultMaxPredicateLength} {Gen.defaultMaxPredicateDataLength} {Gen.defaultMaxMessageDataLength} {Gen.defaultMaxGasPerPredicate}" ++
  s!" | {Gen.defaultMaxScriptLength} {Gen.defaultMaxScriptDataLength} | {Gen.defaultContractMaxSize} {Gen.defaultMaxStorageSlots}"

def handle : List String → String
  | ["defaults"] => defaultsLine
  | "fee" :: rest =>
    match parseReq rest with
    | none => "bad-op"
    | some r =>
      let refunds := ",".intercalate (r.used.map fun u => showE showOpt (refundFee r.gc r.fp r.view u r.price))
      s!"{showE toString (minGas r.gc r.fp r.view)} {showE toString (maxGas r.gc r.fp r.view)} " ++
      s!"{showE toString (minFee r.gc r.fp r.view r.price)} {showE toString (maxFee r.gc r.fp r.view r.price)} " ++
      s!"{refunds} {showE showFee (checkedFromTx r.gc r.fp r.view r.price)}"
  | "ready" :: rest =>
    match parseReq rest with
    | none => "bad-op"
    | some r => showE showVerdict (intoReady r.gc r.fp r.view r.price)
  | _ => "bad-op"

def run : IO Unit := lineLoopPure handle

end FuelVerif.Drv.C18
