/- Driver stream `c05`: the GTF / GM model (Model/Gtf.lean) on a VM state set up by a `vm` request.
Requests (same as harness/src/streams/c05.rs):
  `vm <script|predicate> <pred idx|-> <kind> <max_inputs> <chain> <gas price> <base asset hex> <balances hex> <tx value>`
        → `ok <tx_offset> <tx size> <hex of mem[0..64]> <sha256 of the rest of the initialised memory>` | `err`
  `gtf <imm> <b> <n>` → `ok <value> <hex of n bytes of memory at value | ->` | `panic <Reason>`
  `gm <imm> <n>`      → the same -/
import FuelVerif.Basic.Loop
import FuelVerif.Basic.Sha256
import FuelVerif.Model.CodecText
import FuelVerif.Model.Gtf
namespace FuelVerif.Drv.C05
open FuelVerif FuelVerif.Canonical FuelVerif.Offsets FuelVerif.TxId FuelVerif.Gtf

def kindOf (s : String) : Option Kind := Kind.all.find? (fun k => k.name.toLower == s)
def H : Bytes → Bytes := Sha256.sha256

def answer (vm : Vm) (r : Except Panic Nat) (n : Nat) : String :=
  match r with
  | .ok v => s!"ok {v} {if n = 0 then "-" else toHex (readMem vm v n)}"
  | .error p => s!"panic {p.name}"

def step (st : Option Vm) : List String → Option Vm × String
  | "vm" :: ctxname :: pred :: kind :: maxInputs :: chain :: gasPrice :: base :: balances :: ts =>
    match kindOf kind, Text.parseAll ts, ofHex base, ofHex balances with
    | some k, some v, some baseAsset, some bal =>
      let c := natOr chain 0
      let context := if ctxname == "predicate" then Context.predicate (natOr pred 0) else Context.script
      -- the id pushed first: `self.transaction().id(&chain_id)` (C03 model; no cached metadata in these runs)
      let id := freshId H c k v
      match initVm k v (natOr maxInputs 0) c (natOr gasPrice 0) context id baseAsset bal with
      | .ok vm => (some vm, s!"ok {vm.txOffset} {size TxDesc.env k.desc vm.tx.val} {toHex (vm.mem.take 64)} {toHex (H (vm.mem.drop 64))}")
      | .error _ => (none, "err")
    | _, _, _, _ => (none, "bad-request")
  | ["gtf", imm, b, n] =>
    match st with
    | some vm => (st, answer vm (gtf vm (natOr b 0) (natOr imm 0)) (natOr n 0))
    | none => (st, "no-vm")
  | ["gm", imm, n] =>
    match st with
    | some vm => (st, answer vm (gm vm (natOr imm 0)) (natOr n 0))
    | none => (st, "no-vm")
  | _ => (st, "bad-op")

def run : IO Unit := FuelVerif.lineLoop (none : Option Vm) step
end FuelVerif.Drv.C05
