/- Driver stream `c24`: outcome of an owner-checked write given the extents and the ownership registers. -/
import FuelVerif.Basic.Loop
import FuelVerif.Model.WriteClass
namespace FuelVerif.Drv.C24
open FuelVerif FuelVerif.Memory

def handle (ws : List String) : String :=
  match ws with
  | "w" :: rest =>
    match rest.mapM (·.toNat?) with
    | some [sl, memHp, ssp, sp, hp, prevHp, addr, len] =>
      match writeOutcome Gen.memSize sl memHp { sp := sp, ssp := ssp, hp := hp, prevHp := prevHp } addr len with
      | .ok () => "ok"
      | .error e => e.name
    | _ => "bad-op"
  | "mc" :: rest =>
    match rest.mapM (·.toNat?) with
    | some [sl, memHp, ssp, sp, hp, prevHp, dst, src, len] =>
      match memcopyOutcome Gen.memSize sl memHp { sp := sp, ssp := ssp, hp := hp, prevHp := prevHp } dst src len with
      | .ok () => "ok"
      | .error e => e.name
    | _ => "bad-op"
  | _ => "bad-op"

def run : IO Unit := lineLoopPure handle

end FuelVerif.Drv.C24
