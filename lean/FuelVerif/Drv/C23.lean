/- Driver stream `c23`: histories on the `MemoryInstance` model (M = Gen.memSize). -/
import FuelVerif.Basic.Loop
import FuelVerif.Model.Memory
namespace FuelVerif.Drv.C23
open FuelVerif FuelVerif.Memory

def M : Nat := Gen.memSize
def minCap : Nat := Gen.heapMinCap

def fmtOut : Out → String
  | .ok => "ok"
  | .hp n => s!"ok {n}"
  | .range s e => s!"ok {s} {e}"
  | .bytes b => s!"ok {toHex b}"
  | .err e => e.name
  | .noChange => "same"
  | .noSlot => "noslot"

def nats (ws : List String) : Option (List Nat) := ws.mapM (·.toNat?)

def parseOp : List String → Option Op
  | ["reset"] => some .reset
  | ["gs", n] => n.toNat?.map .growStack
  | ["gh", sp, a] => do some (.growHeap (← sp.toNat?) (← a.toNat?))
  | ["vf", a, c] => do some (.verify (← a.toNat?) (← c.toNat?))
  | ["rd", a, c] => do some (.read (← a.toNat?) (← c.toNat?))
  | ["wr", a, h] => do some (.write (← a.toNat?) (← ofHex h))
  | ["mc", d, s, l, ssp, sp, hp, php] => do
      some (.memcopy (← d.toNat?) (← s.toNat?) (← l.toNat?)
        { sp := (← sp.toNat?), ssp := (← ssp.toNat?), hp := (← hp.toNat?), prevHp := (← php.toNat?) })
  | ["snap"] => some .snapshot
  | ["rb", k] => k.toNat?.map .rollback
  | _ => none

def step (s : HState) (ws : List String) : HState × String :=
  match ws with
  | ["new"] => (HState.init M, "ok")
  | ["st"] => (s, s!"{s.cur.stackLen} {s.cur.hp}")
  | ["eq", k] =>
    match k.toNat? >>= (s.snaps[·]?) with
    | some snap => (s, toString (s.cur.eqAccessible M snap))
    | none => (s, "noslot")
  | _ =>
    match parseOp ws with
    | none => (s, "bad-op")
    | some op =>
      let (s', o) := stepC M minCap s op
      (s', fmtOut o)

def run : IO Unit := lineLoop (HState.init M) step

end FuelVerif.Drv.C23
