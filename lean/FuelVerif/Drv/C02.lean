/- Driver stream `c02`: the canonical decoders of the model on arbitrary / mutated byte strings. -/
import FuelVerif.Basic.Loop
import FuelVerif.Model.CodecText
namespace FuelVerif.Drv.C02
def run : IO Unit := FuelVerif.lineLoopPure FuelVerif.Canonical.Text.handle
end FuelVerif.Drv.C02
