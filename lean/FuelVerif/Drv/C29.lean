/- Driver stream `c29`: the regenerated charge tables against what executed instructions really consumed, and
the step bound of `run_terminates` on observed runs. -/
import FuelVerif.Basic.Loop
import FuelVerif.Gen.VmGas
import FuelVerif.Gen.ReceiptsCtx
namespace FuelVerif.Drv.C29
open FuelVerif FuelVerif.Gen

/-- least amount the implementation of `name` charges under the default schedule, by the tables -/
def firstCharge (name : String) : Option Nat :=
  match chargeSites.find? (fun x => x.1 == name) with
  | none => none
  | some (_, .ecal, _, _) => some 0
  | some (_, _, acc, _) => (defaultCharge.find? (fun x => x.1 == acc)).map (·.2)

def handle : List String → String
  | ["cost", name, n] =>
    match firstCharge name, n.toNat? with
    | some c, some n => if 1 ≤ c ∧ c ≤ n then "ok" else s!"undercharged expected>={c}"
    | none, _ => "unknown-opcode"
    | _, none => "bad-op"
  | ["steps", gasLimit, steps, used] =>
    match gasLimit.toNat?, steps.toNat?, used.toNat? with
    | some g, some s, some u => if s ≤ g + 1 ∧ u ≤ g then "ok" else "violates-bound"
    | _, _, _ => "bad-op"
  | ["tail", len, k2, k1] =>
    -- the reserved-slot rule of `ReceiptsCtx::push` on the final receipt list
    match len.toNat? with
    | some n =>
      let mx := FuelVerif.Gen.ReceiptsCtx.maxReceipts
      let ok2 := if n > mx - 2 then k2 == "Panic" || k2 == "ScriptResult" else k2 == "-"
      let ok1 := if n > mx - 1 then k1 == "ScriptResult" else k1 == "-"
      if n ≤ mx ∧ ok2 ∧ ok1 then "ok" else "reserved-slot-rule-violated"
    | none => "bad-op"
  | _ => "bad-op"

def run : IO Unit := lineLoopPure handle

end FuelVerif.Drv.C29
