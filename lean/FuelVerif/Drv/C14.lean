/- Driver stream `c14`: `generate_proof` and the two verifiers — storage-level model (layer b), checked
line by line against the structural model (layer a). -/
import FuelVerif.Model.SparseDriverLib
namespace FuelVerif.Drv.C14
open FuelVerif FuelVerif.SmtStore FuelVerif.Drv.Smt

structure St where
  t : SMT Store := SMT.new {}
  tree : Smt.Tree Bytes Bytes := .empty

def bit := SmtBytes.bitOf
def P := SmtBytes.hashes H
def n := SmtBytes.width

/-- the structural layer's proof in the storage layer's type -/
def ofStructural : Smt.Proof Bytes Bytes Bytes → Proof
  | .inclusion s => .inclusion s
  | .exclusion s .placeholder => .exclusion s .placeholder
  | .exclusion s (.leaf k v) => .exclusion s (.leaf k v)

def parseLeaf (s : String) : Option ExclusionLeaf :=
  if s == "ph" then some .placeholder
  else match s.splitOn ":" with
    | [k, v] => do let k ← ofHex k; let v ← ofHex v; pure (.leaf k v)
    | _ => none

def fmtBool : Except Err Bool → String
  | .ok true => "true"
  | .ok false => "false"
  | .error e => e.name

def step (s : St) : List String → St × String
  | ["new"] => ({}, "ok")
  | ["ins", k, d] =>
    match ofHex k, ofHex d with
    | some k, some d =>
      let (t, r) := insert H storeOps s.t k d
      let s' : St := match r with
        | .ok _ => { t, tree := Smt.insert bit n 0 k (H d) s.tree }
        | .error _ => { s with t }
      (s', s!"{resName r} {toHex t.rootHash}")
    | _, _ => (s, "bad-op")
  | ["del", k] =>
    match ofHex k with
    | some k =>
      let (t, r) := delete H storeOps s.t k
      let s' : St := match r with
        | .ok _ => { t, tree := Smt.delete bit 0 k s.tree }
        | .error _ => { s with t }
      (s', s!"{resName r} {toHex t.rootHash}")
    | none => (s, "bad-op")
  | ["prove", k] =>
    match ofHex k with
    | some k =>
      match generateProof H storeOps s.t k with
      | .error e => (s, e.name)
      | .ok p =>
        let pa := ofStructural (Smt.generateProof bit P k s.tree)
        (s, if p == pa then fmtProof p else s!"LAYER-A-MISMATCH b=({fmtProof p}) a=({fmtProof pa})")
    | none => (s, "bad-op")
  | ["vin", root, k, v, sides] =>
    match ofHex root, ofHex k, ofHex v, parseList sides with
    | some root, some k, some v, some sides =>
      let r := verifyInclusion H sides root k v
      let ra := Smt.verifyInclusion bit P Gen.Sparse.maxProofLen root k (H v) sides
      (s, if fmtBool r == fmtBool (.ok ra) then fmtBool r else s!"LAYER-A-MISMATCH b={fmtBool r} a={ra}")
    | _, _, _, _ => (s, "bad-op")
  | ["vex", root, k, sides, leaf] =>
    match ofHex root, ofHex k, parseList sides, parseLeaf leaf with
    | some root, some k, some sides, some leaf =>
      let r := verifyExclusion H sides leaf root k
      let la : Smt.ExLeaf Bytes Bytes := match leaf with
        | .leaf k v => .leaf k v
        | .placeholder => .placeholder
      let ra := Smt.verifyExclusion bit P Gen.Sparse.maxProofLen root k sides la
      (s, if fmtBool r == fmtBool (.ok ra) then fmtBool r else s!"LAYER-A-MISMATCH b={fmtBool r} a={ra}")
    | _, _, _, _ => (s, "bad-op")
  | _ => (s, "bad-op")

def run : IO Unit := lineLoop ({} : St) step

end FuelVerif.Drv.C14
