/- Driver stream `c09b`: `ReceiptsCtx` histories around the receipt limit (push / rejected push / clear / root). -/
import FuelVerif.Basic.Loop
import FuelVerif.Basic.Sha256
import FuelVerif.Model.ReceiptsCtx
namespace FuelVerif.Drv.C09b
open FuelVerif FuelVerif.BMT FuelVerif.RCtx

def kindOf : String → Option RKind
  | "s" => some .scriptResult | "p" => some .panic | "o" => some .other | _ => none

def errName : RErr → String
  | .bugReceiptsCtxFull => "err:Bug(ReceiptsCtxFull)"
  | .tooManyReceipts => "err:TooManyReceipts"

def step (s : RState) : List String → RState × String
  | ["new"] => ({}, "ok 0")
  | ["clear"] => let s' := clear s; (s', s!"ok {s'.receipts.length}")
  | ["fill", n, k, h] =>
    match n.toNat?, kindOf k, ofHex h with
    | some n, some k, some e =>
      match fillFast s ⟨k, e⟩ n with
      | (s', none) => (s', s!"ok {s'.receipts.length}")
      | (s', some er) => (s', s!"{errName er} {s'.receipts.length}")
    | _, _, _ => (s, "bad-op")
  | ["push", k, h] =>
    match kindOf k, ofHex h with
    | some k, some e =>
      match push s ⟨k, e⟩ with
      | (s', none) => (s', s!"ok {s'.receipts.length}")
      | (s', some er) => (s', s!"{errName er} {s'.receipts.length}")
    | _, _ => (s, "bad-op")
  | ["root"] =>
    match root Sha256.sha256 s with
    | .ok b => (s, toHex b)
    | .error _ => (s, "err")
  | _ => (s, "bad-op")

def run : IO Unit := lineLoop ({} : RState) step

end FuelVerif.Drv.C09b
