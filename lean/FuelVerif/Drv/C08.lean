/- Driver stream `c08`: the instruction-encoding model on the harness's request lines. -/
import FuelVerif.Basic.Loop
import FuelVerif.Model.Instr
namespace FuelVerif.Drv.C08
open FuelVerif FuelVerif.Instr

def fmtArgs (op : Nat) (args : List Nat) : String :=
  if args.isEmpty then s!"ok {op}" else s!"ok {op} {natsToString args}"

def handle : List String → String
  | ["dec", w] =>
    match w.toNat? with
    | none => "bad-op"
    | some w =>
      match decode w with
      | none => "err"
      | some i =>
        match encode i with
        | some w' => s!"{fmtArgs i.op i.args} enc {w'}"
        | none => "enc-failed"
  | ["raw", op, u] =>
    match op.toNat?, u.toNat? with
    | some op, some u =>
      match fromRawArgs op u with
      | none => "err"
      | some i => fmtArgs i.op i.args
    | _, _ => "bad-op"
  | "new" :: op :: args =>
    match op.toNat? with
    | none => "bad-op"
    | some op =>
      match lookup op with
      | none => "bad-op"
      | some row => toString (encodeRow row (args.map (fun a => natOr a 0)))
  | ["vm", w] =>
    match w.toNat? with
    | none => "bad-op"
    | some w => match decode w with
      | none => "InvalidInstruction"
      | some _ => "accepted"
  | _ => "bad-op"

def run : IO Unit := lineLoopPure handle

end FuelVerif.Drv.C08
