/- Driver stream `c32`: the debugger model on the harness's request lines.
`deb …` lines drive one `Debugger` value through the public API; `run …` lines replay `run_program`/`resume`
of the model over the reference arrivals recorded from the real interpreter. -/
import FuelVerif.Basic.Loop
import FuelVerif.Model.Debug
namespace FuelVerif.Drv.C32
open FuelVerif FuelVerif.Debug

def evStr : DebugEval → String
  | .continue_ => "continue"
  | .breakpoint b => s!"bp:{toHex b.contract}:{b.pc}"

def stStr : Option ProgramState → String
  | none => "none"
  | some (.ret w) => s!"ret:{w}"
  | some (.retData d) => s!"retd:{toHex d}"
  | some (.revert w) => s!"rvrt:{w}"
  | some (.runProgram d) => s!"run:{evStr d}"
  | some (.verifyPredicate d) => s!"pred:{evStr d}"

def parseEv : List String → Option DebugEval
  | ["continue"] => some .continue_
  | ["bp", c, pc] => do
    let c ← ofHex c
    let pc ← pc.toNat?
    some (.breakpoint ⟨c, pc⟩)
  | _ => none

def parseSt (s : String) : Option ProgramState :=
  match s.splitOn ":" with
  | ["ret", w] => w.toNat?.map .ret
  | ["rvrt", w] => w.toNat?.map .revert
  | ["retd", d] => (ofHex d).map .retData
  | "run" :: rest => (parseEv rest).map .runProgram
  | "pred" :: rest => (parseEv rest).map .verifyPredicate
  | _ => none

def status (d : Debugger) : String :=
  s!"a={if d.isActive then 1 else 0} s={if d.singleStepping then 1 else 0} l={stStr d.lastState}"

/-- arrivals still to be executed, and how the run ends -/
abbrev TraceState := List (Option ContractId × Nat)

def traceMachine (term : String) : Machine TraceState String where
  fetch := fun s => match s with
    | [] => .error "fetch"
    | _ => .ok 0
  exec := fun _ s => match s with
    | [] => ([], .error "fatal")
    | [_] =>
      ([], if term == "ret" then .ok (.ret 0) else if term == "retd" then .ok (.retData [])
           else if term == "rvrt" then .ok (.revert 0) else if term == "panic" then .error "panic" else .error "fatal")
    | _ :: rest => (rest, .ok .proceed)
  loc := fun s => match s with
    | [] => (none, 0)
    | x :: _ => x
  inCall := fun _ => false
  panicReceipt := fun e s => if e == "panic" || e == "fetch" then some s else none
  scriptEmpty := false
  retOne := fun s => (s, none)
  finish := fun _ _ s => (s, none)
  debugNotInit := "DebugStateNotInitialized"

def unknownId : ContractId := List.replicate 32 255

def parseLoc (ids : List ContractId) (s : String) : Option (Option ContractId × Nat) :=
  match s.splitOn ":" with
  | [i, pc] => do
    let pc ← pc.toNat?
    if i == "n" then some (none, pc)
    else if i == "z" then some (some zeroId, pc)
    else if i == "x" then some (some unknownId, pc)
    else do
      let i ← i.toNat?
      let c ← ids[i]?
      some (some c, pc)
  | _ => none

def parseLocs (ids : List ContractId) (s : String) : Option (List (Option ContractId × Nat)) :=
  if s == "-" then some [] else (s.splitOn ",").mapM (parseLoc ids)

def shortLoc (b : Breakpoint) : String := s!"{toHex (b.contract.take 4)}:{b.pc}"

def runLine (ss stale ids bps term trace : String) : String :=
  match (if ids == "-" then some [] else (ids.splitOn ",").mapM ofHex) with
  | none => "bad-ids"
  | some ids =>
    match parseLocs ids bps, parseLocs ids trace, parseLocs ids stale with
    | some bps, some trace, some stale =>
      let bpl : List Breakpoint := bps.map (fun x => ⟨x.1.getD zeroId, x.2⟩)
      let d0 : Debugger := bpl.foldl (fun d b => d.setBreakpoint b) {}
      let d0 := if ss == "1" then d0.setSingleStepping true else d0
      let d0 := match stale with
        | [x] => d0.setLastState (.runProgram (.breakpoint ⟨x.1.getD zeroId, x.2⟩))
        | _ => d0
      let n := trace.length + 2
      match runToCompletion (traceMachine term) n n d0 trace with
      | none => "out-of-fuel"
      | some (_, _, o, evs) =>
        let es := evs.map (fun e => match e.1 with | .breakpoint b => shortLoc b | .continue_ => "continue")
        let t := match o with
          | .ok (.ret _) => "ret"
          | .ok (.retData _) => "retd"
          | .ok (.revert _) => if term == "panic" then "panic" else "rvrt"
          | .ok _ => "debug"
          | .err _ => "fatal"
          | .hostPanic => "host-panic"
        s!"{evs.length} {if es.isEmpty then "-" else ",".intercalate es} {t}"
    | _, _, _ => "bad-locs"

def step (d : Debugger) : List String → Debugger × String
  | ["deb", "new"] => ({}, s!"ok {status {}}")
  | ["deb", "nop"] => (d, s!"ok {status d}")
  | ["deb", "clear"] => let d := d.clearBreakpoints; (d, s!"ok {status d}")
  | ["deb", "ss", b] => let d := d.setSingleStepping (b == "1"); (d, s!"ok {status d}")
  | ["deb", "bp", c, pc] =>
    match ofHex c, pc.toNat? with
    | some c, some pc => let d := d.setBreakpoint ⟨c, pc⟩; (d, s!"ok {status d}")
    | _, _ => (d, "bad-op")
  | ["deb", "rm", c, pc] =>
    match ofHex c, pc.toNat? with
    | some c, some pc => let d := d.removeBreakpoint ⟨c, pc⟩; (d, s!"ok {status d}")
    | _, _ => (d, "bad-op")
  | ["deb", "eval", c, pc] =>
    match (if c == "none" then some none else (ofHex c).map some), pc.toNat? with
    | some c, some pc => let r := d.evalState c pc; (r.1, s!"{evStr r.2} {status r.1}")
    | _, _ => (d, "bad-op")
  | ["deb", "last", st] =>
    match parseSt st with
    | some st => let d := d.setLastState st; (d, s!"ok {status d}")
    | none => (d, "bad-op")
  | ["run", ss, stale, ids, bps, term, trace] => (d, runLine ss stale ids bps term trace)
  | _ => (d, "bad-op")

def run : IO Unit := lineLoop ({} : Debugger) step

end FuelVerif.Drv.C32
