/- Driver stream `sha`: the executable SHA-256 used by every Merkle/id driver stream, cross-checked
against the `sha2` crate by the harness stream of the same name (FIPS 180-4 vectors, every length
0…300 around the block boundaries, random inputs). -/
import FuelVerif.Basic.Loop
import FuelVerif.Basic.Sha256
namespace FuelVerif.Drv.Sha
open FuelVerif

def handle : List String → String
  | ["h", x] =>
    match ofHex x with
    | none => "bad-op"
    | some bs => toHex (Sha256.sha256 bs)
  -- `z n b`: n copies of byte b (long inputs without long lines)
  | ["z", n, b] =>
    match n.toNat?, b.toNat? with
    | some n, some b => toHex (Sha256.sha256 (List.replicate n (UInt8.ofNat b)))
    | _, _ => "bad-op"
  | _ => "bad-op"

def run : IO Unit := lineLoopPure handle

end FuelVerif.Drv.Sha
