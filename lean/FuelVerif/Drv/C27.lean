/- Driver stream `c27`: the ledger model replayed on the asset ops the harness extracted from single-stepping. -/
import FuelVerif.Basic.Loop
import FuelVerif.Model.Ledger
namespace FuelVerif.Drv.C27
open FuelVerif FuelVerif.Ledger

structure St where
  led : Ledger := { base := 0, cids := [], code := [], free := fun _ => none, mem := fun _ => none, bal := fun _ _ => none,
                    varOut := [], minted := fun _ => 0, burned := fun _ => 0, msgOut := 0, ctx := [] }
  watch : List Nat := []
  initial : List (Nat × Nat) := []
  dead : Bool := false     -- after a panic the script is over

def idOf (s : String) : Nat := match ofHex s with | some b => beNat b | none => 0

def listOf (s : String) : List String := if s == "-" then [] else s.splitOn ","

def field (ws : List String) (k : String) : String :=
  match ws.find? (fun w => w.startsWith (k ++ "=")) with
  | some w => (w.drop (k.length + 1)).toString
  | none => "-"

def pairs (s : String) : List (Nat × Nat) :=
  (listOf s).filterMap fun e => match e.splitOn ":" with
    | [a, v] => some (idOf a, natOr v 0)
    | _ => none

def triples (s : String) : List (Nat × Nat × Nat) :=
  (listOf s).filterMap fun e => match e.splitOn ":" with
    | [ca, v] => match ca.splitOn "/" with
      | [c, a] => some (idOf c, idOf a, natOr v 0)
      | _ => none
    | _ => none

def optStr : Option Nat → String
  | some v => toString v
  | none => "-"

def joinOr (xs : List String) : String := if xs.isEmpty then "-" else ",".intercalate xs

def assetIdx (watch : List Nat) (a : Nat) : String :=
  match watch.findIdx? (· == a) with | some i => toString i | none => "x"

def snapStr (st : St) (l : Ledger) : String :=
  let f := ",".intercalate (st.watch.map fun a => optStr (l.mem a))
  let c := joinOr (l.cids.flatMap fun c => st.watch.map fun a => optStr (l.bal c a))
  let v := joinOr (l.varOut.map fun p => s!"{assetIdx st.watch p.1}:{p.2}")
  let m := ",".intercalate (st.watch.map fun a => toString (l.minted a))
  let b := ",".intercalate (st.watch.map fun a => toString (l.burned a))
  s!"f={f} c={c} v={v} m={m} b={b} o={l.msgOut} d={l.ctx.length}"

def panicName : Panic → String
  | .contractNotInInputs => "ContractNotInInputs" | .transferZeroCoins => "TransferZeroCoins"
  | .notEnoughBalance => "NotEnoughBalance" | .balanceOverflow => "BalanceOverflow" | .outputNotFound => "OutputNotFound"
  | .expectedInternalContext => "ExpectedInternalContext" | .contractNotFound => "ContractNotFound"

def initLine (ws : List String) : St × String :=
  let base := idOf (field ws "base")
  let cids := (listOf (field ws "cids")).map idOf
  let code := (listOf (field ws "code")).map idOf
  let watch := (listOf (field ws "watch")).map idOf
  let initial := pairs (field ws "initial")
  let retry := natOr (field ws "retry") 0
  let bal := triples (field ws "bal")
  let nvar := natOr (field ws "nvar") 0
  -- RuntimeBalances::try_from(InitialBalances): non-retryable balances, the retryable amount added to the base asset entry
  match runtimeFree base initial retry with
  | none => ({}, "init-balance-overflow")
  | some free =>
  let balF : Nat → Nat → Option Nat := fun c a => (bal.find? (fun t => t.1 == c && t.2.1 == a)).map (·.2.2)
  let led : Ledger := { base, cids, code, free, mem := free, bal := balF, varOut := List.replicate nvar (0, 0),
                        minted := fun _ => 0, burned := fun _ => 0, msgOut := 0, ctx := [] }
  let st : St := { led, watch, initial, dead := false }
  (st, s!"ok {snapStr st led}")

def doOp (st : St) (op : Op) : St × String :=
  if st.dead then (st, "model-dead") else
  match applyOp st.led op with
  | .ok (l, _) => ({ st with led := l }, s!"ok {snapStr st l}")
  | .error e => ({ st with dead := true }, s!"panic {panicName e}")

def step (st : St) (ws : List String) : St × String :=
  match ws with
  | "init" :: rest => initLine rest
  | ["tr", d, amt, a] => doOp st (.tr (idOf d) (natOr amt 0) (idOf a))
  | ["tro", t, idx, amt, a] => doOp st (.tro (idOf t) (natOr idx 0) (natOr amt 0) (idOf a))
  | ["call", d, amt, a] => doOp st (.call (idOf d) (natOr amt 0) (idOf a))
  | ["ret"] => doOp st .ret
  | ["mint", amt, a] => doOp st (.mint (natOr amt 0) (idOf a))
  | ["burn", amt, a] => doOp st (.burn (natOr amt 0) (idOf a))
  | ["smo", amt] => doOp st (.smo (natOr amt 0))
  | ["fin", rev, refund, assets] =>
    let revert := rev == "1"
    let refund := natOr refund 0
    let init : Nat → Option Nat := fun a => st.initial.lookup a
    let ch := (listOf assets).map fun a => optStr (changeAmount st.led init revert refund (idOf a))
    let vs := (finalVars st.led revert).map fun p => s!"{assetIdx st.watch p.1}:{p.2}"
    (st, s!"change={joinOr ch} v={joinOr vs}")
  | _ => (st, "bad-op")

def run : IO Unit := lineLoop ({} : St) step

end FuelVerif.Drv.C27
