/- Driver stream `c06`: serde trees -> postcard/bincode bytes; Policies serde model. -/
import FuelVerif.Basic.Loop
import FuelVerif.Model.PoliciesWire
import FuelVerif.Model.PoliciesJson
namespace FuelVerif.Drv.C06
open FuelVerif FuelVerif.Serde FuelVerif.PoliciesSerde FuelVerif.Gen.Policies FuelVerif.Gen.SerdeShapes FuelVerif.PoliciesJson

def tokenize (s : String) : List String :=
  let s := (s.replace "(" " ( ").replace ")" " ) "
  (s.splitOn " ").filter (fun t => !t.isEmpty)

mutual
partial def parseTree : List String → Option (Tree × List String)
  | "(" :: tag :: rest =>
    match tag with
    | "u8" => leaf rest Tree.u8
    | "u16" => leaf rest Tree.u16
    | "u32" => leaf rest Tree.u32
    | "u64" => leaf rest Tree.u64
    | "u128" => leaf rest Tree.u128
    | "bool" => leaf rest (fun n => Tree.bool (n != 0))
    | "bytes" =>
      match rest with
      | h :: ")" :: r => (ofHex h).map (fun bs => (Tree.bytes bs, r))
      | _ => none
    | "seq" => (parseMany rest).map (fun (xs, r) => (Tree.seq xs, r))
    | "tuple" => (parseMany rest).map (fun (xs, r) => (Tree.tuple xs, r))
    | "none" => match rest with | ")" :: r => some (Tree.none, r) | _ => none
    | "some" =>
      match parseTree rest with
      | some (t, ")" :: r) => some (Tree.some t, r)
      | _ => none
    | "var" =>
      match rest with
      | k :: rest' =>
        match k.toNat?, parseTree rest' with
        | some k, some (t, ")" :: r) => some (Tree.variant k t, r)
        | _, _ => none
      | _ => none
    | _ => none
  | _ => none
partial def parseMany : List String → Option (List Tree × List String)
  | ")" :: r => some ([], r)
  | ts =>
    match parseTree ts with
    | none => none
    | some (t, r) => (parseMany r).map (fun (xs, r') => (t :: xs, r'))
partial def leaf (rest : List String) (mk : Nat → Tree) : Option (Tree × List String) :=
  match rest with
  | n :: ")" :: r => n.toNat?.map (fun n => (mk n, r))
  | _ => none
end

mutual
partial def showTree : Tree → String
  | .u8 n => s!"(u8 {n})" | .u16 n => s!"(u16 {n})" | .u32 n => s!"(u32 {n})" | .u64 n => s!"(u64 {n})"
  | .u128 n => s!"(u128 {n})" | .bool b => s!"(bool {if b then 1 else 0})"
  | .bytes bs => s!"(bytes {toHex bs})"
  | .seq xs => if xs.isEmpty then "(seq)" else s!"(seq {showMany xs})"
  | .tuple xs => if xs.isEmpty then "(tuple)" else s!"(tuple {showMany xs})"
  | .variant k t => s!"(var {k} {showTree t})"
  | .none => "(none)"
  | .some t => s!"(some {showTree t})"
partial def showMany (xs : List Tree) : String := " ".intercalate (xs.map showTree)
end

def treesEq (a b : Tree) : Bool := showTree a == showTree b

/-- `tree <Type> <sexpr> <postcard hex> <bincode hex>`: the recorded tree of a real value and the real
crates' bytes. Checked: the tree has the GENERATED shape of the type; the model encoders reproduce the
bytes; the model decoders, run on the REAL bytes with the generated shape, return exactly the recorded tree
and no rest. -/
def checkTree (T : TypeName) (t : Tree) (pc bc : Bytes) : String :=
  let s := shapeOf T
  let errs : List String :=
    (if hasShapeB s t then [] else ["tree-does-not-have-the-generated-shape"]) ++
    (if pcEnc t == pc then [] else [s!"postcard-enc:{toHex (pcEnc t)}"]) ++
    (if bcEnc t == bc then [] else [s!"bincode-enc:{toHex (bcEnc t)}"]) ++
    (match pcDecode policiesValid s pc with
     | some (t', []) => if treesEq t' t then [] else [s!"postcard-dec-differs:{showTree t'}"]
     | some (_, _ :: _) => ["postcard-dec-leaves-rest"]
     | none => ["postcard-dec-fails"]) ++
    (match bcDecode policiesValid s bc with
     | some (t', []) => if treesEq t' t then [] else [s!"bincode-dec-differs:{showTree t'}"]
     | some (_, _ :: _) => ["bincode-dec-leaves-rest"]
     | none => ["bincode-dec-fails"])
  if errs.isEmpty then "ok" else " ".intercalate errs

/-! JSON side of Policies. The request describes the object field by field (`key:kind:payload`), the
harness renders it as JSON text for serde_json; the text layer itself is not modelled. -/

def parseElem (s : String) : JElem :=
  match s.toNat? with
  | some n => .num n
  | none => .other

/-- `s:<hex of the utf-8 string>` | `n:<decimal>` | `a:<e1,e2,...>` (`-` = empty) | `o:<anything>` -/
def parseField (tok : String) : Option (String × JVal) :=
  match tok.splitOn ":" with
  | [k, "s", h] => (ofHex h).map (fun bs => (k, JVal.str (bs.map (fun b => Char.ofNat b.toNat))))
  | [k, "n", d] => d.toNat?.map (fun n => (k, JVal.num n))
  | [k, "a", es] => some (k, JVal.arr (if es == "-" then [] else (es.splitOn ",").map parseElem))
  | [k, "o", _] => some (k, JVal.other)
  | _ => none

def errClass : Err → String
  | .duplicateBits => "duplicate-bits" | .duplicateValues => "duplicate-values"
  | .bitsBeforeValues => "bits-before-values" | .missingBits => "missing-bits" | .missingValues => "missing-values"
  | .notSynchronized => "not-synchronized" | _ => "invalid"

/-- serde_json's compact rendering of the object `serJson` describes (names, `|`, spaces, hex digits and
decimal numbers only: nothing to escape) -/
def renderJson (fields : List (String × JVal)) : String :=
  let val : JVal → String
    | .str cs => "\"" ++ String.ofList cs ++ "\""
    | .num n => toString n
    | .arr xs => "[" ++ ",".intercalate (xs.map (fun | .num n => toString n | .other => "null")) ++ "]"
    | .other => "null"
  "{" ++ ",".intercalate (fields.map (fun (k, v) => "\"" ++ k ++ "\":" ++ val v)) ++ "}"

def handle : List String → String
  | "poljs" :: bits :: vals =>
    match bits.toNat? with
    | some b => renderJson (serJson ⟨b, vals.map (fun v => natOr v 0)⟩)
    | none => "bad-op"
  | "polj" :: toks =>
    match toks.mapM parseField with
    | none => "bad-op"
    | some fields =>
      match deJson fields with
      | .ok p => s!"ok {showTree (ser p)}"
      | .error e => s!"err {errClass e}"
  | "pol" :: bits :: vals =>
    match bits.toNat? with
    | some b => showTree (ser ⟨b, vals.map (fun v => natOr v 0)⟩)
    | none => "bad-op"
  | "tree" :: ty :: rest =>
    match TypeName.ofString? ty, rest.reverse with
    | some T, bc :: pc :: sx =>
      match parseTree (tokenize (" ".intercalate sx.reverse)), ofHex pc, ofHex bc with
      | some (t, []), some pc, some bc => checkTree T t pc bc
      | _, _, _ => "bad-op"
    | _, _ => "bad-op"
  | ["de", ty, fmt, h] =>
    match TypeName.ofString? ty, ofHex h with
    | some T, some bs =>
      let r := if fmt == "pc" then pcDecode policiesValid (shapeOf T) bs else bcDecode policiesValid (shapeOf T) bs
      match r with
      | some (t, rest) => s!"ok {rest.length} {showTree t}"
      | none => "err"
    | _, _ => "bad-op"
  | ["polde", h] =>
    match ofHex h with
    | none => "bad-op"
    | some bs =>
      match policiesFromWire pcDec bs with
      | some (p, _) => s!"ok {showTree (ser p)}"
      | none => "err"
  | _ => "bad-op"

def run : IO Unit := lineLoopPure handle

end FuelVerif.Drv.C06
