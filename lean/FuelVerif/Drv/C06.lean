/- Driver stream `c06`: serde trees -> postcard/bincode bytes; Policies serde model. -/
import FuelVerif.Basic.Loop
import FuelVerif.Model.PoliciesSerde
namespace FuelVerif.Drv.C06
open FuelVerif FuelVerif.Serde FuelVerif.PoliciesSerde FuelVerif.Gen.Policies

def tokenize (s : String) : List String :=
  let s := (s.replace "(" " ( ").replace ")" " ) "
  (s.splitOn " ").filter (fun t => !t.isEmpty)

mutual
partial def parseTree : List String → Option (Tree × List String)
  | "(" :: tag :: rest =>
    match tag with
    | "u8" => leaf rest Tree.u8
    | "u16" => leaf rest Tree.u16
    | "u32" => leaf rest Tree.u32
    | "u64" => leaf rest Tree.u64
    | "u128" => leaf rest Tree.u128
    | "bool" => leaf rest (fun n => Tree.bool (n != 0))
    | "bytes" =>
      match rest with
      | h :: ")" :: r => (ofHex h).map (fun bs => (Tree.bytes bs, r))
      | _ => none
    | "seq" => (parseMany rest).map (fun (xs, r) => (Tree.seq xs, r))
    | "tuple" => (parseMany rest).map (fun (xs, r) => (Tree.tuple xs, r))
    | "none" => match rest with | ")" :: r => some (Tree.none, r) | _ => none
    | "some" =>
      match parseTree rest with
      | some (t, ")" :: r) => some (Tree.some t, r)
      | _ => none
    | "var" =>
      match rest with
      | k :: rest' =>
        match k.toNat?, parseTree rest' with
        | some k, some (t, ")" :: r) => some (Tree.variant k t, r)
        | _, _ => none
      | _ => none
    | _ => none
  | _ => none
partial def parseMany : List String → Option (List Tree × List String)
  | ")" :: r => some ([], r)
  | ts =>
    match parseTree ts with
    | none => none
    | some (t, r) => (parseMany r).map (fun (xs, r') => (t :: xs, r'))
partial def leaf (rest : List String) (mk : Nat → Tree) : Option (Tree × List String) :=
  match rest with
  | n :: ")" :: r => n.toNat?.map (fun n => (mk n, r))
  | _ => none
end

mutual
partial def showTree : Tree → String
  | .u8 n => s!"(u8 {n})" | .u16 n => s!"(u16 {n})" | .u32 n => s!"(u32 {n})" | .u64 n => s!"(u64 {n})"
  | .u128 n => s!"(u128 {n})" | .bool b => s!"(bool {if b then 1 else 0})"
  | .bytes bs => s!"(bytes {toHex bs})"
  | .seq xs => if xs.isEmpty then "(seq)" else s!"(seq {showMany xs})"
  | .tuple xs => if xs.isEmpty then "(tuple)" else s!"(tuple {showMany xs})"
  | .variant k t => s!"(var {k} {showTree t})"
  | .none => "(none)"
  | .some t => s!"(some {showTree t})"
partial def showMany (xs : List Tree) : String := " ".intercalate (xs.map showTree)
end

/-- `postcard::from_bytes::<Policies>`: u32 bits, then the layout `visit_seq` asks for; trailing bytes ignored -/
def policiesFromPostcard (bs : Bytes) : Option Policies :=
  match pcDec .u32 bs with
  | some (.u32 bits, r) =>
    let shape := if isLegacy legacyMaskSeq bits then Shape.tuple [.u64, .u64, .u64, .u64] else Shape.seq .u64
    match pcDec shape r with
    | some (t, _) =>
      match deSeq (.tuple [.u32 bits, t]) with
      | .ok p => some p
      | .error _ => none
    | none => none
  | _ => none

def handle : List String → String
  | "pol" :: bits :: vals =>
    match bits.toNat? with
    | some b => showTree (ser ⟨b, vals.map (fun v => natOr v 0)⟩)
    | none => "bad-op"
  | "tree" :: rest =>
    match parseTree (tokenize (" ".intercalate rest)) with
    | some (t, []) => s!"{toHex (pcEnc t)} {toHex (bcEnc t)}"
    | _ => "bad-op"
  | ["polde", h] =>
    match ofHex h with
    | none => "bad-op"
    | some bs =>
      match policiesFromPostcard bs with
      | some p => s!"ok {showTree (ser p)}"
      | none => "err"
  | _ => "bad-op"

def run : IO Unit := lineLoopPure handle

end FuelVerif.Drv.C06
