/- Driver stream `c28`: the `run_program` / ReceiptsCtx / client model replayed on instruction events, with SHA-256. -/
import FuelVerif.Basic.Loop
import FuelVerif.Basic.Sha256
import FuelVerif.Model.Outcome
namespace FuelVerif.Drv.C28
open FuelVerif FuelVerif.Outcome

/-- events are accumulated newest-first; `rooted` = every event so far carried its encoding;
    `carry` = what the (possibly reused) interpreter holds between transactions -/
structure St where
  evs : List Ev := []
  rooted : Bool := true
  carry : Carry := {}

def kindOf : String → RKind
  | "call" => .call | "ret" => .ret | "retd" => .retd | "panic" => .panic | "revert" => .revert | "log" => .log
  | "logd" => .logd | "transfer" => .transfer | "transferOut" => .transferOut | "scriptResult" => .scriptResult
  | "messageOut" => .messageOut | "mint" => .mint | "burn" => .burn | _ => .log

def kindName : RKind → String
  | .call => "call" | .ret => "ret" | .retd => "retd" | .panic => "panic" | .revert => "revert" | .log => "log"
  | .logd => "logd" | .transfer => "transfer" | .transferOut => "transferOut" | .scriptResult => "scriptResult"
  | .messageOut => "messageOut" | .mint => "mint" | .burn => "burn"

partial def rle : List String → List String
  | [] => []
  | k :: ks =>
    let same := ks.takeWhile (· == k)
    let rest := ks.dropWhile (· == k)
    (if same.isEmpty then k else s!"{k}*{same.length + 1}") :: rle rest

def sha (b : Bytes) : Bytes := Sha256.sha256 b

def finName : Final → String | .success => "success" | .revert => "revert" | .panic => "panic"

def step (st : St) (ws : List String) : St × String :=
  match ws with
  | ["client"] => ({}, ".")                                  -- a new MemoryClient: fresh interpreter
  | ["begin"] => ({ carry := st.carry }, ".")                 -- next transaction on the same client
  | ["ev", e, k, enc] =>
    let bytes := if enc == "-" || enc == "!" then [] else (ofHex enc).getD []   -- "!": the push is refused, the receipt never exists
    let r : Rcpt := ⟨kindOf k, bytes⟩
    let ev : Ev := match e with
      | "call" => .call r | "ret" => .ret r | "rvrt" => .rvrt r | "fault" => .fault r | _ => .emit r
    ({ st with evs := ev :: st.evs, rooted := st.rooted && enc != "-" }, ".")
  | ["end", srEnc, panEnc] =>
    let rooted := st.rooted && srEnc != "-"
    -- without encodings the hash is irrelevant to everything but the root: use a constant function
    let H : Bytes → Bytes := if rooted then sha else fun _ => []
    let sr : Final → Rcpt := fun _ => ⟨.scriptResult, (ofHex srEnc).getD []⟩
    let tmr : Rcpt := ⟨.panic, (ofHex panEnc).getD []⟩
    -- `transact` on the client's interpreter: init_inner (resets per the generated flags), then run_program
    let (r, carry) := transactOn H sr tmr st.carry st.evs.reverse
    match r with
    | .ok o =>
      let kinds := rle (o.rc.receipts.map (fun r => kindName r.kind))
      let root := if rooted then toHex (o.rc.root H) else "-"
      ({ carry }, s!"fin={finName o.fin} n={o.rc.receipts.length} kinds={",".intercalate kinds} root={root} revert={if shouldRevert o.rc.receipts then 1 else 0}")
    | .error .unfinished => ({ carry }, "model-unfinished")
    | .error .vmError => ({ carry }, "model-vm-error")
    | .error .hostPanic => ({ carry }, "model-host-panic")
  | _ => (st, "bad-op")

def run : IO Unit := lineLoop ({} : St) step

end FuelVerif.Drv.C28
