/- Driver stream `c09`: binary Merkle roots. For each request the model's root for every
implementation the harness calls, then the RFC 6962 tree hash `mth` computed by the recursive
reference definition (an independent computation inside the model as well). -/
import FuelVerif.Basic.Loop
import FuelVerif.Basic.Sha256
import FuelVerif.Model.BinaryMerkle
namespace FuelVerif.Drv.C09
open FuelVerif FuelVerif.BMT

def H : HashFn := Sha256.sha256

/-- error answers: variant name without payload; every panic site prints `panic` -/
def errStr : Err → String
  | .panic _ => "panic"
  | e => "err:" ++ e.name

def fmt : Except Err Bytes → String
  | .ok b => toHex b
  | .error e => errStr e

def treePushAll (t : Tree) : List Bytes → Except Err Tree
  | [] => .ok t
  | d :: ds =>
    match t.push H d with
    | .error e => .error e
    | .ok t' => treePushAll t' ds

def treeRoot (leaves : List Bytes) : Except Err Bytes :=
  match treePushAll (Tree.new []) leaves with
  | .error e => .error e
  | .ok t => t.root H

def parseHexes : List String → Option (List Bytes)
  | [] => some []
  | x :: xs =>
    match ofHex x, parseHexes xs with
    | some b, some r => some (b :: r)
    | _, _ => none

/-- `S n len mul add`: leaf i = big-endian `len` bytes of `(i*mul + add) mod 2^64` -/
def seqLeaves (n len mul add : Nat) : List Bytes :=
  (List.range n).map (fun i => natBE len ((i * mul + add) % 2 ^ 64))

def answer (leaves : List Bytes) : String :=
  let eph := ephemeralMerkleRoot H leaves
  let cr := match calcPushAll H [] leaves with
    | .error e => Except.error e
    | .ok st => calcRoot H st
  let tr := treeRoot leaves
  let fh := rootFromLeafHashes H (leaves.map (leafSum H))
  " ".intercalate [fmt cr, fmt tr, fmt tr, fmt fh, fmt eph, toHex (mth H leaves)]

def handle : List String → String
  | "L" :: xs =>
    match parseHexes xs with
    | none => "bad-op"
    | some leaves => answer leaves
  | ["S", n, len, mul, add] =>
    match n.toNat?, len.toNat?, mul.toNat?, add.toNat? with
    | some n, some len, some mul, some add => answer (seqLeaves n len mul add)
    | _, _, _, _ => "bad-op"
  | "R" :: xs =>
    match parseHexes xs with
    | none => "bad-op"
    | some enc => fmt (receiptsRoot H enc) ++ " " ++ toHex (mth H enc)
  -- the constants regenerated from the sources: prefixes and the empty-root literal vs SHA-256("")
  | ["K"] => s!"{Gen.BinaryMerkle.leafPrefix.toNat} {Gen.BinaryMerkle.nodePrefix.toNat} {toHex emptySum} {toHex (H [])}"
  | _ => "bad-op"

def run : IO Unit := lineLoopPure handle

end FuelVerif.Drv.C09
