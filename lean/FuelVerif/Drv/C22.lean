/- Driver stream `c22`: `w <raw> <stackLen> <hp> <stack hex> <heap hex> <idx:val>...` — one wide-integer
instruction on the given memory (stack `[0, stackLen)`, heap `[hp, MEM_SIZE)`) and registers, in a script context;
`v <savedHp> <raw> …` — the same inside a call whose innermost frame saved `$hp = savedHp`. -/
import FuelVerif.Model.VmLine
import FuelVerif.Model.Wide
namespace FuelVerif.Drv.C22
open FuelVerif FuelVerif.Alu FuelVerif.VmLine

def memOf (stack heap : Array UInt8) (hp : Nat) : Mem :=
  { stackLen := stack.size, hp := hp,
    bytes := fun a => if a < stack.size then stack.getD a 0 else if hp ≤ a ∧ a < hp + heap.size then heap.getD (a - hp) 0 else 0 }

/-- the minimal address span covering every changed byte, ` m<lo>:<hex>` -/
def memDiff (stack heap : Array UInt8) (hp : Nat) (m' : Mem) : String :=
  let chS := (List.range stack.size).filter (fun a => m'.bytes a != stack.getD a 0)
  let chH := ((List.range heap.size).filter (fun i => m'.bytes (hp + i) != heap.getD i 0)).map (· + hp)
  let l := chS ++ chH
  match l, l.getLast? with
  | lo :: _, some hi => s!" m{lo}:{toHex ((List.range (hi - lo + 1)).map (fun i => m'.bytes (lo + i)))}"
  | _, _ => ""

def exec (frames : List Nat) (raw sl hp sh hh : String) (rest : List String) : String :=
  match raw.toNat?, sl.toNat?, hp.toNat?, ofHex sh, ofHex hh with
  | some w, some _, some hp, some sb, some hb =>
    let arr := parseRegArr rest
    let stack := sb.toArray
    let heap := hb.toArray
    let s : VmSt := { regs := regsOfArray arr, mem := memOf stack heap hp, frames := frames }
    match stepWide w s with
    | some (s', p) => fmtOut arr (s'.regs, p) ++ memDiff stack heap hp s'.mem
    | none => "not-wide"
  | _, _, _, _, _ => "bad-op"

/-- `w …`: script context (no call frame); `v <saved $hp of the innermost frame> …`: inside a call -/
def handle : List String → String
  | "w" :: raw :: sl :: hp :: sh :: hh :: rest => exec [] raw sl hp sh hh rest
  | "v" :: saved :: raw :: sl :: hp :: sh :: hh :: rest =>
    match saved.toNat? with
    | some f => exec [f] raw sl hp sh hh rest
    | none => "bad-op"
  | _ => "bad-op"

def run : IO Unit := lineLoopPure handle

end FuelVerif.Drv.C22
