/- Driver stream `c01`: the canonical codec model on valid values (encode, sizes, decode of the encoding). -/
import FuelVerif.Basic.Loop
import FuelVerif.Model.CodecText
namespace FuelVerif.Drv.C01
def run : IO Unit := FuelVerif.lineLoopPure FuelVerif.Canonical.Text.handle
end FuelVerif.Drv.C01
