/- Driver stream `c12`: sparse Merkle histories on the storage-level model (layer b), the structural
model (layer a) and the specification root, on the harness's request lines. -/
import FuelVerif.Model.SparseDriverLib
namespace FuelVerif.Drv.C12
open FuelVerif FuelVerif.SmtStore FuelVerif.Drv.Smt

structure St where
  t : SMT Store := SMT.new {}
  /-- layer (a) tree over (key, value hash) -/
  tree : Smt.Tree Bytes Bytes := .empty
  /-- the final map as an association list of (key, value hash) -/
  fl : List (Bytes × Bytes) := []

def bit := SmtBytes.bitOf
def P := SmtBytes.hashes H
def n := SmtBytes.width

def step (s : St) : List String → St × String
  | ["new"] => ({}, "ok")
  | ["ins", k, d] =>
    match ofHex k, ofHex d with
    | some k, some d =>
      let (t, r) := insert H storeOps s.t k d
      let s' : St := match r with
        | .ok _ => { t, tree := Smt.insert bit n 0 k (H d) s.tree, fl := Smt.alInsert k (H d) s.fl }
        | .error _ => { s with t }
      (s', s!"{resName r} {toHex t.rootHash} {t.storage.size}")
    | _, _ => (s, "bad-op")
  | ["del", k] =>
    match ofHex k with
    | some k =>
      let (t, r) := delete H storeOps s.t k
      let s' : St := match r with
        | .ok _ => { t, tree := Smt.delete bit 0 k s.tree, fl := Smt.alErase k s.fl }
        | .error _ => { s with t }
      (s', s!"{resName r} {toHex t.rootHash} {t.storage.size}")
    | none => (s, "bad-op")
  | ["digest"] => (s, storeSummary s.t.storage)
  | ["dump"] => (s, dump s.t.storage)
  | ["spec"] =>
    -- layer (a): the structural tree's root and the specification root of the final map must agree
    let a := s.tree.hash P
    match Smt.specRoot bit P n 0 s.fl with
    | some r => (s, if r == a then toHex r else s!"LAYER-A-MISMATCH spec={toHex r} tree={toHex a}")
    | none => (s, "spec-undefined")
  | ["fromset", ps] =>
    match parsePairs ps with
    | none => (s, "bad-op")
    | some set =>
      let r1 := match fromSet H storeOps ({} : Store) set with
        | .ok t => s!"{toHex t.rootHash} {storeSummary t.storage}"
        | .error e => e.name
      let r2 := match rootFromSet H set with
        | .ok r => toHex r
        | .error e => e.name
      let r3 := match nodesFromSet H set with
        | .ok (r, nodes) =>
          -- emission order is not an observable: sorted, distinct
          let st : Store := nodes.foldl (fun (m : Store) (e : Bytes × Prim) => m.insert e.1 e.2) {}
          s!"{toHex r} {storeSummary st}"
        | .error e => e.name
      -- the specification root of the set seen as a map (later pair wins)
      let m := set.foldl (fun m kv => Smt.alInsert kv.1 (H kv.2) m) []
      let r4 := match Smt.specRoot bit P n 0 m with
        | some r => toHex r
        | none => "spec-undefined"
      let s' : St := match fromSet H storeOps ({} : Store) set with
        | .ok t => { t, tree := m.foldl (fun (tr : Smt.Tree Bytes Bytes) (kv : Bytes × Bytes) => Smt.insert bit n 0 kv.1 kv.2 tr) .empty, fl := m }
        | .error _ => s
      (s', s!"{r1} {r2} {r3} {r4}")
  | _ => (s, "bad-op")

def run : IO Unit := lineLoop ({} : St) step

end FuelVerif.Drv.C12
