/- Driver stream `c20`: the signature-checking model. The harness sends, per transaction, the table of the
abstract `recover` (address each witness recovers to over the real id, `x` = no recovery) and of `predOwner`
(the root of each predicate's code). -/
import FuelVerif.Basic.Loop
import FuelVerif.Model.Auth
namespace FuelVerif.Drv.C20
open FuelVerif FuelVerif.Auth

def parseInput (s : String) : Option Input :=
  match s.splitOn "," with
  | ["c"] => some .contract
  | ["s", o, w] =>
    match ofHex o, w.toNat? with
    | some o, some w => some (.signed o w)
    | _, _ => none
  | ["p", o, root] =>
    match ofHex o, ofHex root with
    | some o, some r => some (.predicate o r 0)   -- the "code" of the model input is its root; predOwner = id
    | _, _ => none
  | _ => none

def parseWit (s : String) : Option (Option Addr) :=
  if s == "x" then some none else (ofHex s).map some

def showErr : SigErr → String
  | .InputWitnessIndexBounds i => s!"InputWitnessIndexBounds {i}"
  | .InputInvalidSignature i => s!"InputInvalidSignature {i}"
  | .InputPredicateOwner i => s!"InputPredicateOwner {i}"

def handle : List String → String
  | "sig" :: "W" :: rest =>
    let ws := rest.takeWhile (· != "I")
    let is := (rest.dropWhile (· != "I")).drop 1
    match ws.mapM parseWit, is.mapM parseInput with
    | some table, some inputs =>
      -- witness j is the two bytes of j; `recover` looks its address up in the table
      let witnesses : List Bytes := (List.range table.length).map (natBE 2)
      let recover : Bytes → Bytes → Option Addr := fun w _ => (table[beNat w]?).join
      match checkSignatures recover (fun c => c) (fun b => b) 0 ⟨[], inputs, witnesses⟩ with
      | .ok _ => "ok"
      | .error e => showErr e
    | _, _ => "bad-op"
  | "chk" :: cache :: "W" :: rest =>
    -- the checked-transaction entry on an OBJECT: `cache` = n (no metadata) | s (stale cached id) | f (fresh cached id)
    let ws := rest.takeWhile (· != "I")
    let is := (rest.dropWhile (· != "I")).drop 1
    match ws.mapM parseWit, is.mapM parseInput with
    | some table, some inputs =>
      let witnesses : List Bytes := (List.range table.length).map (natBE 2)
      -- the table holds the recovery of each witness over the id of the CURRENT content (= H _ = [1]);
      -- over any other message (a stale id) the model's witness recovers to nothing the inputs own
      let recover : Bytes → Bytes → Option Addr := fun w m => if m = [1] then (table[beNat w]?).join else some [0xEE]
      let cached : Option Bytes := if cache == "n" then none else if cache == "f" then some [1] else some [0xFF]
      match intoCheckedSignatures recover (fun c => c) (fun _ => [1]) 0 true ⟨⟨[], inputs, witnesses⟩, cached⟩ with
      | some (.ok t) => if idOf (fun _ => [1]) 0 t = [1] then "ok id=cur" else "ok id=stale"
      | some (.error e) => showErr e
      | none => "bad-op"
    | _, _ => "bad-op"
  | _ => "bad-op"

def run : IO Unit := lineLoopPure handle

end FuelVerif.Drv.C20
