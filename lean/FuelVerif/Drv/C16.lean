/- Driver stream `c16`: both secp256k1 backend wrappers over the executable curve `Ecdsa.k1`. -/
import FuelVerif.Basic.Loop
import FuelVerif.Model.Ecdsa
import FuelVerif.Basic.Sha256
namespace FuelVerif.Drv.C16
open FuelVerif FuelVerif.Ecdsa

def fmtKey : Except Error Bytes → String
  | .ok pk => toHex pk
  | .error e => e.name

def fmtUnit : Except Error Unit → String
  | .ok _ => "ok"
  | .error e => e.name

def okEq : Except SignPanic Bytes → Bytes → Bool
  | .ok s, t => s == t
  | .error _, _ => false

def fmtSig : Except SignPanic Bytes → String
  | .ok s => toHex s
  | .error e => e.name

/-- the nonce that reproduces `(r, s)` for key `d` and digest `z`: `k = s⁻¹ (z + r d)`.  (When the
library negated `s` this is `-k_rfc6979`, which yields the same final signature.) -/
def nonceOf (n d z r s : Nat) : Nat := invN n s * ((z + r * d % n) % n) % n

def handle : List String → String
  | ["rec", sig, msg] =>
    match ofHex sig, ofHex msg with
    | some sig, some msg =>
      s!"k256={fmtKey (k256Recover k1 sig msg)} secp={fmtKey (secpRecover k1 sig msg)}"
    | _, _ => "bad-op"
  | ["ver", sig, pk, msg] =>
    match ofHex sig, ofHex pk, ofHex msg with
    | some sig, some pk, some msg =>
      s!"k256={fmtUnit (k256Verify k1 sig pk msg)} secp={fmtUnit (secpVerify k1 sig pk msg)}"
    | _, _, _ => "bad-op"
  | ["pub", d] =>
    match ofHex d with
    | some d => s!"{toHex (publicKey k1 (beNat d))}"
    | none => "bad-op"
  | ["sign", d, msg, sig] =>
    -- `sig` = what the std backend produced; only its implied nonce is used
    match ofHex d, ofHex msg, ofHex sig with
    | some d, some msg, some sig =>
      -- both wrappers with their own RFC 6979 nonce (SHA-256); additionally the nonce implied by the std backend's
      -- signature must reproduce it through the explicit-nonce model (ties `secpSign d k` used in the theorems)
      let d := beNat d
      let (sig', _) := decodeSignature sig
      let k := nonceOf k1.n d (msgScalar k1.n msg) (sigR sig') (sigS sig')
      let viaK := if okEq (secpSign k1 d k msg) sig then "" else " explicit-nonce-model-differs"
      s!"k256={fmtSig (k256SignDet k1 Sha256.sha256 d msg)} secp={fmtSig (secpSignDet k1 Sha256.sha256 d msg)}{viaK}"
    | _, _, _ => "bad-op"
  | _ => "bad-op"

def run : IO Unit := lineLoopPure handle

end FuelVerif.Drv.C16
