/- Driver stream `c16`: both secp256k1 backend wrappers over the executable curve `Ecdsa.k1`. -/
import FuelVerif.Basic.Loop
import FuelVerif.Model.Ecdsa
namespace FuelVerif.Drv.C16
open FuelVerif FuelVerif.Ecdsa

def fmtKey : Except Error Bytes → String
  | .ok pk => toHex pk
  | .error e => e.name

def fmtUnit : Except Error Unit → String
  | .ok _ => "ok"
  | .error e => e.name

def fmtSig : Except SignPanic Bytes → String
  | .ok s => toHex s
  | .error e => e.name

/-- the nonce that reproduces `(r, s)` for key `d` and digest `z`: `k = s⁻¹ (z + r d)`.  (When the
library negated `s` this is `-k_rfc6979`, which yields the same final signature.) -/
def nonceOf (n d z r s : Nat) : Nat := invN n s * ((z + r * d % n) % n) % n

def handle : List String → String
  | ["rec", sig, msg] =>
    match ofHex sig, ofHex msg with
    | some sig, some msg =>
      s!"k256={fmtKey (k256Recover k1 sig msg)} secp={fmtKey (secpRecover k1 sig msg)}"
    | _, _ => "bad-op"
  | ["ver", sig, pk, msg] =>
    match ofHex sig, ofHex pk, ofHex msg with
    | some sig, some pk, some msg =>
      s!"k256={fmtUnit (k256Verify k1 sig pk msg)} secp={fmtUnit (secpVerify k1 sig pk msg)}"
    | _, _, _ => "bad-op"
  | ["pub", d] =>
    match ofHex d with
    | some d => s!"{toHex (publicKey k1 (beNat d))}"
    | none => "bad-op"
  | ["sign", d, msg, sig] =>
    -- `sig` = what the std backend produced; only its implied nonce is used
    match ofHex d, ofHex msg, ofHex sig with
    | some d, some msg, some sig =>
      let d := beNat d
      let (sig', _) := decodeSignature sig
      let k := nonceOf k1.n d (msgScalar k1.n msg) (sigR sig') (sigS sig')
      s!"k256={fmtSig (k256Sign k1 d k msg)} secp={fmtSig (secpSign k1 d k msg)}"
    | _, _, _ => "bad-op"
  | _ => "bad-op"

def run : IO Unit := lineLoopPure handle

end FuelVerif.Drv.C16
