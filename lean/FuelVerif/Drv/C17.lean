/- Driver stream `c17`: `Signature::{sign,recover,verify}` (std backend model), the secp256r1 wrappers
and the three VM signature handlers, over the executable curves `Ecdsa.k1` / `Ecdsa.r1`. -/
import FuelVerif.Basic.Loop
import FuelVerif.Model.Ecdsa
import FuelVerif.Basic.Sha256
import FuelVerif.Model.CryptoOps
namespace FuelVerif.Drv.C17
open FuelVerif FuelVerif.Ecdsa FuelVerif.CryptoOps

def fmtKey : Except Error Bytes → String
  | .ok pk => toHex pk
  | .error e => e.name

def fmtUnit : Except Error Unit → String
  | .ok _ => "ok"
  | .error e => e.name

def okEq : Except SignPanic Bytes → Bytes → Bool
  | .ok s, t => s == t
  | .error _, _ => false

def fmtSig : Except SignPanic Bytes → String
  | .ok s => toHex s
  | .error e => e.name

/-- the nonce that reproduces `(r, s)` for key `d` and digest `z`: `k = s⁻¹ (z + r d)` -/
def nonceOf (n d z r s : Nat) : Nat := invN n s * ((z + r * d % n) % n) % n

/-- the deterministic model signature; in addition the explicit-nonce model used by the theorems must reproduce the
implementation's signature from the nonce that signature implies -/
def signWith (E : Curve) (sign : Nat → Nat → Bytes → Except SignPanic Bytes)
    (signDet : Nat → Bytes → Except SignPanic Bytes) (d msg sig : Bytes) : String :=
  let d := beNat d
  let (sig', _) := decodeSignature sig
  let k := nonceOf E.n d (msgScalar E.n msg) (sigR sig') (sigS sig')
  let viaK := if okEq (sign d k msg) sig then "" else " explicit-nonce-model-differs"
  fmtSig (signDet d msg) ++ viaK

def memView (f : List Nat) : Option MemView :=
  match f with
  | [stackLen, memHp, sp, ssp, hp, prevHp] => some ⟨stackLen, memHp, sp, ssp, hp, prevHp⟩
  | _ => none

def fmtOutcome : Except Panic Outcome → String
  | .error e => s!"panic {e.name}"
  | .ok ⟨some w, err⟩ => s!"ok err={err} out={toHex w}"
  | .ok ⟨none, err⟩ => s!"ok err={err}"

def recoverOp (recover : Bytes → Bytes → Except Error Bytes) (ws : List String) : String :=
  match ws with
  | [stackLen, memHp, sp, ssp, hp, prevHp, a, b, c, sig, msg] =>
    match memView ([stackLen, memHp, sp, ssp, hp, prevHp].map (natOr · 0)), a.toNat?, b.toNat?, c.toNat? with
    | some m, some a, some b, some c =>
      let sigB := if sig == "-" then [] else (ofHex sig).getD []
      let msgB := if msg == "-" then [] else (ofHex msg).getD []
      -- the bytes at `b` (64) and `c` (32) as the harness found them in memory
      let read : Nat → Nat → Bytes := fun addr len => if addr == b && len == 64 then sigB else msgB
      fmtOutcome (ecRecover recover m read a b c)
    | _, _, _, _ => "bad-op"
  | _ => "bad-op"

def handle : List String → String
  | ["k1sign", d, msg, sig] =>
    match ofHex d, ofHex msg, ofHex sig with
    | some d, some msg, some sig => signWith k1 (secpSign k1) (secpSignDet k1 Sha256.sha256) d msg sig
    | _, _, _ => "bad-op"
  | ["r1sign", d, msg, sig] =>
    match ofHex d, ofHex msg, ofHex sig with
    | some d, some msg, some sig => signWith r1 (r1Sign r1) (r1SignDet r1 Sha256.sha256) d msg sig
    | _, _, _ => "bad-op"
  | ["k1pub", d] => match ofHex d with | some d => toHex (publicKey k1 (beNat d)) | none => "bad-op"
  | ["r1pub", d] => match ofHex d with | some d => toHex (publicKey r1 (beNat d)) | none => "bad-op"
  | ["k1rec", sig, msg] =>
    match ofHex sig, ofHex msg with
    | some sig, some msg => fmtKey (secpRecover k1 sig msg)
    | _, _ => "bad-op"
  | ["r1rec", sig, msg] =>
    match ofHex sig, ofHex msg with
    | some sig, some msg => fmtKey (r1Recover r1 sig msg)
    | _, _ => "bad-op"
  | ["k1ver", sig, pk, msg] =>
    match ofHex sig, ofHex pk, ofHex msg with
    | some sig, some pk, some msg => fmtUnit (secpVerify k1 sig pk msg)
    | _, _, _ => "bad-op"
  | "eck1" :: rest => recoverOp (secpRecover k1) rest
  | "ecr1" :: rest => recoverOp (r1Recover r1) rest
  | ["ed19", verdict, stackLen, memHp, sp, ssp, hp, prevHp, a, b, c, len] =>
    match memView ([stackLen, memHp, sp, ssp, hp, prevHp].map (natOr · 0)), a.toNat?, b.toNat?, c.toNat?, len.toNat? with
    | some m, some a, some b, some c, some len =>
      -- the library's verdict on the bytes in memory is an input of the handler model
      fmtOutcome (ed19 (fun _ _ _ => verdict == "1") m (fun _ _ => []) a b c len)
    | _, _, _, _, _ => "bad-op"
  | _ => "bad-op"

def run : IO Unit := lineLoopPure handle

end FuelVerif.Drv.C17
