/- Driver stream `c25` (`f <stackLen> <hp> <stack hex> <heap hex> <idx:val>...` = one `execute` step on a full memory image): `j <raw> <idx:val>...` one jump instruction on preset registers;
`p <stackLen> <hp> <addr>:<hex program> <idx:val>...` one `execute` step (fetch + instruction) of a program in memory. -/
import FuelVerif.Model.VmLine
import FuelVerif.Model.Jump
namespace FuelVerif.Drv.C25
open FuelVerif FuelVerif.Alu FuelVerif.VmLine

def memOf (stackLen hp base : Nat) (prog : Array UInt8) : Mem :=
  { stackLen := stackLen, hp := hp,
    bytes := fun a => if base ≤ a ∧ a < base + prog.size then prog.getD (a - base) 0 else 0 }

/-- stack `[0, stack.size)` and heap `[hp, hp + heap.size)` images -/
def memOf2 (stack heap : Array UInt8) (hp : Nat) : Mem :=
  { stackLen := stack.size, hp := hp,
    bytes := fun a => if a < stack.size then stack.getD a 0 else if hp ≤ a ∧ a < hp + heap.size then heap.getD (a - hp) 0 else 0 }

def handle : List String → String
  | "j" :: raw :: rest =>
    match raw.toNat? with
    | none => "bad-op"
    | some w =>
      let arr := parseRegArr rest
      match stepJump w (regsOfArray arr) with
      | some o => fmtOut arr o
      | none => "not-jump"
  | "p" :: sl :: hp :: region :: rest =>
    match sl.toNat?, hp.toNat?, region.splitOn ":" with
    | some sl, some hp, [base, hx] =>
      match base.toNat?, ofHex hx with
      | some base, some bs =>
        let arr := parseRegArr rest
        match executeStep iroot (memOf sl hp base bs.toArray) (regsOfArray arr) with
        | some o => fmtOut arr o
        | none => "unmodelled-opcode"
      | _, _ => "bad-op"
    | _, _, _ => "bad-op"
  | "f" :: sl :: hp :: sh :: hh :: rest =>
    -- one `execute` step (fetch_instruction + instruction) on a full stack + heap image
    match sl.toNat?, hp.toNat?, ofHex sh, ofHex hh with
    | some _, some hp, some sb, some hb =>
      let arr := parseRegArr rest
      match executeStep iroot (memOf2 sb.toArray hb.toArray hp) (regsOfArray arr) with
      | some o => fmtOut arr o
      | none => "unmodelled-opcode"
    | _, _, _, _ => "bad-op"
  | _ => "bad-op"

def run : IO Unit := lineLoopPure handle

end FuelVerif.Drv.C25
