/- `DecidableEq (Except ε α)` (core has none), so that concrete model results can be checked by `decide`. -/
namespace FuelVerif

instance instDecidableEqExcept {ε α : Type} [DecidableEq ε] [DecidableEq α] : DecidableEq (Except ε α)
  | .ok a, .ok b => if h : a = b then isTrue (by rw [h]) else isFalse (fun k => h (by cases k; rfl))
  | .error a, .error b => if h : a = b then isTrue (by rw [h]) else isFalse (fun k => h (by cases k; rfl))
  | .ok _, .error _ => isFalse (fun k => by cases k)
  | .error _, .ok _ => isFalse (fun k => by cases k)

end FuelVerif
