/-
Shared helpers for the executable models and the line-protocol driver.
Import-free (core only) so that the driver links as a native executable.
-/
namespace FuelVerif

abbrev Bytes := List UInt8

def hexDigit (n : Nat) : Char :=
  if n < 10 then Char.ofNat (48 + n) else Char.ofNat (87 + n)

def hexOfByte (b : UInt8) : List Char :=
  [hexDigit (b.toNat / 16), hexDigit (b.toNat % 16)]

/-- lowercase hex, `-` for the empty string so that a field is never empty on a line -/
def toHex (bs : Bytes) : String :=
  if bs.isEmpty then "-" else String.ofList (bs.flatMap hexOfByte)

def hexVal (c : Char) : Option Nat :=
  if '0' ≤ c ∧ c ≤ '9' then some (c.toNat - 48)
  else if 'a' ≤ c ∧ c ≤ 'f' then some (c.toNat - 87)
  else if 'A' ≤ c ∧ c ≤ 'F' then some (c.toNat - 55)
  else none

def ofHexChars : List Char → Option Bytes
  | [] => some []
  | [_] => none
  | a :: b :: rest =>
    match hexVal a, hexVal b, ofHexChars rest with
    | some x, some y, some r => some (UInt8.ofNat (x * 16 + y) :: r)
    | _, _, _ => none

def ofHex (s : String) : Option Bytes :=
  if s == "-" then some [] else ofHexChars s.toList

/-- big-endian natural number of a byte string -/
def beNat (bs : Bytes) : Nat := bs.foldl (fun acc b => acc * 256 + b.toNat) 0

/-- big-endian encoding of `n` in exactly `len` bytes (truncating high bytes) -/
def natBE : Nat → Nat → Bytes
  | 0, _ => []
  | len + 1, n => natBE len (n / 256) ++ [UInt8.ofNat (n % 256)]

def zeros (n : Nat) : Bytes := List.replicate n 0

def splitWords (line : String) : List String :=
  (line.trimAscii.toString.splitOn " ").filter (fun s => !s.isEmpty)

def natOr (s : String) (d : Nat) : Nat := (s.toNat?).getD d

end FuelVerif
