/- Line-protocol loop shared by every driver stream: one request per input line, one answer per output line. -/
import FuelVerif.Basic.Util
namespace FuelVerif

partial def lineLoopAux {σ : Type} (hin hout : IO.FS.Stream) (step : σ → List String → σ × String) (s : σ) : IO Unit := do
  let line ← hin.getLine
  if line.isEmpty then
    hout.flush
    return ()
  let (s', out) := step s (splitWords line)
  hout.putStrLn out
  lineLoopAux hin hout step s'

def lineLoop {σ : Type} (init : σ) (step : σ → List String → σ × String) : IO Unit := do
  let hin ← IO.getStdin
  let hout ← IO.getStdout
  lineLoopAux hin hout step init

def lineLoopPure (handle : List String → String) : IO Unit :=
  lineLoop () (fun _ ws => ((), handle ws))

def natsToString (xs : List Nat) : String := " ".intercalate (xs.map toString)

end FuelVerif
