/-
C10, the statements that need repo-patches/fix-C10-verify-u64-overflow.diff: on the code without it
`verify_guards_in_source` does not hold (the `decide` fails ⇒ this module does not build ⇒ the check
reports the broken obligation together with the panicking input found by stream c10).
-/
import FuelVerif.Props.C10
namespace FuelVerif.BMT
open FuelVerif

/-- both overflow guards are in the source of `binary::verify` (regenerated flags) -/
theorem verify_guards_in_source :
    Gen.BinaryMerkle.verifyShlChecked = true ∧ Gen.BinaryMerkle.verifyEndSubFirst = true := by decide

/-- **exactness of the verifier for every u64 count**: no panic, and `true` exactly when the RFC 6962
recomputation reaches the root -/
theorem verify_iff_u64 (H : HashFn) (root data : Bytes) (proof : List Bytes) (index n : Nat) (hn : n < 2 ^ 64) :
    verify H root data proof index n =
      .ok (decide (index < n ∧ rootFromPath H index n (leafSum H data) proof = some root)) := by
  unfold verify
  rw [verify_guards_in_source.1, verify_guards_in_source.2]
  exact verify_guarded_iff_u64 H root data proof index n hn

end FuelVerif.BMT
