/-
C10 — Binary Merkle proofs are complete and sound.

  "For every tree of n leaves and every index i < n, the proof the tree produces verifies with that
   leaf's data, index i and count n against the tree's root. The verifier accepts a (root, data,
   proof, index, count) tuple exactly when the RFC 6962 audit-path recomputation from that tuple
   reaches the root, so any altered proof element, proof length, data, index or count that changes
   the recomputation is rejected."

`rootFromPath H m n leafHash path` (Model/BinaryMerkle.lean) is the RFC 6962 §2.1.1 recomputation:
recursive on the tree shape, `none` when the path length does not fit `(m, n)`. `auditPath` is PATH(m, D).
`verify` is the transcription of `binary::verify` (iterative, u64 arithmetic with explicit panics);
its overflow guards follow the source (`Gen.BinaryMerkle.verifyShlChecked/verifyEndSubFirst`).
Theorems in this file hold for the code with or without repo-patches/fix-C10-verify-u64-overflow.diff;
Props/C10Fix.lean holds the statements that need the fix (counts 2^63 … 2^64-1).
-/
import FuelVerif.Lemmas.BinaryMerkleStore
namespace FuelVerif.BMT
open FuelVerif

/-- **exactness of the verifier, every count below 2^63** (the code as it is, patched or not): for
ALL roots, data, proofs (any length, any content), indices and counts `n < 2^63`, `verify` returns —
without panicking — `true` exactly when `index < n` and the RFC 6962 audit-path recomputation from
the tuple reaches the root. Hence every alteration of a proof element, the proof length, the data,
the index or the count that changes the recomputation is rejected, and none that does not is. -/
theorem verify_iff_below_2_63 (H : HashFn) (root data : Bytes) (proof : List Bytes) (index n : Nat)
    (hn : n < 2 ^ 63) :
    verify H root data proof index n =
      .ok (decide (index < n ∧ rootFromPath H index n (leafSum H data) proof = some root)) :=
  verifyWith_eq _ _ H root data proof index n (Or.inr hn)

/-- the same for the verifier carrying both overflow guards, for every u64 count -/
theorem verify_guarded_iff_u64 (H : HashFn) (root data : Bytes) (proof : List Bytes) (index n : Nat)
    (hn : n < 2 ^ 64) :
    verifyWith true true H root data proof index n =
      .ok (decide (index < n ∧ rootFromPath H index n (leafSum H data) proof = some root)) :=
  verifyWith_eq true true H root data proof index n (Or.inl ⟨rfl, rfl, hn⟩)

/-- **completeness at the specification level**: PATH(m, D) recomputes MTH(D) from leaf `m` -/
theorem audit_path_recomputes_root (H : HashFn) (D : List Bytes) (m : Nat) (d : Bytes) (hd : D[m]? = some d) :
    rootFromPath H m D.length (leafSum H d) (auditPath H m D) = some (mth H D) :=
  rootFromPath_auditPath H D m d hd

/-- **the RFC 6962 audit path verifies**: for every leaf list (fewer than 2^63 leaves) and every index,
`verify` accepts (tree hash, leaf data, audit path, index, count) -/
theorem verify_accepts_audit_path (H : HashFn) (D : List Bytes) (m : Nat) (d : Bytes) (hd : D[m]? = some d)
    (hn : D.length < 2 ^ 63) :
    verify H (mth H D) d (auditPath H m D) m D.length = .ok true := by
  rw [verify_iff_below_2_63 H _ _ _ _ _ hn, audit_path_recomputes_root H D m d hd]
  have hm : m < D.length := by
    rcases Nat.lt_or_ge m D.length with h | h
    · exact h
    · rw [List.getElem?_eq_none h] at hd; cases hd
  simp [hm]

/-- a recomputation that fits has exactly the RFC path length; a wrong proof length is always rejected -/
theorem verify_rejects_wrong_length (H : HashFn) (root data : Bytes) (proof : List Bytes) (index n : Nat)
    (hn : n < 2 ^ 63) (hi : index < n) (hl : proof.length ≠ (dirs index n).length) :
    verify H root data proof index n = .ok false := by
  rw [verify_iff_below_2_63 H _ _ _ _ _ hn, rootFromPath_eq_fold H _ n index proof hi, if_neg hl]
  simp

/-- **completeness, in full**: for every leaf list `D` (fewer than 2^63 leaves) pushed into a new tree
over any initial storage, every push succeeds and for EVERY index `i < |D|` the proof the tree
produces is `(MTH(D), PATH(i, D))` and `verify` accepts it with that leaf's data, index `i` and count
`|D|` against the tree's root; for every index `≥ |D|` the tree refuses. (`in_memory::MerkleTree` is
this tree over a `StorageMap`.) -/
theorem tree_proof_verifies (H : HashFn) (hE : H [] = emptySum) (storage : Storage) (D : List Bytes)
    (hn : D.length < 2 ^ 63) :
    ∃ t, treePushAll H (Tree.new storage) D = .ok t ∧ t.root H = .ok (mth H D) ∧
      (∀ i d, D[i]? = some d →
        t.prove H i = .ok (mth H D, auditPath H i D) ∧
        verify H (mth H D) d (auditPath H i D) i D.length = .ok true) ∧
      (∀ i, D.length ≤ i → t.prove H i = .error (.invalidProofIndex i)) := by
  obtain ⟨t, hrun, inv⟩ := treePushAll_inv H D [] (Tree.new storage) (TreeInv.new H storage) (by simpa using hn)
  simp only [List.nil_append] at inv
  refine ⟨t, hrun, inv.root hE hn, ?_, inv.prove_refuses⟩
  intro i d hd
  have hi : i < D.length := by
    rcases Nat.lt_or_ge i D.length with h | h
    · exact h
    · rw [List.getElem?_eq_none h] at hd; cases hd
  exact ⟨inv.prove hn i hi, verify_accepts_audit_path H D i d hd hn⟩

/-- soundness spelled out for tree-produced proofs: whatever the verifier accepts for a root equal to
a tree hash recomputes to that tree hash — in particular a proof of leaf `i` does not verify for
other data, index or count unless the recomputation still reaches the same root -/
theorem verify_true_iff_recomputes (H : HashFn) (root data : Bytes) (proof : List Bytes) (index n : Nat)
    (hn : n < 2 ^ 63) :
    verify H root data proof index n = .ok true ↔
      (index < n ∧ rootFromPath H index n (leafSum H data) proof = some root) := by
  rw [verify_iff_below_2_63 H root data proof index n hn]
  constructor
  · intro h
    have : decide (index < n ∧ rootFromPath H index n (leafSum H data) proof = some root) = true := by
      injection h
    exact of_decide_eq_true this
  · intro h
    rw [decide_eq_true h]

/-! ### negative witnesses on the verifier WITHOUT the guards (DESIGN §6 F5) -/

def zeroProof (k : Nat) : List Bytes := List.replicate k [0]

def outcome : Except Err Bool → String
  | .ok true => "true"
  | .ok false => "false"
  | .error e => e.name

/-- unguarded `1u64 << height`: a complete tree of 2^63 leaves (63-hash proof), and 2^63+1 leaves
(64-hash proof), panic instead of answering -/
theorem verify_unguarded_shl_panics :
    outcome (verifyWith false false toyHash [1] [7] (zeroProof 63) 0 (2 ^ 63)) = "panic-shl-overflow" ∧
    outcome (verifyWith false false toyHash [1] [7] (zeroProof 64) 0 (2 ^ 63 + 1)) = "panic-shl-overflow" := by
  decide

/-- unguarded `start + size - 1`: index ≥ 2^63 with a 64-hash proof overflows at height 63 -/
theorem verify_unguarded_add_panics :
    outcome (verifyWith false false toyHash [1] [7] (zeroProof 64) (2 ^ 63 + 5) (2 ^ 64 - 1)) = "panic-add-overflow" := by
  decide

/-- with the guards the same calls return a Boolean -/
theorem verify_guarded_total_witness :
    outcome (verifyWith true true toyHash [1] [7] (zeroProof 63) 0 (2 ^ 63)) = "false" ∧
    outcome (verifyWith true true toyHash [1] [7] (zeroProof 64) (2 ^ 63 + 5) (2 ^ 64 - 1)) = "false" := by
  decide

/-! ### non-vacuity -/

example : ∃ t, treePushAll toyHash (Tree.new []) fiveLeavesV = .ok t ∧ t.root toyHash = .ok (mth toyHash fiveLeavesV) ∧
    (∀ i d, fiveLeavesV[i]? = some d →
      t.prove toyHash i = .ok (mth toyHash fiveLeavesV, auditPath toyHash i fiveLeavesV) ∧
      verify toyHash (mth toyHash fiveLeavesV) d (auditPath toyHash i fiveLeavesV) i fiveLeavesV.length = .ok true) ∧
    (∀ i, fiveLeavesV.length ≤ i → t.prove toyHash i = .error (.invalidProofIndex i)) :=
  tree_proof_verifies toyHash rfl [] fiveLeavesV (by decide)

example : verify toyHash (mth toyHash fiveLeavesV) [2, 2] (auditPath toyHash 2 fiveLeavesV) 2 5 = .ok true :=
  verify_accepts_audit_path toyHash fiveLeavesV 2 [2, 2] (by decide) (by decide)

/-- the verifier really computes: kernel-evaluated acceptance of the 5-leaf proof of leaf 4
(`[N(N(l0,l1),N(l2,l3))]`), and rejection when the count is 6 -/
example : outcome (verify toyHash [1, 1, 1, 0, 1, 0, 1, 0, 2, 2, 0, 3, 0, 4] [4] [[1, 1, 0, 1, 0, 1, 0, 2, 2, 0, 3]] 4 5) = "true" ∧
    outcome (verify toyHash [1, 1, 1, 0, 1, 0, 1, 0, 2, 2, 0, 3, 0, 4] [4] [[1, 1, 0, 1, 0, 1, 0, 2, 2, 0, 3]] 4 6) = "false" := by
  decide

end FuelVerif.BMT
