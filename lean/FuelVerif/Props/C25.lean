/-
C25 — Control flow lands exactly where the specification says.

  "Every jump instruction either moves the program counter to the specified target (absolute from the
   instruction start, relative forward/backward from the current instruction, or register-plus-offset for
   jump-and-link, with the return address stored) or panics when the target would fall outside memory;
   untaken conditional jumps advance by one instruction. An instruction is executed only if its address lies
   in the executable region from the instruction start to the stack start, and every non-jump instruction
   that succeeds advances the program counter by exactly four bytes."

Model: `Model/Jump.lean` (`JumpArgs::jump` with its saturating arithmetic, the 12 jump opcodes' operand
wiring, `write_user_register`, `fetch_instruction`, `Interpreter::execute` for ALU + jump programs).
The targets below are stated in EXACT arithmetic on `Nat`: the theorems show the saturating Rust arithmetic
never yields a wrong in-range target (a saturated intermediate is ≥ VM_MAX_RAM and panics, exactly like the
exact value). `vmMaxRam`, the register ids and the opcode table are regenerated from the Rust sources.
-/
import FuelVerif.Lemmas.Jump
import FuelVerif.Model.PcSites
import FuelVerif.Props.C08
import FuelVerif.Props.C21
namespace FuelVerif.Alu
open FuelVerif.Gen FuelVerif.Gen.AluArgs FuelVerif.Instr

/-! ### the 12 jump opcodes of the generated table -/

def JumpOp.shape : JumpOp → List ArgKind
  | .JI => [.imm24]
  | .JNEI => [.reg, .reg, .imm12]
  | .JNZI => [.reg, .imm18]
  | .JMP => [.reg]
  | .JNE => [.reg, .reg, .reg]
  | .JMPF | .JMPB => [.reg, .imm18]
  | .JNZF | .JNZB => [.reg, .reg, .imm12]
  | .JNEF | .JNEB => [.reg, .reg, .reg, .imm06]
  | .JAL => [.reg, .reg, .imm12]

def allJumpOps : List JumpOp := [.JI, .JNEI, .JNZI, .JMP, .JNE, .JMPF, .JMPB, .JNZF, .JNZB, .JNEF, .JNEB, .JAL]

theorem allJumpOps_complete (op : JumpOp) : op ∈ allJumpOps := by cases op <;> decide

/-- each jump opcode occurs exactly once in the table regenerated from fuel-asm, with the shape the model wires -/
theorem table_jump_ops :
    allJumpOps.all (fun op =>
      (instrTable.filter (fun row => JumpOp.ofName row.name == some op)).map (·.args) == [op.shape]) = true := by
  decide +kernel

theorem vmMaxRam_spec : vmMaxRam = 64 * 1024 * 1024 ∧ memSize = vmMaxRam := by decide

/-! ### targets -/

/-- **untaken conditional jumps advance by one instruction** (all 8 conditional opcodes go through this branch) -/
theorem untaken_advances_4 (a : JumpArgs) (r : Regs) (hc : a.condition = false) (hpc : r regPC + 4 < 2 ^ 64) :
    ∃ r', jump a r = (r', none) ∧ r' regPC = r regPC + 4 ∧ ∀ j, j ≠ regPC → r' j = r j :=
  ⟨incPc r, jump_untaken a r hc, incPc_pc r hpc, fun j hj => incPc_other r j hj⟩

/-- the outcome of a jump whose condition holds and whose exact target is `T`: land on `T` iff it is inside memory -/
def landsOn (r : Regs) (T : Nat) : Out :=
  if T < vmMaxRam then (r.set regPC T, none) else (r, some .MemoryOverflow)

/-- **absolute jumps** JI, JNEI, JNZI, JMP, JNE: target `$is + 4·x` (`x` = immediate or register), taken iff
the condition holds -/
theorem abs_ops_spec (r : Regs) (a b c imm : Nat) :
    execJump .JI [imm] r = landsOn r (r regIS + 4 * imm) ∧
    execJump .JMP [a] r = landsOn r (r regIS + 4 * r a) ∧
    execJump .JNZI [a, imm] r = (if r a = 0 then (incPc r, none) else landsOn r (r regIS + 4 * imm)) ∧
    execJump .JNEI [a, b, imm] r = (if r a = r b then (incPc r, none) else landsOn r (r regIS + 4 * imm)) ∧
    execJump .JNE [a, b, c] r = (if r a = r b then (incPc r, none) else landsOn r (r regIS + 4 * r c)) := by
  simp only [execJump, jumpArgsOf, jump_abs_core, landsOn, Nat.add_zero, bne_iff_ne, ne_eq, Bool.true_eq_false, if_false]
  refine ⟨trivial, trivial, ?_, ?_, ?_⟩ <;> (split <;> simp_all)

/-- **relative forward jumps** JMPF, JNZF, JNEF: target `$pc + 4·(reg + imm + 1)` -/
theorem fwd_ops_spec (r : Regs) (a b c imm : Nat) :
    execJump .JMPF [a, imm] r = landsOn r (r regPC + 4 * (r a + imm + 1)) ∧
    execJump .JNZF [a, b, imm] r = (if r a = 0 then (incPc r, none) else landsOn r (r regPC + 4 * (r b + imm + 1))) ∧
    execJump .JNEF [a, b, c, imm] r = (if r a = r b then (incPc r, none) else landsOn r (r regPC + 4 * (r c + imm + 1))) := by
  simp only [execJump, jumpArgsOf, jump_fwd_core, landsOn, bne_iff_ne, ne_eq, Bool.true_eq_false, if_false]
  refine ⟨trivial, ?_, ?_⟩ <;> (split <;> simp_all)

/-- **relative backward jumps** JMPB, JNZB, JNEB: target `$pc − 4·(reg + imm + 1)`, MemoryOverflow when that
would be negative. `$pc < VM_MAX_RAM` holds for every fetched instruction (`fetch_region`). -/
theorem bwd_ops_spec (r : Regs) (a b c imm : Nat) (hpc : r regPC < vmMaxRam) :
    execJump .JMPB [a, imm] r =
      (if 4 * (r a + imm + 1) ≤ r regPC then (r.set regPC (r regPC - 4 * (r a + imm + 1)), none) else (r, some .MemoryOverflow)) ∧
    execJump .JNZB [a, b, imm] r = (if r a = 0 then (incPc r, none) else
      (if 4 * (r b + imm + 1) ≤ r regPC then (r.set regPC (r regPC - 4 * (r b + imm + 1)), none) else (r, some .MemoryOverflow))) ∧
    execJump .JNEB [a, b, c, imm] r = (if r a = r b then (incPc r, none) else
      (if 4 * (r c + imm + 1) ≤ r regPC then (r.set regPC (r regPC - 4 * (r c + imm + 1)), none) else (r, some .MemoryOverflow))) := by
  simp only [execJump, jumpArgsOf, jump_bwd_core _ _ _ _ hpc, bne_iff_ne, ne_eq, Bool.true_eq_false, if_false]
  refine ⟨trivial, ?_, ?_⟩ <;> (split <;> simp_all)

/-- **jump-and-link**: a reserved return register (1..15) panics with nothing changed; otherwise `$pc + 4` is
stored in the return register (discarded for `$zero`) and control moves to `reg + 4·imm` — `reg` read after
the store — or the instruction panics with MemoryOverflow (the return address then stays stored). -/
theorem jal_spec (r : Regs) (ret tgt imm : Nat) (hpc : r regPC + 4 < 2 ^ 64) :
    execJump .JAL [ret, tgt, imm] r =
      if ret = 0 then landsOn r (r tgt + 4 * imm)
      else if ret < 16 then (r, some .ReservedRegisterNotWritable)
      else landsOn (r.set ret (r regPC + 4)) ((r.set ret (r regPC + 4)) tgt + 4 * imm) := by
  simp only [execJump, writeUserRegister, regZERO, regWRITABLE, instrSize, satAdd_pc _ hpc]
  by_cases h0 : ret = 0
  · simp only [h0, if_true, jump_assign_core, landsOn]
  · simp only [h0, if_false]
    by_cases h16 : ret < 16
    · simp only [h16, if_true]
    · simp only [h16, if_false, jump_assign_core, landsOn]

/-- the target read by JAL when the return and target registers differ / coincide -/
theorem jal_target_reg (r : Regs) (ret tgt v : Nat) :
    (r.set ret v) tgt = if tgt = ret then v else r tgt := rfl

/-- **frame**: `landsOn` changes `$pc` only; on MemoryOverflow nothing changes -/
theorem landsOn_frame (r : Regs) (T : Nat) :
    ((landsOn r T).2 = none → (landsOn r T).1 regPC = T ∧ T < vmMaxRam ∧ ∀ j, j ≠ regPC → (landsOn r T).1 j = r j) ∧
    ((landsOn r T).2 ≠ none → (landsOn r T) = (r, some .MemoryOverflow) ∧ vmMaxRam ≤ T) := by
  unfold landsOn
  by_cases h : T < vmMaxRam
  · rw [if_pos h]
    exact ⟨fun _ => ⟨by simp, h, fun j hj => by simp [Regs.set, hj]⟩, fun h' => absurd rfl h'⟩
  · rw [if_neg h]
    exact ⟨fun h' => (by cases h'), fun _ => ⟨rfl, by omega⟩⟩

/-! ### fetch: an instruction is executed only inside `[$is, $ssp)` -/

/-- `fetch_instruction` succeeds **iff** the four bytes at `$pc` are inside memory and allocated, and
`$is ≤ $pc < $ssp`; it then returns exactly those bytes -/
theorem fetch_region (m : Mem) (r : Regs) (raw : List UInt8) :
    fetchInstruction m r = .ok raw ↔
      (r regPC + 4 ≤ memSize ∧ (r regPC + 4 ≤ m.stackLen ∨ m.hp ≤ r regPC) ∧
       r regIS ≤ r regPC ∧ r regPC < r regSSP ∧
       raw = [m.bytes (r regPC), m.bytes (r regPC + 1), m.bytes (r regPC + 2), m.bytes (r regPC + 3)]) := by
  rw [fetch_eq]
  by_cases h1 : r regPC + 4 ≤ memSize
  · rw [if_pos h1]
    by_cases h2 : r regPC + 4 ≤ m.stackLen ∨ m.hp ≤ r regPC
    · rw [if_pos h2]
      by_cases h3 : r regPC < r regIS ∨ r regPC ≥ r regSSP
      · rw [if_pos h3]
        constructor
        · intro h; cases h
        · rintro ⟨_, _, h6, h7, _⟩; omega
      · rw [if_neg h3]
        constructor
        · intro h
          simp only [Except.ok.injEq] at h
          exact ⟨h1, h2, by omega, by omega, h.symm⟩
        · rintro ⟨_, _, _, _, h⟩; rw [h]
    · rw [if_neg h2]
      constructor
      · intro h; cases h
      · rintro ⟨_, h6, _⟩; exact absurd h6 h2
  · rw [if_neg h1]
    constructor
    · intro h; cases h
    · rintro ⟨h, _⟩; exact absurd h h1

/-- **executed only in the executable region**: whenever `execute` gets as far as running an instruction
(any outcome other than the three fetch failures), `$is ≤ $pc < $ssp` and `$pc < VM_MAX_RAM`; a fetch failure
leaves every register unchanged -/
theorem execute_only_in_region (g : Nat → Nat → Nat) (m : Mem) (r : Regs) :
    (∃ raw, fetchInstruction m r = .ok raw ∧ r regIS ≤ r regPC ∧ r regPC < r regSSP ∧ r regPC + 4 ≤ vmMaxRam) ∨
    (∃ p, fetchInstruction m r = .error p ∧ executeStep g m r = some (r, some p) ∧
      (p = .MemoryNotExecutable ∨ p = .MemoryOverflow ∨ p = .UninitalizedMemoryAccess)) := by
  cases h : fetchInstruction m r with
  | ok raw =>
    have := (fetch_region m r raw).mp h
    exact Or.inl ⟨raw, rfl, this.2.2.1, this.2.2.2.1, by simpa [memSize] using this.1⟩
  | error p =>
    refine Or.inr ⟨p, rfl, by simp [executeStep, h], ?_⟩
    rw [fetch_eq] at h
    repeat' split at h
    all_goals first | (cases h; simp) | cases h

/-! ### every non-jump instruction that succeeds advances `$pc` by exactly four -/

theorem unpackArgsFrom_length (u : Nat) (shape : List ArgKind) (pos : Nat) :
    (unpackArgsFrom u pos shape).length = shape.length := by
  induction shape generalizing pos with
  | nil => rfl
  | cons k ks ih => simp [unpackArgsFrom, ih]

theorem alu_row_shape {row : InstrRow} {op : AluOp} (hm : row ∈ instrTable) (hn : AluOp.ofName row.name = some op) :
    row.args = op.shape := by
  have h := table_alu_ops
  rw [List.all_eq_true] at h
  have h1 := h op (allAluOps_complete op)
  simp only [beq_iff_eq] at h1
  have : row.args ∈ (instrTable.filter (fun row => AluOp.ofName row.name == some op)).map (·.args) :=
    List.mem_map_of_mem (List.mem_filter.mpr ⟨hm, by simp [hn]⟩)
  rw [h1] at this
  simpa using this

/-- **ALU family** (33 opcodes, decoded from any instruction word through the generated table): success ⇒ `$pc + 4` -/
theorem alu_step_advances_4 (g : Nat → Nat → Nat) (w : Nat) (r r' : Regs)
    (h : stepAlu g w r = some (r', none)) (hpc : r regPC + 4 < 2 ^ 64) : r' regPC = r regPC + 4 := by
  unfold stepAlu at h
  cases hd : decode w with
  | none => rw [hd] at h; simp at h
  | some i =>
    rw [hd] at h
    simp only at h
    -- the row used by `decode`
    unfold decode lookup at hd
    simp only at hd
    cases hf : instrTable.find? (fun r => r.opcode == w >>> 24) with
    | none => rw [hf] at hd; simp at hd
    | some row =>
      rw [hf] at hd
      simp only at hd
      obtain ⟨hm, _⟩ := find_opcode_some hf
      cases hres : reservedOk (w % 2 ^ 24) row.args with
      | none => rw [hres] at hd; simp at hd
      | some b =>
        rw [hres] at hd
        cases b with
        | false => simp at hd
        | true =>
          simp only [Option.some.injEq] at hd
          subst hd
          simp only [lookup, find_opcode_of_nodup table_nodup hm] at h
          cases hop : AluOp.ofName row.name with
          | none => rw [hop] at h; simp at h
          | some op =>
            rw [hop] at h
            simp only [Option.some.injEq] at h
            have hshape := alu_row_shape hm hop
            have hlen : (unpackArgs (w % 2 ^ 24) row.args).length = op.shape.length := by
              rw [unpackArgs, unpackArgsFrom_length, hshape]
            generalize unpackArgs (w % 2 ^ 24) row.args = args at *
            cases args with
            | nil =>
              -- only NOOP has an empty shape
              cases op <;> simp [AluOp.shape] at hlen
              simp only [execAlu, aluClear, Prod.mk.injEq, and_true] at h
              subst h
              exact incPc_pc _ (by simpa [Regs.set, regPC, regOF, regERR] using hpc) |>.trans (by simp [Regs.set, regPC, regOF, regERR])
            | cons a rest => exact (ok_frame_pc g op a rest r r' hlen h).2.1 hpc

/-- classification of every opcode of the generated table by its effect on `$pc` when it succeeds -/
inductive PcClass | jump | terminal | advancing
  deriving DecidableEq, Repr

/-- RET / RETD / RVRT end the context, CALL enters another one; the 12 jump opcodes set `$pc`; every other
opcode ends its Rust body with `inc_pc` (proved here for the ALU family, in C22 for the wide-integer family,
checked on the implementation for all families by the stream `c25` part C) -/
def pcClass (name : String) : PcClass :=
  if (JumpOp.ofName name).isSome then .jump
  else if name == "RET" || name == "RETD" || name == "RVRT" || name == "CALL" then .terminal
  else .advancing

theorem pc_class_table :
    (instrTable.filter (fun row => pcClass row.name == .jump)).map (·.name) =
      ["JMP", "JNE", "JNEI", "JNZI", "JMPF", "JMPB", "JNZF", "JNZB", "JNEF", "JNEB", "JI", "JAL"] ∧
    (instrTable.filter (fun row => pcClass row.name == .terminal)).map (·.name) = ["RET", "RETD", "CALL", "RVRT"] ∧
    (instrTable.filter (fun row => pcClass row.name == .advancing)).length = instrTable.length - 16 ∧
    instrTable.all (fun row => (AluOp.ofName row.name).isSome → pcClass row.name == .advancing) = true := by
  decide +kernel

/-! ### static tie: how each of the 127 `impl Execute for op::X` finally updates `$pc` on success

`Gen/PcSites.lean` is regenerated on every run by `tools/gen/pc_sites.py`, which follows every implementation into the
helper it delegates to and records, per success exit, the ordered `$pc` updates (`inc_pc`, `*pc = …`, frame restore,
foreign ECAL handler). The theorems below are closed by `decide +kernel` over that COMPLETE table joined with the opcode
table of `Gen/Instructions.lean`: a helper that loses its final `inc_pc`, gains a second `$pc` update, a new early
success return without `inc_pc`, a new opcode, a dispatch arm pointing at another op type or a new `$pc` write anywhere in
fuel-vm/src changes the generated table and breaks one of these proofs. -/

/-- the exit shape the specification demands of an opcode, from the name-based classification `pcClass` -/
def expectedShape (name : String) : SiteShape :=
  match pcClass name with
  | .jump => .jump
  | .advancing => .advancing
  | .terminal => if name == "CALL" then .call else if name == "RVRT" then .revert else .ret

/-- the generated site table, the opcode table and the dispatch `match` of `execute_instruction` list the same
opcodes, each exactly once, and every dispatch arm `Opcode::X => execute_op!(Y)` has `X = Y` -/
theorem pc_sites_cover_table :
    pcSites.length = instrTable.length ∧ dispatchArms.length = instrTable.length ∧
    instrTable.all (fun row => (pcSites.filter (fun s => s.1 == row.name)).length == 1 &&
                               (dispatchArms.filter (fun a => a.1 == row.name)).length == 1) = true ∧
    pcSites.all (fun s => (instrTable.filter (fun row => row.name == s.1)).length == 1) = true ∧
    dispatchArms.all (fun a => a.1 == a.2) = true := by
  decide +kernel

/-- **every opcode is exactly one of {jump, call, return, revert, advancing}, by the shape of its success exits, and
it is the one the specification assigns to its name** (`siteShape` is a function, so the classes are disjoint) -/
theorem pc_sites_shape : pcSites.all (fun s => siteShape s == some (expectedShape s.1)) = true := by
  decide +kernel

/-- the per-class content of `pc_sites_shape`, spelled out: advancing implementations return `Proceed` and each
reachable exit performs exactly one own `$pc` update, an `inc_pc`, as its last step; the 12 jumps go through
`JumpArgs::jump` (untaken: `inc_pc`, taken: `*pc = target_addr`); CALL sets `$pc` to the callee's code start in
`PrepareCallCtx::prepare_call`; RET/RETD restore the caller's registers when a frame is popped and then `inc_pc`;
RVRT leaves `$pc` alone -/
theorem pc_sites_by_class :
    pcSites.all (fun s => pcClass s.1 == .advancing →
      (s.2.1 == "Proceed" && !(enabledExits s).isEmpty && (enabledExits s).all (·.isAdvancing))) = true ∧
    pcSites.all (fun s => pcClass s.1 == .jump →
      (s.2.1 == "Proceed" && s.2.2.all (·.isJumpExit) && s.2.2.length == 2)) = true ∧
    (pcSites.filter (fun s => pcClass s.1 == .terminal)).map (fun s => (s.1, s.2.1, s.2.2.map (·.steps))) =
      [("RET", "Return", [[.restoreFrame, .incPc], [.incPc]]), ("RETD", "ReturnData", [[.restoreFrame, .incPc], [.incPc]]),
       ("RVRT", "Revert", [[]]), ("CALL", "Proceed", [[.assign "code_start"]])] := by
  decide +kernel

/-- only ECAL involves code outside the crate or a compile-time guard: its exits are `handler; inc_pc` under
`INC_PC = true` (the trait default) and `handler` alone otherwise -/
theorem only_ecal_has_handler :
    (pcSites.filter (fun s => s.2.2.any (fun e => e.steps.any (·.isHandler) || !e.guards.isEmpty))).map
        (fun s => (s.1, s.2.2.map (fun e => (e.steps, e.guards)))) =
      [("ECAL", [([.handler "Ecal::ecal", .incPc], [("Ecal::INC_PC", true)]), ([.handler "Ecal::ecal"], [("Ecal::INC_PC", false)])])] ∧
    constDefaults = [("Ecal::INC_PC", true)] := by
  decide +kernel

/-- **the list of `$pc` writes is closed**: every textual write of `$pc` in the non-test sources of fuel-vm is either
the last update of a recorded exit of some instruction (or lies in the function chain leading to it), or belongs to
VM initialisation / `inc_pc` itself -/
theorem pc_write_sites_closed :
    pcWriteSites.all (fun w => (pcSites.flatMap exitOwners).contains w.2.1 || nonInstructionPcWriters.contains w.2.1) = true := by
  decide +kernel

theorem runPcSteps_advancing {e : PcExit} (h : e.isAdvancing = true) (pc : Nat) (hpc : pc + 4 < 2 ^ 64) :
    runPcSteps e.ownSteps pc = some (pc + 4) ∧ e.steps.getLast? = some .incPc := by
  simp only [PcExit.isAdvancing, Bool.and_eq_true, beq_iff_eq] at h
  refine ⟨?_, h.2⟩
  rw [h.1]
  simp [runPcSteps, PcStep.run, satAdd, instrSize, hpc]

/-- **every non-jump, non-terminal opcode of the generated table**: its implementation returns `Proceed`, has at least
one reachable success exit, and on EVERY reachable success exit the last `$pc` update is `inc_pc` and the net effect
of the implementation's own updates is `$pc + 4` (a foreign ECAL handler is assumed not to move `$pc`) -/
theorem advancing_opcode_ends_in_inc_pc (row : InstrRow) (hrow : row ∈ instrTable) (hadv : pcClass row.name = .advancing) :
    ∃ s ∈ pcSites, s.1 = row.name ∧ s.2.1 = "Proceed" ∧ enabledExits s ≠ [] ∧
      ∀ e ∈ enabledExits s, e.steps.getLast? = some .incPc ∧
        ∀ pc, pc + 4 < 2 ^ 64 → runPcSteps e.ownSteps pc = some (pc + 4) := by
  have hcov := pc_sites_cover_table.2.2.1
  rw [List.all_eq_true] at hcov
  have h1 := hcov row hrow
  simp only [Bool.and_eq_true, beq_iff_eq] at h1
  have hne : pcSites.filter (fun s => s.1 == row.name) ≠ [] := by
    intro h; rw [h] at h1; simp at h1
  obtain ⟨s, hs⟩ := List.exists_mem_of_ne_nil _ hne
  obtain ⟨hsm, hsn⟩ := List.mem_filter.mp hs
  have hsn' : s.1 = row.name := by simpa using hsn
  have hcl := pc_sites_by_class.1
  rw [List.all_eq_true] at hcl
  have h2 := hcl s hsm
  simp only [hsn', hadv, beq_self_eq_true, forall_const, Bool.and_eq_true, beq_iff_eq, Bool.not_eq_true',
    List.isEmpty_eq_false_iff, List.all_eq_true, decide_eq_true_eq] at h2
  refine ⟨s, hsm, hsn', h2.1.1, h2.1.2, fun e he => ?_⟩
  have := h2.2 e he
  exact ⟨(runPcSteps_advancing this 0 (by decide)).2, fun pc hpc => (runPcSteps_advancing this pc hpc).1⟩

/-- the same for all opcodes: each has exactly the exit shape of its specification class -/
theorem every_opcode_pc_discipline (row : InstrRow) (hrow : row ∈ instrTable) :
    ∃ s ∈ pcSites, s.1 = row.name ∧ siteShape s = some (expectedShape row.name) := by
  have hcov := pc_sites_cover_table.2.2.1
  rw [List.all_eq_true] at hcov
  have h1 := hcov row hrow
  simp only [Bool.and_eq_true, beq_iff_eq] at h1
  have hne : pcSites.filter (fun s => s.1 == row.name) ≠ [] := by
    intro h; rw [h] at h1; simp at h1
  obtain ⟨s, hs⟩ := List.exists_mem_of_ne_nil _ hne
  obtain ⟨hsm, hsn⟩ := List.mem_filter.mp hs
  have hsn' : s.1 = row.name := by simpa using hsn
  have hsh := pc_sites_shape
  rw [List.all_eq_true] at hsh
  have := hsh s hsm
  rw [hsn'] at this
  exact ⟨s, hsm, hsn', by simpa using this⟩

/-! ### non-vacuity -/

def exJ : Regs := fun i => if i = 3 then 400 else if i = 12 then 100 else if i = 16 then 7 else if i = 17 then 7 else if i = 18 then 3 else 0

example : (execJump .JI [5] exJ).1 regPC = 120 ∧ (execJump .JI [5] exJ).2 = none := by decide
example : (execJump .JNE [16, 17, 18] exJ).1 regPC = 404 := by decide            -- untaken: registers equal
example : (execJump .JNE [16, 18, 18] exJ).1 regPC = 112 := by decide            -- taken
example : (execJump .JMPB [18, 0] exJ).1 regPC = 384 := by decide                -- 400 - 4*(3+0+1)
example : (execJump .JMPB [16, 100] exJ).2 = some .MemoryOverflow := by decide   -- would be negative
example : (execJump .JMP [16] (exJ.set 16 (2 ^ 62))).2 = some .MemoryOverflow := by decide  -- saturating ×4
example : (execJump .JAL [20, 16, 2] exJ).1 20 = 404 ∧ (execJump .JAL [20, 16, 2] exJ).1 regPC = 15 := by decide
example : (execJump .JAL [5, 16, 2] exJ).2 = some .ReservedRegisterNotWritable := by decide
example : exJ regPC < vmMaxRam := by decide
-- the static table is not vacuous: ADD is advancing through `alu_capture_overflow`, LDC has three helpers
example : (pcSites.filter (fun s => s.1 == "ADD")).map (fun s => s.2.2.map (·.via)) =
    [[["Interpreter::alu_capture_overflow", "alu_capture_overflow"]]] := by decide +kernel
example : (pcSites.filter (fun s => s.1 == "LDC")).map (fun s => s.2.2.length) = [3] := by decide +kernel
example : siteShape ("X", "Proceed", [⟨[], [], [], []⟩]) = none := by decide                       -- no `inc_pc`: rejected
example : siteShape ("X", "Proceed", [⟨[.incPc, .incPc], [], [], []⟩]) = none := by decide           -- two updates: rejected
example : siteShape ("X", "Proceed", [⟨[.incPc], [], [], []⟩, ⟨[], [], [], []⟩]) = none := by decide  -- one exit without

end FuelVerif.Alu
