/-
C06 — Serde formats round-trip protocol types and consensus parameters.

  "Transactions, receipts, policies, consensus parameters and gas cost tables serialized with JSON,
   postcard or bincode deserialize back to equal values, including policy sets that use the newer
   owner and expiration entries. Consensus parameters serialized with postcard hash to the checksum
   an upgrade transaction commits to, so a deserialized upgrade payload is byte-for-byte
   reproducible."

Proved here (for the model): (1) the two binary formats are invertible on every well-typed serde
tree (any nesting, any sizes); (2) the hand-written two-layout `Policies` serde round-trips for every
bit mask and every value array reachable through the API, through both visitor entry points, and the
three places that choose the layout agree; (3) the upgrade checksum/decoding logic; (4) the binary round
trip instantiated at the shape of EVERY real type reachable from Transaction, Receipt, Input, Output,
Policies, ConsensusParameters, GasCosts — the shapes are regenerated from the Rust sources
(`Gen/SerdeShapes.lean`, tools/gen/serde_shapes.py) and proved well formed, closed and inhabited;
(5) `Policies` end to end: bytes → decoder with the generated layout-dependent shape → `visit_seq` → value;
(6) `Policies` through serde_json at the level of the JSON object (bitflags text format, field order,
duplicates, missing/unknown fields).
The generated shapes and the model decoders are validated against the real crates on every run (driver
`tree`/`de` requests: generated shape of every recorded tree, decoders on real and malformed bytes).
NOT modelled (exercised by the harness oracle only): serde_json's text layer and the JSON form of the
derive-generated types; the hex form of unknown bits in the bitflags text is tied by correspondence only.
-/
import FuelVerif.Lemmas.SerdeTree
import FuelVerif.Lemmas.PoliciesSerde
import FuelVerif.Lemmas.SerdeCheck
import FuelVerif.Lemmas.PoliciesWire
import FuelVerif.Lemmas.PoliciesJson
namespace FuelVerif.C06
open FuelVerif.Serde FuelVerif.PoliciesSerde FuelVerif.Gen.Policies FuelVerif.Gen.SerdeShapes FuelVerif.PoliciesJson

/-! ### (1) binary formats -/

/-- postcard: decoding the encoding of any tree of the requested shape gives the tree back and
consumes exactly its bytes -/
theorem postcard_roundtrip (s : Shape) (t : Tree) (rest : Bytes) (h : HasShape s t) :
    pcDec s (pcEnc t ++ rest) = some (t, rest) := pc_roundtrip t s rest h

/-- bincode (legacy default options): same statement -/
theorem bincode_roundtrip (s : Shape) (t : Tree) (rest : Bytes) (h : HasShape s t) :
    bcDec s (bcEnc t ++ rest) = some (t, rest) := bc_roundtrip t s rest h

/-- postcard varints of every width used (u16/u32/u64/u128) -/
theorem varint_roundtrip (n : Nat) (rest : Bytes) :
    (n < 2 ^ 16 → varintDec 16 (varintEnc 3 n ++ rest) = some (n, rest)) ∧
    (n < 2 ^ 32 → varintDec 32 (varintEnc 5 n ++ rest) = some (n, rest)) ∧
    (n < 2 ^ 64 → varintDec 64 (varintEnc 10 n ++ rest) = some (n, rest)) ∧
    (n < 2 ^ 128 → varintDec 128 (varintEnc 19 n ++ rest) = some (n, rest)) :=
  ⟨fun h => varint_roundtrip16 n h rest, fun h => varint_roundtrip32 n h rest,
   fun h => varint_roundtrip64 n h rest, fun h => varint_roundtrip128 n h rest⟩

/-- both encoders are injective on trees of one shape (no two values share an encoding) -/
theorem postcard_injective (s : Shape) (t₁ t₂ : Tree) (h₁ : HasShape s t₁) (h₂ : HasShape s t₂)
    (h : pcEnc t₁ = pcEnc t₂) : t₁ = t₂ := by
  have a := postcard_roundtrip s t₁ [] h₁
  have b := postcard_roundtrip s t₂ [] h₂
  rw [h, b] at a
  simpa using a.symm

/-! ### (2) Policies -/

/-- obligation on the generated constants: the Serialize impl, `visit_seq` and `visit_map` test the
same legacy flag set, the legacy array has 4 entries, and flags occupy distinct positions inside `all` -/
theorem layout_sites_agree :
    legacyMaskSer = legacyMaskSeq ∧ legacyMaskSeq = legacyMaskMap ∧ wordArrayLens = [4] ∧
    flagBits.length = policiesNumber ∧ 4 ≤ policiesNumber ∧
    (flagBits.take 4).all (fun b => legacyMaskSer.testBit b) = true ∧
    (flagBits.drop 4).all (fun b => !legacyMaskSer.testBit b && allMask.testBit b) = true := by decide

/-- the condition under which a value survives: in the legacy layout the slots beyond the four
fixed ones are zero; in the compact layout every slot of an unset flag is zero. -/
def Stable (p : Policies) : Prop :=
  if isLegacy legacyMaskSer p.bits then
    p.values.length = policiesNumber ∧ p.values.drop 4 = List.replicate (policiesNumber - 4) 0
  else UnsetZero p.bits p.values flagBits

theorem isLegacy_unset (bits b : Nat) (h : isLegacy legacyMaskSer bits = true)
    (hb : legacyMaskSer.testBit b = false) (ha : allMask.testBit b = true) : bits.testBit b = false := by
  have h' : bits &&& allMask = bits &&& legacyMaskSer := by simpa [isLegacy] using h
  have := congrArg (fun x => x.testBit b) h'
  simpa [Nat.testBit_and, hb, ha] using this

/-- every value built by `new`/`set`/canonical decoding (unset slots zero) is stable -/
theorem canonical_stable (p : Policies) (h : Canonical p) : Stable p := by
  unfold Stable
  split
  · rename_i hl
    obtain ⟨-, hz⟩ := h
    have h4 := isLegacy_unset p.bits 4 hl (by decide) (by decide)
    have h5 := isLegacy_unset p.bits 5 hl (by decide) (by decide)
    rcases p with ⟨bits, vals⟩
    simp only at *
    rcases vals with _ | ⟨a, _ | ⟨b, _ | ⟨c, _ | ⟨d, _ | ⟨e, _ | ⟨f, _ | ⟨g, t⟩⟩⟩⟩⟩⟩⟩ <;>
      simp [UnsetZero, flagBits, flags] at hz
    simp [policiesNumber, hz.2.2.2.2.1 h4, hz.2.2.2.2.2 h5]
  · exact h.2

/-- **round trip through `visit_seq`** (postcard, bincode), every mask, every stable value array -/
theorem policies_serde_roundtrip_seq (p : Policies) (h : Stable p) : deSeq (ser p) = .ok p := by
  unfold Stable at h
  have hm : legacyMaskSeq = legacyMaskSer := by decide
  rcases p with ⟨bits, vals⟩
  by_cases hl : isLegacy legacyMaskSer bits = true
  · simp only [hl, if_true] at h
    obtain ⟨hlen, hdrop⟩ := h
    have hv : vals = vals.take 4 ++ vals.drop 4 := (List.take_append_drop 4 vals).symm
    have hlen4 : (vals.take 4).length = 4 := by simp [List.length_take, hlen, policiesNumber]
    simp only [ser, hl, if_true, deSeq, decodeValues, hm, u64s_map, hlen4]
    rw [← hdrop, ← hv]
  · have hl' : isLegacy legacyMaskSer bits = false := by simpa using hl
    simp only [hl', Bool.false_eq_true, if_false] at h
    have hs := scatter_gather bits [] vals flagBits h
    simp only [List.append_nil] at hs
    simp [ser, hl', deSeq, decodeValues, hm, u64s_map, hs]

/-- **round trip through `visit_map`** (serde_json: fields arrive as `bits`, then `values`) -/
theorem policies_serde_roundtrip_map (p : Policies) (h : Stable p) (x : Tree)
    (hx : ser p = .tuple [.u32 p.bits, x]) :
    deMap [("bits", .u32 p.bits), ("values", x)] = .ok p := by
  have hseq := policies_serde_roundtrip_seq p h
  rw [hx] at hseq
  have hm : legacyMaskMap = legacyMaskSeq := by decide
  simp only [deSeq] at hseq
  simp only [deMap, deMapAux, hm]
  cases hd : decodeValues legacyMaskSeq p.bits x .wrongType with
  | error e => simp [hd] at hseq
  | ok vals =>
    simp only [hd] at hseq
    simp [hd]
    simpa using hseq

/-- whatever `visit_seq` accepts is stable, so deserialised values re-serialise and round-trip again
(serde decode reaches a fixed point) -/
theorem deSeq_image_stable (t : Tree) (p : Policies) (h : deSeq t = .ok p) : Stable p := by
  have hm : legacyMaskSeq = legacyMaskSer := by decide
  unfold deSeq at h
  split at h <;> try (simp at h)
  rename_i bits x _
  cases hd : decodeValues legacyMaskSeq bits x .wrongType with
  | error e => simp [hd] at h
  | ok vals =>
    simp only [hd, Except.ok.injEq] at h
    subst h
    unfold decodeValues at hd
    unfold Stable
    rw [← hm]
    by_cases hl : isLegacy legacyMaskSeq bits = true
    · simp only [hl, if_true] at hd ⊢
      split at hd <;> try (simp at hd)
      split at hd <;> try (simp at hd)
      split at hd <;> try (simp at hd)
      rename_i vs _ hlen
      subst hd
      simp [hlen, policiesNumber]
    · have hl' : isLegacy legacyMaskSeq bits = false := by simpa using hl
      simp only [hl', Bool.false_eq_true, if_false] at hd ⊢
      split at hd <;> try (simp at hd)
      split at hd <;> try (simp at hd)
      split at hd <;> try (simp at hd)
      rename_i hs
      subst hd
      exact scatter_unsetZero _ _ _ _ _ hs

/-! ### (3) upgrade checksum -/

inductive UpgradeErr | witnessIndexBounds | checksumMismatch | deserialization
  deriving DecidableEq, Repr

/-- `UpgradeMetadata::compute` for `UpgradePurpose::ConsensusParameters`; `H` = `Hasher::hash`,
`dec` = `postcard::from_bytes::<ConsensusParameters>` -/
def upgradeCompute {CP : Type} (H : Bytes → Bytes) (dec : Bytes → Option CP)
    (witnesses : List Bytes) (witnessIndex : Nat) (checksum : Bytes) : Except UpgradeErr (CP × Bytes) :=
  match witnesses[witnessIndex]? with
  | none => .error .witnessIndexBounds
  | some w =>
    if H w ≠ checksum then .error .checksumMismatch
    else match dec w with
      | none => .error .deserialization
      | some cp => .ok (cp, H w)

/-- an upgrade built from `enc cp` with `checksum = H (enc cp)` is accepted with exactly `cp`, and
re-serialising the accepted parameters reproduces the committed bytes and checksum -/
theorem upgrade_checksum {CP : Type} (H : Bytes → Bytes) (enc : CP → Bytes) (dec : Bytes → Option CP)
    (hrt : ∀ cp, dec (enc cp) = some cp) (cp : CP) (ws : List Bytes) (i : Nat)
    (hw : ws[i]? = some (enc cp)) :
    upgradeCompute H dec ws i (H (enc cp)) = .ok (cp, H (enc cp)) ∧
    ∀ cp' c, upgradeCompute H dec ws i (H (enc cp)) = .ok (cp', c) → enc cp' = enc cp ∧ c = H (enc cp') := by
  have h1 : upgradeCompute H dec ws i (H (enc cp)) = .ok (cp, H (enc cp)) := by
    simp [upgradeCompute, hw, hrt]
  refine ⟨h1, ?_⟩
  intro cp' c h
  rw [h1] at h
  simp only [Except.ok.injEq, Prod.mk.injEq] at h
  rw [← h.1, ← h.2]; exact ⟨rfl, rfl⟩

/-- a witness whose hash differs from the committed checksum is rejected before decoding -/
theorem upgrade_checksum_mismatch {CP : Type} (H : Bytes → Bytes) (dec : Bytes → Option CP)
    (ws : List Bytes) (i : Nat) (w c : Bytes) (hw : ws[i]? = some w) (hc : H w ≠ c) :
    upgradeCompute H dec ws i c = .error .checksumMismatch := by
  simp [upgradeCompute, hw, hc]

/-! ### (4) the shapes of the real types (regenerated from the Rust sources by tools/gen/serde_shapes.py) -/

/-- obligations on the generated table: the list of type names is complete and names are distinct
(`ofString?` inverts `toString`), every generated shape is well formed — each enum has at least one variant
and its variant count fits the `u32` index both formats write — and the table is closed: every type a
definition refers to has a shape of its own. (That the Lean definitions only mention defined shapes is
enforced by elaboration; `refs` restates it on the names the translator recorded.) -/
theorem generated_shapes_closed :
    (∀ T : TypeName, T ∈ TypeName.all) ∧
    (∀ T : TypeName, TypeName.ofString? T.toString = some T) ∧
    (∀ T : TypeName, wfB (shapeOf T) = true) ∧
    refs.map (·.1) = TypeName.all.map TypeName.toString ∧
    refs.all (fun nr => nr.2.all (fun r => (TypeName.ofString? r).isSome)) = true := by
  have hall : ∀ T : TypeName, T ∈ TypeName.all := by intro T; cases T <;> decide +kernel
  have h2 : TypeName.all.all (fun T => TypeName.ofString? T.toString == some T) = true := by decide +kernel
  have h3 : TypeName.all.all (fun T => wfB (shapeOf T)) = true := by decide +kernel
  refine ⟨hall, ?_, ?_, by decide +kernel, by decide +kernel⟩
  · intro T
    have := List.all_eq_true.mp h2 T (hall T)
    simpa using this
  · intro T
    exact List.all_eq_true.mp h3 T (hall T)

/-- **postcard round trip of every real type**: for each type `T` reachable from Transaction, Receipt,
Input, Output, Policies, ConsensusParameters, GasCosts and every serde tree of the shape generated for `T`,
decoding the encoding (followed by anything) with that shape gives the tree back and consumes exactly it. -/
theorem real_type_roundtrip (T : TypeName) (tree : Tree) (rest : Bytes) (h : HasShape (shapeOf T) tree) :
    pcDec (shapeOf T) (pcEnc tree ++ rest) = some (tree, rest) := postcard_roundtrip _ tree rest h

/-- the same for bincode (legacy default options) -/
theorem real_type_roundtrip_bincode (T : TypeName) (tree : Tree) (rest : Bytes) (h : HasShape (shapeOf T) tree) :
    bcDec (shapeOf T) (bcEnc tree ++ rest) = some (tree, rest) := bincode_roundtrip _ tree rest h

/-- the decoders the driver runs against the real crates (`pcDecode`/`bcDecode`: shape decoder, then the
hand-written visitor's own validation at `sel` nodes, decided shape membership `hasShapeB`) satisfy the same
round trip -/
theorem real_type_decode_roundtrip (T : TypeName) (tree : Tree) (rest : Bytes)
    (h : hasShapeB (shapeOf T) tree = true) (hv : leavesOk policiesValid (shapeOf T) tree = true) :
    pcDecode policiesValid (shapeOf T) (pcEnc tree ++ rest) = some (tree, rest) ∧
    bcDecode policiesValid (shapeOf T) (bcEnc tree ++ rest) = some (tree, rest) := by
  have hs := (hasShapeB_iff tree (shapeOf T)).mp h
  exact ⟨pcDecode_eq_of_ok _ _ _ _ _ (real_type_roundtrip T tree rest hs) hv,
         bcDecode_eq_of_ok _ _ _ _ _ (real_type_roundtrip_bincode T tree rest hs) hv⟩

/-- non-vacuity for EVERY generated type: each shape has a tree, and that tree round-trips -/
theorem real_types_inhabited (T : TypeName) :
    HasShape (shapeOf T) (witness (shapeOf T)) ∧
    pcDec (shapeOf T) (pcEnc (witness (shapeOf T))) = some (witness (shapeOf T), []) := by
  have h := witness_hasShape (shapeOf T) (generated_shapes_closed.2.2.1 T)
  refine ⟨h, ?_⟩
  have := real_type_roundtrip T _ [] h
  simpa using this

/-! ### (5) Policies end to end: bytes → generated layout-dependent shape → `visit_seq` → value -/

/-- what `impl Serialize for Policies` emits has the shape generated for `Policies` (so the binary decoders
are asked for the right layout), for every bit set that fits `u32` and word-sized values -/
theorem policies_ser_hasShape (p : Policies) (h : Stable p) (hb : p.bits < 2 ^ 32)
    (hv : ∀ v ∈ p.values, v < 2 ^ 64) : HasShape (shapeOf .TPolicies) (ser p) := by
  have hm : legacyMaskSer = legacyMaskSeq := by decide
  have hshape : shapeOf .TPolicies =
      .sel allMask legacyMaskSeq (.tuple (List.replicate 4 .u64)) (.seq .u64) := rfl
  rw [hshape]
  unfold Stable at h
  rcases p with ⟨bits, vals⟩
  simp only at hb hv h
  by_cases hl : isLegacy legacyMaskSer bits = true
  · have hl' : selLegacy allMask legacyMaskSeq bits = true := by rw [← hm, ← isLegacy_eq_selLegacy]; exact hl
    simp only [hl, if_true] at h
    have hlen4 : (vals.take 4).length = 4 := by simp [List.length_take, h.1, policiesNumber]
    have hsh := listShape_replicate_u64 (vals.take 4) (fun v hv' => hv v (List.mem_of_mem_take hv'))
    rw [hlen4] at hsh
    simp only [ser, hl, if_true, HasShape, hl']
    exact ⟨hb, hsh⟩
  · have hl0 : isLegacy legacyMaskSer bits = false := by simpa using hl
    have hl' : selLegacy allMask legacyMaskSeq bits = false := by rw [← hm, ← isLegacy_eq_selLegacy]; exact hl0
    simp only [ser, hl0, Bool.false_eq_true, if_false, HasShape, hl']
    refine ⟨hb, ?_, allShape_u64 _ (fun v hv' => hv v (gather_mem bits vals flagBits v hv'))⟩
    have := gather_length_le bits vals flagBits
    have h6 : flagBits.length = 6 := by decide
    simp only [List.length_map]
    omega

/-- **`postcard::from_bytes::<Policies>(postcard::to_allocvec(&p)) == p`**, composed from the three layers:
`ser`, the postcard model with the shape generated from policies.rs, and `visit_seq`; for every mask (any
`u32` bit set, legacy and compact layouts) and every stable value array; trailing bytes are returned untouched -/
theorem policies_postcard_roundtrip (p : Policies) (h : Stable p) (hb : p.bits < 2 ^ 32)
    (hv : ∀ v ∈ p.values, v < 2 ^ 64) (rest : Bytes) :
    policiesFromWire pcDec (policiesToWire pcEnc p ++ rest) = some (p, rest) := by
  have h1 := real_type_roundtrip .TPolicies (ser p) rest (policies_ser_hasShape p h hb hv)
  simp [policiesFromWire, policiesToWire, h1, policies_serde_roundtrip_seq p h]

/-- the same through bincode -/
theorem policies_bincode_roundtrip (p : Policies) (h : Stable p) (hb : p.bits < 2 ^ 32)
    (hv : ∀ v ∈ p.values, v < 2 ^ 64) (rest : Bytes) :
    policiesFromWire bcDec (policiesToWire bcEnc p ++ rest) = some (p, rest) := by
  have h1 := real_type_roundtrip_bincode .TPolicies (ser p) rest (policies_ser_hasShape p h hb hv)
  simp [policiesFromWire, policiesToWire, h1, policies_serde_roundtrip_seq p h]

/-- the validated decoder the driver runs (`pcDecode`/`bcDecode` with `policiesValid` at the `sel` node)
accepts the encoding of every stable `Policies` and returns the tree `impl Serialize` produced -/
theorem policies_decode_roundtrip (p : Policies) (h : Stable p) (hb : p.bits < 2 ^ 32)
    (hv : ∀ v ∈ p.values, v < 2 ^ 64) (rest : Bytes) :
    pcDecode policiesValid (shapeOf .TPolicies) (pcEnc (ser p) ++ rest) = some (ser p, rest) ∧
    bcDecode policiesValid (shapeOf .TPolicies) (bcEnc (ser p) ++ rest) = some (ser p, rest) := by
  have hs := policies_ser_hasShape p h hb hv
  apply real_type_decode_roundtrip .TPolicies (ser p) rest ((hasShapeB_iff _ _).mpr hs)
  have hshape : shapeOf .TPolicies =
      .sel allMask legacyMaskSeq (.tuple (List.replicate 4 .u64)) (.seq .u64) := rfl
  have hvalid : policiesValid (ser p) = true := by simp [policiesValid, policies_serde_roundtrip_seq p h]
  rw [hshape]
  rw [PoliciesJson.ser_eq] at hvalid ⊢
  simp only [leavesOk, hvalid, Bool.true_and]
  split
  · exact (leavesOk_values _ _).1
  · exact (leavesOk_values _ _).2

/-- whatever bytes either binary format accepts as `Policies` decode to a stable value: decoding is a
retraction onto the values that round-trip (with `policies_postcard_roundtrip`: decode ∘ encode ∘ decode = decode) -/
theorem policies_wire_image_stable (dec : Shape → Bytes → Option (Tree × Bytes)) (bs r : Bytes) (p : Policies)
    (h : policiesFromWire dec bs = some (p, r)) : Stable p := by
  unfold policiesFromWire at h
  split at h
  · rename_i t r' _
    cases hd : deSeq t with
    | error e => simp [hd] at h
    | ok q =>
      simp only [hd, Option.some.injEq, Prod.mk.injEq] at h
      rw [← h.1]
      exact deSeq_image_stable t q hd
  · simp at h

/-! ### (6) Policies through serde_json (`visit_map`; bitflags text format) -/

/-- the bitflags text format round-trips for all 64 masks of defined flags ("Tip | MaxFee" ...; complete
table, `decide +kernel`) -/
theorem policies_bits_text_roundtrip (b : Nat) (h : b < 64) : charsToBits (bitsToChars b) = some b :=
  bits_text_roundtrip b h

/-- **`serde_json::from_str::<Policies>(serde_json::to_string(&p)) == p`** at the level of the JSON object
(fields in document order, `bits` as bitflags text, `values` as an array of numbers), for all 64 masks and
every stable value array -/
theorem policies_json_roundtrip (p : Policies) (h : Stable p) (hb : p.bits < 64)
    (hv : ∀ v ∈ p.values, v < 2 ^ 64) : deJson (serJson p) = .ok p := by
  have hseq := policies_serde_roundtrip_seq p h
  rw [ser_eq] at hseq
  have hm : legacyMaskMap = legacyMaskSeq := by decide
  have hm' : legacyMaskSer = legacyMaskSeq := by decide
  simp only [deSeq] at hseq
  have hnums : numsOf ((if isLegacy legacyMaskSer p.bits = true then p.values.take 4
      else gather p.bits p.values flagBits).map JElem.num) =
      some (if isLegacy legacyMaskSer p.bits = true then p.values.take 4 else gather p.bits p.values flagBits) := by
    apply numsOf_map
    intro v hv'
    split at hv'
    · exact hv v (List.mem_of_mem_take hv')
    · exact hv v (gather_mem _ _ _ v hv')
  have htree : (if isLegacy legacyMaskSeq p.bits = true then
        Tree.tuple ((if isLegacy legacyMaskSer p.bits = true then p.values.take 4
          else gather p.bits p.values flagBits).map Tree.u64)
      else Tree.seq ((if isLegacy legacyMaskSer p.bits = true then p.values.take 4
          else gather p.bits p.values flagBits).map Tree.u64)) = valuesTree p := by
    unfold valuesTree
    rw [hm']
    split <;> rfl
  cases hd : decodeValues legacyMaskSeq p.bits (valuesTree p) .wrongType with
  | error e => simp [hd] at hseq
  | ok vals =>
    simp only [hd, Except.ok.injEq] at hseq
    simp only [deJson, serJson, deJsonAux, policies_bits_text_roundtrip p.bits hb, decodeValuesJson, hnums, hm,
      htree, hd]
    simpa using hseq

/-- an object whose `values` field comes before `bits` is rejected, whatever the fields contain -/
theorem json_values_before_bits_rejected (v : JVal) (rest : List (String × JVal)) :
    deJson (("values", v) :: rest) = .error .bitsBeforeValues := by
  simp [deJson, deJsonAux]

/-- duplicate fields are rejected -/
theorem json_duplicate_rejected (cs : List Char) (b : Nat) (hb : charsToBits cs = some b) (v v' w : JVal)
    (vals : List Nat) (hvals : decodeValuesJson legacyMaskMap b v = .ok vals) (rest : List (String × JVal)) :
    deJson (("bits", .str cs) :: ("bits", w) :: rest) = .error .duplicateBits ∧
    deJson (("bits", .str cs) :: ("values", v) :: ("values", v') :: rest) = .error .duplicateValues := by
  constructor
  · simp [deJson, deJsonAux, hb]
  · simp [deJson, deJsonAux, hb, hvals]

/-- missing fields are rejected; unknown fields are skipped -/
theorem json_missing_rejected (cs : List Char) (b : Nat) (hb : charsToBits cs = some b) :
    deJson [] = .error .missingBits ∧ deJson [("bits", .str cs)] = .error .missingValues := by
  constructor
  · simp [deJson, deJsonAux]
  · simp [deJson, deJsonAux, hb]

theorem json_unknown_field_ignored (k : String) (hk : k ≠ "bits" ∧ k ≠ "values") (v : JVal)
    (fields : List (String × JVal)) : deJson ((k, v) :: fields) = deJson fields := by
  simp [deJson, deJsonAux, hk.1, hk.2]

/-! ### non-vacuity -/
example : Stable ⟨0b110101, [7, 0, 9, 0, 11, 13]⟩ := by
  apply canonical_stable; exact ⟨by decide, by simp [UnsetZero, flagBits, flags]; decide⟩
example : deSeq (ser ⟨0b110101, [7, 0, 9, 0, 11, 13]⟩) = .ok ⟨0b110101, [7, 0, 9, 0, 11, 13]⟩ := by rfl
example : ser ⟨0b110101, [7, 0, 9, 0, 11, 13]⟩ = .tuple [.u32 53, .seq [.u64 7, .u64 9, .u64 11, .u64 13]] := by rfl
example : ser ⟨0b0101, [7, 0, 9, 0, 0, 0]⟩ = .tuple [.u32 5, .tuple [.u64 7, .u64 0, .u64 9, .u64 0]] := by rfl
-- an unstable value (slot of an unset flag non-zero, compact layout) does not survive: the hypothesis is needed
example : deSeq (ser ⟨0b100000, [1, 0, 0, 0, 0, 5]⟩) = .ok ⟨0b100000, [0, 0, 0, 0, 0, 5]⟩ := by rfl
example : HasShape (.tuple [.u32, .seq .u64]) (.tuple [.u32 53, .seq [.u64 7, .u64 9, .u64 11, .u64 13]]) := by
  simp [HasShape, ListShape, AllShape]
example : pcEnc (.tuple [.u32 300, .seq [.u64 1]]) = [0xAC, 0x02, 0x01, 0x01] := by rfl
-- the generated shapes are the ones the real types have: TxPointer = (BlockHeight(u32), u16); UtxoId = (Bytes32, u16)
example : shapeOf .TTxPointer = .tuple [.u32, .u16] := rfl
example : HasShape (shapeOf .TTxPointer) (.tuple [.u32 7, .u16 9]) := by
  simp [shapeOf, sTxPointer, sBlockHeight, HasShape, ListShape]
example : pcDec (shapeOf .TTxPointer) [0x07, 0x09, 0xAA] = some (.tuple [.u32 7, .u16 9], [0xAA]) := by rfl
-- a compact-layout Policies (Owner set) end to end through the generated shape, with a trailing byte left over
example : policiesFromWire pcDec (policiesToWire pcEnc ⟨0b100001, [7, 0, 0, 0, 0, 5]⟩ ++ [0xEE]) =
    some (⟨0b100001, [7, 0, 0, 0, 0, 5]⟩, [0xEE]) := by rfl
example : policiesToWire pcEnc ⟨0b100001, [7, 0, 0, 0, 0, 5]⟩ = [0x21, 0x02, 0x07, 0x05] := by rfl
-- a value count that does not match the bits is rejected by `visit_seq` although the bytes have the shape
example : policiesFromWire pcDec [0x21, 0x01, 0x07] = none := by rfl
example : (pcDec (shapeOf .TPolicies) [0x21, 0x01, 0x07]).isSome = true := by rfl
-- JSON: text of the bits, the object, and a reordered object
example : String.ofList (bitsToChars 0b101001) = "Tip | MaxFee | Owner" := by decide
example : charsToBits " Tip|MaxFee | 0x+40 ".toList = some 73 := by decide
example : charsToBits "Tip | ".toList = none := by decide
example : deJson (serJson ⟨0b100001, [7, 0, 0, 0, 0, 5]⟩) = .ok ⟨0b100001, [7, 0, 0, 0, 0, 5]⟩ := by rfl
example : deJson [("values", .arr [.num 1]), ("bits", .str "Owner".toList)] = .error .bitsBeforeValues := by rfl
example : deJson [("bits", .str "Owner".toList), ("x", .other), ("values", .arr [.num 1])] = .ok ⟨32, [0, 0, 0, 0, 0, 1]⟩ := by rfl
-- out-of-range variant index / bad option tag are rejected
example : pcDec (shapeOf .TOutput) [0x05] = none := by rfl
example : pcDec (.option .u8) [0x02, 0x00] = none := by rfl

end FuelVerif.C06
