/-
C15 — Contract and predicate identifiers follow the specification.

  "The contract code root equals the binary Merkle root of the code split into 16 KiB chunks with the
   final partial chunk zero-padded to a multiple of 8 bytes; the initial state root equals the sparse
   Merkle root of the storage slots keyed by the SHA-256 of their keys; the contract id is SHA-256 of the
   seed, salt, code root and state root; a predicate's owner address is SHA-256 of the seed and the
   predicate's code root. The VM's deployment, code-root instruction and predicate owner check use these
   same values."
  Quantifier: all code lengths (including 0, multiples and non-multiples of 8 and of 16 KiB) and all
  storage-slot sets.

Everything is proved for EVERY hash function `H` (the driver instantiates SHA-256). Hypotheses used:
* `hE : H [] = emptySum` — the literal `EMPTY_SUM` of fuel-merkle is the hash of the empty string (the root
  of a contract with empty code); as in C09, checked for SHA-256 on every run (stream c15, line `K`).
* `code.length < 2^64` — the length of a Rust slice (gives fewer than 2^63 leaves, C09's range).
* `∀ x, (H x).length = 32` — only for the state-root clause (the sparse tree is keyed by `H key`, and its
  keys are 32 bytes).
* `Smt.FromSetStatement H` — C12's from_set clause (`root_from_set` = the compact sparse root of the set
  seen as a map), which `Props/C12.lean` states without proof. `stateRoot_eq_specRoot` takes it as a NAMED
  HYPOTHESIS; `Props/C12FromSet.lean` now PROVES it for every `H` (`Smt.fromSetStatement_holds`), and
  `stateRoot_spec` / `stateRoot_statement` below are the resulting hypothesis-free state-root clause.

The statement's leaf list is `specLeaves` (Model/ContractId.lean), written with the literal numbers 16384 / 8 / 0;
`constants_match_statement` ties the constants regenerated from the Rust sources to those numbers, so an edit
of `LEAF_SIZE`, `MULTIPLE`, `PADDING_BYTE`, `ContractId::SEED`, the order of the `hasher.input` calls or the
metadata field `deploy_inner` reads breaks a proof below.
-/
import FuelVerif.Basic.ExceptDec
import FuelVerif.Lemmas.ContractId
import FuelVerif.Props.C09
import FuelVerif.Props.C12
import FuelVerif.Props.C12FromSet
namespace FuelVerif.Ids
open FuelVerif

/-- the four ASCII bytes "FUEL" -/
def seedFUEL : Bytes := [0x46, 0x55, 0x45, 0x4C]

/-- **the regenerated constants are the statement's**: 16 KiB leaves, multiple of 8, zero padding, seed
"FUEL"; `Contract::id` feeds seed, salt, code root, state root in this order; `predicate_owner` feeds seed,
code root; `deploy_inner` reads the like-named metadata field for each identifier -/
theorem constants_match_statement :
    Gen.Contract.leafSize = 16 * 1024 ∧ Gen.Contract.multiple = 8 ∧ Gen.Contract.paddingByte = 0 ∧
    Gen.Contract.seed = seedFUEL ∧
    Gen.Contract.idParts = [.seed, .salt, .root, .stateRoot] ∧
    Gen.Contract.ownerParts = [.seed, .root] ∧
    Gen.Contract.deployRootField = .contractRoot ∧ Gen.Contract.deployStateRootField = .stateRoot ∧
    Gen.Contract.deployIdField = .contractId := by
  decide

/-! ## code root -/

/-- the code root for arbitrary chunk size `L > 0` and multiple `M > 0` dividing `L`: no panic, and the
RFC 6962 tree hash of the statement's leaf list -/
theorem rootFromCodeWith_eq_mth (L M : Nat) (pad : UInt8) (hL : 0 < L) (hM : 0 < M) (hdvd : M ∣ L)
    (H : Bytes → Bytes) (hE : H [] = BMT.emptySum) (code : Bytes)
    (hn : (specLeavesWith L M pad code).length < 2 ^ 63) :
    rootFromCodeWith L M pad H code = .ok (BMT.mth H (specLeavesWith L M pad code)) := by
  unfold rootFromCodeWith
  rw [chunks_eq L hL]
  simp only
  rw [pushChunks_eq L M pad H (padTo M pad) (rawChunks L code) []
    (fun c hc => leafToPush_eq L M pad hM hdvd c (rawChunks_length_le L hL code c hc))]
  rw [← specLeavesWith_eq_map L M pad hdvd code]
  have h := BMT.calculator_root_eq_mth H hE (specLeavesWith L M pad code) hn
  unfold BMT.ephemeralMerkleRoot at h
  cases hp : BMT.calcPushAll H [] (specLeavesWith L M pad code) with
  | error e => rw [hp] at h; cases h
  | ok st => rw [hp] at h; simp only at h ⊢; rw [h]

/-- **code root clause.** For every code (every length a Rust slice can have), `Contract::root_from_code`
does not panic and returns the binary Merkle root (RFC 6962 tree hash, C09's `mth`) of the code split into
16 KiB chunks with the final partial chunk zero-padded to a multiple of 8 bytes. -/
theorem rootFromCode_eq_mth (H : Bytes → Bytes) (hE : H [] = BMT.emptySum) (code : Bytes)
    (hlen : code.length < 2 ^ 64) :
    rootFromCode H code = .ok (BMT.mth H (specLeaves code)) := by
  obtain ⟨h1, h2, h3, _⟩ := constants_match_statement
  unfold rootFromCode specLeaves
  rw [h1, h2, h3]
  apply rootFromCodeWith_eq_mth (16 * 1024) 8 0 (by decide) (by decide) (by decide) H hE code
  rw [specLeavesWith_length]
  split <;> omega

/-- the leaf list has `⌈len / 16384⌉` leaves (none for empty code: the root is then `H ""`) -/
theorem specLeaves_length (code : Bytes) :
    (specLeaves code).length = (code.length + 16383) / 16384 := by
  unfold specLeaves
  rw [specLeavesWith_length]
  split <;> omega

/-- **the three cases of the statement**, by the code length:
* `len % 16384 = 0` (incl. empty code): exactly the `len / 16384` full chunks, nothing padded;
* otherwise the full chunks followed by the remaining `len % 16384` bytes, which are
  - pushed as they are when their number is a multiple of 8,
  - else extended by `8 - len % 8` zero bytes (to the next multiple of 8). -/
theorem specLeaves_cases (code : Bytes) :
    let full := (List.range (code.length / 16384)).map (fun i => (code.drop (16384 * i)).take 16384)
    let rem := code.drop (16384 * (code.length / 16384))
    (code.length % 16384 = 0 → specLeaves code = full) ∧
    (code.length % 16384 ≠ 0 → code.length % 8 = 0 → specLeaves code = full ++ [rem]) ∧
    (code.length % 16384 ≠ 0 → code.length % 8 ≠ 0 →
      specLeaves code = full ++ [rem ++ List.replicate (8 - code.length % 8) 0]) := by
  have hr := rem_length 16384 code
  have hnil : code.drop (16384 * (code.length / 16384)) = [] ↔ code.length % 16384 = 0 := by
    rw [← List.length_eq_zero_iff, hr]
  have hm8 : (code.drop (16384 * (code.length / 16384))).length % 8 = code.length % 8 := by
    rw [hr]; omega
  refine ⟨fun h => ?_, fun h h8 => ?_, fun h h8 => ?_⟩
  · simp only [specLeaves, specLeavesWith, hnil.mpr h, if_true]
  · have : ¬ code.drop (16384 * (code.length / 16384)) = [] := fun x => h (hnil.mp x)
    simp only [specLeaves, specLeavesWith, this, if_false, hm8, h8]
    simp
  · have : ¬ code.drop (16384 * (code.length / 16384)) = [] := fun x => h (hnil.mp x)
    simp only [specLeaves, specLeavesWith, this, if_false, hm8]
    have : (8 - code.length % 8) % 8 = 8 - code.length % 8 := by omega
    rw [this]

/-- every leaf has at most 16 KiB and a length that is a multiple of 8 unless it is a full chunk; all
leaves but the last are full chunks -/
theorem specLeaves_shape (code : Bytes) :
    (∀ l ∈ specLeaves code, l.length ≤ 16384 ∧ (l.length = 16384 ∨ l.length % 8 = 0)) ∧
    (∀ i, i + 1 < (specLeaves code).length → ((specLeaves code)[i]?.map List.length) = some 16384) := by
  have hfull : ∀ i, i < code.length / 16384 → ((code.drop (16384 * i)).take 16384).length = 16384 := by
    intro i hi
    have : 16384 * (i + 1) ≤ code.length := by
      have := Nat.mul_div_le code.length 16384
      have := Nat.mul_le_mul_left 16384 (show i + 1 ≤ code.length / 16384 from hi)
      omega
    simp only [List.length_take, List.length_drop]; omega
  have hr := rem_length 16384 code
  constructor
  · intro l hl
    unfold specLeaves specLeavesWith at hl
    simp only at hl
    split at hl
    · simp only [List.mem_map, List.mem_range] at hl
      obtain ⟨i, hi, rfl⟩ := hl
      rw [hfull i hi]; omega
    · simp only [List.mem_append, List.mem_map, List.mem_range, List.mem_singleton] at hl
      rcases hl with ⟨i, hi, rfl⟩ | rfl
      · rw [hfull i hi]; omega
      · simp only [List.length_append, List.length_replicate, hr]
        omega
  · intro i hi
    unfold specLeaves specLeavesWith at hi ⊢
    simp only at hi ⊢
    by_cases hnil : code.drop (16384 * (code.length / 16384)) = []
    · rw [if_pos hnil] at hi ⊢
      simp only [List.length_map, List.length_range] at hi
      rw [List.getElem?_map, List.getElem?_range (by omega)]
      simp only [Option.map_some]
      rw [hfull i (by omega)]
    · rw [if_neg hnil] at hi ⊢
      simp only [List.length_append, List.length_map, List.length_range, List.length_singleton] at hi
      rw [List.getElem?_append_left (by simp only [List.length_map, List.length_range]; omega)]
      rw [List.getElem?_map, List.getElem?_range (by omega)]
      simp only [Option.map_some]
      rw [hfull i (by omega)]

/-! ## state root -/

/-- the storage slots as the key-value map the statement talks about: keyed by the SHA-256 of the slot
key, holding the SHA-256 of the slot value (what a sparse leaf commits to); a later slot with the same key
replaces an earlier one -/
def slotMap (H : Bytes → Bytes) (slots : List Slot) : List (Bytes × Bytes) :=
  slots.foldl (fun m s => Smt.alInsert (H s.1) (H s.2) m) []

/-- **state root clause, relative to C12's `FromSetStatement`** (kept as a named hypothesis here; discharged
in `stateRoot_spec`): for every list
of storage slots, `Contract::initial_state_root` succeeds and is the compact sparse Merkle root (C12's
`specRoot` over the 256 key bits, leaf = H(0x00‖key‖H(value)), node = H(0x01‖l‖r), empty = 32 zero bytes)
of the slots keyed by the hash of their keys. -/
theorem stateRoot_eq_specRoot (H : Bytes → Bytes) (hl : ∀ x, (H x).length = Gen.Sparse.keyBytes)
    (hFS : Smt.FromSetStatement H) (slots : List Slot) :
    ∃ r, Smt.specRoot SmtBytes.bitOf (SmtBytes.hashes H) 256 0 (slotMap H slots) = some r ∧
      initialStateRoot H slots = .ok r := by
  have h := hFS (slots.map (fun s => (merkleTreeKeyNew H s.1, s.2)))
    (by intro kv hkv
        simp only [List.mem_map] at hkv
        obtain ⟨s, _, rfl⟩ := hkv
        exact hl _)
  simp only [List.foldl_map] at h
  obtain ⟨r, h1, h2, _⟩ := h
  refine ⟨r, h1, ?_⟩
  simp only [initialStateRoot, h2]

/-- FULL STATEMENT of the state-root clause (no `FromSetStatement` hypothesis) -/
def StateRootStatement (H : Bytes → Bytes) : Prop :=
  ∀ slots : List Slot,
    ∃ r, Smt.specRoot SmtBytes.bitOf (SmtBytes.hashes H) 256 0 (slotMap H slots) = some r ∧
      initialStateRoot H slots = .ok r

/-- **state root clause, hypothesis-free**: for every hash function with 32-byte output and every list of
storage slots (any order, duplicates allowed — the later slot wins), `Contract::initial_state_root` succeeds
and is the compact sparse Merkle root of the slots keyed by the hash of their keys
(`Smt.fromSetStatement_holds`, the proof of `from_set`, discharges the hypothesis) -/
theorem stateRoot_spec (H : Bytes → Bytes) (hl : ∀ x, (H x).length = Gen.Sparse.keyBytes) (slots : List Slot) :
    ∃ r, Smt.specRoot SmtBytes.bitOf (SmtBytes.hashes H) 256 0 (slotMap H slots) = some r ∧
      initialStateRoot H slots = .ok r :=
  stateRoot_eq_specRoot H hl (Smt.fromSetStatement_holds H) slots

theorem stateRoot_statement (H : Bytes → Bytes) (hl : ∀ x, (H x).length = Gen.Sparse.keyBytes) :
    StateRootStatement H := fun slots => stateRoot_spec H hl slots

/-- no slots (`Contract::default_state_root`): 32 zero bytes (any `H`) -/
theorem stateRoot_empty (H : Bytes → Bytes) :
    initialStateRoot H [] = .ok (List.replicate 32 0) ∧ defaultStateRoot H = .ok (List.replicate 32 0) ∧
    Smt.specRoot SmtBytes.bitOf (SmtBytes.hashes H) 256 0 (slotMap H []) = some (List.replicate 32 0) := by
  exact ⟨rfl, rfl, rfl⟩

/-- one slot: the root is the leaf hash H(0x00 ‖ H(key) ‖ H(value)) (any `H`) -/
theorem stateRoot_singleton (H : Bytes → Bytes) (k v : Bytes) :
    initialStateRoot H [(k, v)] = .ok (H (0x00 :: (H k ++ H v))) ∧
    Smt.specRoot SmtBytes.bitOf (SmtBytes.hashes H) 256 0 (slotMap H [(k, v)]) = some (H (0x00 :: (H k ++ H v))) := by
  have hp : SmtStore.Prefix.leaf.byte = (0x00 : UInt8) := by decide
  constructor
  · simp only [initialStateRoot, SmtStore.rootFromSet, SmtStore.fromSet, SmtStore.btreeCollect, List.map_cons,
      List.map_nil, List.foldl_cons, List.foldl_nil, SmtStore.btreeInsert, merkleTreeKeyNew,
      SmtStore.SMT.rootHash, SmtStore.Node.createLeaf, SmtStore.Node.hash, SmtStore.calculateLeafHash,
      SmtStore.calculateHash, hp]
  · simp only [slotMap, List.foldl_cons, List.foldl_nil, Smt.alInsert, Smt.alErase, Smt.specRoot,
      SmtBytes.hashes, SmtStore.calculateLeafHash, SmtStore.calculateHash, hp]

/-! ## contract id and predicate owner -/

/-- **contract id clause**: `Contract::id` = H(seed ‖ salt ‖ code root ‖ state root), seed = "FUEL" -/
theorem contractId_formula (H : Bytes → Bytes) (salt root stateRoot : Bytes) :
    contractId H salt root stateRoot = H (seedFUEL ++ salt ++ root ++ stateRoot) := rfl

/-- **predicate owner clause**: `Input::predicate_owner` = H(seed ‖ code root of the predicate) -/
theorem predicateOwner_formula (H : Bytes → Bytes) (hE : H [] = BMT.emptySum) (predicate : Bytes)
    (hlen : predicate.length < 2 ^ 64) :
    predicateOwner H predicate = .ok (H (seedFUEL ++ BMT.mth H (specLeaves predicate))) := by
  simp only [predicateOwner, rootFromCode_eq_mth H hE predicate hlen]
  rfl

/-- **the predicate owner check** (`Input::is_predicate_owner_valid`, hence the fuel-tx validity rule and
the VM's `check_predicate`) accepts exactly the owner given by the formula -/
theorem predicate_owner_check_iff (H : Bytes → Bytes) (hE : H [] = BMT.emptySum) (owner predicate : Bytes)
    (hlen : predicate.length < 2 ^ 64) :
    ∃ b, isPredicateOwnerValid H owner predicate = .ok b ∧
      (b = true ↔ owner = H (seedFUEL ++ BMT.mth H (specLeaves predicate))) ∧
      checkPredicateOwnerTx H owner predicate = (if b then .ok () else .error .InputPredicateOwner) ∧
      checkPredicateOwnerVm H owner predicate = (if b then .ok () else .error .InvalidOwner) := by
  refine ⟨owner == H (seedFUEL ++ BMT.mth H (specLeaves predicate)), ?_, ?_, ?_, ?_⟩
  · simp only [isPredicateOwnerValid, predicateOwner_formula H hE predicate hlen]
  · simp only [beq_iff_eq]
  · simp only [checkPredicateOwnerTx, isPredicateOwnerValid, predicateOwner_formula H hE predicate hlen]
    cases owner == H (seedFUEL ++ BMT.mth H (specLeaves predicate)) <;> rfl
  · simp only [checkPredicateOwnerVm, isPredicateOwnerValid, predicateOwner_formula H hE predicate hlen]
    cases owner == H (seedFUEL ++ BMT.mth H (specLeaves predicate)) <;> rfl

/-! ## Create metadata, deployment, CROO -/

/-- `precompute` succeeds exactly when `CreateMetadata::compute` does, and then caches its result -/
theorem precompute_ok (H : Bytes → Bytes) (c c' : Create) (h : c.precompute H = (c', .ok ())) :
    ∃ m, CreateMetadata.compute H { c with metadata := none } = .ok m ∧
      c' = { c with metadata := some m } := by
  unfold Create.precompute at h
  simp only at h
  cases hm : CreateMetadata.compute H { c with metadata := none } with
  | error e => rw [hm] at h; simp only [Prod.mk.injEq, reduceCtorEq, and_false] at h
  | ok m =>
    rw [hm] at h
    simp only [Prod.mk.injEq, and_true] at h
    exact ⟨m, rfl, h.symm⟩

/-- **cached metadata = recomputed**: after `precompute` (which `into_checked` always runs), `deploy_inner`
behaves exactly as it would by recomputing code root, state root and contract id from the transaction — on
every storage, including the `ContractIdAlreadyDeployed` outcome. -/
theorem metadata_ids_eq_fresh (H : Bytes → Bytes) (c c' : Create) (st : Storage)
    (h : c.precompute H = (c', .ok ())) :
    deployInner H c' st = deployInner H { c with metadata := none } st := by
  obtain ⟨m, hm, rfl⟩ := precompute_ok H c c' h
  obtain ⟨_, _, _, _, _, _, f1, f2, f3⟩ := constants_match_statement
  unfold CreateMetadata.compute at hm
  simp only [Create.bytecode] at hm
  unfold deployInner
  simp only [Create.bytecode, f3, CreateMetadata.get]
  cases hw : c.witnesses[c.bytecodeWitnessIndex]? with
  | none => rfl
  | some code =>
    rw [hw] at hm
    simp only at hm ⊢
    cases hr : rootFromCode H code with
    | error e => rw [hr] at hm; cases hm
    | ok root =>
      rw [hr] at hm
      simp only at hm ⊢
      cases hs : initialStateRoot H c.storageSlots with
      | error e => rw [hs] at hm; cases hm
      | ok sroot =>
        rw [hs] at hm
        simp only [Except.ok.injEq] at hm ⊢
        subst hm
        rfl

/-- **the cached ids are the statement's**: the metadata `precompute` caches holds the RFC 6962 root of the
statement's leaf list, the `initial_state_root` of the slots, and H(seed‖salt‖code root‖state root) -/
theorem metadata_formula (H : Bytes → Bytes) (hE : H [] = BMT.emptySum) (c c' : Create)
    (h : c.precompute H = (c', .ok ())) :
    ∃ code sroot, c.bytecode = .ok code ∧ initialStateRoot H c.storageSlots = .ok sroot ∧
      (code.length < 2 ^ 64 →
        c'.metadata = some
          { contractId := H (seedFUEL ++ c.salt ++ BMT.mth H (specLeaves code) ++ sroot),
            contractRoot := BMT.mth H (specLeaves code), stateRoot := sroot }) := by
  obtain ⟨m, hm, rfl⟩ := precompute_ok H c c' h
  unfold CreateMetadata.compute at hm
  simp only [Create.bytecode] at hm ⊢
  cases hw : c.witnesses[c.bytecodeWitnessIndex]? with
  | none => rw [hw] at hm; cases hm
  | some code =>
    rw [hw] at hm
    simp only at hm
    cases hr : rootFromCode H code with
    | error e => rw [hr] at hm; cases hm
    | ok root =>
      rw [hr] at hm
      simp only at hm
      cases hs : initialStateRoot H c.storageSlots with
      | error e => rw [hs] at hm; cases hm
      | ok sroot =>
        rw [hs] at hm
        simp only [Except.ok.injEq] at hm
        refine ⟨code, sroot, rfl, rfl, fun hlen => ?_⟩
        rw [rootFromCode_eq_mth H hE code hlen] at hr
        simp only [Except.ok.injEq] at hr
        subst hr
        subst hm
        rfl

/-- **deployment and CROO use these same values.** For a `Create` that went through `precompute`
(bytecode = the indexed witness, `code`), deploying into a storage that does not yet hold the id:
* stores the code under id = H(seed ‖ salt ‖ mth(specLeaves code) ‖ state root) (and is refused with
  `ContractIdAlreadyDeployed` exactly when that id is already present);
* stores every slot under that id (the last slot of a key wins), other contracts' state untouched;
* the `CROO` instruction on that id (listed in the inputs) then returns the code root of the stored code —
  the RFC 6962 root of the statement's leaf list, which is the cached `contract_root`. -/
theorem deploy_then_croo (H : Bytes → Bytes) (hE : H [] = BMT.emptySum) (c c' : Create) (st : Storage)
    (code : Bytes) (hcode : c.bytecode = .ok code) (hlen : code.length < 2 ^ 64)
    (h : c.precompute H = (c', .ok ())) :
    ∃ sroot, initialStateRoot H c.storageSlots = .ok sroot ∧
      let root := BMT.mth H (specLeaves code)
      let id := H (seedFUEL ++ c.salt ++ root ++ sroot)
      (st.contractExists id = true → deployInner H c' st = .error .ContractIdAlreadyDeployed) ∧
      (st.contractExists id = false →
        ∃ st', deployInner H c' st = .ok (st', id) ∧
          st'.contract id = some code ∧
          (∀ id', id' ≠ id → st'.contract id' = st.contract id') ∧
          (∀ key, st'.stateAt id key = (match lastSlot key c.storageSlots with
              | some v => some v
              | none => st.stateAt id key)) ∧
          (∀ id' key, id' ≠ id → st'.stateAt id' key = st.stateAt id' key) ∧
          (∀ inputs : List Bytes, inputs.contains id = true → codeRoot H inputs st' id = .ok root) ∧
          (∀ inputs : List Bytes, inputs.contains id = false →
            codeRoot H inputs st' id = .error .ContractNotInInputs)) := by
  obtain ⟨code', sroot, hc', hs, hmeta⟩ := metadata_formula H hE c c' h
  rw [hcode] at hc'
  simp only [Except.ok.injEq] at hc'
  subst hc'
  have hm := hmeta hlen
  obtain ⟨m, _, hc'eq⟩ := precompute_ok H c c' h
  obtain ⟨_, _, _, _, _, _, f1, f2, f3⟩ := constants_match_statement
  refine ⟨sroot, hs, ?_⟩
  have hbc : c'.bytecode = .ok code := by rw [hc'eq]; exact hcode
  have hslots : c'.storageSlots = c.storageSlots := by rw [hc'eq]
  simp only
  constructor
  · intro hex
    unfold deployInner
    simp only [hbc, hm, f1, f2, f3, CreateMetadata.get, hex, if_true]
  · intro hex
    refine ⟨st.deployContractWithId c.storageSlots code
      (H (seedFUEL ++ c.salt ++ BMT.mth H (specLeaves code) ++ sroot)), ?_, ?_, ?_, ?_, ?_, ?_, ?_⟩
    · unfold deployInner
      simp only [hbc, hm, f1, f2, f3, CreateMetadata.get, hex, hslots]
      rfl
    · simp only [Storage.contract, Storage.deployContractWithId, deploy_slots_contracts, alGet_cons_self]
    · intro id' hne
      simp only [Storage.contract, Storage.deployContractWithId, deploy_slots_contracts]
      rw [alGet_cons_ne _ _ _ _ (fun e => hne e.symm)]
    · intro key
      simp only [Storage.stateAt, Storage.deployContractWithId]
      rw [deploy_slots_state]
      cases lastSlot key c.storageSlots <;> rfl
    · intro id' key hne
      simp only [Storage.stateAt, Storage.deployContractWithId]
      rw [deploy_slots_state_other _ _ _ hne]
    · intro inputs hin
      simp only [codeRoot, hin, Bool.not_true, Bool.false_eq_true, if_false, Storage.contract,
        Storage.deployContractWithId, deploy_slots_contracts, alGet_cons_self]
      exact rootFromCode_eq_mth H hE code hlen
    · intro inputs hin
      simp only [codeRoot, hin, Bool.not_false, if_true]

/-- **CROO on any stored contract** (however it got there): the RFC 6962 root of the statement's leaf list
of the stored code; an id not in the inputs / not in storage gives the matching panic reason -/
theorem croo_eq_rootFromCode (H : Bytes → Bytes) (hE : H [] = BMT.emptySum) (inputs : List Bytes)
    (st : Storage) (id : Bytes) :
    codeRoot H inputs st id =
      (if inputs.contains id = false then .error .ContractNotInInputs
       else match st.contract id with
         | none => .error .ContractNotFound
         | some code => rootFromCode H code) ∧
    (∀ code, inputs.contains id = true → st.contract id = some code → code.length < 2 ^ 64 →
      codeRoot H inputs st id = .ok (BMT.mth H (specLeaves code))) := by
  constructor
  · unfold codeRoot
    cases inputs.contains id
    · simp
    · simp only [Bool.not_true, Bool.false_eq_true, if_false, reduceCtorEq]
      cases st.contract id <;> rfl
  · intro code hin hc hlen
    simp only [codeRoot, hin, Bool.not_true, Bool.false_eq_true, if_false, hc]
    exact rootFromCode_eq_mth H hE code hlen

/-- `precompute` fails only with the bytecode-witness-index error (never a panic), exactly when the index
is out of range — provided the state root computation succeeds (it does under `FromSetStatement`) -/
theorem precompute_error (H : Bytes → Bytes) (hE : H [] = BMT.emptySum) (c : Create)
    (hw : ∀ w ∈ c.witnesses, w.length < 2 ^ 64)
    (hs : ∃ r, initialStateRoot H c.storageSlots = .ok r) :
    (c.witnesses.length ≤ c.bytecodeWitnessIndex →
      c.precompute H = ({ c with metadata := none }, .error .TransactionCreateBytecodeWitnessIndex)) ∧
    (c.bytecodeWitnessIndex < c.witnesses.length → ∃ c', c.precompute H = (c', .ok ())) := by
  obtain ⟨r, hr⟩ := hs
  constructor
  · intro hi
    have : c.witnesses[c.bytecodeWitnessIndex]? = none := List.getElem?_eq_none hi
    simp only [Create.precompute, CreateMetadata.compute, Create.bytecode, this]
  · intro hi
    have hget : c.witnesses[c.bytecodeWitnessIndex]? = some c.witnesses[c.bytecodeWitnessIndex] :=
      List.getElem?_eq_getElem hi
    have hl := hw _ (List.getElem_mem hi)
    simp only [Create.precompute, CreateMetadata.compute, Create.bytecode, hget,
      rootFromCode_eq_mth H hE _ hl, hr]
    exact ⟨_, rfl⟩

/-- **all four identifiers of a Create at once** (hypothesis-free for 32-byte hashes): `precompute` fails only
with the witness-index error; otherwise the cached metadata is
(H("FUEL"‖salt‖code root‖state root), code root = mth of the statement's leaves, state root = compact sparse
root of the slots keyed by H(key)) -/
theorem create_ids_spec (H : Bytes → Bytes) (hE : H [] = BMT.emptySum) (hl : ∀ x, (H x).length = Gen.Sparse.keyBytes)
    (c : Create) (hw : ∀ w ∈ c.witnesses, w.length < 2 ^ 64) :
    (c.witnesses.length ≤ c.bytecodeWitnessIndex →
      c.precompute H = ({ c with metadata := none }, .error .TransactionCreateBytecodeWitnessIndex)) ∧
    (∀ code, c.witnesses[c.bytecodeWitnessIndex]? = some code →
      ∃ sroot c', Smt.specRoot SmtBytes.bitOf (SmtBytes.hashes H) 256 0 (slotMap H c.storageSlots) = some sroot ∧
        c.precompute H = (c', .ok ()) ∧
        c'.metadata = some
          { contractId := H (seedFUEL ++ c.salt ++ BMT.mth H (specLeaves code) ++ sroot),
            contractRoot := BMT.mth H (specLeaves code), stateRoot := sroot }) := by
  obtain ⟨r, hr1, hr2⟩ := stateRoot_spec H hl c.storageSlots
  have hpe := precompute_error H hE c hw ⟨r, hr2⟩
  refine ⟨hpe.1, fun code hcode => ?_⟩
  have hi : c.bytecodeWitnessIndex < c.witnesses.length := by
    by_cases h : c.bytecodeWitnessIndex < c.witnesses.length
    · exact h
    · rw [List.getElem?_eq_none (by omega)] at hcode; cases hcode
  obtain ⟨c', hc'⟩ := hpe.2 hi
  obtain ⟨code', sroot, hb, hs, hm⟩ := metadata_formula H hE c c' hc'
  have e1 : code' = code := by
    simp only [Create.bytecode, hcode, Except.ok.injEq] at hb
    exact hb.symm
  have e2 : sroot = r := by
    rw [hr2] at hs
    exact (Except.ok.inj hs).symm
  subst e1; subst e2
  have hmem : code' ∈ c.witnesses := List.mem_of_getElem? hcode
  exact ⟨sroot, c', hr1, hc', hm (hw code' hmem)⟩

/-! ## the announced identifiers: the `ContractCreated` clause of the Create validity rules -/

/-- the regenerated `DoesntMatch` guard joins its two inequalities with `||` -/
theorem create_guard_is_or : Gen.Contract.createGuardIsOr = true := by decide

/-- the clause accepts an announced pair exactly when BOTH fields equal the calculated ones -/
theorem createOutputOk_iff (m : CreateMetadata) (cid sr : Bytes) :
    createOutputOk m cid sr = true ↔ cid = m.contractId ∧ sr = m.stateRoot := by
  simp only [createOutputOk, createOutputMismatch, create_guard_is_or, if_true]
  by_cases h1 : cid = m.contractId <;> by_cases h2 : sr = m.stateRoot <;> simp [h1, h2]

theorem createOutputsLoop_others (idCalc srCalc : Bytes) : ∀ (pre rest : List Output) (created : Bool),
    (∀ o ∈ pre, o = .other) →
    createOutputsLoop idCalc srCalc created (pre ++ rest) = createOutputsLoop idCalc srCalc created rest
  | [], _, _, _ => rfl
  | o :: pre, rest, created, h => by
    have ho : o = .other := h o (List.mem_cons_self ..)
    subst ho
    simp only [List.cons_append, createOutputsLoop]
    exact createOutputsLoop_others idCalc srCalc pre rest created (fun o' ho' => h o' (List.mem_cons_of_mem _ ho'))

/-- **`create_output_accepted_iff`.** For a `Create` that went through `precompute` (as `into_checked` does) and
whose outputs contain one `ContractCreated { contract_id, state_root }` among outputs the other arms let pass:
the validity clause accepts it if and only if BOTH announced fields equal the cached (= formula) values. One
wrong field is enough for `TransactionCreateOutputContractCreatedDoesntMatch`. -/
theorem create_output_accepted_iff (H : Bytes → Bytes) (c' : Create) (m : CreateMetadata)
    (hm : c'.metadata = some m) (pre post : List Output) (hpre : ∀ o ∈ pre, o = .other)
    (hpost : ∀ o ∈ post, o = .other) (cid sr : Bytes) :
    (c'.checkOutputs H (pre ++ .contractCreated cid sr :: post) = .ok () ↔
      (cid = m.contractId ∧ sr = m.stateRoot)) ∧
    (¬ (cid = m.contractId ∧ sr = m.stateRoot) →
      c'.checkOutputs H (pre ++ .contractCreated cid sr :: post) =
        .error .TransactionCreateOutputContractCreatedDoesntMatch) := by
  have hok := createOutputOk_iff m cid sr
  have hpost' : createOutputsLoop m.contractId m.stateRoot true post = .ok true := by
    have := createOutputsLoop_others m.contractId m.stateRoot post [] true hpost
    rw [List.append_nil] at this
    rw [this]; rfl
  simp only [Create.checkOutputs, hm]
  rw [createOutputsLoop_others _ _ pre _ false hpre]
  simp only [createOutputsLoop]
  simp only [createOutputOk] at hok
  cases hmm : createOutputMismatch m.contractId m.stateRoot cid sr with
  | true =>
    rw [hmm] at hok
    simp only [Bool.not_true, Bool.false_eq_true, false_iff] at hok
    refine ⟨⟨fun h => ?_, fun h => absurd h hok⟩, fun _ => ?_⟩
    · simp at h
    · simp
  | false =>
    rw [hmm] at hok
    simp only [Bool.not_false, true_iff] at hok
    refine ⟨⟨fun _ => hok, fun _ => ?_⟩, fun h => absurd hok h⟩
    simp [hpost']

theorem createOutputsLoop_sound (idCalc srCalc : Bytes) : ∀ (outs : List Output) (created b : Bool),
    createOutputsLoop idCalc srCalc created outs = .ok b →
    ∀ cid sr, Output.contractCreated cid sr ∈ outs → createOutputMismatch idCalc srCalc cid sr = false
  | [], _, _, _, _, _, hmem => by cases hmem
  | .other :: rest, created, b, h, cid, sr, hmem => by
    simp only [createOutputsLoop] at h
    rcases List.mem_cons.mp hmem with e | hm
    · cases e
    · exact createOutputsLoop_sound idCalc srCalc rest created b h cid sr hm
  | .contractCreated cid' sr' :: rest, created, b, h, cid, sr, hmem => by
    simp only [createOutputsLoop] at h
    cases hmm : createOutputMismatch idCalc srCalc cid' sr' with
    | true => rw [hmm] at h; simp at h
    | false =>
      rw [hmm] at h
      simp only [Bool.false_eq_true, ↓reduceIte] at h
      cases created with
      | true => simp at h
      | false =>
        simp only [Bool.false_eq_true, ↓reduceIte] at h
        rcases List.mem_cons.mp hmem with e | hm
        · cases e; exact hmm
        · exact createOutputsLoop_sound idCalc srCalc rest true b h cid sr hm

/-- **what an accepted Create announces, and where it is deployed** (any output list): if `into_checked`
(`precompute` + the clause) accepts the transaction with bytecode `code`, then EVERY `ContractCreated` output
announces contract id = H("FUEL"‖salt‖mth(specLeaves code)‖state root) and state root = `initial_state_root`
of the slots, there is such an output, and `deploy_inner` — when it succeeds — stores the code under exactly the
announced id. -/
theorem create_accepted_announces_formula (H : Bytes → Bytes) (hE : H [] = BMT.emptySum) (c c' : Create)
    (outs : List Output) (code : Bytes) (hcode : c.bytecode = .ok code) (hlen : code.length < 2 ^ 64)
    (hacc : c.intoChecked H outs = .ok c') :
    ∃ sroot, initialStateRoot H c.storageSlots = .ok sroot ∧
      (∃ cid sr, Output.contractCreated cid sr ∈ outs) ∧
      (∀ cid sr, Output.contractCreated cid sr ∈ outs →
        cid = H (seedFUEL ++ c.salt ++ BMT.mth H (specLeaves code) ++ sroot) ∧ sr = sroot ∧
        ∀ st st' id, deployInner H c' st = .ok (st', id) → id = cid ∧ st'.contract cid = some code) := by
  unfold Create.intoChecked at hacc
  cases hp : c.precompute H with
  | mk c1 r =>
    rw [hp] at hacc
    cases r with
    | error e => simp at hacc
    | ok u =>
      cases u
      simp only at hacc
      cases hco : c1.checkOutputs H outs with
      | error e => rw [hco] at hacc; simp at hacc
      | ok u2 =>
        rw [hco] at hacc
        simp only [Except.ok.injEq] at hacc
        subst hacc
        obtain ⟨code', sroot, hb, hs, hmeta⟩ := metadata_formula H hE c c1 hp
        rw [hcode] at hb
        simp only [Except.ok.injEq] at hb
        subst hb
        have hm := hmeta hlen
        refine ⟨sroot, hs, ?_, ?_⟩
        · -- the final test of the clause: some ContractCreated output exists
          simp only [Create.checkOutputs, hm] at hco
          cases hl : createOutputsLoop (H (seedFUEL ++ c.salt ++ BMT.mth H (specLeaves code) ++ sroot)) sroot false outs with
          | error e => rw [hl] at hco; simp at hco
          | ok b =>
            rw [hl] at hco
            cases b with
            | false => simp at hco
            | true =>
              -- the flag can only have been set by a ContractCreated output
              have key : ∀ (os : List Output) (cr : Bool) idc src,
                  createOutputsLoop idc src cr os = .ok true → cr = true ∨ ∃ cid sr, Output.contractCreated cid sr ∈ os := by
                intro os
                induction os with
                | nil => intro cr idc src h; simp only [createOutputsLoop, Except.ok.injEq] at h; exact Or.inl h
                | cons o os ih =>
                  intro cr idc src h
                  cases o with
                  | other =>
                    simp only [createOutputsLoop] at h
                    rcases ih cr idc src h with h1 | ⟨cid, sr, h2⟩
                    · exact Or.inl h1
                    · exact Or.inr ⟨cid, sr, List.mem_cons_of_mem _ h2⟩
                  | contractCreated cid sr => exact Or.inr ⟨cid, sr, List.mem_cons_self ..⟩
              rcases key outs false _ _ hl with h | h
              · cases h
              · exact h
        · intro cid sr hmem
          simp only [Create.checkOutputs, hm] at hco
          cases hl : createOutputsLoop (H (seedFUEL ++ c.salt ++ BMT.mth H (specLeaves code) ++ sroot)) sroot false outs with
          | error e => rw [hl] at hco; simp at hco
          | ok b =>
            have hmis := createOutputsLoop_sound _ _ outs false b hl cid sr hmem
            have hok := (createOutputOk_iff
              { contractId := H (seedFUEL ++ c.salt ++ BMT.mth H (specLeaves code) ++ sroot),
                contractRoot := BMT.mth H (specLeaves code), stateRoot := sroot } cid sr).mp
              (by simp only [createOutputOk, hmis, Bool.not_false])
            refine ⟨hok.1, hok.2, ?_⟩
            intro st st' id hd
            obtain ⟨_, _, _, _, _, _, f1, f2, f3⟩ := constants_match_statement
            obtain ⟨m', _, hc1eq⟩ := precompute_ok H c c1 hp
            have hbc : c1.bytecode = .ok code := by rw [hc1eq]; exact hcode
            unfold deployInner at hd
            simp only [hbc, hm, f1, f2, f3, CreateMetadata.get] at hd
            split at hd
            · cases hd
            · simp only [Except.ok.injEq, Prod.mk.injEq] at hd
              obtain ⟨hst, hid⟩ := hd
              subst hid
              refine ⟨hok.1.symm, ?_⟩
              rw [hok.1, ← hst]
              simp only [Storage.contract, Storage.deployContractWithId, deploy_slots_contracts, alGet_cons_self]

/-! ## non-vacuity: concrete instances (toy hash with `H [] = emptySum`; small chunk sizes evaluated by the kernel) -/

def toyH : Bytes → Bytes := BMT.toyHash

example : toyH [] = BMT.emptySum := rfl

/-- 16385 bytes: two leaves (one full chunk and a 1-byte remainder padded to 8) -/
example : rootFromCode toyH (List.replicate 16385 7) =
    .ok (BMT.mth toyH (specLeaves (List.replicate 16385 7))) :=
  rootFromCode_eq_mth toyH rfl _ (by simp only [List.length_replicate]; omega)
example : (specLeaves (List.replicate 16385 7)).length = 2 := by
  rw [specLeaves_length]; simp only [List.length_replicate]

/-- the model itself, evaluated by the kernel at chunk size 4 / multiple 2: 9 bytes → chunks 4, 4, 1(+1 pad) -/
example : rootFromCodeWith 4 2 0 toyH [1, 2, 3, 4, 5, 6, 7, 8, 9] =
    .ok [1, 1, 0, 1, 2, 3, 4, 0, 5, 6, 7, 8, 0, 9, 0] := by decide
example : rootFromCodeWith 4 2 0 toyH [1, 2, 3, 4, 5, 6, 7, 8, 9] =
    .ok (BMT.mth toyH [[1, 2, 3, 4], [5, 6, 7, 8], [9, 0]]) :=
  rootFromCodeWith_eq_mth 4 2 0 (by decide) (by decide) (by decide) toyH rfl _ (by decide)
example : specLeavesWith 4 2 0 [1, 2, 3, 4, 5, 6, 7, 8, 9] = [[1, 2, 3, 4], [5, 6, 7, 8], [9, 0]] := by decide
/-- length a multiple of the chunk size: nothing padded; empty code: no leaves, root = H "" -/
example : specLeavesWith 4 2 0 [1, 2, 3, 4, 5, 6, 7, 8] = [[1, 2, 3, 4], [5, 6, 7, 8]] := by decide
example : rootFromCode toyH [] = .ok BMT.emptySum := by
  rw [rootFromCode_eq_mth toyH rfl [] (by simp), show specLeaves [] = [] from rfl, BMT.mth]; rfl
/-- remainder already a multiple of `M`: not padded -/
example : specLeavesWith 4 2 0 [1, 2, 3, 4, 5, 6] = [[1, 2, 3, 4], [5, 6]] := by decide

/-- a Create with bytecode witness `[1,2,3]`, no slots, deployed into an empty storage, then CROO -/
def demoCreate : Create :=
  { bytecodeWitnessIndex := 1, salt := List.replicate 32 9, storageSlots := [], witnesses := [[], [1, 2, 3]] }

example : ∃ c', demoCreate.precompute toyH = (c', .ok ()) :=
  (precompute_error toyH rfl demoCreate (by decide) ⟨_, (stateRoot_empty toyH).1⟩).2 (by decide)

example : (demoCreate.precompute toyH).1.metadata = some
    { contractId := seedFUEL ++ List.replicate 32 9 ++ [0, 1, 2, 3, 0, 0, 0, 0, 0] ++ List.replicate 32 0,
      contractRoot := [0, 1, 2, 3, 0, 0, 0, 0, 0], stateRoot := List.replicate 32 0 } := by decide

example : ∃ st' id, deployInner toyH (demoCreate.precompute toyH).1 {} = .ok (st', id) ∧
    codeRoot toyH [id] st' id = .ok [0, 1, 2, 3, 0, 0, 0, 0, 0] ∧ st'.contract id = some [1, 2, 3] :=
  ⟨_, _, rfl, rfl, rfl⟩

/-- the wrong witness index is the validity error, not a panic -/
example : ({ demoCreate with bytecodeWitnessIndex := 2 } : Create).precompute toyH =
    ({ demoCreate with bytecodeWitnessIndex := 2 }, .error .TransactionCreateBytecodeWitnessIndex) := rfl

/-- the clause on the demo Create: the right pair is accepted, each single wrong field is `DoesntMatch` -/
def demoId : Bytes := seedFUEL ++ List.replicate 32 9 ++ [0, 1, 2, 3, 0, 0, 0, 0, 0] ++ List.replicate 32 0
example : (demoCreate.precompute toyH).1.checkOutputs toyH [.other, .contractCreated demoId (List.replicate 32 0)] = .ok () := by decide
example : (demoCreate.precompute toyH).1.checkOutputs toyH [.contractCreated (0 :: demoId) (List.replicate 32 0), .other] =
    .error .TransactionCreateOutputContractCreatedDoesntMatch := by decide
example : (demoCreate.precompute toyH).1.checkOutputs toyH [.contractCreated demoId (List.replicate 32 1)] =
    .error .TransactionCreateOutputContractCreatedDoesntMatch := by decide
example : (demoCreate.precompute toyH).1.checkOutputs toyH [.other] = .error .TransactionOutputDoesntContainContractCreated := by decide
example : (demoCreate.precompute toyH).1.checkOutputs toyH
    [.contractCreated demoId (List.replicate 32 0), .contractCreated demoId (List.replicate 32 0)] =
    .error .TransactionCreateOutputContractCreatedMultiple := by decide

/-- predicate owner of the 3-byte predicate under the toy hash; a different owner is rejected by both guards -/
example : predicateOwner toyH [1, 2, 3] = .ok (seedFUEL ++ [0, 1, 2, 3, 0, 0, 0, 0, 0]) := by decide
example : checkPredicateOwnerVm toyH [1] [1, 2, 3] = .error .InvalidOwner := by decide
example : checkPredicateOwnerTx toyH (seedFUEL ++ [0, 1, 2, 3, 0, 0, 0, 0, 0]) [1, 2, 3] = .ok () := by decide

end FuelVerif.Ids
