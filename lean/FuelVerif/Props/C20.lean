/-
C20 — Only authorized inputs survive signature and predicate checks.

  "A fully checked transaction contains signed inputs only if the witness they reference recovers to their
   owner over the transaction id, and predicate inputs only if their owner is the predicate's address and the
   predicate returned true using exactly its declared gas; changing any signed content of an accepted
   transaction makes signature checking fail. Predicate estimation sets each predicate's gas so that
   verification of the estimated transaction succeeds whenever estimation succeeded, and sequential and
   parallel predicate checking return the same verdict and total gas."

Model: `Model/Auth.lean` (transcription of `Input::check_signature`, `check_signatures`, `check_predicate`,
`run_predicates`, `run_predicate_async`, `finalize_check_predicate`). Parameters of every theorem (never
assumed to have any property unless a hypothesis says so): `recover` (ECDSA recovery of a witness over a
message), `predOwner` (predicate root), `H` (SHA-256 of the id preimage), `vm` (one run of the predicate VM),
`maxGas` (`Chargeable::max_gas` as a function of the inputs).

What is proved, for all transactions / witnesses / predicate VMs / completion orders:
 * the recovery cache is transparent (same verdict, same error, same index);
 * signature checking succeeds IFF every signed input's witness recovers to its owner over the id and every
   predicate input's owner is the predicate root;
 * tamper detection, given that the id hash is injective and that one signature does not recover to the same
   address over two different messages (both explicit hypotheses);
 * predicate checking succeeds with total `g` IFF max_gas fits, every predicate has the right owner, its VM run
   with exactly the declared gas returned true with no gas left, and `g` is the (non-overflowing) sum;
 * parallel checking with ANY completion order returns the same verdict and total as sequential checking;
 * estimate-then-verify (sequential estimation), under the two hypotheses the statement silently needs:
   every predicate has the right owner and returned true during estimation (`EstGood`), and the VM is gas-exact
   (`GasExact`). WITHOUT them the sentence of the property is false on the current code — witnesses below
   (`estimate_then_verify_literal_false_*`), replayed on the real VM by the harness (known findings).
-/
import FuelVerif.Lemmas.Auth
import FuelVerif.Gen.Predicates
namespace FuelVerif.C20
open FuelVerif.Auth

variable (recover : Bytes → Bytes → Option Addr) (predOwner : Bytes → Addr) (H : Bytes → Bytes)

/-! ### signatures -/

/-- the recovery cache never changes the outcome of `check_signatures` (same `Ok`, same error and index) -/
theorem cache_transparent (chainId : Nat) (tx : Tx) :
    checkSignatures recover predOwner H chainId tx = checkSignaturesNoCache recover predOwner H chainId tx := by
  unfold checkSignatures checkSignaturesNoCache
  have hc : CacheOk recover (txId H chainId tx) tx.witnesses [] := by intro k a hm; cases hm
  rcases checkFrom_cache recover predOwner (txId H chainId tx) tx.witnesses tx.inputs 0 [] hc with
    ⟨e, h1, h2⟩ | ⟨c', h1, h2⟩
  · rw [h1, h2]
  · rw [h1, h2]

/-- `check_signatures` succeeds exactly when every input is authorised: each signed input's witness exists and
recovers to the input's owner over the transaction id; each predicate input is owned by its predicate root -/
theorem check_signatures_ok_iff (chainId : Nat) (tx : Tx) :
    checkSignatures recover predOwner H chainId tx = .ok () ↔
      ∀ inp ∈ tx.inputs, Authorised recover predOwner (txId H chainId tx) tx.witnesses inp := by
  rw [cache_transparent]
  unfold checkSignaturesNoCache
  rw [← checkFrom_none_ok_iff recover predOwner (txId H chainId tx) tx.witnesses tx.inputs 0]
  cases hx : checkFrom recover predOwner (txId H chainId tx) tx.witnesses tx.inputs 0 none with
  | error e => simp
  | ok c =>
    have := checkFrom_none_result recover predOwner _ _ _ _ c hx
    subst this; simp

/-- the first sentence of the property for signed inputs -/
theorem signed_input_authorised (chainId : Nat) (tx : Tx)
    (hok : checkSignatures recover predOwner H chainId tx = .ok ()) (owner : Addr) (widx : Nat)
    (hin : Input.signed owner widx ∈ tx.inputs) :
    ∃ w, tx.witnesses[widx]? = some w ∧ recover w (txId H chainId tx) = some owner :=
  (check_signatures_ok_iff recover predOwner H chainId tx).1 hok _ hin

/-- … and for predicate inputs (owner part; the run part is `checked_predicates_authorised`) -/
theorem predicate_input_owner (chainId : Nat) (tx : Tx)
    (hok : checkSignatures recover predOwner H chainId tx = .ok ()) (owner : Addr) (code : Bytes) (g : Nat)
    (hin : Input.predicate owner code g ∈ tx.inputs) : owner = predOwner code :=
  (check_signatures_ok_iff recover predOwner H chainId tx).1 hok _ hin

/-- Tamper detection. Hypotheses (cryptographic, explicit): `H` is injective on id preimages, and a signature
recovering to one address over two messages forces the messages to be equal. If an accepted transaction's signed
content (or chain id) changes so that the id preimage changes, while the witnesses and at least one signed input
(owner, witness index) are kept, signature checking fails. -/
theorem tamper_detected
    (hH : ∀ a b, H a = H b → a = b)
    (hRec : ∀ w m m' a, recover w m = some a → recover w m' = some a → m = m')
    (chainId chainId' : Nat) (tx tx' : Tx)
    (hok : checkSignatures recover predOwner H chainId tx = .ok ())
    (hchg : natBE 8 chainId' ++ tx'.content ≠ natBE 8 chainId ++ tx.content)
    (hw : tx'.witnesses = tx.witnesses)
    (owner : Addr) (widx : Nat) (h1 : Input.signed owner widx ∈ tx.inputs) (h2 : Input.signed owner widx ∈ tx'.inputs) :
    checkSignatures recover predOwner H chainId' tx' ≠ .ok () := by
  intro hok'
  obtain ⟨w, hw1, hr1⟩ := signed_input_authorised recover predOwner H chainId tx hok owner widx h1
  obtain ⟨w', hw2, hr2⟩ := signed_input_authorised recover predOwner H chainId' tx' hok' owner widx h2
  rw [hw, hw1] at hw2
  cases hw2
  have := hRec w _ _ owner hr1 hr2
  exact hchg (hH _ _ this.symm)

/-! ### the checked-transaction entry: the id used is the id of the CURRENT content -/

/-- whatever the metadata cache held before (nothing, the right id, or a stale id left behind by a public field
mutator), after `precompute` the object's id is the id of its current content -/
theorem precompute_id_current (chainId : Nat) (tx : Tx) (cache : Option Bytes) :
    idOf H chainId (precompute H chainId ⟨tx, cache⟩) = txId H chainId tx := by
  simp [precompute, idOf]

/-- `into_checked_basic(..)?.check_signatures(..)` gives, for EVERY prior cache state, the verdict of checking the
signatures over the id of the content as it is now; and the `Checked` object's id is that id -/
theorem into_checked_uses_current_id (chainId : Nat) (tx : Tx) (cache : Option Bytes) :
    intoCheckedSignatures recover predOwner H chainId true ⟨tx, cache⟩ =
      some ((checkSignatures recover predOwner H chainId tx).map (fun _ => ⟨tx, some (txId H chainId tx)⟩)) := by
  unfold intoCheckedSignatures checkSignaturesObj checkSignatures
  simp only [precompute_id_current, Bool.not_true, Bool.false_eq_true, if_false]
  cases hx : checkFrom recover predOwner (txId H chainId tx) tx.witnesses tx.inputs 0 (some []) <;>
    simp [precompute, idOf, Except.map, hx]

/-- hence the tamper theorem holds for objects with any (stale) cache: an accepted object whose signed content is
changed through the field mutators without re-signing is rejected by the next `into_checked` -/
theorem recheck_detects_tamper
    (hH : ∀ a b, H a = H b → a = b)
    (hRec : ∀ w m m' a, recover w m = some a → recover w m' = some a → m = m')
    (chainId : Nat) (tx tx' : Tx) (cache cache' : Option Bytes) (t1 : CachedTx)
    (hok : intoCheckedSignatures recover predOwner H chainId true ⟨tx, cache⟩ = some (.ok t1))
    (hchg : tx'.content ≠ tx.content) (hw : tx'.witnesses = tx.witnesses)
    (owner : Addr) (widx : Nat) (h1 : Input.signed owner widx ∈ tx.inputs) (h2 : Input.signed owner widx ∈ tx'.inputs) :
    ∀ t2, intoCheckedSignatures recover predOwner H chainId true ⟨tx', cache'⟩ ≠ some (.ok t2) := by
  intro t2 hok'
  rw [into_checked_uses_current_id] at hok hok'
  have a : checkSignatures recover predOwner H chainId tx = .ok () := by
    cases hx : checkSignatures recover predOwner H chainId tx with
    | error e => rw [hx] at hok; simp [Except.map] at hok
    | ok u => rfl
  have b : checkSignatures recover predOwner H chainId tx' = .ok () := by
    cases hx : checkSignatures recover predOwner H chainId tx' with
    | error e => rw [hx] at hok'; simp [Except.map] at hok'
    | ok u => rfl
  refine tamper_detected recover predOwner H hH hRec chainId chainId tx tx' a ?_ hw owner widx h1 h2 b
  intro he
  exact hchg (List.append_cancel_left he)

/-- the order matters: WITHOUT the unconditional precompute a stale cached id lets a modified content through
(witness: the cached id is the one the witness was signed over; the content has changed) -/
example : checkSignaturesObj (fun w m => if m = [9] then (match w with | [k] => some [k, k] | _ => none) else none)
      (fun c => c) (fun b => b) 0 ⟨{ content := [6, 6, 6], inputs := [.signed [7, 7] 0], witnesses := [[7]] }, some [9]⟩ = .ok () ∧
    intoCheckedSignatures (fun w m => if m = [9] then (match w with | [k] => some [k, k] | _ => none) else none)
      (fun c => c) (fun b => b) 0 true ⟨{ content := [6, 6, 6], inputs := [.signed [7, 7] 0], witnesses := [[7]] }, some [9]⟩
      = some (.error (.InputInvalidSignature 0)) := by
  constructor <;> decide

/-- obligation on the translator's extraction: each of the six `into_checked_basic` bodies starts with the steps the
model assumes, in that order -/
theorem into_checked_order :
    Gen.Predicates.intoCheckedBasicSteps.length = 6 ∧
    Gen.Predicates.intoCheckedBasicSteps.all (fun r => r.2 == intoCheckedOrder) = true ∧
    Gen.Predicates.precomputeClearsFirst.length = 6 := by decide

/-! ### predicates -/

variable (maxGas : List Input → Nat) (p : Params)

/-- Sequential and parallel predicate CHECKING agree for every completion order: `order` is any reordering of
the task results (`E::execute_tasks` may return them in any permutation). Same verdict, same total gas. -/
theorem parallel_eq_sequential (vm : List Input → Vm) (order : Checks → Checks)
    (hperm : ∀ l, (order l).Perm l) (inputs : List Input) (g : Nat) :
    checkPredicatesAsync predOwner maxGas p vm order inputs = .ok g ↔
      checkPredicates predOwner maxGas p vm inputs = .ok g := by
  unfold checkPredicatesAsync checkPredicates runPredicatesAsync runPredicates finalize
  simp only [Bool.false_eq_true, if_false, runLoop_verifying_eq]
  split
  · simp
  · exact accumulate_ok_perm (hperm _) g

/-- corollary in the form "same verdict": one succeeds iff the other does -/
theorem parallel_eq_sequential_verdict (vm : List Input → Vm) (order : Checks → Checks)
    (hperm : ∀ l, (order l).Perm l) (inputs : List Input) :
    (∃ g, checkPredicatesAsync predOwner maxGas p vm order inputs = .ok g) ↔
      (∃ g, checkPredicates predOwner maxGas p vm inputs = .ok g) := by
  constructor <;> rintro ⟨g, h⟩ <;> exact ⟨g, by
    first
      | exact (parallel_eq_sequential predOwner maxGas p vm order hperm inputs g).1 h
      | exact (parallel_eq_sequential predOwner maxGas p vm order hperm inputs g).2 h⟩

/-- what a successful verification task list says about each predicate input (by position) -/
theorem asyncTasks_allOk (vm : Vm) (ins : List Input) (index : Nat)
    (h : AllOk (asyncTasks predOwner vm .verifying ins index)) (k : Nat) (o : Addr) (c : Bytes) (g : Nat)
    (hk : ins[k]? = some (.predicate o c g)) :
    o = predOwner c ∧ vm .verification (index + k) g = .done 0 .returnOne := by
  induction ins generalizing index k with
  | nil => simp at hk
  | cons inp rest ih =>
    cases k with
    | succ k' =>
      have hk' : rest[k']? = some (.predicate o c g) := by simpa using hk
      have hrest : AllOk (asyncTasks predOwner vm .verifying rest (index + 1)) := by
        cases inp with
        | predicate o' c' g' =>
          intro x hx; apply h; simp only [asyncTasks]; exact List.mem_cons_of_mem _ hx
        | signed _ _ => simpa [asyncTasks] using h
        | contract => simpa [asyncTasks] using h
      have := ih (index + 1) hrest k' hk'
      rwa [show index + 1 + k' = index + (k' + 1) by omega] at this
    | zero =>
      simp at hk; subst hk
      have h0 := h _ (by simp only [asyncTasks]; exact List.mem_cons_self ..)
      obtain ⟨g0, hg0⟩ := h0
      simp only [checkPredicate] at hg0
      by_cases ho : o = predOwner c
      · refine ⟨ho, ?_⟩
        simp only [ho, ne_eq, not_true_eq_false, and_false, if_false] at hg0
        cases hv : vm .verification index g with
        | initErr e => rw [hv] at hg0; simp [Except.map] at hg0
        | done r res =>
          rw [hv] at hg0
          simp only [] at hg0
          by_cases hr : r > g
          · simp [hr, Except.map] at hg0
          · simp only [hr, if_false] at hg0
            cases res with
            | err e => simp [Except.map] at hg0
            | okOther => simp [Except.map] at hg0
            | returnOne =>
              by_cases hz : r = 0
              · subst hz; simp
              · simp [hz, Except.map] at hg0
      · simp [ho, Except.map] at hg0

/-- A transaction that passed predicate checking contains predicate inputs only if their owner is the
predicate's address and the predicate returned true using exactly its declared gas (no gas left);
moreover `max_gas` fits the per-transaction limit and the reported total is the sum of the declared gas. -/
theorem checked_predicates_authorised (vm : List Input → Vm) (inputs : List Input) (g : Nat)
    (hok : checkPredicates predOwner maxGas p vm inputs = .ok g) :
    maxGas inputs ≤ p.maxGasPerTx ∧
    (∀ k o c gas, inputs[k]? = some (.predicate o c gas) →
      o = predOwner c ∧ vm (stripGas inputs) .verification k gas = .done 0 .returnOne) ∧
    g = total (asyncTasks predOwner (vm (stripGas inputs)) .verifying inputs 0) ∧ g ≤ wordMax := by
  unfold checkPredicates runPredicates finalize at hok
  simp only [Bool.false_eq_true, if_false, runLoop_verifying_eq] at hok
  split at hok
  · cases hok
  · rename_i hmg
    rw [accumulate_ok_iff _ 0 g (by simp [wordMax])] at hok
    obtain ⟨hall, hle, hg⟩ := hok
    refine ⟨Nat.le_of_not_gt hmg, ?_, by omega, by omega⟩
    intro k o c gas hk
    have := asyncTasks_allOk predOwner (vm (stripGas inputs)) inputs 0 hall k o c gas hk
    simpa using this

/-- sum of the declared `predicate_gas_used` -/
def declaredSum : List Input → Nat
  | [] => 0
  | .predicate _ _ g :: rest => g + declaredSum rest
  | _ :: rest => declaredSum rest

/-- when every predicate input has the right owner and runs to true with exactly its declared gas, the task list is
`Ok(declared gas)` for each of them -/
theorem asyncTasks_of_good (vm : Vm) (ins : List Input) (index : Nat)
    (h : ∀ k o c gas, ins[k]? = some (.predicate o c gas) →
      o = predOwner c ∧ vm .verification (index + k) gas = .done 0 .returnOne) :
    AllOk (asyncTasks predOwner vm .verifying ins index) ∧
    total (asyncTasks predOwner vm .verifying ins index) = declaredSum ins := by
  induction ins generalizing index with
  | nil =>
    refine ⟨?_, rfl⟩
    intro x hx
    simp [asyncTasks] at hx
  | cons inp rest ih =>
    have hrest : ∀ k o c gas, rest[k]? = some (.predicate o c gas) →
        o = predOwner c ∧ vm .verification (index + 1 + k) gas = .done 0 .returnOne := by
      intro k o c gas hk
      have := h (k + 1) o c gas (by simpa using hk)
      rwa [show index + (k + 1) = index + 1 + k by omega] at this
    obtain ⟨ih1, ih2⟩ := ih (index + 1) hrest
    cases inp with
    | signed o w => simpa [asyncTasks, declaredSum] using ⟨ih1, ih2⟩
    | contract => simpa [asyncTasks, declaredSum] using ⟨ih1, ih2⟩
    | predicate o c g =>
      obtain ⟨ho, hv⟩ := h 0 o c g (by simp)
      have hv' : vm .verification index g = .done 0 .returnOne := by simpa using hv
      have hcp : checkPredicate predOwner vm .verifying index o c g = (g, .ok ()) := by
        simp [checkPredicate, ho, hv']
      simp only [asyncTasks, hcp, Except.map, declaredSum]
      constructor
      · intro x hx
        rcases List.mem_cons.1 hx with he | he
        · subst he; exact ⟨g, rfl⟩
        · exact ih1 x he
      · simp [total, gasOf] at ih2 ⊢
        omega

/-- `check_predicates` succeeds with total `g` EXACTLY when max_gas fits the limit, every predicate input is owned by
its predicate root and returned true using exactly its declared gas, and `g` is the (non-overflowing) sum -/
theorem check_predicates_ok_iff (vm : List Input → Vm) (inputs : List Input) (g : Nat) :
    checkPredicates predOwner maxGas p vm inputs = .ok g ↔
      maxGas inputs ≤ p.maxGasPerTx ∧
      (∀ k o c gas, inputs[k]? = some (.predicate o c gas) →
        o = predOwner c ∧ vm (stripGas inputs) .verification k gas = .done 0 .returnOne) ∧
      g = declaredSum inputs ∧ g ≤ wordMax := by
  constructor
  · intro hok
    obtain ⟨h1, h2, h3, h4⟩ := checked_predicates_authorised predOwner maxGas p vm inputs g hok
    refine ⟨h1, h2, ?_, h4⟩
    rw [h3]
    exact (asyncTasks_of_good predOwner (vm (stripGas inputs)) inputs 0 (by simpa using h2)).2
  · rintro ⟨h1, h2, h3, h4⟩
    obtain ⟨ha, ht⟩ := asyncTasks_of_good predOwner (vm (stripGas inputs)) inputs 0 (by simpa using h2)
    unfold checkPredicates runPredicates finalize
    simp only [Bool.false_eq_true, if_false, runLoop_verifying_eq]
    have : ¬ maxGas inputs > p.maxGasPerTx := by omega
    simp only [this, if_false]
    rw [accumulate_ok_iff _ 0 g (by simp [wordMax])]
    exact ⟨ha, by omega, by omega⟩

/-- Estimate-then-verify, sequential estimation. If estimation succeeded with total `g`, every predicate has the
right owner and returned true during estimation (`EstGood`), and the VM is gas-exact (`GasExact`; the VM sees the
transaction with `predicate_gas_used` stripped, so it is the same function before and after estimation — that
part is proved, `stripGas_applyEstimates`), then verification of the estimated transaction succeeds with the same
total gas. -/
theorem estimate_then_verify (vm : List Input → Vm) (inputs inputs' : List Input) (g : Nat)
    (hest : estimatePredicates predOwner maxGas p vm inputs = (inputs', .ok g))
    (hgood : EstGood predOwner (vm (stripGas inputs)) p.maxGasPerPredicate inputs 0 (p.maxGasPerTx - maxGas inputs))
    (hexact : GasExact (vm (stripGas inputs))) :
    checkPredicates predOwner maxGas p vm inputs' = .ok g := by
  unfold estimatePredicates runPredicates finalize at hest
  simp only [if_true] at hest
  have hA := applyEstimates_runLoop predOwner (vm (stripGas inputs)) p.maxGasPerPredicate inputs []
    (p.maxGasPerTx - maxGas inputs)
  simp only [List.nil_append, List.length_nil] at hA
  split at hest
  · cases hest
  · rename_i hmg
    injection hest with hi hacc
    have hstrip : stripGas inputs' = stripGas inputs := by rw [← hi, stripGas_applyEstimates]
    unfold checkPredicates runPredicates finalize
    simp only [Bool.false_eq_true, if_false, runLoop_verifying_eq, hstrip]
    rw [hi] at hmg
    simp only [hmg, if_false]
    rw [← hi, hA, verify_after_estimate predOwner _ _ hexact inputs 0 _ hgood]
    exact hacc

/-- Estimate-then-verify, PARALLEL estimation, for every completion order of the estimation tasks: the estimates
written back do not depend on the order (`applyEstimates_perm`), and under the same two hypotheses (with the
parallel estimator's gas bound `min(max_gas_per_predicate, max_gas_per_tx)`) verification succeeds with the same total. -/
theorem estimate_async_then_verify (vm : List Input → Vm) (order : Checks → Checks) (hperm : ∀ l, (order l).Perm l)
    (inputs inputs' : List Input) (g : Nat)
    (hest : estimatePredicatesAsync predOwner maxGas p vm order inputs = (inputs', .ok g))
    (hgood : EstGoodA predOwner (vm (stripGas inputs)) (min p.maxGasPerPredicate p.maxGasPerTx) inputs 0)
    (hexact : GasExact (vm (stripGas inputs))) :
    checkPredicates predOwner maxGas p vm inputs' = .ok g := by
  unfold estimatePredicatesAsync runPredicatesAsync finalize at hest
  simp only [if_true] at hest
  have hnd := asyncTasks_nodup predOwner (vm (stripGas inputs))
    (.estimating (min p.maxGasPerPredicate p.maxGasPerTx)) inputs 0
  have hpe := applyEstimates_perm (hperm (asyncTasks predOwner (vm (stripGas inputs))
    (.estimating (min p.maxGasPerPredicate p.maxGasPerTx)) inputs 0))
    (((hperm _).map _).nodup_iff.2 hnd) inputs
  have hA := applyEstimates_asyncTasks predOwner (vm (stripGas inputs)) (min p.maxGasPerPredicate p.maxGasPerTx) inputs []
  simp only [List.nil_append, List.length_nil] at hA
  split at hest
  · cases hest
  · rename_i hmg
    injection hest with hi hacc
    rw [hpe] at hi hmg
    have hstrip : stripGas inputs' = stripGas inputs := by rw [← hi, stripGas_applyEstimates]
    unfold checkPredicates runPredicates finalize
    simp only [Bool.false_eq_true, if_false, runLoop_verifying_eq, hstrip]
    rw [hi] at hmg
    simp only [hmg, if_false]
    rw [← hi, hA, verify_after_estimateA predOwner _ _ hexact inputs 0 hgood]
    exact (accumulate_ok_perm (hperm _) g).1 hacc

/-- The literal sentence "verification of the estimated transaction succeeds whenever estimation succeeded". -/
def EstimateThenVerifyLiteral : Prop :=
  ∀ (predOwner : Bytes → Addr) (maxGas : List Input → Nat) (p : Params) (vm : List Input → Vm)
    (inputs inputs' : List Input) (g : Nat),
    estimatePredicates predOwner maxGas p vm inputs = (inputs', .ok g) →
    ∃ g', checkPredicates predOwner maxGas p vm inputs' = .ok g'

/-- a predicate that returns 0 (`ret $zero`): estimation succeeds (it never looks at the result), verification
reports `False`. Replayed on the real VM by the harness (fingerprint `estimate-ok-verify-fails-predicate-false`). -/
def vmFalse : List Input → Vm := fun _ _ _ avail => .done (avail - 1) .okOther
/-- a predicate that reads `$ggas` and returns true only if more than 100 gas is left: estimation runs it with
the large available gas (true, 3 gas used), verification with the 3 estimated gas (false). Replayed on the real
VM (fingerprint `estimate-ok-verify-fails-gas-introspection`). -/
def vmGgas : List Input → Vm := fun _ _ _ avail => if avail > 100 then .done (avail - 3) .returnOne else .done (avail - 3) .okOther
/-- a predicate input whose owner is not the predicate root: estimation skips the owner check -/
def vmTrue : List Input → Vm := fun _ _ _ avail => .done (avail - 1) .returnOne

theorem estimate_then_verify_literal_false : ¬ EstimateThenVerifyLiteral := by
  intro h
  have := h (fun c => c) (fun _ => 0) ⟨1000, 500⟩ vmFalse [.predicate [1] [1] 0] [.predicate [1] [1] 1] 1 (by decide)
  obtain ⟨g', hg'⟩ := this
  have hv : checkPredicates (fun c => c) (fun _ => 0) ⟨1000, 500⟩ vmFalse [.predicate [1] [1] 1] = .error (.False 0) := by
    decide
  rw [hv] at hg'
  cases hg'

/-- the same with a predicate that DID return true during estimation: gas introspection -/
theorem estimate_then_verify_literal_false_ggas :
    estimatePredicates (fun c => c) (fun _ => 0) ⟨1000, 500⟩ vmGgas [.predicate [1] [1] 0]
      = ([.predicate [1] [1] 3], .ok 3) ∧
    checkPredicates (fun c => c) (fun _ => 0) ⟨1000, 500⟩ vmGgas [.predicate [1] [1] 3] = .error (.False 0) := by
  decide

/-- … and with a wrong owner -/
theorem estimate_then_verify_literal_false_owner :
    estimatePredicates (fun c => c) (fun _ => 0) ⟨1000, 500⟩ vmTrue [.predicate [9] [1] 0]
      = ([.predicate [9] [1] 1], .ok 1) ∧
    checkPredicates (fun c => c) (fun _ => 0) ⟨1000, 500⟩ vmTrue [.predicate [9] [1] 1] = .error (.InvalidOwner 0) := by
  decide

/-! ### obligations on what the translator extracts from the Rust text -/

def errName : ErrKind → String
  | .outOfGas => "reason:OutOfGas" | .panic _ => "Panic" | .panicInstruction _ => "PanicInstruction"
  | .bug => "Bug" | .storage => "Storage" | .other => "_"
def failName : PFail → String
  | .GasMismatch _ => "GasMismatch" | .OutOfGas _ => "OutOfGas" | .InvalidOwner _ => "InvalidOwner" | .False _ => "False"
  | .TransactionExceedsTotalGasAllowance _ => "TransactionExceedsTotalGasAllowance" | .Bug => "Bug"
  | .Panic _ _ => "Panic" | .PanicInstruction _ _ => "PanicInstruction" | .Storage _ => "Storage"

/-- the model's `interpreterError` maps every class of interpreter error to the constructor the arms of
`PredicateVerificationFailed::interpreter_error` (regenerated from fuel-vm/src/error.rs) name -/
theorem interpreter_error_arms (i : Nat) (k : ErrKind) :
    Gen.Predicates.interpreterErrorArms.lookup (errName k) = some (failName (interpreterError i k)) := by
  cases k <;> simp only [errName, interpreterError, failName] <;> decide

/-- a predicate succeeds on `Return(1)` in both places the code says so (the model's `returnOne`) -/
theorem success_value : Gen.Predicates.successReturn = 1 ∧ Gen.Predicates.verifyReturnOne = 1 := by decide

/-! ### non-vacuity -/

/-- a toy instance: witness `[k]` recovers to address `[k, k]`; predicate root = the code itself -/
def recoverToy : Bytes → Bytes → Option Addr := fun w _ => match w with | [k] => some [k, k] | _ => none
def txToy : Tx := { content := [1, 2, 3],
                    inputs := [.signed [7, 7] 0, .predicate [5] [5] 10, .signed [7, 7] 0, .contract, .signed [8, 8] 1],
                    witnesses := [[7], [8]] }

example : checkSignatures recoverToy (fun c => c) (fun b => b) 0 txToy = .ok () := by decide
example : checkSignatures recoverToy (fun c => c) (fun b => b) 0 { txToy with witnesses := [[7], [9]] }
    = .error (.InputInvalidSignature 4) := by decide
example : checkSignatures recoverToy (fun c => c) (fun b => b) 0 { txToy with witnesses := [[7]] }
    = .error (.InputWitnessIndexBounds 4) := by decide
example : checkSignatures recoverToy (fun c => c) (fun b => b) 0
    { txToy with inputs := [.predicate [6] [5] 10] } = .error (.InputPredicateOwner 0) := by decide

/-- two predicates (inputs 0 and 2) that use exactly 10 and 20 gas and one signed input in between -/
def vmToy : List Input → Vm := fun _ _ i avail =>
  if i = 0 then (if avail ≥ 10 then .done (avail - 10) .returnOne else .done 0 (.err .outOfGas))
  else (if avail ≥ 20 then .done (avail - 20) .returnOne else .done 0 (.err .outOfGas))
def insToy : List Input := [.predicate [5] [5] 10, .signed [7, 7] 0, .predicate [6] [6] 20]

example : checkPredicates (fun c => c) (fun _ => 0) ⟨1000, 500⟩ vmToy insToy = .ok 30 := by decide
example : checkPredicatesAsync (fun c => c) (fun _ => 0) ⟨1000, 500⟩ vmToy List.reverse insToy = .ok 30 := by decide
example : checkPredicates (fun c => c) (fun _ => 0) ⟨1000, 500⟩ vmToy [.predicate [5] [5] 11] = .error (.GasMismatch 0) := by
  decide
example : checkPredicates (fun c => c) (fun _ => 0) ⟨1000, 500⟩ vmToy [.predicate [5] [5] 9] = .error (.OutOfGas 0) := by
  decide
/-- different orders report different FIRST errors, but both fail (the verdict is what the property speaks of) -/
example : checkPredicates (fun c => c) (fun _ => 0) ⟨1000, 500⟩ vmToy [.predicate [5] [5] 9, .predicate [6] [6] 21]
    = .error (.OutOfGas 0) ∧
  checkPredicatesAsync (fun c => c) (fun _ => 0) ⟨1000, 500⟩ vmToy List.reverse [.predicate [5] [5] 9, .predicate [6] [6] 21]
    = .error (.GasMismatch 1) := by decide
example : estimatePredicates (fun c => c) (fun _ => 0) ⟨1000, 500⟩ vmToy
    [.predicate [5] [5] 0, .signed [7, 7] 0, .predicate [6] [6] 0] = (insToy, .ok 30) := by decide
/-- the hypotheses of `estimate_then_verify` are satisfiable by a non-trivial instance -/
example : EstGood (fun c => c) (vmToy []) 500 [.predicate [5] [5] 0, .signed [7, 7] 0, .predicate [6] [6] 0] 0 1000 := by
  refine ⟨rfl, 490, by decide, by decide, ?_⟩
  exact ⟨rfl, 480, by decide, by decide, trivial⟩
example : GasExact (vmToy []) := by
  intro i a r h hr
  unfold vmToy at h ⊢
  by_cases hi : i = 0
  · simp only [hi, if_true] at h ⊢
    by_cases ha : a ≥ 10
    · simp only [ha, if_true] at h; injection h with h1 _; subst h1
      have : a - (a - 10) = 10 := by omega
      simp [this]
    · simp [ha] at h
  · simp only [hi, if_false] at h ⊢
    by_cases ha : a ≥ 20
    · simp only [ha, if_true] at h; injection h with h1 _; subst h1
      have : a - (a - 20) = 20 := by omega
      simp [this]
    · simp [ha] at h

end FuelVerif.C20
