/-
C04 — Reported field offsets locate the field's bytes in the encoding.

  "For every transaction, every offset the library reports (each input, output, witness, storage slot and
   proof entry; each input's UTXO id, owner, asset id, tx pointer, contract id, sender, recipient, nonce,
   data, predicate and predicate data; script, script data, salt, blob id, bytecode root, upgrade purpose;
   each predicate's offset and padded length) points at exactly the canonical bytes of that field. Offsets
   computed from cached metadata equal offsets computed without it."

Model: Model/Offsets.lean — the offset functions of fuel-tx transcribed (chargeable_transaction.rs `mod field`,
`CommonMetadata::compute`, the `mod field` of script / create / upload / blob / upgrade / mint, `Input::predicate_*`),
over the values and descriptors of the canonical-codec model of C01. Constants, the `InputRepr` / `OutputRepr`
tables and the `x_static()` functions are regenerated from the Rust sources (Gen/Offsets.lean, tools/gen/offsets.py,
which also pins the text of every transcribed function body); field positions and descriptors come from the derive
tables (Gen/Canonical.lean).

`At bytes off x` : `bytes = pre ++ x ++ post` with `pre.length = off`, i.e. `slice bytes off x.length = x`
(`slice_of_at`). Every theorem is for ALL well-typed values (`wt`): any number and mix of inputs, outputs,
witnesses, storage slots, proof entries, any byte-vector lengths (up to `VEC_DECODE_LIMIT`, beyond which the
encoder itself refuses).

`usize::saturating_add` is modelled as `+` (see Model/Offsets.lean): sizes ≥ 2^64 are outside the theorems.
-/
import FuelVerif.Lemmas.OffsetsCached
namespace FuelVerif.C04
open FuelVerif FuelVerif.Canonical FuelVerif.Offsets
open FuelVerif.Canonical.TxDesc (env)
open FuelVerif.Canonical.InputCodec (env0 encDesc)

/-- the slice form of `At` -/
theorem slice_of_at {bytes x : Bytes} {off : Nat} (h : At bytes off x) :
    (bytes.drop off).take x.length = x ∧ off + x.length ≤ bytes.length := ⟨h.slice, h.le⟩

/-! ### obligations on the regenerated tables -/

/-- the enumerations the model matches on are those of the Rust sources: `enum Input` (names, order, and
`InputRepr::from_input`), `enum InputRepr`, `enum Output` = `enum OutputRepr` (names, order, `from_output` the
identity), `enum Transaction` -/
theorem tables_agree :
    (InputKind.all.map (fun k => (k.name, (InputRepr.fromInput k).name)) == Gen.Canonical.inputVariants.map (fun r => (r.1, r.2.1)) &&
     [InputRepr.coin, .contract, .message].map (·.name) == Gen.Offsets.inputReprs.map (·.1) &&
     OutputKind.all.map (·.name) == Gen.Offsets.outputReprs.map (·.1) &&
     Gen.Offsets.outputFrom == OutputKind.all.map (fun k => (k.name, k.name)) &&
     ((Gen.Canonical.enums.find? (fun e => e.name == "Output")).map (fun e => e.variants.map (·.name))) == some (OutputKind.all.map (·.name)) &&
     Kind.all.map (·.name) == Gen.Canonical.txVariants.map (·.1) &&
     Kind.all.map (·.idx) == List.range 6) = true := by decide +kernel

/-- the offset tables of `InputRepr` / `OutputRepr` are `Some` exactly for the (method, variant) pairs for which
the theorems below locate a field -/
theorem offset_tables_complete :
    Gen.Offsets.inputReprOffsets.all (fun row => [InputRepr.coin, .contract, .message].all (fun r =>
      (r.offset row.1).isSome == (inputStaticMeaning.any (fun e => e.1 == row.1 && e.2.1 == r) ||
        (row.1 == "data_offset" && r == .message) || (row.1 == "coin_predicate_offset" && r == .coin)))) = true ∧
    Gen.Offsets.outputReprOffsets.all (fun row => OutputKind.all.all (fun k =>
      (k.offset row.1).isSome == outputMeaning.any (fun e => e.1 == row.1 && e.2.1 == k))) = true :=
  ⟨table_none_iff, output_table_none_iff⟩

/-! ### inside an input / output -/

/-- **UTXO id, owner, asset id, tx pointer, contract id, balance root, state root, sender, recipient, nonce**:
for every row (method, repr, field) of `inputStaticMeaning` and every input of a variant with that repr, the
offset the `InputRepr` method returns is where the input's encoding holds the encoding of that field -/
theorem input_field_offsets (e : String × InputRepr × String) (he : e ∈ inputStaticMeaning) (i : Val)
    (hi : wt env0 encDesc i = true) (k : InputKind) (hk : inputKind i = some k) (hr : InputRepr.fromInput k = e.2.1) :
    ∃ off, e.2.1.offset e.1 = some off ∧ wt env0 (k.fieldDesc e.2.2) (inputField k e.2.2 i) = true ∧
      At (encode env TxDesc.input i) off (encS env0 (k.fieldDesc e.2.2) (inputField k e.2.2 i)) :=
  input_static_offset e he i hi k hk hr

/-- **message data** (`InputRepr::data_offset`) and **coin predicate** (`InputRepr::coin_predicate_offset`) -/
theorem input_data_and_coin_predicate_offsets {i : Val} (hi : wt env0 encDesc i = true) (k : InputKind) (hk : inputKind i = some k) :
    (InputRepr.fromInput k = .message → ∃ o, InputRepr.message.offset "data_offset" = some o ∧
      At (encode env TxDesc.input i) o (padded (bytesOf (inputField k "data" i)))) ∧
    (InputRepr.fromInput k = .coin → ∃ o, InputRepr.coin.offset "coin_predicate_offset" = some o ∧
      At (encode env TxDesc.input i) o (padded (bytesOf (inputField k "predicate" i)))) :=
  ⟨input_data_offset hi k hk, input_coin_predicate_offset hi k hk⟩

/-- **predicate and predicate data** (`Input::predicate_offset`, `Input::predicate_data_offset`): `Some` exactly for
the three predicate variants, pointing at the padded predicate / predicate data; **padded length**
(`predicate_len` then `padded_len_usize`) is the length of those padded bytes -/
theorem input_predicate_offsets {i : Val} (hi : wt env0 encDesc i = true) (k : InputKind) (hk : inputKind i = some k) :
    ((predicateOffset i).isSome = k.hasPredicate ∧
      ∀ o, predicateOffset i = some o → At (encode env TxDesc.input i) o (padded (bytesOf (inputField k "predicate" i)))) ∧
    ((predicateDataOffset i).isSome = k.hasPredicate ∧
      ∀ o, predicateDataOffset i = some o → At (encode env TxDesc.input i) o (padded (bytesOf (inputField k "predicate_data" i)))) ∧
    (predicateLen i = (if k = .contract then none else some (bytesOf (inputField k "predicate" i)).length) ∧
      ∀ n, predicateLen i = some n → paddedLenUsize n = some (padded (bytesOf (inputField k "predicate" i))).length) :=
  ⟨predicate_offset_at hi k hk, predicate_data_offset_at hi k hk, predicate_len_eq hi k hk⟩

/-- **output fields** (to, asset id, balance root, state root, contract id): every row of `outputMeaning` -/
theorem output_field_offsets (e : String × OutputKind × List String) (he : e ∈ outputMeaning) (o : Val)
    (ho : wt env TxDesc.output o = true) (hk : outputKind o = some e.2.1) :
    ∃ off path fd fv, e.2.1.offset e.1 = some off ∧ outputPath e.2.1 e.2.2 = some path ∧ valPath (outputPayload o) path = some fv ∧
      wt env fd fv = true ∧ At (encode env TxDesc.output o) off (encS env fd fv) := output_offset e he o ho hk

/-! ### inside a transaction -/

/-- **each input, output, witness** (and the policy values, and the three vectors as a whole), for every chargeable
kind and any number / mix of inputs, outputs, witnesses: `x_offset_at(i)` is `None` exactly past the end and
otherwise points at the full canonical encoding of the i-th element -/
theorem transaction_offsets (k : Kind) (hk : k.chargeable = true) (v : Val) (hv : wt env k.desc v = true) :
    ChargeableOffsets { kind := k, val := v, metadata := none } (encode env k.desc v) := chargeable_offsets k hk v hv

/-- **each predicate's offset and padded length** (`inputs_predicate_offset_at`) -/
theorem transaction_predicate_offsets (k : Kind) (hk : k.chargeable = true) (v : Val) (hv : wt env k.desc v = true) (i : Nat) :
    let t : Tx := { kind := k, val := v, metadata := none }
    (∀ o l, t.inputsPredicateOffsetAt i = some (o, l) → ∃ x kx, t.inputs[i]? = some x ∧ inputKind x = some kx ∧ kx.hasPredicate = true ∧
      l = (padded (bytesOf (inputField kx "predicate" x))).length ∧ At (encode env k.desc v) o (padded (bytesOf (inputField kx "predicate" x)))) ∧
    (t.inputsPredicateOffsetAt i = none ↔ ∀ x kx, t.inputs[i]? = some x → inputKind x = some kx → kx.hasPredicate = false) := by
  intro t
  have C := chargeable_offsets k hk v hv
  obtain ⟨hd, hb, _⟩ := kind_desc k hk
  have hv' := hv
  rw [hd] at hv'
  exact predicate_at t _ rfl C (chargeable_layout k.body k v hv' hb).2.2.1 i

/-- **salt, blob id, bytecode root, upgrade purpose, script gas limit, receipts root, witness indices, subsection
fields, Mint's tx pointer and input contract**: every constant offset function (rows of `staticMeaning`) -/
theorem constant_offsets (e : Kind × String × List String) (he : e ∈ staticMeaning) (v : Val) (hv : wt env e.1.desc v = true) :
    ∃ off path fd fv, staticOffsetOf e.1 e.2.1 = some off ∧ staticPath e.1 e.2.2 = some path ∧ valPath v path = some fv ∧
      wt env fd fv = true ∧ At (encode env e.1.desc v) off (encS env fd fv) := static_offset e he v hv

theorem script_desc : Kind.script.desc = chargeable scriptBodyLit ∧ Kind.create.desc = chargeable createBodyLit ∧
    Kind.upload.desc = chargeable uploadBodyLit := by
  have := body_lits
  exact ⟨by rw [(kind_desc .script rfl).1, this.1], by rw [(kind_desc .create rfl).1, this.2.1], by rw [(kind_desc .upload rfl).1, this.2.2.2.1]⟩

/-- **script and script data** -/
theorem script_and_script_data_offsets (v : Val) (hv : wt env Kind.script.desc v = true) :
    let t : Tx := { kind := .script, val := v, metadata := none }
    At (encode env Kind.script.desc v) Gen.Offsets.Script.script_offset_static (padded (bytesOf (fieldOf "ScriptBody" "script" t.body))) ∧
    At (encode env Kind.script.desc v) t.scriptDataOffset (padded (bytesOf (fieldOf "ScriptBody" "script_data" t.body))) := by
  rw [script_desc.1] at hv ⊢
  exact script_offsets v hv

/-- **each storage slot** -/
theorem storage_slot_offsets (v : Val) (hv : wt env Kind.create.desc v = true) :
    let t : Tx := { kind := .create, val := v, metadata := none }
    (∀ i, t.storageSlotsOffsetAt i = none ↔ t.storageSlots.length ≤ i) ∧
    ∀ i o x, t.storageSlotsOffsetAt i = some o → t.storageSlots[i]? = some x → At (encode env Kind.create.desc v) o (encode env dSlot x) := by
  rw [script_desc.2.1] at hv ⊢
  exact create_slot_offsets v hv

/-- **each proof entry** -/
theorem proof_set_offsets (v : Val) (hv : wt env Kind.upload.desc v = true) :
    let t : Tx := { kind := .upload, val := v, metadata := none }
    (∀ i, t.proofSetOffsetAt i = none ↔ t.proofSet.length ≤ i) ∧
    ∀ i o x, t.proofSetOffsetAt i = some o → t.proofSet[i]? = some x → At (encode env Kind.upload.desc v) o (encode env InputLaws.dB32 x) := by
  rw [script_desc.2.2] at hv ⊢
  exact upload_proof_offsets v hv

/-- **Mint** (offsets computed from the sizes of the preceding fields) -/
theorem mint_field_offsets (v : Val) (hv : wt env Kind.mint.desc v = true) :
    At (encode env Kind.mint.desc v) Mint.inputContractOffset (encS env InputCodec.contract (fieldOf "Mint" "input_contract" v)) ∧
    At (encode env Kind.mint.desc v) (Mint.outputContractOffset v) (encS env (InputCodec.orVoid (Resolve.named "OutputContract")) (fieldOf "Mint" "output_contract" v)) ∧
    At (encode env Kind.mint.desc v) (Mint.mintAmountOffset v) (encS env (.uint 8) (fieldOf "Mint" "mint_amount" v)) ∧
    At (encode env Kind.mint.desc v) (Mint.mintAssetIdOffset v) (encS env InputLaws.dB32 (fieldOf "Mint" "mint_asset_id" v)) ∧
    At (encode env Kind.mint.desc v) (Mint.gasPriceOffset v) (encS env (.uint 8) (fieldOf "Mint" "gas_price" v)) := mint_offsets v hv

/-! ### the cache -/

/-- the order of effects of the five `precompute` bodies, regenerated from the Rust sources on every run: reset first, store last -/
theorem precompute_resets_first : Tx.stepsOf .script = [.reset, .common, .script, .store] ∧ Tx.stepsOf .create = [.reset, .common, .other, .store] ∧
    Tx.stepsOf .upgrade = [.reset, .common, .other, .store] ∧ Tx.stepsOf .upload = [.reset, .common, .store] ∧
    Tx.stepsOf .blob = [.reset, .common, .store] := precompute_order

/-- **offsets computed from cached metadata equal offsets computed without it** — for an object that may already carry a (stale)
cache when `precompute` is called: `t` is arbitrary -/
theorem cached_offsets_eq_uncached (idOf : Tx → Bytes) (t t' : Tx) (hk : t.kind.chargeable = true) (h : Tx.precompute idOf t = .ok t') :
    let t0 : Tx := { t with metadata := none }
    t'.val = t.val ∧ t'.kind = t.kind ∧ t'.metadata.isSome = true ∧
    t'.inputsOffset = t0.inputsOffset ∧ t'.outputsOffset = t0.outputsOffset ∧ t'.witnessesOffset = t0.witnessesOffset ∧
    (∀ i, t'.inputsOffsetAt i = t0.inputsOffsetAt i) ∧ (∀ i, t'.outputsOffsetAt i = t0.outputsOffsetAt i) ∧
    (∀ i, t'.witnessesOffsetAt i = t0.witnessesOffsetAt i) ∧ (∀ i, t'.inputsPredicateOffsetAt i = t0.inputsPredicateOffsetAt i) ∧
    (t.kind = .script → t'.scriptDataOffset = t0.scriptDataOffset ∧ t'.bodyOffsetEnd = t0.bodyOffsetEnd) :=
  cached_eq_uncached idOf t t' hk h

/-- **any history**: after any sequence of edits through the public mutators (which leave the cache alone) and precomputes that
ends with a precompute, every cached offset (incl. Script's cached `script_data_offset`) is the uncached offset of the CURRENT content -/
theorem cached_offsets_current_after_any_history (idOf : Tx → Bytes) (ops : List Op) (t t' : Tx) (hk : t.kind.chargeable = true)
    (h : runOps idOf t (ops ++ [.precompute]) = .ok t') :
    let t0 : Tx := { kind := t'.kind, val := t'.val, metadata := none }
    t'.metadata.isSome = true ∧
    t'.inputsOffset = t0.inputsOffset ∧ t'.outputsOffset = t0.outputsOffset ∧ t'.witnessesOffset = t0.witnessesOffset ∧
    (∀ i, t'.inputsOffsetAt i = t0.inputsOffsetAt i) ∧ (∀ i, t'.outputsOffsetAt i = t0.outputsOffsetAt i) ∧
    (∀ i, t'.witnessesOffsetAt i = t0.witnessesOffsetAt i) ∧ (∀ i, t'.inputsPredicateOffsetAt i = t0.inputsPredicateOffsetAt i) ∧
    (t'.kind = .script → t'.scriptDataOffset = t0.scriptDataOffset ∧ t'.bodyOffsetEnd = t0.bodyOffsetEnd) :=
  cached_offsets_after_history idOf ops t t' hk h

/-- the metadata computation cannot fail (`Serialized*TooLarge`) when the encoding fits a `usize` -/
theorem precompute_total (idOf : Tx → Bytes) (t : Tx) (hk : t.kind.chargeable = true)
    (hfit : ({ t with metadata := none } : Tx).witnessesOffset + sumSizes (t.witnesses.map Tx.witnessSize) ≤ USIZE_MAX) :
    ∃ t', Tx.precompute idOf t = .ok t' := precompute_succeeds idOf t hk hfit

/-! ### non-vacuity: a concrete script transaction (a message-data predicate after a contract input after a 7-byte
script, one variable output, one witness) meets the hypotheses, and the model's offsets on it -/

def b32 : Val := Val.ofList [.bytes (zeros 32)]
def utxo0 : Val := Val.ofList [b32, .int 0]
def txp0 : Val := Val.ofList [Val.ofList [.int 0], .int 0]
def code (bs : Bytes) : Val := Val.ofList [Val.ofList [.bytes bs]]
def bytesV (bs : Bytes) : Val := Val.ofList [.bytes bs]
def exTx : Val := Val.ofList [Val.ofList [.int 5, b32, code [1, 2, 3, 4, 5, 6, 7], bytesV [9]], Policies.mk 5 [3, 0, 7, 0, 0, 0],
    Val.ofList [Val.variant 2 (Val.ofList [utxo0, b32, b32, txp0, b32]),
                Val.variant 6 (Val.ofList [b32, b32, .int 1, b32, .unit, .int 7, bytesV [1, 2, 3, 4, 5, 6, 7, 8, 9], code [0x24, 0, 0, 0, 0], bytesV [1, 2, 3]])],
    Val.ofList [Val.variant 3 (Val.ofList [b32, .int 9, b32])], Val.ofList [Val.ofList [bytesV [1, 2, 3]]], .unit]

example : wt env Kind.script.desc exTx = true := by decide +kernel
def exT : Tx := { kind := .script, val := exTx, metadata := none }
example : [exT.scriptDataOffset, exT.bodyOffsetEnd, exT.inputsOffset] = [104, 112, 128] := by decide +kernel
example : [exT.inputsOffsetAt 0, exT.inputsOffsetAt 1, exT.inputsOffsetAt 2, exT.outputsOffsetAt 0, exT.witnessesOffsetAt 0] =
    [some 128, some 288, none, some 472, some 552] := by decide +kernel
example : [exT.inputsPredicateOffsetAt 0, exT.inputsPredicateOffsetAt 1] = [none, some (456, 8)] := by decide +kernel
example : (match Tx.precompute (fun _ => []) { kind := .script, val := exTx, metadata := none } with
    | .ok t => some (t.inputsOffsetAt 1, t.inputsPredicateOffsetAt 1, t.metadata.isSome)
    | .error _ => none) = some (some 288, some (456, 8), true) := by decide +kernel
/-- the bytes at the reported predicate offset are the padded predicate -/
example : ((encode env Kind.script.desc exTx).drop 456).take 8 = [0x24, 0, 0, 0, 0, 0, 0, 0] := by decide +kernel

/-- a second precompute on an object whose script grew by 9 bytes and that still carries the first cache: the cached
`script_data_offset` and input offsets are those of the new content -/
example : (match Tx.precompute (fun _ => []) { kind := .script, val := exTx, metadata := none } with
    | .ok t1 =>
      (match Tx.precompute (fun _ => []) { t1 with val := Val.ofList [Val.ofList [.int 5, b32, code (List.replicate 16 7), bytesV [9]], Policies.mk 5 [3, 0, 7, 0, 0, 0],
            Val.ofList [], Val.ofList [], Val.ofList [], .unit] } with
       | .ok t2 => some (t1.scriptDataOffset, t2.scriptDataOffset, t2.inputsOffset)
       | .error _ => none)
    | .error _ => none) = some (104, 112, 136) := by decide +kernel

end FuelVerif.C04
