/-
C21 — Register arithmetic and logic instructions follow the specification.

  "For every register-level arithmetic, comparison, shift, bitwise, exponent, logarithm, root, fused
   multiply-divide and narrow-integer instruction, for all operand values and flag settings, the VM either
   panics with the specified reason or writes exactly the specified result to the destination, sets the
   overflow and error registers as specified, and advances the program counter by one instruction. Any
   attempt to write a reserved register panics with the reserved-register reason and leaves every non-gas
   register unchanged."

The model (`Model/Alu.lean`) transcribes alu.rs / muldiv.rs / narrowint.rs / the 33 `impl Execute` bodies.
Below, for ALL register files `r` (operand registers `< 2^64` where arithmetic needs it), all register
ids, immediates and flag values, the model's outcome is proved equal to the mathematical specification:
`specOk r a dest of err` (destination, `$of`, `$err` written, `$pc` + 4, nothing else changed) or the
specified panic with the register file untouched. Register ids, flag bits, the NIOP immediate layout and
the opcode table come from the generated `Gen/AluArgs.lean` / `Gen/Instructions.lean`.
-/
import FuelVerif.Lemmas.Alu
namespace FuelVerif.Alu
open FuelVerif.Gen FuelVerif.Gen.AluArgs FuelVerif.Instr

/-! ### the generated tables carry exactly the 33 ALU opcodes with the shapes the model executes -/

def allAluOps : List AluOp :=
  [.ADD, .ADDI, .AND, .ANDI, .DIV, .DIVI, .EQ, .EXP, .EXPI, .GT, .LT, .MLOG, .MOD, .MODI, .MOVE, .MOVI, .MROO, .MUL, .MULI,
   .MLDV, .NIOP, .NOOP, .NOT, .OR, .ORI, .SLL, .SLLI, .SRL, .SRLI, .SUB, .SUBI, .XOR, .XORI]

theorem allAluOps_complete (op : AluOp) : op ∈ allAluOps := by cases op <;> decide

/-- every ALU opcode occurs in the instruction table regenerated from fuel-asm, exactly once, with the
argument shape the model's `execAlu` expects (complete finite check) -/
theorem table_alu_ops :
    allAluOps.all (fun op =>
      (instrTable.filter (fun row => AluOp.ofName row.name == some op)).map (·.args) == [op.shape]) = true := by
  decide +kernel

/-- flag bits and reserved-register boundary as the specification states them -/
theorem consts_spec : regWRITABLE = 16 ∧ flagUNSAFEMATH = 1 ∧ flagWRAPPING = 2 ∧ regOF = 2 ∧ regPC = 3 ∧ regERR = 8 ∧ regFLAG = 15 := by
  decide

theorem isWrapping_iff (f : Nat) : isWrapping f = true ↔ f / 2 % 2 = 1 := by
  have h1 : (f &&& 2) / 2 ^ 1 = f / 2 ^ 1 &&& 2 / 2 ^ 1 := Nat.and_div_two_pow
  have h2 : (f &&& 2) % 2 ^ 1 = (f % 2 ^ 1) &&& (2 % 2 ^ 1) := Nat.and_mod_two_pow
  simp only [Nat.pow_one, Nat.reduceDiv, Nat.reduceMod, Nat.and_one_is_mod, Nat.and_zero] at h1 h2
  simp only [isWrapping, flagWRAPPING, beq_iff_eq]; omega

theorem isUnsafeMath_iff (f : Nat) : isUnsafeMath f = true ↔ f % 2 = 1 := by
  simp only [isUnsafeMath, flagUNSAFEMATH, beq_iff_eq, Nat.and_one_is_mod]

/-- the NIOP immediate: low 4 bits = operation (0..5), bits 4-5 = width (0..2); everything else is invalid -/
theorem narrowFromImm_valid_iff :
    (List.range 64).all (fun imm => (narrowFromImm imm).isSome == (decide (imm % 16 ≤ 5) && decide (imm / 16 ≤ 2))) = true := by
  decide +kernel

theorem narrowFromImm_table :
    narrowFromImm 0x00 = some (.add, .u8) ∧ narrowFromImm 0x01 = some (.sub, .u8) ∧ narrowFromImm 0x02 = some (.mul, .u8) ∧
    narrowFromImm 0x03 = some (.exp, .u8) ∧ narrowFromImm 0x04 = some (.sll, .u8) ∧ narrowFromImm 0x05 = some (.xnor, .u8) ∧
    narrowFromImm 0x10 = some (.add, .u16) ∧ narrowFromImm 0x25 = some (.xnor, .u32) ∧ narrowFromImm 0x22 = some (.mul, .u32) := by
  decide +kernel

/-! ### frame: what any ALU instruction can do to the register file -/

/-- Every ALU instruction on arguments of its table shape either succeeds with the *specified* register
file for some (dest, of, err) — destination writable, `$pc` advanced, nothing else changed — or panics
leaving every register unchanged; and **any attempt to write a reserved register panics with
ReservedRegisterNotWritable** (NIOP with an invalid immediate reports that first). -/
theorem alu_outcome (g : Nat → Nat → Nat) (op : AluOp) (a : Nat) (rest : List Nat) (r : Regs)
    (hlen : (a :: rest).length = op.shape.length) :
    HelperOk r a (execAlu g op (a :: rest) r) ∨
    (op = .NIOP ∧ execAlu g op (a :: rest) r = (r, some .InvalidImmediateValue)) := by
  cases op
  case NOOP => simp [AluOp.shape] at hlen
  case MOVE | NOT | MOVI =>
    obtain ⟨b, rfl⟩ : ∃ b, rest = [b] := by
      match rest, hlen with
      | [b], _ => exact ⟨b, rfl⟩
    simp only [execAlu]; exact Or.inl (helperOk_set _ _ _)
  case MLDV =>
    obtain ⟨b, c, d, rfl⟩ := len3 (by simpa [AluOp.shape] using hlen : rest.length = 3)
    simp only [execAlu]; exact Or.inl (helperOk_muldiv _ _ _ _ _)
  case NIOP =>
    obtain ⟨b, c, d, rfl⟩ := len3 (by simpa [AluOp.shape] using hlen : rest.length = 3)
    simp only [execAlu]
    cases h : narrowFromImm d with
    | none => exact Or.inr ⟨trivial, rfl⟩
    | some p => exact Or.inl (helperOk_narrow _ _ _ _ _ _)
  case ADD | ADDI | SUB | SUBI | MUL | MULI =>
    obtain ⟨b, c, rfl⟩ := len2 (by simpa [AluOp.shape] using hlen : rest.length = 2)
    simp only [execAlu]; exact Or.inl (helperOk_capture _ _ _)
  case DIV | DIVI | MOD | MODI | MLOG | MROO =>
    obtain ⟨b, c, rfl⟩ := len2 (by simpa [AluOp.shape] using hlen : rest.length = 2)
    simp only [execAlu]; exact Or.inl (helperOk_error _ _ _ _)
  case EXP | EXPI =>
    obtain ⟨b, c, rfl⟩ := len2 (by simpa [AluOp.shape] using hlen : rest.length = 2)
    simp only [execAlu]; exact Or.inl (helperOk_boolean _ _ _)
  all_goals
    obtain ⟨b, c, rfl⟩ := len2 (by simpa [AluOp.shape] using hlen : rest.length = 2)
    simp only [execAlu]; exact Or.inl (helperOk_set _ _ _)

/-- **reserved-register writes**: destination below 16 ⇒ the instruction panics with the reserved-register
reason and every register is unchanged (for NIOP provided its immediate is valid, which is checked first). -/
theorem reserved_write_frame (g : Nat → Nat → Nat) (op : AluOp) (a : Nat) (rest : List Nat) (r : Regs)
    (hlen : (a :: rest).length = op.shape.length) (ha : a < 16)
    (himm : op = .NIOP → ∀ b c imm, rest = [b, c, imm] → narrowFromImm imm ≠ none) :
    execAlu g op (a :: rest) r = (r, some .ReservedRegisterNotWritable) := by
  rcases alu_outcome g op a rest r hlen with h | ⟨hop, h⟩
  · rcases h with ⟨_, h16, _⟩ | ⟨p, hp, _, hr, hres⟩ | ⟨_, h16⟩
    · omega
    · have := hres ha
      subst this
      exact Prod.ext hr hp
    · omega
  · subst hop
    simp only [AluOp.shape, List.length_cons, List.length_nil] at hlen
    obtain ⟨b, c, d, rfl⟩ := len3 (by omega : rest.length = 3)
    simp only [execAlu] at h
    have := himm rfl b c d rfl
    cases hn : narrowFromImm d with
    | none => exact absurd hn this
    | some p =>
      rw [hn] at h
      simp only [aluNarrowintOp, writeRegKey_err ha] at h
      cases h

/-- **success frame and program counter**: a successful ALU instruction writes only its destination, `$of`,
`$err` and `$pc`; the destination is writable; `$pc` advances by exactly one instruction (4 bytes; the Rust
`saturating_add` never saturates for an executable `$pc`). -/
theorem ok_frame_pc (g : Nat → Nat → Nat) (op : AluOp) (a : Nat) (rest : List Nat) (r r' : Regs)
    (hlen : (a :: rest).length = op.shape.length)
    (h : execAlu g op (a :: rest) r = (r', none)) :
    16 ≤ a ∧ (r regPC + 4 < 2 ^ 64 → r' regPC = r regPC + 4) ∧
    ∀ j, j ≠ a → j ≠ regOF → j ≠ regERR → j ≠ regPC → r' j = r j := by
  rcases alu_outcome g op a rest r hlen with hh | ⟨_, hh⟩
  · rw [h] at hh
    rcases hh with ⟨_, h16, d, f, e, hr⟩ | ⟨p, hp, _⟩ | ⟨hp, _⟩
    · simp only at hr
      subst hr
      exact ⟨h16, fun hpc => by rw [specOk_pc _ _ _ _ _ h16, satAdd_pc _ hpc], fun j h1 h2 h3 h4 => specOk_other _ _ _ _ _ _ h1 h2 h3 h4⟩
    · cases hp
    · cases hp
  · rw [h] at hh; cases hh

/-- NOOP: clears `$of`, `$err`, advances `$pc` -/
theorem noop_spec (g : Nat → Nat → Nat) (r : Regs) :
    execAlu g .NOOP [] r = (incPc ((r.set regOF 0).set regERR 0), none) := rfl

/-- **a VM panic leaves every register unchanged** -/
theorem panic_frame (g : Nat → Nat → Nat) (op : AluOp) (a : Nat) (rest : List Nat) (r r' : Regs) (p : Panic)
    (hlen : (a :: rest).length = op.shape.length) (hp : p ≠ .HostPanic)
    (h : execAlu g op (a :: rest) r = (r', some p)) : r' = r := by
  rcases alu_outcome g op a rest r hlen with hh | ⟨_, hh⟩
  · rw [h] at hh
    rcases hh with ⟨hn, _⟩ | ⟨_, _, _, hr, _⟩ | ⟨hh, _⟩
    · cases hn
    · exact hr
    · simp only [Option.some.injEq] at hh; exact absurd hh hp
  · rw [h] at hh
    exact (Prod.ext_iff.mp hh).1

/-! ### arithmetic: ADD / SUB / MUL (+ immediates) -/

theorem add_spec (g) (r : Regs) (a b c : Nat) (ha : 16 ≤ a) (hb : r b < 2 ^ 64) (hc : r c < 2 ^ 64) :
    execAlu g .ADD [a, b, c] r =
      if r b + r c < 2 ^ 64 ∨ Wrapping r
      then (specOk r a ((r b + r c) % 2 ^ 64) ((r b + r c) / 2 ^ 64) 0, none)
      else (r, some .ArithmeticOverflow) := by
  have h1 : u128Add (r b) (r c) = r b + r c := Nat.mod_eq_of_lt (by omega)
  simp only [execAlu, h1]
  exact aluCaptureOverflow_spec r a _ ha (by omega)

theorem addi_spec (g) (r : Regs) (a b imm : Nat) (ha : 16 ≤ a) (hb : r b < 2 ^ 64) (hc : imm < 2 ^ 12) :
    execAlu g .ADDI [a, b, imm] r =
      if r b + imm < 2 ^ 64 ∨ Wrapping r
      then (specOk r a ((r b + imm) % 2 ^ 64) ((r b + imm) / 2 ^ 64) 0, none)
      else (r, some .ArithmeticOverflow) := by
  have h1 : u128Add (r b) imm = r b + imm := Nat.mod_eq_of_lt (by omega)
  simp only [execAlu, h1]
  exact aluCaptureOverflow_spec r a _ ha (by omega)

/-- SUB: `rb ≥ rc` ⇒ difference, `$of = 0`; otherwise with WRAPPING the two's-complement difference and
`$of = 2^64 − 1` (high word of the 128-bit difference), else ArithmeticOverflow -/
theorem sub_spec (g) (r : Regs) (a b c : Nat) (ha : 16 ≤ a) (hb : r b < 2 ^ 64) (hc : r c < 2 ^ 64) :
    execAlu g .SUB [a, b, c] r =
      if r c ≤ r b then (specOk r a (r b - r c) 0 0, none)
      else if Wrapping r then (specOk r a (r b + 2 ^ 64 - r c) (2 ^ 64 - 1) 0, none)
      else (r, some .ArithmeticOverflow) := by
  simp only [execAlu]; exact sub_core r a _ _ ha hb hc

theorem subi_spec (g) (r : Regs) (a b imm : Nat) (ha : 16 ≤ a) (hb : r b < 2 ^ 64) (hc : imm < 2 ^ 12) :
    execAlu g .SUBI [a, b, imm] r =
      if imm ≤ r b then (specOk r a (r b - imm) 0 0, none)
      else if Wrapping r then (specOk r a (r b + 2 ^ 64 - imm) (2 ^ 64 - 1) 0, none)
      else (r, some .ArithmeticOverflow) := by
  simp only [execAlu]; exact sub_core r a _ _ ha hb (by omega)

theorem mul_spec (g) (r : Regs) (a b c : Nat) (ha : 16 ≤ a) (hb : r b < 2 ^ 64) (hc : r c < 2 ^ 64) :
    execAlu g .MUL [a, b, c] r =
      if r b * r c < 2 ^ 64 ∨ Wrapping r
      then (specOk r a ((r b * r c) % 2 ^ 64) ((r b * r c) / 2 ^ 64) 0, none)
      else (r, some .ArithmeticOverflow) := by
  have hm := mul_lt _ _ hb hc
  have h1 : u128Mul (r b) (r c) = r b * r c := Nat.mod_eq_of_lt hm
  simp only [execAlu, h1]
  exact aluCaptureOverflow_spec r a _ ha hm

theorem muli_spec (g) (r : Regs) (a b imm : Nat) (ha : 16 ≤ a) (hb : r b < 2 ^ 64) (hc : imm < 2 ^ 12) :
    execAlu g .MULI [a, b, imm] r =
      if r b * imm < 2 ^ 64 ∨ Wrapping r
      then (specOk r a ((r b * imm) % 2 ^ 64) ((r b * imm) / 2 ^ 64) 0, none)
      else (r, some .ArithmeticOverflow) := by
  have hm := mul_lt _ _ hb (by omega : imm < 2 ^ 64)
  have h1 : u128Mul (r b) imm = r b * imm := Nat.mod_eq_of_lt hm
  simp only [execAlu, h1]
  exact aluCaptureOverflow_spec r a _ ha hm

/-! ### DIV / MOD: zero divisor panics unless UNSAFEMATH, then `$err = 1`, result 0 -/

theorem div_spec (g) (r : Regs) (a b c : Nat) (ha : 16 ≤ a) :
    execAlu g .DIV [a, b, c] r =
      if r c = 0 then (if UnsafeMath r then (specOk r a 0 0 1, none) else (r, some .ArithmeticError))
      else (specOk r a (r b / r c) 0 0, none) := by
  simp only [execAlu]; exact div_core r a _ _ ha

theorem divi_spec (g) (r : Regs) (a b imm : Nat) (ha : 16 ≤ a) :
    execAlu g .DIVI [a, b, imm] r =
      if imm = 0 then (if UnsafeMath r then (specOk r a 0 0 1, none) else (r, some .ArithmeticError))
      else (specOk r a (r b / imm) 0 0, none) := by
  simp only [execAlu]; exact div_core r a _ _ ha

theorem mod_spec (g) (r : Regs) (a b c : Nat) (ha : 16 ≤ a) :
    execAlu g .MOD [a, b, c] r =
      if r c = 0 then (if UnsafeMath r then (specOk r a 0 0 1, none) else (r, some .ArithmeticError))
      else (specOk r a (r b % r c) 0 0, none) := by
  simp only [execAlu]; exact mod_core r a _ _ ha

theorem modi_spec (g) (r : Regs) (a b imm : Nat) (ha : 16 ≤ a) :
    execAlu g .MODI [a, b, imm] r =
      if imm = 0 then (if UnsafeMath r then (specOk r a 0 0 1, none) else (r, some .ArithmeticError))
      else (specOk r a (r b % imm) 0 0, none) := by
  simp only [execAlu]; exact mod_core r a _ _ ha

/-! ### EXP / EXPI: no overflow ⇔ `b^c < 2^64` -/

theorem exp_spec (g) (r : Regs) (a b c : Nat) (ha : 16 ≤ a) :
    execAlu g .EXP [a, b, c] r =
      if r b ^ r c < 2 ^ 64 then (specOk r a (r b ^ r c) 0 0, none)
      else if Wrapping r then (specOk r a 0 1 0, none)
      else (r, some .ArithmeticOverflow) := by
  simp only [execAlu]; exact exp_core r a _ _ ha _ (expFn_spec _ _)

theorem expi_spec (g) (r : Regs) (a b imm : Nat) (ha : 16 ≤ a) :
    execAlu g .EXPI [a, b, imm] r =
      if r b ^ imm < 2 ^ 64 then (specOk r a (r b ^ imm) 0 0, none)
      else if Wrapping r then (specOk r a 0 1 0, none)
      else (r, some .ArithmeticOverflow) := by
  simp only [execAlu]; exact exp_core r a _ _ ha _ (overflowingPow_spec _ _)

/-! ### MLOG: `c^l ≤ b < c^(l+1)`; MROO: `ρ^c ≤ b < (ρ+1)^c` -/

theorem mlog_spec (g) (r : Regs) (a b c : Nat) (ha : 16 ≤ a) (hb : r b < 2 ^ 64) :
    if r b = 0 ∨ r c ≤ 1 then
      execAlu g .MLOG [a, b, c] r = (if UnsafeMath r then (specOk r a 0 0 1, none) else (r, some .ArithmeticError))
    else ∃ l, execAlu g .MLOG [a, b, c] r = (specOk r a l 0 0, none) ∧ r c ^ l ≤ r b ∧ r b < r c ^ (l + 1) := by
  simp only [execAlu]
  rw [aluError_spec r a _ _ ha]
  by_cases h : r b = 0 ∨ r c ≤ 1
  · rw [if_pos h]
    have : (r b == 0 || decide (r c ≤ 1)) = true := by simpa using h
    rw [if_pos this]
  · rw [if_neg h]
    have : ¬ (r b == 0 || decide (r c ≤ 1)) = true := by simpa using h
    rw [if_neg this]
    obtain ⟨l, hl, h1, h2⟩ := checkedIlog_spec (r b) (r c) (by omega) hb (by omega)
    exact ⟨l, by rw [hl], h1, h2⟩

/-- MROO under the seed assumption `GuessOk` (the floating-point `powf` guess is within ±1 of the exact root);
the driver's seed `iroot` satisfies it (`guessOk_iroot`) -/
theorem mroo_spec (g) (hg : GuessOk g) (r : Regs) (a b c : Nat) (ha : 16 ≤ a) (hb : r b < 2 ^ 64) :
    if r c = 0 then
      execAlu g .MROO [a, b, c] r = (if UnsafeMath r then (specOk r a 0 0 1, none) else (r, some .ArithmeticError))
    else ∃ ρ, execAlu g .MROO [a, b, c] r = (specOk r a ρ 0 0, none) ∧ ρ ^ r c ≤ r b ∧ r b < (ρ + 1) ^ r c := by
  simp only [execAlu]
  rw [aluError_spec r a _ _ ha]
  by_cases h : r c = 0
  · rw [if_pos h]; simp [h]
  · rw [if_neg h]
    have : ¬ (r c == 0) = true := by simpa using h
    rw [if_neg this]
    obtain ⟨ρ, hρ, h1, h2⟩ := checkedNthRoot_spec g hg (r b) (r c) h hb
    exact ⟨ρ, by rw [hρ], h1, h2⟩

/-! ### MLDV: `d = 0 ↦ (b·c) >> 64`, else `b·c / d` split into low word and `$of` -/

theorem mldv_spec (g) (r : Regs) (a b c d : Nat) (ha : 16 ≤ a) (hb : r b < 2 ^ 64) (hc : r c < 2 ^ 64) (hd : r d < 2 ^ 64) :
    execAlu g .MLDV [a, b, c, d] r =
      if r d = 0 then (specOk r a (r b * r c / 2 ^ 64) 0 0, none)
      else if r b * r c / r d < 2 ^ 64 ∨ Wrapping r
        then (specOk r a (r b * r c / r d % 2 ^ 64) (r b * r c / r d / 2 ^ 64) 0, none)
        else (r, some .ArithmeticOverflow) := by
  simp only [execAlu]
  rw [aluMuldiv_spec r a _ _ _ ha]
  have hm := mul_lt _ _ hb hc
  unfold muldiv
  simp only []
  generalize r b * r c = P at *
  by_cases hz : r d = 0
  · simp only [hz, ne_eq, not_true_eq_false, if_false, true_or, if_true]
    have : P / 2 ^ 64 % 2 ^ 64 = P / 2 ^ 64 := Nat.mod_eq_of_lt (by omega)
    rw [this]
  · have hq : P / r d < 2 ^ 128 := Nat.lt_of_le_of_lt (Nat.div_le_self _ _) hm
    generalize P / r d = Q at *
    have h2 : Q / 2 ^ 64 % 2 ^ 64 = Q / 2 ^ 64 := Nat.mod_eq_of_lt (by omega)
    simp only [ne_eq, hz, not_false_eq_true, if_true, if_false, h2]
    by_cases hw : Wrapping r <;> by_cases hs : Q < 2 ^ 64
    · rw [if_pos (Or.inr hw), if_pos (Or.inl hs)]
    · rw [if_pos (Or.inr hw), if_pos (Or.inr hw)]
    · rw [if_pos (Or.inl (by omega)), if_pos (Or.inl hs)]
    · rw [if_neg (by intro h; rcases h with h | h; omega; exact hw h), if_neg (by intro h; rcases h with h | h; omega; exact hw h)]

/-! ### shifts (`≥ 64 ↦ 0`), bitwise, comparisons, moves -/

theorem sll_spec (g) (r : Regs) (a b c : Nat) (ha : 16 ≤ a) (hb : r b < 2 ^ 64) :
    execAlu g .SLL [a, b, c] r = (specOk r a (r b * 2 ^ r c % 2 ^ 64) 0 0, none) := by
  simp only [execAlu, aluSet_spec r a _ ha, shlWord_eq _ _ hb]

theorem slli_spec (g) (r : Regs) (a b imm : Nat) (ha : 16 ≤ a) (hb : r b < 2 ^ 64) :
    execAlu g .SLLI [a, b, imm] r = (specOk r a (r b * 2 ^ imm % 2 ^ 64) 0 0, none) := by
  simp only [execAlu, aluSet_spec r a _ ha, shlWord_eq _ _ hb]

theorem srl_spec (g) (r : Regs) (a b c : Nat) (ha : 16 ≤ a) (hb : r b < 2 ^ 64) :
    execAlu g .SRL [a, b, c] r = (specOk r a (r b / 2 ^ r c) 0 0, none) := by
  simp only [execAlu, aluSet_spec r a _ ha, shrWord_eq _ _ hb]

theorem srli_spec (g) (r : Regs) (a b imm : Nat) (ha : 16 ≤ a) (hb : r b < 2 ^ 64) :
    execAlu g .SRLI [a, b, imm] r = (specOk r a (r b / 2 ^ imm) 0 0, none) := by
  simp only [execAlu, aluSet_spec r a _ ha, shrWord_eq _ _ hb]

/-- AND / OR / XOR (+ immediates), NOT, MOVE, MOVI, EQ, GT, LT: the destination receives the stated value,
`$of = $err = 0`. (`&&&`, `|||`, `^^^` on `Nat` are the bitwise operations: `Nat.testBit_and/or/xor`.) -/
theorem logic_spec (g) (r : Regs) (a b c : Nat) (ha : 16 ≤ a) :
    execAlu g .AND [a, b, c] r = (specOk r a (r b &&& r c) 0 0, none) ∧
    execAlu g .ANDI [a, b, c] r = (specOk r a (r b &&& c) 0 0, none) ∧
    execAlu g .OR [a, b, c] r = (specOk r a (r b ||| r c) 0 0, none) ∧
    execAlu g .ORI [a, b, c] r = (specOk r a (r b ||| c) 0 0, none) ∧
    execAlu g .XOR [a, b, c] r = (specOk r a (r b ^^^ r c) 0 0, none) ∧
    execAlu g .XORI [a, b, c] r = (specOk r a (r b ^^^ c) 0 0, none) ∧
    execAlu g .NOT [a, b] r = (specOk r a (2 ^ 64 - 1 - r b) 0 0, none) ∧
    execAlu g .MOVE [a, b] r = (specOk r a (r b) 0 0, none) ∧
    execAlu g .MOVI [a, b] r = (specOk r a b 0 0, none) ∧
    execAlu g .EQ [a, b, c] r = (specOk r a (if r b = r c then 1 else 0) 0 0, none) ∧
    execAlu g .GT [a, b, c] r = (specOk r a (if r b > r c then 1 else 0) 0 0, none) ∧
    execAlu g .LT [a, b, c] r = (specOk r a (if r b < r c then 1 else 0) 0 0, none) := by
  simp only [execAlu, aluSet_spec r a _ ha, u64Max, boolWord, beq_iff_eq, decide_eq_true_eq, and_self]

/-- the bitwise results stay 64-bit words and the NOT result is the bit complement -/
theorem logic_range (x y : Nat) (hx : x < 2 ^ 64) (hy : y < 2 ^ 64) :
    x &&& y < 2 ^ 64 ∧ x ||| y < 2 ^ 64 ∧ x ^^^ y < 2 ^ 64 ∧
    ∀ i, i < 64 → (2 ^ 64 - 1 - x).testBit i = !x.testBit i := by
  refine ⟨Nat.and_lt_two_pow _ hy, Nat.or_lt_two_pow hx hy, Nat.xor_lt_two_pow hx hy, ?_⟩
  intro i hi
  have : 2 ^ 64 - 1 - x = 2 ^ 64 - (x + 1) := by omega
  rw [this, Nat.testBit_two_pow_sub_succ hx]
  simp [hi]

/-! ### NIOP: narrow-integer operations on the low 8/16/32 bits (upper operand bits are discarded) -/

/-- NIOP with a valid immediate `(op, w)`: operands truncated to the width, overflow ⇒ panic unless WRAPPING -/
theorem niop_spec (g) (r : Regs) (a b c imm : Nat) (op : NarrowOp) (w : Width) (ha : 16 ≤ a)
    (himm : narrowFromImm imm = some (op, w)) :
    execAlu g .NIOP [a, b, c, imm] r =
      let res := narrowCompute op w (r b % 2 ^ w.bits) (r c % 2 ^ w.bits)
      if res.2 = 0 ∨ Wrapping r then (specOk r a res.1 res.2 0, none)
      else (r, some .ArithmeticOverflow) := by
  simp only [execAlu, himm]
  exact aluNarrowintOp_spec r a _ _ op w ha

theorem niop_invalid_imm (g) (r : Regs) (a b c imm : Nat) (himm : narrowFromImm imm = none) :
    execAlu g .NIOP [a, b, c, imm] r = (r, some .InvalidImmediateValue) := by
  simp only [execAlu, himm]

/-- the arithmetic meaning of each narrow operation on operands already reduced to `k = w.bits` bits:
(result, `$of`) -/
theorem narrow_add_spec (w : Width) (l r : Nat) :
    narrowCompute .add w l r = ((l + r) % 2 ^ w.bits, (l + r) / 2 ^ w.bits) := rfl

theorem narrow_mul_spec (w : Width) (l r : Nat) :
    narrowCompute .mul w l r = ((l * r) % 2 ^ w.bits, (l * r) / 2 ^ w.bits) := rfl

theorem narrow_sub_spec (w : Width) (l r : Nat) (hl : l < 2 ^ w.bits) (hr : r < 2 ^ w.bits) :
    narrowCompute .sub w l r = if r ≤ l then (l - r, 0) else (l + 2 ^ w.bits - r, 2 ^ 64 - 1) := by
  simp only [narrowCompute, truncate, splitOverflow, u64Max]
  cases w <;> simp only [Width.bits] at * <;> by_cases h : r ≤ l
  all_goals first
    | (have h' : ¬ l < r := by omega
       simp only [if_pos h, if_neg h', Prod.mk.injEq, and_true]; omega)
    | (have h' : l < r := by omega
       simp only [if_neg h, if_pos h', Prod.mk.injEq, and_true]; omega)

theorem narrow_exp_spec (w : Width) (l r : Nat) (hr : r < 2 ^ 32) :
    narrowCompute .exp w l r = if l ^ r < 2 ^ w.bits then (l ^ r, 0) else (0, 1) := by
  have hk : 2 ^ w.bits ≤ 2 ^ 64 := Nat.pow_le_pow_right (by decide) (by cases w <;> decide)
  simp only [narrowCompute, Nat.mod_eq_of_lt hr, checkedPow_spec, splitOverflow]
  by_cases h64 : l ^ r < 2 ^ 64
  · rw [if_pos h64]
    by_cases hk2 : l ^ r < 2 ^ w.bits
    · simp [hk2, Nat.mod_eq_of_lt hk2, Nat.div_eq_of_lt hk2]
    · have : l ^ r / 2 ^ w.bits ≠ 0 := by
        intro h0
        have := (Nat.div_eq_zero_iff.mp h0)
        rcases this with h | h
        · have : 0 < 2 ^ w.bits := Nat.two_pow_pos _
          omega
        · exact hk2 h
      simp [hk2, this]
  · rw [if_neg h64, if_neg (by omega)]

theorem narrow_sll_spec (w : Width) (l r : Nat) (hl : l < 2 ^ w.bits) (hr : r < 2 ^ 32) :
    narrowCompute .sll w l r = (l * 2 ^ r % 2 ^ w.bits, 0) := by
  have hwb : w.bits ≤ 32 := by cases w <;> decide
  simp only [narrowCompute, Nat.mod_eq_of_lt hr, truncate, splitOverflow, Prod.mk.injEq, and_true]
  have hdvd : ∀ x, x % 2 ^ 64 % 2 ^ w.bits = x % 2 ^ w.bits := by
    intro x
    exact Nat.mod_mod_of_dvd x (Nat.pow_dvd_pow 2 (by omega))
  by_cases h : r < 64
  · rw [if_pos h, Nat.shiftLeft_eq, hdvd]
  · rw [if_neg h]
    have : r = w.bits + (r - w.bits) := by omega
    rw [this, Nat.pow_add, ← Nat.mul_assoc, Nat.mul_comm l, Nat.mul_assoc, Nat.mul_mod_right]
    simp

/-- XNOR: bit `i < k` of the result is set iff the operands agree on bit `i`; the result fits `k` bits -/
theorem narrow_xnor_spec (w : Width) (l r : Nat) (hr : r < 2 ^ 64) :
    (narrowCompute .xnor w l r).2 = 0 ∧ (narrowCompute .xnor w l r).1 < 2 ^ w.bits ∧
    ∀ i, i < w.bits → (narrowCompute .xnor w l r).1.testBit i = (l.testBit i == r.testBit i) := by
  have hwb : w.bits ≤ 32 := by cases w <;> decide
  simp only [narrowCompute, truncate, splitOverflow, u64Max]
  refine ⟨trivial, Nat.mod_lt _ (Nat.two_pow_pos _), ?_⟩
  intro i hi
  have : 2 ^ 64 - 1 - r = 2 ^ 64 - (r + 1) := by omega
  rw [Nat.testBit_mod_two_pow, this, Nat.testBit_xor, Nat.testBit_two_pow_sub_succ hr]
  have hi64 : i < 64 := by omega
  simp [hi, hi64]
  cases l.testBit i <;> cases r.testBit i <;> rfl

/-! ### no host panic: every `expect`/operator panic of the ALU code is unreachable -/

theorem no_host_panic (g) (hg : GuessOk g) (op : AluOp) (args : List Nat) (r : Regs)
    (hlen : args.length = op.shape.length) (hwf : ∀ i, r i < 2 ^ 64) :
    (execAlu g op args r).2 ≠ some .HostPanic := by
  cases op <;> simp only [AluOp.shape, List.length_cons, List.length_nil] at hlen
  case NOOP => rw [len0 hlen]; simp [execAlu, aluClear]
  case DIV | DIVI =>
    obtain ⟨a, b, c, rfl⟩ := len3 hlen
    simp only [execAlu]
    rcases writeRegKey_cases a with ⟨ha, _⟩ | ⟨ha, hk⟩
    · rw [div_core r a _ _ ha]; split <;> (try split) <;> simp
    · simp [aluError, hk]
  case MOD | MODI =>
    obtain ⟨a, b, c, rfl⟩ := len3 hlen
    simp only [execAlu]
    rcases writeRegKey_cases a with ⟨ha, _⟩ | ⟨ha, hk⟩
    · rw [mod_core r a _ _ ha]; split <;> (try split) <;> simp
    · simp [aluError, hk]
  case MLOG =>
    obtain ⟨a, b, c, rfl⟩ := len3 hlen
    rcases writeRegKey_cases a with ⟨ha, _⟩ | ⟨ha, hk⟩
    · have := mlog_spec g r a b c ha (hwf b)
      split at this
      · rw [this]; split <;> simp
      · obtain ⟨l, hl, _⟩ := this; rw [hl]; simp
    · simp [execAlu, aluError, hk]
  case MROO =>
    obtain ⟨a, b, c, rfl⟩ := len3 hlen
    rcases writeRegKey_cases a with ⟨ha, _⟩ | ⟨ha, hk⟩
    · have := mroo_spec g hg r a b c ha (hwf b)
      split at this
      · rw [this]; split <;> simp
      · obtain ⟨l, hl, _⟩ := this; rw [hl]; simp
    · simp [execAlu, aluError, hk]
  case NIOP =>
    obtain ⟨a, b, c, d, rfl⟩ := len4 hlen
    simp only [execAlu]
    cases hn : narrowFromImm d with
    | none => simp
    | some q =>
      rcases writeRegKey_cases a with ⟨ha, _⟩ | ⟨ha, hk⟩
      · simp only [aluNarrowintOp_spec _ _ _ _ _ _ ha]; split <;> simp
      · simp [aluNarrowintOp, hk]
  case MLDV =>
    obtain ⟨a, b, c, d, rfl⟩ := len4 hlen
    simp only [execAlu]
    rcases writeRegKey_cases a with ⟨ha, _⟩ | ⟨ha, hk⟩
    · rw [aluMuldiv_spec _ _ _ _ _ ha]; split <;> simp
    · simp [aluMuldiv, hk]
  case EXP | EXPI =>
    obtain ⟨a, b, c, rfl⟩ := len3 hlen
    simp only [execAlu]
    rcases writeRegKey_cases a with ⟨ha, _⟩ | ⟨ha, hk⟩
    · rw [aluBooleanOverflow_spec _ _ _ ha]; split <;> (try split) <;> simp
    · simp [aluBooleanOverflow, hk]
  case ADD | ADDI | SUB | SUBI | MUL | MULI =>
    obtain ⟨a, b, c, rfl⟩ := len3 hlen
    simp only [execAlu]
    rcases writeRegKey_cases a with ⟨ha, _⟩ | ⟨ha, hk⟩
    · rw [aluCaptureOverflow_spec _ _ _ ha (by first | (unfold u128Add; exact Nat.mod_lt _ (by decide)) | (unfold u128Sub; exact Nat.mod_lt _ (by decide)) | (unfold u128Mul; exact Nat.mod_lt _ (by decide)))]
      split <;> simp
    · simp [aluCaptureOverflow, hk]
  case MOVE | NOT | MOVI =>
    obtain ⟨a, b, rfl⟩ := len2 hlen
    simp only [execAlu]
    rcases writeRegKey_cases a with ⟨ha, _⟩ | ⟨ha, hk⟩
    · rw [aluSet_spec _ _ _ ha]; simp
    · simp [aluSet, hk]
  all_goals
    obtain ⟨a, b, c, rfl⟩ := len3 hlen
    simp only [execAlu]
    rcases writeRegKey_cases a with ⟨ha, _⟩ | ⟨ha, hk⟩
    · rw [aluSet_spec _ _ _ ha]; simp
    · simp [aluSet, hk]

/-! ### non-vacuity: concrete register files meeting the hypotheses, evaluated through the model -/

def exRegs : Regs := fun i => if i = 17 then 2 ^ 64 - 1 else if i = 18 then 2 else if i = 3 then 400 else if i = 15 then 2 else 0

example : (execAlu iroot .ADD [16, 17, 18] exRegs).2 = none := by decide
example : (execAlu iroot .ADD [16, 17, 18] exRegs).1 16 = 1 ∧ (execAlu iroot .ADD [16, 17, 18] exRegs).1 regOF = 1 ∧
    (execAlu iroot .ADD [16, 17, 18] exRegs).1 regPC = 404 := by decide
example : (execAlu iroot .ADD [16, 17, 18] (exRegs.set 15 0)).2 = some .ArithmeticOverflow := by decide
example : (execAlu iroot .ADD [5, 17, 18] exRegs).2 = some .ReservedRegisterNotWritable := by decide
example : (execAlu iroot .MROO [16, 17, 18] exRegs).1 16 = 4294967295 := by decide
example : (execAlu iroot .MLOG [16, 17, 18] exRegs).1 16 = 63 := by decide
example : (execAlu iroot .NIOP [16, 17, 18, 0x02] exRegs).1 16 = 254 ∧ (execAlu iroot .NIOP [16, 17, 18, 0x02] exRegs).1 regOF = 1 := by decide
example : GuessOk iroot := guessOk_iroot
example : (16 :: [17, 18]).length = AluOp.ADD.shape.length := rfl

end FuelVerif.Alu
