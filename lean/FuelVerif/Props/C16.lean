/-
C16 — The two secp256k1 backends agree on every signature.

  "For every 64-byte compact signature and 32-byte message, public-key recovery and signature
   verification give the same result (same key, or failure) whether the crate is built with the
   standard-library backend or with the portable no-std backend, and the same holds for signing.
   Nodes built with different feature sets therefore reach the same verdict on transaction
   signatures and on the secp256k1 recovery instruction."

`secpRecover/secpVerify/secpSign` transcribe `backend/k1/secp256k1.rs` (libsecp256k1 acceptance rules),
`k256Recover/k256Verify/k256Sign` transcribe `backend/k1/k256.rs` (RustCrypto acceptance rules) as it
is WITH `repo-patches/fix-C16-k256-recover-high-s.diff`; `k256RecoverPre` is the wrapper before that
fix.  The curve is a parameter `E` with the group laws `CurveLaws E` as hypothesis.
-/
import FuelVerif.Lemmas.EcdsaWrappers
import FuelVerif.Lemmas.ToyCurve
namespace FuelVerif.Ecdsa
open FuelVerif

variable {E : Curve} [AddCommGroup E.Pt] [Module (ZMod E.n) E.Pt]

/-- `s` (after the recovery bit has been removed) lies in the upper half of the group order -/
def highS (E : Curve) (sig : Bytes) : Prop := isHigh E.n (sigS (decodeSignature sig).1) = true

instance (E : Curve) (sig : Bytes) : Decidable (highS E sig) := by unfold highS; infer_instance

/-- both halves are valid scalars: `0 < r < n`, `0 < s < n` -/
def scalarsOk (E : Curve) (sig : Bytes) : Prop :=
  let sig' := (decodeSignature sig).1
  (sigR sig' ≠ 0 ∧ sigR sig' < E.n) ∧ (sigS sig' ≠ 0 ∧ sigS sig' < E.n)

instance (E : Curve) (sig : Bytes) : Decidable (scalarsOk E sig) := by unfold scalarsOk; infer_instance

/-- the full statement of the recovery part of C16 for a pair of wrappers -/
def BackendsAgree (k256 secp : Bytes → Bytes → Except Error Bytes) : Prop :=
  ∀ sig msg : Bytes, k256 sig msg = secp sig msg

/-- **recovery**: on every signature and message (any length, any bytes) the two backends return
the same key or both fail (with the same error) — for the k256 wrapper that normalises high `s`. -/
theorem recover_agree (L : CurveLaws E) : BackendsAgree (k256Recover E) (secpRecover E) := by
  intro sig msg
  unfold k256Recover secpRecover rcParse scParse
  simp only
  by_cases hrange : sigR (decodeSignature sig).1 < E.n ∧ sigS (decodeSignature sig).1 < E.n
  · rw [if_pos hrange, if_pos hrange]
    by_cases hz : sigR (decodeSignature sig).1 = 0 ∨ sigS (decodeSignature sig).1 = 0
    · rw [if_pos hz]
      simp only [scSigRecover, if_pos hz]
    · rw [if_neg hz]
      have hr0 : sigR (decodeSignature sig).1 ≠ 0 := fun h => hz (Or.inl h)
      have hs0 : sigS (decodeSignature sig).1 ≠ 0 := fun h => hz (Or.inr h)
      simp only [normalizeS]
      by_cases hh : isHigh E.n (sigS (decodeSignature sig).1) = true
      · rw [if_pos hh]
        simp only
        rw [L.rcRecover_eq true _ _ _ _ hr0 hrange.1 (negN_ne_zero hs0 hrange.2) (negN_lt L.n_pos),
            negN_not_high L.n_odd hrange.2 hh, L.scSigRecover_neg _ _ _ _ hr0 hrange.1 hs0 hrange.2]
        simp
      · rw [if_neg hh]
        simp only
        rw [L.rcRecover_eq true _ _ _ _ hr0 hrange.1 hs0 hrange.2]
        simp [hh]
  · rw [if_neg hrange, if_neg hrange]

/-- the wrapper before the fix: agrees with the std backend except that every high-`s` signature is rejected -/
theorem recover_pre_eq (L : CurveLaws E) (sig msg : Bytes) :
    k256RecoverPre E sig msg =
      if scalarsOk E sig ∧ highS E sig then .error .InvalidSignature else secpRecover E sig msg := by
  by_cases hc : scalarsOk E sig ∧ highS E sig
  · rw [if_pos hc]
    obtain ⟨⟨⟨hr0, hr⟩, ⟨hs0, hs⟩⟩, hh⟩ := hc
    unfold k256RecoverPre rcParse
    simp only
    rw [if_pos ⟨hr, hs⟩, if_neg (by simp [hr0, hs0])]
    simp only
    rw [L.rcRecover_eq true _ _ _ _ hr0 hr hs0 hs]
    simp [show isHigh E.n (sigS (decodeSignature sig).1) = true from hh]
  · rw [if_neg hc]
    unfold k256RecoverPre secpRecover rcParse scParse
    simp only
    by_cases hrange : sigR (decodeSignature sig).1 < E.n ∧ sigS (decodeSignature sig).1 < E.n
    · rw [if_pos hrange, if_pos hrange]
      by_cases hz : sigR (decodeSignature sig).1 = 0 ∨ sigS (decodeSignature sig).1 = 0
      · rw [if_pos hz]
        simp only [scSigRecover, if_pos hz]
      · rw [if_neg hz]
        have hr0 : sigR (decodeSignature sig).1 ≠ 0 := fun h => hz (Or.inl h)
        have hs0 : sigS (decodeSignature sig).1 ≠ 0 := fun h => hz (Or.inr h)
        have hh : ¬ isHigh E.n (sigS (decodeSignature sig).1) = true :=
          fun h => hc ⟨⟨⟨hr0, hrange.1⟩, ⟨hs0, hrange.2⟩⟩, h⟩
        simp only
        rw [L.rcRecover_eq true _ _ _ _ hr0 hrange.1 hs0 hrange.2]
        simp [hh]
    · rw [if_neg hrange, if_neg hrange]

/-- DESIGN name: before the fix the backends agree on every input that is not high-`s` -/
theorem backends_agree_iff (L : CurveLaws E) (sig msg : Bytes) :
    k256RecoverPre E sig msg = secpRecover E sig msg ∨ highS E sig := by
  rw [recover_pre_eq L]
  by_cases h : scalarsOk E sig ∧ highS E sig
  · exact Or.inr h.2
  · rw [if_neg h]; exact Or.inl rfl

/-- F6: whenever the std backend recovers a key from a high-`s` signature, the unfixed no-std backend
fails — so `BackendsAgree (k256RecoverPre E) (secpRecover E)` is false as soon as one such signature exists -/
theorem pre_disagrees_on_high_s (L : CurveLaws E) (sig msg pk : Bytes)
    (hok : secpRecover E sig msg = .ok pk) (hs : scalarsOk E sig) (hh : highS E sig) :
    k256RecoverPre E sig msg = .error .InvalidSignature ∧ k256RecoverPre E sig msg ≠ secpRecover E sig msg := by
  have h := recover_pre_eq L sig msg
  rw [if_pos ⟨hs, hh⟩] at h
  exact ⟨h, by rw [h, hok]; simp⟩

/-- **verification**: the two backends return the same result, except that when BOTH the signature
scalars and the public key are unparsable they name different errors (k256 parses the key first, the
std backend the signature first) — the verdict (accept / reject) is the same on every input. -/
theorem verify_same_or_both_fail (L : CurveLaws E) (sig pk msg : Bytes) :
    k256Verify E sig pk msg = secpVerify E sig pk msg ∨
      (k256Verify E sig pk msg = .error .InvalidPublicKey ∧ secpVerify E sig pk msg = .error .InvalidSignature) := by
  unfold k256Verify secpVerify rcParse scParse
  simp only
  by_cases hrange : sigR (decodeSignature sig).1 < E.n ∧ sigS (decodeSignature sig).1 < E.n
  · rw [if_pos hrange, if_pos hrange]
    left
    cases hq : E.ofXY (beNat (pk.take 32)) (beNat ((pk.drop 32).take 32)) with
    | none => rfl
    | some Q =>
      simp only
      by_cases hz : sigR (decodeSignature sig).1 = 0 ∨ sigS (decodeSignature sig).1 = 0
      · rw [if_pos hz]
        simp [scVerify, scSigVerify, hz]
      · rw [if_neg hz]
        have hr0 : sigR (decodeSignature sig).1 ≠ 0 := fun h => hz (Or.inl h)
        have hs0 : sigS (decodeSignature sig).1 ≠ 0 := fun h => hz (Or.inr h)
        simp only
        rw [L.rcVerify_eq_scVerify Q _ _ _ hr0 hrange.1 hs0]
  · rw [if_neg hrange, if_neg hrange]
    cases hq : E.ofXY (beNat (pk.take 32)) (beNat ((pk.drop 32).take 32)) with
    | none => right; exact ⟨rfl, rfl⟩
    | some Q => left; rfl

/-- same verdict on every signature, key and message -/
theorem verify_agree (L : CurveLaws E) (sig pk msg : Bytes) :
    (k256Verify E sig pk msg).toOption = (secpVerify E sig pk msg).toOption := by
  rcases verify_same_or_both_fail L sig pk msg with h | ⟨h1, h2⟩
  · rw [h]
  · rw [h1, h2]; rfl

/-- **signing**: for the same nonce `k` (both libraries derive it by RFC 6979 from the key and the
message reduced mod n — for k256 that reduction is `fix-C16-k256-sign-reduce-message`) the two wrappers
produce the same 64 bytes: same `r`, same normalised `s`, and the recovery bit that the k256 wrapper finds
by trial recovery is the one libsecp256k1 computes from the parity of `R.y` and the normalisation.
Hypothesis `hx`: the x-coordinate of `k·G` is below `n` (otherwise both wrappers panic:
"reduced-x recovery ids are never generated" / "Invalid signature generated"; probability ≈ 2⁻¹²⁸). -/
theorem sign_agree (L : CurveLaws E) (d k : Nat) (msg : Bytes)
    (hk0 : k ≠ 0) (hk : k < E.n) (hd0 : d ≠ 0) (hd : d < E.n)
    (hx : (E.toXY (E.mulG k)).1 < E.n) :
    k256Sign E d k msg = secpSign E d k msg := by
  unfold k256Sign secpSign k256SignPrim
  rw [if_neg hk0]
  simp only
  generalize msgScalar E.n msg = z
  rw [L.rcSignPrehashed_eq d k _ hk0 hk hx, CurveLaws.scSigSign_eq d k _ hx]
  by_cases hr0 : (E.toXY (E.mulG k)).1 = 0
  · simp [hr0]
  · by_cases hs0 : sVal E.n d k z (E.toXY (E.mulG k)).1 = 0
    · have : sNorm E.n (sVal E.n d k z (E.toXY (E.mulG k)).1) = 0 := by
        rw [hs0]; unfold sNorm isHigh; simp
      rw [if_pos (Or.inr hs0), if_pos (Or.inr this)]
    · have hs'0 := sNorm_ne_zero hs0 (L.sVal_lt d k z (E.toXY (E.mulG k)).1)
      rw [if_neg (by simp [hr0, hs0]), if_neg (by simp [hr0, hs'0])]
      have hn : (normalizeS E (sVal E.n d k z (E.toXY (E.mulG k)).1)).getD (sVal E.n d k z (E.toXY (E.mulG k)).1)
          = sNorm E.n (sVal E.n d k z (E.toXY (E.mulG k)).1) := by
        unfold normalizeS sNorm; split <;> rfl
      simp only [hn, L.findRecid_sign true d k z hk0 hk hd0 hd hx hr0 hs0]
      cases (yOdd E (E.mulG k) ^^ isHigh E.n (sVal E.n d k z (E.toXY (E.mulG k)).1)) <;> simp

/-- **signing, all cases**: for every key and nonce in range the two wrappers either produce the same 64 bytes
or both panic -/
theorem sign_agree_all (L : CurveLaws E) (d k : Nat) (msg : Bytes)
    (hk0 : k ≠ 0) (hk : k < E.n) (hd0 : d ≠ 0) (hd : d < E.n) :
    (k256Sign E d k msg).toOption = (secpSign E d k msg).toOption := by
  by_cases hx : (E.toXY (E.mulG k)).1 < E.n
  · rw [sign_agree L d k msg hk0 hk hd0 hd hx]
  · obtain ⟨e, he⟩ := L.k256Sign_reduced d k msg hk0 hk (Nat.le_of_not_lt hx)
    rw [he]
    cases hs : secpSign E d k msg with
    | error e' => rfl
    | ok sig => exact absurd (CurveLaws.secpSign_ok d k msg sig hk0 hs).hx hx

/-- **signing, deterministic form**: with the RFC 6979 nonce both wrappers derive (hash function `H` arbitrary;
key bytes and the message reduced mod n — what libsecp256k1 does and what the k256 wrapper does after
`fix-C16-k256-sign-reduce-message`), `k256::sign` and `secp256k1::sign` return the same bytes or both panic,
for every key `0 < d < n` and every message. -/
theorem signDet_agree (L : CurveLaws E) (H : Bytes → Bytes) (d : Nat) (msg : Bytes) (hd0 : d ≠ 0) (hd : d < E.n) :
    (k256SignDet E H d msg).toOption = (secpSignDet E H d msg).toOption := by
  unfold k256SignDet secpSignDet
  cases hk : nonceReduced E H d msg with
  | none => rfl
  | some k =>
    obtain ⟨hk0, hklt⟩ := Rfc6979.generateK_range H E.n _ _ k hk
    exact sign_agree_all L d k msg hk0 hklt hd0 hd

/-! ### non-vacuity: the lawful toy curve `y² = x³ + 7` over F₄₃ (order 31), concrete inputs -/
section Examples
open FuelVerif.Ecdsa.Toy

/-- `.ok` / `.error` as a Boolean, so that concrete runs can be checked by evaluation -/
def isOk {ε α : Type} : Except ε α → Bool
  | .ok _ => true
  | .error _ => false

/-- `r = 2 = x(G)`, `s = 20 > 31/2`, recovery bit 0 -/
def exSigHigh : Bytes := compact 2 20
/-- `r = 2`, `s = 11 ≤ 31/2` -/
def exSigLow : Bytes := compact 2 11
def exMsg : Bytes := natBE 32 5

-- the hypotheses of every theorem above are satisfiable
example : CurveLaws toy := toy_laws
-- F6 in miniature: a high-s signature in scalar range that the std backend recovers and the unfixed k256 wrapper rejects
example : highS toy exSigHigh ∧ scalarsOk toy exSigHigh := by decide +kernel
example : isOk (secpRecover toy exSigHigh exMsg) = true := by decide +kernel
example : isOk (k256RecoverPre toy exSigHigh exMsg) = false := by decide +kernel
example : ¬ BackendsAgree (k256RecoverPre toy) (secpRecover toy) := by
  intro h
  have := congrArg isOk (h exSigHigh exMsg)
  revert this
  decide +kernel
-- with the fix they agree (instance of `recover_agree`), on a key that is really recovered
example : k256Recover toy exSigHigh exMsg = secpRecover toy exSigHigh exMsg := recover_agree toy_laws _ _
example : isOk (k256Recover toy exSigHigh exMsg) = true := by decide +kernel
-- low-s: all three wrappers recover
example : isOk (k256RecoverPre toy exSigLow exMsg) = true ∧ isOk (secpRecover toy exSigLow exMsg) = true := by
  decide +kernel
-- verification: a recovered key verifies the low-s signature on both backends; the error variants differ
-- only when both parts are unparsable
example : isOk (secpVerify toy exSigLow (publicKey toy 7) exMsg) = isOk (k256Verify toy exSigLow (publicKey toy 7) exMsg) :=
  by decide +kernel
example : k256Verify toy (compact 31 31) (compact 99 99) exMsg = .error .InvalidPublicKey ∧
    secpVerify toy (compact 31 31) (compact 99 99) exMsg = .error .InvalidSignature := by
  constructor <;> decide +kernel
-- signing: key 7, nonce 2 (x(2G) = 7 < 31): both wrappers produce a signature, the same one
example : isOk (secpSign toy 7 2 exMsg) = true ∧ isOk (k256Sign toy 7 2 exMsg) = true := by decide +kernel
example : k256Sign toy 7 2 exMsg = secpSign toy 7 2 exMsg :=
  sign_agree toy_laws 7 2 exMsg (by decide) (by decide) (by decide) (by decide) (by decide +kernel)
-- nonce 3: x(3G) = 35 ≥ 31, the reduced-x case in which both wrappers panic (excluded by `hx`)
example : secpSign toy 7 3 exMsg = .error .ReducedX := by decide +kernel
example : isOk (k256Sign toy 7 3 exMsg) = false := by decide +kernel
example : (k256Sign toy 7 3 exMsg).toOption = (secpSign toy 7 3 exMsg).toOption :=
  sign_agree_all toy_laws 7 3 exMsg (by decide) (by decide) (by decide) (by decide)

end Examples

end FuelVerif.Ecdsa
